package polygon

import (
	"testing"
	"time"

	"github.com/polynetwork/poly/common"
	"github.com/polynetwork/poly/core/types"
	scom "github.com/polynetwork/poly/native/service/header_sync/common"
	polygonTypes "github.com/polynetwork/poly/native/service/header_sync/polygon/types"
	"github.com/polynetwork/poly/native/service/header_sync/polygon/types/secp256k1"
	"github.com/tendermint/tendermint/crypto/tmhash"
)

// Demonstration for D30b: the Heimdall light client (VerifyCosmosHeader) picks the
// validator by the index recorded INSIDE each precommit and never remembers which
// validators were already tallied, so one validator's single genuine precommit copied
// into every slot of the commit is counted once per slot.

const d30bChainID = "heimdall-d30b"

type d30bFixture struct {
	privs  []secp256k1.PrivKeySecp256k1 // in validator-set order
	vals   []*polygonTypes.Validator    // in validator-set order
	valset *polygonTypes.ValidatorSet
}

// four validators, 10 voting power each (total 40, quorum needs > 26)
func d30bNewFixture() *d30bFixture {
	byAddr := map[string]secp256k1.PrivKeySecp256k1{}
	var vals []*polygonTypes.Validator
	for i := 0; i < 4; i++ {
		priv := secp256k1.GenPrivKeySecp256k1([]byte{'d', '3', '0', 'b', byte(i)})
		v := polygonTypes.NewValidator(priv.PubKey(), 10)
		byAddr[string(v.Address)] = priv
		vals = append(vals, v)
	}
	valset := polygonTypes.NewValidatorSet(vals)
	f := &d30bFixture{valset: valset}
	for i := 0; i < valset.Size(); i++ {
		_, v := valset.GetByIndex(i)
		f.vals = append(f.vals, v)
		f.privs = append(f.privs, byAddr[string(v.Address)])
	}
	return f
}

// a header at the given height that claims to be produced by the fixture's validator set
func (f *d30bFixture) header(height int64, appHash string) polygonTypes.Header {
	return polygonTypes.Header{
		ChainID:            d30bChainID,
		Height:             height,
		Time:               time.Unix(1600000000+height, 0).UTC(),
		ValidatorsHash:     f.valset.Hash(),
		NextValidatorsHash: tmhash.Sum([]byte("attacker chosen next validator set")),
		AppHash:            tmhash.Sum([]byte(appHash)),
		ProposerAddress:    f.vals[0].Address,
	}
}

// the genuine precommit of validator `signer` for block `blockID`, as that validator
// would broadcast it (recorded index / address are its own)
func (f *d30bFixture) precommit(t *testing.T, signer int, height int64, blockID polygonTypes.BlockID) *polygonTypes.CommitSig {
	vote := &polygonTypes.Vote{
		Type:             polygonTypes.PrecommitType,
		Height:           height,
		Round:            0,
		BlockID:          blockID,
		Timestamp:        time.Unix(1600000100+height, 0).UTC(),
		ValidatorAddress: f.vals[signer].Address,
		ValidatorIndex:   signer,
	}
	sig, err := f.privs[signer].Sign(vote.SignBytes(d30bChainID))
	if err != nil {
		t.Fatal(err)
	}
	vote.Signature = sig
	cs := polygonTypes.CommitSig(*vote)
	return &cs
}

func d30bBlockID(h *polygonTypes.Header) polygonTypes.BlockID {
	return polygonTypes.BlockID{
		Hash:        h.Hash(),
		PartsHeader: polygonTypes.PartSetHeader{Total: 1, Hash: tmhash.Sum([]byte("parts"))},
	}
}

func (f *d30bFixture) info() *CosmosEpochSwitchInfo {
	return &CosmosEpochSwitchInfo{
		Height:             100,
		NextValidatorsHash: f.valset.Hash(),
		ChainID:            d30bChainID,
		BlockHash:          tmhash.Sum([]byte("trusted block")),
	}
}

// Control: a commit in which three of the four validators (30 of 40 power) each sign in
// their own slot is a valid quorum and must be accepted (before and after the fix).
func TestD30b_Control_HonestQuorumAccepted(t *testing.T) {
	f := d30bNewFixture()
	hdr := f.header(101, "honest")
	bid := d30bBlockID(&hdr)
	commit := &polygonTypes.Commit{BlockID: bid, Precommits: []*polygonTypes.CommitSig{
		f.precommit(t, 0, 101, bid), nil, f.precommit(t, 2, 101, bid), f.precommit(t, 3, 101, bid),
	}}
	if err := VerifyCosmosHeader(&CosmosHeader{Header: hdr, Commit: commit, Valsets: f.vals}, f.info()); err != nil {
		t.Fatalf("honest 3-of-4 commit rejected: %v", err)
	}
}

// Control: the single precommit of one validator placed in its own slot (10 of 40 power)
// is not a quorum and is rejected (before and after the fix).
func TestD30b_Control_SingleVoteRejected(t *testing.T) {
	f := d30bNewFixture()
	hdr := f.header(101, "forged")
	bid := d30bBlockID(&hdr)
	const j = 1
	pcs := make([]*polygonTypes.CommitSig, 4)
	pcs[j] = f.precommit(t, j, 101, bid)
	commit := &polygonTypes.Commit{BlockID: bid, Precommits: pcs}
	if err := VerifyCosmosHeader(&CosmosHeader{Header: hdr, Commit: commit, Valsets: f.vals}, f.info()); err == nil {
		t.Fatalf("a single validator holding 1/4 of the power got a header accepted")
	}
}

// DEFECT: the very same single precommit, copied into all four slots, must still be
// worth only 10 of 40 power and the forged header must be rejected.
func TestD30b_DuplicatedPrecommitMustNotReachQuorum(t *testing.T) {
	f := d30bNewFixture()
	hdr := f.header(101, "forged")
	bid := d30bBlockID(&hdr)
	const j = 1
	one := f.precommit(t, j, 101, bid)
	pcs := make([]*polygonTypes.CommitSig, 4)
	for i := range pcs {
		cp := *one // identical copy, ValidatorIndex == j in every slot
		pcs[i] = &cp
	}
	commit := &polygonTypes.Commit{BlockID: bid, Precommits: pcs}
	err := VerifyCosmosHeader(&CosmosHeader{Header: hdr, Commit: commit, Valsets: f.vals}, f.info())
	if err == nil {
		t.Fatalf("DEFECT: forged header accepted with ONE validator's precommit (10/40 power) " +
			"copied into all 4 commit slots; its power was tallied 4 times")
	}
	t.Logf("rejected as expected: %v", err)
}

// DEFECT, end to end through the native contract entry points: after a genesis header
// that tracks the 4-validator set, SyncBlockHeader must refuse the forged header and must
// not move the tracked epoch info to the attacker's height / next-validators hash.
func TestD30b_SyncBlockHeader_DuplicatedPrecommit(t *testing.T) {
	f := d30bNewFixture()
	cdc := polygonTypes.NewCDC()
	handler := NewHeimdallHandler()
	tx := &types.Transaction{SignedAddr: []common.Address{acct.Address}}

	// genesis: a trusted header at height 100 whose NextValidatorsHash is the fixture set
	gen := polygonTypes.Header{
		ChainID:            d30bChainID,
		Height:             100,
		Time:               time.Unix(1600000000, 0).UTC(),
		ValidatorsHash:     f.valset.Hash(),
		NextValidatorsHash: f.valset.Hash(),
	}
	genBytes, err := cdc.MarshalBinaryBare(CosmosHeader{Header: gen, Commit: &polygonTypes.Commit{}, Valsets: f.vals})
	if err != nil {
		t.Fatal(err)
	}
	gp := &scom.SyncGenesisHeaderParam{ChainID: heimdalChainID, GenesisHeader: genBytes}
	sink := common.NewZeroCopySink(nil)
	gp.Serialization(sink)
	ns, err := NewNative(sink.Bytes(), tx, nil)
	if err != nil {
		t.Fatal(err)
	}
	if err = handler.SyncGenesisHeader(ns); err != nil {
		t.Fatalf("SyncGenesisHeader: %v", err)
	}

	// forged header at height 101 "signed" by validator j only, copied into every slot
	hdr := f.header(101, "forged")
	bid := d30bBlockID(&hdr)
	const j = 2
	one := f.precommit(t, j, 101, bid)
	pcs := make([]*polygonTypes.CommitSig, 4)
	for i := range pcs {
		cp := *one
		pcs[i] = &cp
	}
	forged, err := cdc.MarshalBinaryBare(CosmosHeader{
		Header: hdr, Commit: &polygonTypes.Commit{BlockID: bid, Precommits: pcs}, Valsets: f.vals})
	if err != nil {
		t.Fatal(err)
	}
	sp := &scom.SyncBlockHeaderParam{ChainID: heimdalChainID, Address: acct.Address, Headers: [][]byte{forged}}
	sink = common.NewZeroCopySink(nil)
	sp.Serialization(sink)
	ns, err = NewNative(sink.Bytes(), tx, ns.GetCacheDB())
	if err != nil {
		t.Fatal(err)
	}
	err = handler.SyncBlockHeader(ns)
	info, gerr := GetEpochSwitchInfo(ns, heimdalChainID)
	if gerr != nil {
		t.Fatal(gerr)
	}
	if err == nil || info.Height != 100 {
		t.Fatalf("DEFECT: SyncBlockHeader err=%v; tracked height=%d nextValidatorsHash=%s "+
			"(forged header signed by 1 of 4 equal validators was accepted and the light client "+
			"now trusts the attacker's validator set)", err, info.Height, info.NextValidatorsHash.String())
	}
}
