package neo3_state_manager

import (
	"fmt"
	"runtime"
	"testing"

	"github.com/polynetwork/poly/common"
	"github.com/polynetwork/poly/core/store/leveldbstore"
	"github.com/polynetwork/poly/core/store/overlaydb"
	"github.com/polynetwork/poly/core/types"
	"github.com/polynetwork/poly/native"
	"github.com/polynetwork/poly/native/storage"
	"github.com/stretchr/testify/require"
)

func d02Native(t *testing.T, input []byte) *native.NativeService {
	store, err := leveldbstore.NewMemLevelDBStore()
	require.NoError(t, err)
	cacheDB := storage.NewCacheDB(overlaydb.NewOverlayDB(store))
	ns, err := native.NewNativeService(cacheDB, new(types.Transaction), 0, 200, common.Uint256{}, 0, input, false)
	require.NoError(t, err)
	return ns
}

func d02Call(fn func() error) (err error, panicked interface{}) {
	defer func() {
		if r := recover(); r != nil {
			panicked = r
		}
	}()
	err = fn()
	return
}

func d02Allocated(fn func()) uint64 {
	var before, after runtime.MemStats
	runtime.GC()
	runtime.ReadMemStats(&before)
	fn()
	runtime.ReadMemStats(&after)
	return after.TotalAlloc - before.TotalAlloc
}

func d02Count(n uint64) []byte {
	sink := common.NewZeroCopySink(nil)
	sink.WriteVarUint(n)
	return sink.Bytes()
}

// Anyone can invoke "registerStateValidator" / "removeStateValidator" with a
// 9 byte argument that only holds the var-uint 2^62 (no witness is checked
// before decoding). The handlers must return an error; on the unchanged tree
// make([]string, 0, n) panics with "makeslice: cap out of range".
func TestD02_RegisterStateValidator_HugeCount_NoPanic(t *testing.T) {
	input := d02Count(uint64(1) << 62)
	require.Equal(t, 9, len(input))

	err, p := d02Call(func() error {
		_, e := RegisterStateValidator(d02Native(t, input))
		return e
	})
	require.Nil(t, p, fmt.Sprintf("RegisterStateValidator panicked on %d crafted bytes: %v", len(input), p))
	require.Error(t, err)

	err, p = d02Call(func() error {
		_, e := RemoveStateValidator(d02Native(t, input))
		return e
	})
	require.Nil(t, p, fmt.Sprintf("RemoveStateValidator panicked on %d crafted bytes: %v", len(input), p))
	require.Error(t, err)
}

func TestD02_DeserializeStringArray_HugeCount_NoPanic(t *testing.T) {
	input := d02Count(uint64(1) << 62)
	err, p := d02Call(func() error {
		_, e := DeserializeStringArray(input)
		return e
	})
	require.Nil(t, p, fmt.Sprintf("DeserializeStringArray panicked on %d crafted bytes: %v", len(input), p))
	require.Error(t, err)
}

// With a count makeslice accepts, the allocation must be bounded by the input
// size (1<<22 * 16 B = 64 MiB on the unchanged tree for a 5 byte argument;
// 1<<34 is an unrecoverable out-of-memory crash).
func TestD02_StateValidatorListParam_Count_BoundedAlloc(t *testing.T) {
	input := d02Count(uint64(1) << 22)
	require.Equal(t, 5, len(input))

	var err error
	allocated := d02Allocated(func() {
		err = new(StateValidatorListParam).Deserialization(common.NewZeroCopySource(input))
	})
	require.Error(t, err)
	require.Less(t, allocated, uint64(1<<20),
		fmt.Sprintf("StateValidatorListParam: decoding %d bytes allocated %d bytes", len(input), allocated))

	allocated = d02Allocated(func() { _, err = DeserializeStringArray(input) })
	require.Error(t, err)
	require.Less(t, allocated, uint64(1<<20),
		fmt.Sprintf("DeserializeStringArray: decoding %d bytes allocated %d bytes", len(input), allocated))
}

// Sanity: well-formed values (including empty strings, the minimal 1-byte
// element encoding) still round-trip.
func TestD02_RoundTripStillWorks(t *testing.T) {
	in := []string{"", "", "abc", ""}
	out, err := DeserializeStringArray(SerializeStringArray(in))
	require.NoError(t, err)
	require.Equal(t, in, out)

	p := &StateValidatorListParam{StateValidators: in, Address: common.Address{1, 2, 3}}
	sink := common.NewZeroCopySink(nil)
	p.Serialization(sink)
	q := new(StateValidatorListParam)
	require.NoError(t, q.Deserialization(common.NewZeroCopySource(sink.Bytes())))
	require.Equal(t, p, q)
}
