package btc

// Demonstration for suspected defect D26: CoinSelector.SortedSearch does not
// conserve value. When a P2SH utxo is dropped from the selection because it
// pushes the fee/loss ratio over maxP, its value stays in the running 'sum',
// so the total that is returned is larger than the sum of the returned utxos.
//
// The tests below drive the real, unchanged code and assert the correct
// behaviour, therefore they FAIL on the unfixed tree.

import (
	"bytes"
	"crypto/sha256"
	"encoding/binary"
	"encoding/hex"
	"sort"
	"testing"

	"github.com/btcsuite/btcd/chaincfg"
	"github.com/btcsuite/btcd/wire"
	"github.com/btcsuite/btcutil"
	"github.com/polynetwork/poly/common"
	"github.com/polynetwork/poly/core/states"
	"github.com/polynetwork/poly/native/service/governance/side_chain_manager"
	"github.com/polynetwork/poly/native/service/utils"
)

// NOTE: btc_handler_test.go (pre-existing, untouched) references an identifier
// 'netParam' that is not declared anywhere in this package, so the test binary
// of this package does not even build on the pinned commit. Declaring it here
// is the only way to get a test binary for this package without modifying the
// existing _test.go files.
var netParam = &chaincfg.TestNet3Params

func d26Scripts(t *testing.T) (redeemScript, rk, p2sh, p2wsh []byte) {
	redeemScript, err := hex.DecodeString(rdm) // 5-of-7 multisig used by the existing tests
	if err != nil {
		t.Fatal(err)
	}
	rk = btcutil.Hash160(redeemScript)
	// OP_HASH160 <20 bytes> OP_EQUAL
	p2sh = append(append([]byte{0xa9, 0x14}, rk...), 0x87)
	// OP_0 <32 bytes>
	h := sha256.Sum256(redeemScript)
	p2wsh = append([]byte{0x00, 0x20}, h[:]...)
	// both kinds of outputs of the same redeem script are stored under the same utxo key
	if GetUtxoKey(p2sh) != hex.EncodeToString(rk) || GetUtxoKey(p2wsh) != hex.EncodeToString(rk) {
		t.Fatal("bad test scripts")
	}
	return
}

func d26Utxo(id byte, value uint64, script []byte) *Utxo {
	return &Utxo{
		Op:           &OutPoint{Hash: bytes.Repeat([]byte{id}, 32), Index: 0},
		AtHeight:     uint32(id),
		Value:        value,
		ScriptPubkey: script,
	}
}

func d26Total(us []*Utxo) uint64 {
	total := uint64(0)
	for _, u := range us {
		total += u.Value
	}
	return total
}

// Direct call of SortedSearch. A valid selection exists ({W1, W2} = 45000 >= target+mc),
// the P2SH utxo in the middle has to be skipped because of the fee it would cause.
func TestDefectD26_SortedSearchConservesValue(t *testing.T) {
	_, _, p2sh, p2wsh := d26Scripts(t)
	p2pkh, _ := hex.DecodeString("76a91428d2e8cee08857f569e5a1b147c5d5e87339e08188ac")

	us := &Utxos{Utxos: []*Utxo{
		d26Utxo(1, 30000, p2wsh), // W1
		d26Utxo(2, 20000, p2sh),  // P  : {W1,P} costs 953 bytes * 50 = 47650 sat >= target -> dropped
		d26Utxo(3, 15000, p2wsh), // W2 : {W1,W2} costs 483 bytes * 50 = 24150 sat
	}}
	sort.Sort(sort.Reverse(us))

	cs := &CoinSelector{
		sortedUtxos: us,
		target:      40000,
		maxP:        MAX_FEE_COST_PERCENTS,
		tries:       MAX_SELECTING_TRY_LIMIT,
		mc:          2000,
		k:           SELECTING_K,
		txOuts:      []*wire.TxOut{{Value: 40000, PkScript: p2pkh}, {Value: 0, PkScript: p2wsh}},
		feeRate:     50,
		m:           5,
		n:           7,
	}

	res, sum, fee := cs.SortedSearch()
	if res == nil {
		t.Fatal("a selection {30000, 15000} exists for target 40000, min change 2000")
	}
	for _, u := range res {
		if u.Value == 20000 {
			t.Fatalf("the dropped P2SH utxo is part of the result")
		}
	}
	t.Logf("selected %d utxos worth %d sat, reported sum %d sat, fee %d sat", len(res), d26Total(res), sum, fee)
	if sum != d26Total(res) {
		t.Fatalf("value not conserved: SortedSearch reports input total %d but the returned utxos are worth %d (diff %d = value of the dropped P2SH utxo)",
			sum, d26Total(res), sum-d26Total(res))
	}
}

// End to end through makeBtcTx -> chooseUtxos -> Select -> SortedSearch.
// The redeem script owns 32000 (P2WSH) + 30000 (P2SH) + 5000 (P2WSH); 47000 sat are requested
// at 50 sat/byte. No subset can pay for that (the only affordable one, {32000, 5000}, is worth
// 37000 < 47000), so the branch-and-bound search fails and SortedSearch runs.
func TestDefectD26_MakeBtcTxDoesNotCreateValue(t *testing.T) {
	redeemScript, rk, p2sh, p2wsh := d26Scripts(t)
	rkHex := hex.EncodeToString(rk)
	ns := getNativeFunc(nil, nil)
	db := ns.GetCacheDB()

	// side chain 1 = bitcoin testnet3
	ccmc := make([]byte, 8)
	binary.LittleEndian.PutUint64(ccmc, uint64(utils.TyTestnet3))
	side := &side_chain_manager.SideChain{Name: "btc", ChainId: 1, BlocksToWait: 1, Router: 0, CCMCAddress: ccmc}
	sink := common.NewZeroCopySink(nil)
	if err := side.Serialization(sink); err != nil {
		t.Fatal(err)
	}
	db.Put(utils.ConcatKey(utils.SideChainManagerContractAddress, []byte(side_chain_manager.SIDE_CHAIN),
		utils.GetUint64Bytes(1)), states.GenRawStorageItem(sink.Bytes()))

	// fee rate 50 sat/byte, min change 2000
	detail := &side_chain_manager.BtcTxParamDetial{FeeRate: 50, MinChange: 2000}
	sink = common.NewZeroCopySink(nil)
	detail.Serialization(sink)
	db.Put(utils.ConcatKey(utils.SideChainManagerContractAddress, []byte(side_chain_manager.BTC_TX_PARAM), rk,
		utils.GetUint64Bytes(1)), states.GenRawStorageItem(sink.Bytes()))

	all := []*Utxo{
		d26Utxo(1, 32000, p2wsh),
		d26Utxo(2, 30000, p2sh),
		d26Utxo(3, 5000, p2wsh),
	}
	putUtxos(ns, 1, rkHex, &Utxos{Utxos: all})

	const amount = int64(47000)
	err := makeBtcTx(ns, 1, map[string]int64{"mjEoyyCPsLzJ23xMX6Mti13zMyN36kzn57": amount}, []byte{1}, 2, redeemScript, rk)
	if err != nil {
		// correct behaviour: the utxos that can be afforded are not enough
		t.Logf("makeBtcTx refused: %v", err)
		left, _ := getUtxos(ns, 1, rkHex)
		if len(left.Utxos) != 3 {
			t.Fatalf("utxo set changed although no tx was made")
		}
		return
	}

	// a tx was made: it must not pay out more than it spends
	stateArr := ns.GetNotify()[0].States.([]interface{})
	raw, _ := hex.DecodeString(stateArr[2].(string))
	mtx := wire.NewMsgTx(wire.TxVersion)
	if err := mtx.BtcDecode(bytes.NewReader(raw), wire.ProtocolVersion, wire.LatestEncoding); err != nil {
		t.Fatal(err)
	}
	in := uint64(0)
	for _, txin := range mtx.TxIn {
		for _, u := range all {
			if bytes.Equal(u.Op.Hash, txin.PreviousOutPoint.Hash[:]) {
				in += u.Value
			}
		}
	}
	out := uint64(0)
	for _, o := range mtx.TxOut {
		out += uint64(o.Value)
	}
	t.Logf("tx spends %d inputs worth %d sat and creates outputs worth %d sat", len(mtx.TxIn), in, out)
	if in < uint64(amount) {
		t.Errorf("inputs (%d sat) do not cover the requested amount (%d sat)", in, amount)
	}
	if out > in {
		t.Fatalf("invalid bitcoin tx: outputs (%d sat) exceed inputs (%d sat) by %d sat; the utxos are now locked in stxos", out, in, out-in)
	}
}
