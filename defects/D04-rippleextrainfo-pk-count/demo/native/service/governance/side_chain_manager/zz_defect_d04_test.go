package side_chain_manager

import (
	"bytes"
	"fmt"
	"math/big"
	"testing"

	"github.com/polynetwork/poly/common"
)

// d04Decode runs (*RippleExtraInfo).Deserialization on raw and converts a
// panic into a reported value, so the test can tell "returned an error"
// (correct for malformed bytes) from "panicked" (the defect).
func d04Decode(raw []byte) (info *RippleExtraInfo, err error, panicked interface{}) {
	defer func() {
		if r := recover(); r != nil {
			panicked = r
		}
	}()
	info = &RippleExtraInfo{Pks: make([][]byte, 0)}
	err = info.Deserialization(common.NewZeroCopySource(raw))
	return
}

// d04Prefix is the well-formed fixed part of a RippleExtraInfo record:
// operator address, sequence, quorum, signerNum.
func d04Prefix() *common.ZeroCopySink {
	sink := common.NewZeroCopySink(nil)
	sink.WriteAddress(common.Address{1, 2, 3})
	sink.WriteUint64(7)
	sink.WriteUint64(2)
	sink.WriteUint64(3)
	return sink
}

// Malformed ExtraInfo whose pk-array count is far larger than the bytes that
// follow must be rejected with an error, never with a panic.
func TestD04_RippleExtraInfo_HugePkCount_NoPanic(t *testing.T) {
	for _, count := range []uint64{1 << 62, 1<<64 - 1} {
		sink := d04Prefix()
		sink.WriteVarUint(count) // 0xFF + 8 bytes little endian
		// no pk follows: the record is truncated
		raw := sink.Bytes()

		_, err, panicked := d04Decode(raw)
		if panicked != nil {
			t.Errorf("count=%d: Deserialization of %d malformed bytes panicked: %v", count, len(raw), panicked)
			continue
		}
		if err == nil {
			t.Errorf("count=%d: Deserialization accepted a truncated record", count)
		}
	}
}

// A count that is larger than the remaining bytes, but small enough for make()
// to succeed, must still be rejected (this already holds before the fix; it
// guards the fix against accepting too much).
func TestD04_RippleExtraInfo_CountExceedsRemaining_Rejected(t *testing.T) {
	sink := d04Prefix()
	sink.WriteVarUint(5)
	sink.WriteVarBytes([]byte{0xaa})
	sink.WriteVarBytes([]byte{0xbb})
	_, err, panicked := d04Decode(sink.Bytes())
	if panicked != nil {
		t.Fatalf("panicked: %v", panicked)
	}
	if err == nil {
		t.Fatalf("truncated pk array accepted")
	}
}

// Well-formed values still round-trip, including the boundary where the count
// equals the number of remaining bytes minus the trailing reserveAmount (all
// pks empty, i.e. one length byte each) and an empty pk list.
func TestD04_RippleExtraInfo_RoundTrip(t *testing.T) {
	cases := []*RippleExtraInfo{
		{
			Operator:      common.Address{9, 8, 7},
			Sequence:      11,
			Quorum:        2,
			SignerNum:     3,
			Pks:           [][]byte{bytes.Repeat([]byte{2}, 33), bytes.Repeat([]byte{3}, 33), bytes.Repeat([]byte{4}, 33)},
			ReserveAmount: big.NewInt(20000000),
		},
		{
			Operator:      common.Address{1},
			Pks:           [][]byte{},
			ReserveAmount: big.NewInt(0),
		},
		{
			Operator:      common.Address{1},
			Pks:           [][]byte{{}, {}, {}, {}},
			ReserveAmount: big.NewInt(0),
		},
	}
	for i, want := range cases {
		sink := common.NewZeroCopySink(nil)
		want.Serialization(sink)
		got, err, panicked := d04Decode(sink.Bytes())
		if panicked != nil {
			t.Fatalf("case %d: panicked: %v", i, panicked)
		}
		if err != nil {
			t.Fatalf("case %d: well-formed record rejected: %v", i, err)
		}
		if got.Operator != want.Operator || got.Sequence != want.Sequence ||
			got.Quorum != want.Quorum || got.SignerNum != want.SignerNum ||
			got.ReserveAmount.Cmp(want.ReserveAmount) != 0 ||
			len(got.Pks) != len(want.Pks) {
			t.Fatalf("case %d: round trip mismatch: got %s want %s", i, d04Str(got), d04Str(want))
		}
		for j := range want.Pks {
			if !bytes.Equal(got.Pks[j], want.Pks[j]) {
				t.Fatalf("case %d: pk %d mismatch", i, j)
			}
		}
		// canonical: re-encoding gives the same bytes
		again := common.NewZeroCopySink(nil)
		got.Serialization(again)
		if !bytes.Equal(again.Bytes(), sink.Bytes()) {
			t.Fatalf("case %d: re-encoding differs", i)
		}
	}
}

func d04Str(r *RippleExtraInfo) string {
	return fmt.Sprintf("{%x %d %d %d %x %s}", r.Operator[:], r.Sequence, r.Quorum, r.SignerNum, r.Pks, r.ReserveAmount)
}
