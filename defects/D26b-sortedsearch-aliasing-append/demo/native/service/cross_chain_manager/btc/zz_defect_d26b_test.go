package btc

// Demonstration for defect D26b: (*CoinSelector).SortedSearch, replacement pass
// (`case 1`), builds the candidate selection with
//
//	append(selection[:len(selection)-1:cap(selection)-1], u)
//
// The three-index slice caps the capacity at cap(selection)-1 instead of
// len(selection)-1, so whenever len(selection) < cap(selection) the append
// does not copy: it stores u straight into selection[len(selection)-1].  The
// next line then reads selection[len(selection)-1].Value (already u.Value), so
// sumTemp == sum, the "replacement" is always accepted and the reported total
// keeps the value of the output that was silently thrown away.
//
// This file only uses the production (non-test) sources of the package, so it
// can be run with an explicit file list (btc_handler_test.go of this commit
// does not compile: undefined netParam):
//
//	cd native/service/cross_chain_manager/btc && \
//	  go test -count=1 -v -run TestD26b btc_handler.go states.go utils.go zz_defect_d26b_test.go

import (
	"bytes"
	"crypto/sha256"
	"encoding/binary"
	"encoding/hex"
	"sort"
	"testing"

	"github.com/btcsuite/btcd/btcec"
	"github.com/btcsuite/btcd/chaincfg"
	"github.com/btcsuite/btcd/txscript"
	"github.com/btcsuite/btcd/wire"
	"github.com/btcsuite/btcutil"
	"github.com/polynetwork/poly/common"
	"github.com/polynetwork/poly/core/states"
	"github.com/polynetwork/poly/core/store/leveldbstore"
	"github.com/polynetwork/poly/core/store/overlaydb"
	"github.com/polynetwork/poly/core/types"
	"github.com/polynetwork/poly/native"
	"github.com/polynetwork/poly/native/service/governance/side_chain_manager"
	"github.com/polynetwork/poly/native/service/utils"
	"github.com/polynetwork/poly/native/storage"
)

const d26bChainID = uint64(1)

type d26bEnv struct {
	ns         *native.NativeService
	redeem     []byte
	rk         []byte // hash160(redeem): the redeem key used by makeBtcTx/chooseUtxos
	lockScript []byte // P2WSH script of the vault
	toAddr     string // a testnet P2PKH address receiving the withdrawal
}

// d26bNewEnv builds an in-memory native service with a registered BTC
// (testnet3) side chain, a 2-of-3 multisig vault and its BtcTxParam.
func d26bNewEnv(t *testing.T, feeRate, minChange uint64) *d26bEnv {
	store, err := leveldbstore.NewMemLevelDBStore()
	if err != nil {
		t.Fatal(err)
	}
	db := storage.NewCacheDB(overlaydb.NewOverlayDB(store))
	ns, err := native.NewNativeService(db, &types.Transaction{ChainID: 0}, 0, 0, common.Uint256{0}, 0, nil, false)
	if err != nil {
		t.Fatal(err)
	}

	// side chain 1 = bitcoin testnet3 (CCMCAddress carries the net type)
	ccmc := make([]byte, 8)
	binary.LittleEndian.PutUint64(ccmc, uint64(utils.TyTestnet3))
	if err = side_chain_manager.PutSideChain(ns, &side_chain_manager.SideChain{
		Name: "btc", ChainId: d26bChainID, BlocksToWait: 1, Router: 0, CCMCAddress: ccmc,
	}); err != nil {
		t.Fatal(err)
	}

	// 2-of-3 multisig redeem script from fixed keys
	np := &chaincfg.TestNet3Params
	pubs := make([]*btcutil.AddressPubKey, 3)
	for i := range pubs {
		seed := bytes.Repeat([]byte{byte(i + 1)}, 32)
		_, pub := btcec.PrivKeyFromBytes(btcec.S256(), seed)
		pubs[i], err = btcutil.NewAddressPubKey(pub.SerializeCompressed(), np)
		if err != nil {
			t.Fatal(err)
		}
	}
	redeem, err := txscript.MultiSigScript(pubs, 2)
	if err != nil {
		t.Fatal(err)
	}
	rk := btcutil.Hash160(redeem)
	h := sha256.Sum256(redeem)
	wa, err := btcutil.NewAddressWitnessScriptHash(h[:], np)
	if err != nil {
		t.Fatal(err)
	}
	lock, err := txscript.PayToAddrScript(wa)
	if err != nil {
		t.Fatal(err)
	}

	// BtcTxParam for the vault (same storage layout side_chain_manager.SetBtcTxParam writes;
	// SetBtcTxParam accepts any MinChange >= 2000 and any FeeRate > 0)
	sink := common.NewZeroCopySink(nil)
	(&side_chain_manager.BtcTxParamDetial{FeeRate: feeRate, MinChange: minChange}).Serialization(sink)
	db.Put(utils.ConcatKey(utils.SideChainManagerContractAddress, []byte(side_chain_manager.BTC_TX_PARAM), rk,
		utils.GetUint64Bytes(d26bChainID)), states.GenRawStorageItem(sink.Bytes()))

	return &d26bEnv{
		ns:         ns,
		redeem:     redeem,
		rk:         rk,
		lockScript: lock,
		toAddr:     pubs[0].AddressPubKeyHash().EncodeAddress(),
	}
}

// d26bUtxos makes one vault utxo per value; the outpoint hash encodes the index.
func d26bUtxos(script []byte, values []uint64) *Utxos {
	us := &Utxos{Utxos: make([]*Utxo, 0, len(values))}
	for i, v := range values {
		hash := make([]byte, 32)
		binary.BigEndian.PutUint32(hash[28:], uint32(i+1))
		us.Utxos = append(us.Utxos, &Utxo{
			Op:           &OutPoint{Hash: hash, Index: 0},
			AtHeight:     uint32(i + 1),
			Value:        v,
			ScriptPubkey: script,
		})
	}
	return us
}

func d26bSum(us []*Utxo) uint64 {
	s := uint64(0)
	for _, u := range us {
		s += u.Value
	}
	return s
}

func d26bValues(us []*Utxo) []uint64 {
	vs := make([]uint64, len(us))
	for i, u := range us {
		vs[i] = u.Value
	}
	return vs
}

// 1. SortedSearch on its own, with the input reported by the analysis:
// unspent 100000, 90000, 80000, 70000, 60000; target 255000; min change 2000.
// Pass 0 selects 100000+90000+80000 = 270000 (len 3, cap 4).  In pass 1
// replacing 80000 by 70000 is legitimate (260000 >= 255000+2000, so the
// correct answer is 100000+90000+70000 = 260000), replacing by 60000 is not
// (250000 < 255000).  Whatever is chosen, the inputs must add up to the
// reported total and cover the target.
func TestD26b_SortedSearch_ReportedSumMatchesInputs(t *testing.T) {
	p2wsh, _ := hex.DecodeString("002044978a77e4e983136bf1cca277c45e5bd4eff6a7848e900416daf86fd32c2743")
	p2pkh, _ := hex.DecodeString("76a91428d2e8cee08857f569e5a1b147c5d5e87339e08188ac")
	us := d26bUtxos(p2wsh, []uint64{100000, 90000, 80000, 70000, 60000})
	sort.Sort(sort.Reverse(us))

	target, mc := uint64(255000), uint64(2000)
	s := &CoinSelector{
		sortedUtxos: us,
		target:      target,
		mc:          mc,
		maxP:        MAX_FEE_COST_PERCENTS,
		tries:       MAX_SELECTING_TRY_LIMIT,
		k:           SELECTING_K,
		txOuts:      []*wire.TxOut{wire.NewTxOut(int64(target), p2pkh), wire.NewTxOut(0, p2wsh)},
		feeRate:     1,
		m:           5,
		n:           7,
	}
	res, sum, _ := s.SortedSearch()
	if res == nil {
		t.Fatal("SortedSearch found nothing although 100000+90000+80000 covers the target")
	}
	real := d26bSum(res)
	t.Logf("selected inputs %v: real total %d, reported total %d (target %d, min change %d)",
		d26bValues(res), real, sum, target, mc)
	if real != sum {
		t.Errorf("value not conserved: selected inputs add up to %d but SortedSearch reports %d", real, sum)
	}
	if !(real == target || real >= target+mc) {
		t.Errorf("selected inputs (%d) neither equal the target %d nor exceed it by the min change %d", real, target, mc)
	}
}

// 2. End to end through makeBtcTx -> chooseUtxos -> Select.
// Vault parameters: FeeRate 1, MinChange 1,000,000 sat (0.01 BTC; SetBtcTxParam
// accepts anything >= 2000).  Vault utxos: 600000, 500000, 400000, 350000,
// 320000.  Withdrawal: 300000 sat.
// SimpleBnbSearch only accepts totals == target or within [target+mc, 4*target]
// = [1300000, 1200000] (empty), and no subset equals 300000, so Select falls
// back to SortedSearch: 600000+500000+400000 = 1500000 >= 1300000 (len 3, cap 4).
// Replacing 400000 by 350000 gives 1450000 (legitimate); replacing by 320000
// gives 1420000 (legitimate as well).  The bitcoin transaction that is built
// must never pay out more than its inputs carry.
func TestD26b_MakeBtcTx_OutputsDoNotExceedInputs(t *testing.T) {
	env := d26bNewEnv(t, 1, 1000000)
	vault := d26bUtxos(env.lockScript, []uint64{600000, 500000, 400000, 350000, 320000})
	utxoKey := hex.EncodeToString(env.rk)
	putUtxos(env.ns, d26bChainID, utxoKey, vault)

	amount := int64(300000)
	err := makeBtcTx(env.ns, d26bChainID, map[string]int64{env.toAddr: amount}, []byte{0xd2, 0x6b}, 2, env.redeem, env.rk)
	if err != nil {
		t.Fatalf("makeBtcTx: %v", err)
	}

	// the unsigned transaction and the input amounts are published in the makeBtcTx event
	notifies := env.ns.GetNotify()
	if len(notifies) == 0 {
		t.Fatal("no makeBtcTx event")
	}
	st := notifies[len(notifies)-1].States.([]interface{})
	raw, _ := hex.DecodeString(st[2].(string))
	amts := st[3].([]uint64)
	mtx := wire.NewMsgTx(wire.TxVersion)
	if err = mtx.BtcDecode(bytes.NewBuffer(raw), wire.ProtocolVersion, wire.LatestEncoding); err != nil {
		t.Fatal(err)
	}

	// look the inputs up in the spent set the contract recorded
	stxos, err := getStxos(env.ns, d26bChainID, utxoKey)
	if err != nil {
		t.Fatal(err)
	}
	if len(stxos.Utxos) != len(mtx.TxIn) {
		t.Fatalf("%d inputs but %d stxos", len(mtx.TxIn), len(stxos.Utxos))
	}
	in := int64(0)
	for i, txin := range mtx.TxIn {
		found := false
		for _, u := range stxos.Utxos {
			if bytes.Equal(u.Op.Hash, txin.PreviousOutPoint.Hash[:]) && u.Op.Index == txin.PreviousOutPoint.Index {
				if u.Value != amts[i] {
					t.Fatalf("event amount %d != stxo value %d", amts[i], u.Value)
				}
				in += int64(u.Value)
				found = true
			}
		}
		if !found {
			t.Fatalf("input %d is not a recorded stxo", i)
		}
	}
	out := int64(0)
	for _, o := range mtx.TxOut {
		out += o.Value
	}
	t.Logf("withdrawal %d: inputs %v = %d, outputs = %d (change %d)", amount, amts, in, out, mtx.TxOut[len(mtx.TxOut)-1].Value)
	if out > in {
		t.Errorf("bitcoin transaction spends more than it has: outputs %d > inputs %d (invalid on the bitcoin network, "+
			"yet the vault utxos are already moved to the spent set)", out, in)
	}
}

// 3. Through chooseUtxos with the smallest MinChange governance can set (2000).
// FeeRate 100, 2-of-3 vault: a 5-input tx costs 61600 sat, a 6-input tx 72100.
// Withdrawal 70000 sat, so at most 5 inputs are affordable (fee < amount).
// Vault: 17000, 16500, 16000, 15500, 15000 and 195 dust outputs of 600..794.
// Only {17000,16500,16000,15500,15000} = 80000 reaches 72000; SimpleBnbSearch
// alternates largest/smallest and burns its 1,000,000 tries on the ~1.27M
// 5-subsets containing 17000 and the smallest dust, so Select falls back to
// SortedSearch, which selects the five big outputs (len 5, cap 8).  None of the
// dust outputs can replace 15000 (65000+794 < 70000).
func TestD26b_ChooseUtxos_ReportedSumMatchesInputs(t *testing.T) {
	env := d26bNewEnv(t, 100, 2000)
	values := []uint64{17000, 16500, 16000, 15500, 15000}
	for i := 0; i < 195; i++ {
		values = append(values, uint64(600+i))
	}
	utxoKey := hex.EncodeToString(env.rk)
	putUtxos(env.ns, d26bChainID, utxoKey, d26bUtxos(env.lockScript, values))

	np := &chaincfg.TestNet3Params
	amount := int64(70000)
	outs, err := getTxOuts(map[string]int64{env.toAddr: amount}, np)
	if err != nil {
		t.Fatal(err)
	}
	outs = append(outs, wire.NewTxOut(0, env.lockScript))

	set, sum, fee, err := chooseUtxos(env.ns, d26bChainID, amount, outs, env.rk, 2, 3)
	if err != nil {
		t.Fatalf("chooseUtxos: %v", err)
	}
	real := int64(d26bSum(set))
	t.Logf("selected inputs %v: real total %d, reported total %d, fee %d", d26bValues(set), real, sum, fee)
	if real != sum {
		t.Errorf("value not conserved: chosen utxos add up to %d but chooseUtxos reports %d", real, sum)
	}
	if !(real == amount || real >= amount+2000) {
		t.Errorf("chosen utxos (%d) neither equal the amount %d nor exceed it by the min change 2000", real, amount)
	}
}
