package vbft

// Demonstration for suspected defect D41 (property C41: VBFT round decisions
// count distinct participants).
//
// Build / run (the package's own _test.go files do not compile in this
// sandbox, so the test is built from the non-test sources plus this file):
//
//   go test -vet=off -count=1 $(ls consensus/vbft/*.go | grep -v _test.go) \
//       consensus/vbft/zz_defect_d41_test.go
//
// (*BlockPool).commitDone, when no quorum of commit messages exists, decides
// from the per-participant endorsement signatures.  "forEmpty" (seal the EMPTY
// block instead of the proposal) must be answered only when more than
// N-1-C distinct participants voted for empty.  The unchanged code counts the
// single empty vote of a participant that is not an endorser of the round
// twice (once in a dedicated loop, then again in the general loop, as there is
// no `continue` between them).

import (
	"fmt"
	"math"
	"testing"

	vconfig "github.com/polynetwork/poly/consensus/vbft/config"
)

const (
	d41N      = 7
	d41C      = 2
	d41BlkNum = 10
	d41P      = 0 // the proposer whose block is being voted on
)

// d41Server builds the minimum *Server that isEndorser() needs.
func d41Server(endorsers []uint32) *Server {
	srv := &Server{
		Index:  3,
		config: &vconfig.ChainConfig{N: d41N, C: d41C},
		currentParticipantConfig: &BlockParticipantConfig{
			BlockNum:  d41BlkNum,
			Proposers: []uint32{d41P},
			Endorsers: endorsers,
		},
	}
	// empty peer pool: no remote peer is "alive", getPeer() returns nil
	srv.peerPool = NewPeerPool(d41N, srv)
	return srv
}

// d41Pool fills a real BlockPool, through its real entry point for endorse
// messages, with the following votes for round d41BlkNum (N=7, C=2):
//
//   participant 0 : endorse(proposer 0), later endorse-for-empty
//   participant 6 : endorse(proposer 0), later endorse-for-empty
//   participant 1 : endorse(proposer 0), later endorse-for-empty
//   participant 2 : endorse(proposer 0), later endorse-for-empty
//   participant 3 : endorse(proposer 0)
//   participants 4, 5 : silent
//
// => 5 distinct participants support proposer 0's block (> N-1-C = 4)
// => 4 distinct participants voted for empty           (NOT > N-1-C = 4)
func d41Pool(t *testing.T, srv *Server) *BlockPool {
	pool := &BlockPool{
		server:          srv,
		HistoryLen:      1,
		candidateBlocks: make(map[uint32]*CandidateInfo),
	}
	endorse := func(endorser uint32, forEmpty bool) {
		msg := &blockEndorseMsg{
			Endorser:         endorser,
			EndorsedProposer: d41P,
			BlockNum:         d41BlkNum,
			EndorseForEmpty:  forEmpty,
			EndorserSig:      []byte(fmt.Sprintf("sig-%d-%t", endorser, forEmpty)),
		}
		if err := pool.newBlockEndorsement(msg); err != nil {
			t.Fatalf("newBlockEndorsement(%d, empty=%t): %v", endorser, forEmpty, err)
		}
	}
	for _, e := range []uint32{0, 6, 1, 2, 3} {
		endorse(e, false)
	}
	for _, e := range []uint32{0, 6, 1, 2} {
		endorse(e, true)
		endorse(e, true) // a repeated empty vote must not count either
	}

	// sanity: what the pool holds is what the comment above says
	distinctEmpty, distinctForP := 0, 0
	for _, sigs := range pool.candidateBlocks[d41BlkNum].EndorseSigs {
		hasEmpty, hasP := false, false
		for _, s := range sigs {
			if s.ForEmpty {
				hasEmpty = true
			} else if s.EndorsedProposer == d41P {
				hasP = true
			}
		}
		if hasEmpty {
			distinctEmpty++
		}
		if hasP {
			distinctForP++
		}
	}
	if distinctEmpty != 4 || distinctForP != 5 {
		t.Fatalf("bad fixture: distinctEmpty=%d distinctForP=%d", distinctEmpty, distinctForP)
	}
	return pool
}

// commitDone iterates a Go map, so repeat the call to cover iteration orders.
func d41CountForEmpty(t *testing.T, pool *BlockPool) (forEmptyTrue int, runs int) {
	runs = 300
	for i := 0; i < runs; i++ {
		proposer, forEmpty, done := pool.commitDone(d41BlkNum, d41C, d41N)
		if !done || proposer != d41P {
			t.Fatalf("run %d: expected commit done for proposer %d, got proposer=%d done=%t",
				i, d41P, proposer, done)
		}
		if forEmpty {
			forEmptyTrue++
		}
	}
	return
}

// Contrast: every voter is an endorser of the round.  4 distinct empty votes,
// threshold "more than N-1-C = 4" => not empty.  Passes on the unchanged tree.
func TestD41_EmptyVotesFromEndorsers_NotEmpty(t *testing.T) {
	srv := d41Server([]uint32{0, 1, 2, 3, 4, 5, 6})
	for _, p := range []uint32{0, 1, 2, 3, 6} {
		if !srv.isEndorser(d41BlkNum, p) {
			t.Fatalf("fixture: %d should be endorser", p)
		}
	}
	pool := d41Pool(t, srv)
	if n, runs := d41CountForEmpty(t, pool); n != 0 {
		t.Fatalf("forEmpty=true in %d/%d runs although only 4 distinct participants voted empty (need > %d)",
			n, runs, d41N-1-d41C)
	}
}

// Same votes, but participants 0 and 6 are not endorsers of the round
// (endorsers are the 2C+1 = 5 participants 1..5).  Still 4 distinct empty
// votes => must not be committed as the empty block.  FAILS on the unchanged
// tree: 0's and 6's single empty votes are counted twice (2*2 + 2 = 6 > 4, or
// at least 5 when one of them is visited last), so forEmpty=true every time.
func TestD41_EmptyVotesFromNonEndorsers_NotCountedTwice(t *testing.T) {
	srv := d41Server([]uint32{1, 2, 3, 4, 5})
	for _, p := range []uint32{0, 6} {
		if srv.isEndorser(d41BlkNum, p) {
			t.Fatalf("fixture: %d should NOT be endorser", p)
		}
	}
	for _, p := range []uint32{1, 2, 3} {
		if !srv.isEndorser(d41BlkNum, p) {
			t.Fatalf("fixture: %d should be endorser", p)
		}
	}
	pool := d41Pool(t, srv)

	// no commit-message quorum exists, the decision is made from endorse sigs
	if p, _ := getCommitConsensus(pool.candidateBlocks[d41BlkNum].CommitMsgs, d41C, d41N); p != math.MaxUint32 {
		t.Fatalf("fixture: unexpected commit-msg consensus")
	}

	if n, runs := d41CountForEmpty(t, pool); n != 0 {
		t.Fatalf("forEmpty=true in %d/%d runs although only 4 distinct participants voted empty (need > %d): "+
			"the single empty votes of non-endorser participants 0 and 6 were counted twice",
			n, runs, d41N-1-d41C)
	}
}
