package side_chain_manager

import (
	"fmt"
	"runtime"
	"testing"

	"github.com/polynetwork/poly/common"
	"github.com/polynetwork/poly/core/types"
	"github.com/stretchr/testify/require"
)

func d02Call(fn func() error) (err error, panicked interface{}) {
	defer func() {
		if r := recover(); r != nil {
			panicked = r
		}
	}()
	err = fn()
	return
}

func d02Allocated(fn func()) uint64 {
	var before, after runtime.MemStats
	runtime.GC()
	runtime.ReadMemStats(&before)
	fn()
	runtime.ReadMemStats(&after)
	return after.TotalAlloc - before.TotalAlloc
}

// d02BtcTxParamInput: Redeem = "" , RedeemChainId = 1, len(Sigs) = n, nothing else.
func d02BtcTxParamInput(n uint64) []byte {
	sink := common.NewZeroCopySink(nil)
	sink.WriteVarBytes(nil)
	sink.WriteVarUint(1)
	sink.WriteVarUint(n)
	return sink.Bytes()
}

// Anyone (no witness is checked before decoding) can invoke the native method
// "setBtcTxParam" with an 11 byte argument whose signature-count var-uint is
// 2^62. The handler must return an error; on the unchanged tree
// make([][]byte, l) panics with "makeslice: len out of range" and there is no
// recover() on the native-call path.
func TestD02_SetBtcTxParam_HugeSigCount_NoPanic(t *testing.T) {
	input := d02BtcTxParamInput(uint64(1) << 62)
	require.Equal(t, 11, len(input))

	ns := NewNative(input, &types.Transaction{}, nil)
	err, p := d02Call(func() error {
		_, e := SetBtcTxParam(ns)
		return e
	})
	require.Nil(t, p, fmt.Sprintf("SetBtcTxParam panicked on %d crafted bytes: %v", len(input), p))
	require.Error(t, err)

	err, p = d02Call(func() error {
		return new(BtcTxParam).Deserialization(common.NewZeroCopySource(input))
	})
	require.Nil(t, p, fmt.Sprintf("BtcTxParam.Deserialization panicked: %v", p))
	require.Error(t, err)
}

// Same, with a count that makeslice accepts: the allocation must be bounded by
// the input size, not by the unchecked wire integer (1<<21 * 24 B = 48 MiB on
// the unchanged tree; 1<<34 is an unrecoverable out-of-memory crash).
func TestD02_SetBtcTxParam_SigCount_BoundedAlloc(t *testing.T) {
	input := d02BtcTxParamInput(uint64(1) << 21)
	ns := NewNative(input, &types.Transaction{}, nil)
	var err error
	allocated := d02Allocated(func() { _, err = SetBtcTxParam(ns) })
	require.Error(t, err)
	require.Less(t, allocated, uint64(1<<20),
		fmt.Sprintf("decoding %d bytes allocated %d bytes", len(input), allocated))
}

// d02RegisterAssetInput: OperatorAddress = 0, ChainId = 1, len(AssetMap) = n, nothing else.
func d02RegisterAssetInput(n uint64) []byte {
	sink := common.NewZeroCopySink(nil)
	sink.WriteAddress(common.Address{})
	sink.WriteVarUint(1)
	sink.WriteVarUint(n)
	return sink.Bytes()
}

// "registerAsset": make(map[uint64][]byte, l) with l straight from the wire.
// The runtime ignores absurd hints (so 2^62 does not panic) but honours any
// hint whose bucket array fits the address space: 1<<20 entries pre-allocates
// ~38 MiB for a 26 byte argument, 1<<28 about 10 GiB (out-of-memory crash).
func TestD02_RegisterAsset_MapCount_BoundedAlloc(t *testing.T) {
	input := d02RegisterAssetInput(uint64(1) << 20)
	require.Less(t, len(input), 32)
	ns := NewNative(input, &types.Transaction{}, nil)
	var err error
	allocated := d02Allocated(func() { _, err = RegisterAsset(ns) })
	require.Error(t, err)
	require.Less(t, allocated, uint64(1<<20),
		fmt.Sprintf("decoding %d bytes allocated %d bytes", len(input), allocated))
}

// Second map of RegisterAssetParam (the lock proxy map). NOT a defect site:
// the unchanged code sizes it with the FIRST count l (already consumed from
// the input, hence <= len(input)/2) instead of its own count m, so a huge m
// only makes the loop hit EOF. This guard passes before and after the fix and
// is here so nobody "corrects" the hint to the unchecked m.
func TestD02_RegisterAsset_LockProxyMapCount_BoundedAlloc(t *testing.T) {
	sink := common.NewZeroCopySink(nil)
	sink.WriteAddress(common.Address{})
	sink.WriteVarUint(1)
	sink.WriteVarUint(0)               // asset map: empty
	sink.WriteVarUint(uint64(1) << 20) // lock proxy map: 1M entries announced, none present
	input := sink.Bytes()
	var err error
	allocated := d02Allocated(func() {
		err = new(RegisterAssetParam).Deserialization(common.NewZeroCopySource(input))
	})
	require.Error(t, err)
	require.Less(t, allocated, uint64(1<<20),
		fmt.Sprintf("decoding %d bytes allocated %d bytes", len(input), allocated))
}

// AssetBind uses the identical decoder.
func TestD02_AssetBind_MapCount_BoundedAlloc(t *testing.T) {
	sink := common.NewZeroCopySink(nil)
	sink.WriteVarUint(uint64(1) << 20)
	input := sink.Bytes()
	var err error
	allocated := d02Allocated(func() {
		err = new(AssetBind).Deserialization(common.NewZeroCopySource(input))
	})
	require.Error(t, err)
	require.Less(t, allocated, uint64(1<<20),
		fmt.Sprintf("decoding %d bytes allocated %d bytes", len(input), allocated))
}

// Sanity: well-formed values still round-trip after the fix.
func TestD02_RoundTripStillWorks(t *testing.T) {
	p := &BtcTxParam{
		Redeem:        []byte{1, 2, 3},
		RedeemChainId: 7,
		Sigs:          [][]byte{{1}, {}, {2, 3}},
		Detial:        &BtcTxParamDetial{PVersion: 1, FeeRate: 2, MinChange: 3000},
	}
	sink := common.NewZeroCopySink(nil)
	p.Serialization(sink)
	q := new(BtcTxParam)
	require.NoError(t, q.Deserialization(common.NewZeroCopySource(sink.Bytes())))
	require.Equal(t, p, q)

	// every entry of the maps has the minimal possible encoding (2 bytes)
	r := &RegisterAssetParam{
		ChainId:      1,
		AssetMap:     map[uint64][]byte{1: {}, 2: {}, 3: {}},
		LockProxyMap: map[uint64][]byte{4: {}, 5: {}},
	}
	sink = common.NewZeroCopySink(nil)
	r.Serialization(sink)
	s := new(RegisterAssetParam)
	require.NoError(t, s.Deserialization(common.NewZeroCopySource(sink.Bytes())))
	require.Equal(t, r, s)

	a := &AssetBind{AssetMap: r.AssetMap, LockProxyMap: r.LockProxyMap}
	sink = common.NewZeroCopySink(nil)
	a.Serialization(sink)
	b := new(AssetBind)
	require.NoError(t, b.Deserialization(common.NewZeroCopySource(sink.Bytes())))
	require.Equal(t, a, b)
}
