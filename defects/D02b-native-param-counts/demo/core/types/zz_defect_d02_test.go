package types

import (
	"fmt"
	"runtime"
	"testing"

	"github.com/polynetwork/poly/common"
	"github.com/polynetwork/poly/core/payload"
	"github.com/stretchr/testify/require"
)

// d02UnsignedTx returns the wire encoding of a well-formed transaction
// WITHOUT the trailing signature section.
func d02UnsignedTx(t *testing.T) []byte {
	tx := &Transaction{
		Version:  0,
		TxType:   Invoke,
		Nonce:    1,
		Payload:  &payload.InvokeCode{Code: []byte{0x01}},
		CoinType: ONG,
	}
	sink := common.NewZeroCopySink(nil)
	require.NoError(t, tx.SerializeUnsigned(sink))
	return sink.Bytes()
}

func d02Decode(fn func() error) (err error, panicked interface{}) {
	defer func() {
		if r := recover(); r != nil {
			panicked = r
		}
	}()
	err = fn()
	return
}

// A ~60 byte transaction whose "number of signatures" var-uint is 2^62 must be
// rejected with an error. On the unchanged tree make([]Sig, l) panics with
// "runtime error: makeslice: len out of range".
func TestD02_TransactionDeserialization_HugeSigCount_NoPanic(t *testing.T) {
	sink := common.NewZeroCopySink(d02UnsignedTx(t))
	sink.WriteVarUint(uint64(1) << 62) // 0xFF + 8 bytes
	raw := sink.Bytes()
	require.Less(t, len(raw), 100)

	// entry used by p2p / rpc
	err, p := d02Decode(func() error {
		_, e := TransactionFromRawBytes(raw)
		return e
	})
	require.Nil(t, p, fmt.Sprintf("TransactionFromRawBytes panicked on %d crafted bytes: %v", len(raw), p))
	require.Error(t, err)

	// entry used by Block.Deserialization
	err, p = d02Decode(func() error {
		return new(Transaction).Deserialization(common.NewZeroCopySource(raw))
	})
	require.Nil(t, p, fmt.Sprintf("Transaction.Deserialization panicked on %d crafted bytes: %v", len(raw), p))
	require.Error(t, err)
}

// Same input but with a count small enough for makeslice to succeed: the
// decoder must not allocate memory proportional to an unchecked wire integer.
// (1<<20 sigs * 56 bytes = 56 MiB on the unchanged tree; with 1<<30 the node
// dies with "fatal error: runtime: out of memory", which cannot be recovered.)
func TestD02_TransactionDeserialization_SigCount_BoundedAlloc(t *testing.T) {
	sink := common.NewZeroCopySink(d02UnsignedTx(t))
	sink.WriteVarUint(uint64(1) << 20)
	raw := sink.Bytes()

	var before, after runtime.MemStats
	runtime.GC()
	runtime.ReadMemStats(&before)
	_, err := TransactionFromRawBytes(raw)
	runtime.ReadMemStats(&after)
	require.Error(t, err)
	allocated := after.TotalAlloc - before.TotalAlloc
	require.Less(t, allocated, uint64(1<<20),
		fmt.Sprintf("decoding %d bytes allocated %d bytes", len(raw), allocated))
}

// Sanity: a well-formed transaction with zero signatures still decodes.
func TestD02_TransactionDeserialization_StillAcceptsValid(t *testing.T) {
	sink := common.NewZeroCopySink(d02UnsignedTx(t))
	sink.WriteVarUint(0)
	tx, err := TransactionFromRawBytes(sink.Bytes())
	require.NoError(t, err)
	require.Equal(t, 0, len(tx.Sigs))
	require.Equal(t, sink.Bytes(), tx.Raw)
}
