package cosmos

// Demonstration for defect D30: CosmosHandler.MakeDepositProposal accepts a
// merkle proof of ABSENCE as if it proved that a cross-chain message exists.
//
// The test simulates a tiny, honest Tendermint/cosmos-sdk source chain:
//   - one ed25519 validator that really signs the block header,
//   - a real cosmos-sdk rootmulti store with an IAVL sub-store called "ccm",
//   - real proofs produced by the store's own ABCI Query(prove=true).
// Nothing is forged on the source chain side: the header is genuine, the
// app hash is genuine and the merkle proof is the genuine proof that a key is
// NOT in the "ccm" store.  The relayer only chooses the (absent) key so that
// the key path "/ccm/<key>" is, byte for byte, a serialized MakeTxParam.

import (
	"bytes"
	"testing"
	"time"

	"github.com/cosmos/cosmos-sdk/store/rootmulti"
	storetypes "github.com/cosmos/cosmos-sdk/store/types"
	sdk "github.com/cosmos/cosmos-sdk/types"
	"github.com/polynetwork/poly/common"
	"github.com/polynetwork/poly/core/store/leveldbstore"
	"github.com/polynetwork/poly/core/store/overlaydb"
	"github.com/polynetwork/poly/core/types"
	"github.com/polynetwork/poly/native"
	ccmcom "github.com/polynetwork/poly/native/service/cross_chain_manager/common"
	synccom "github.com/polynetwork/poly/native/service/header_sync/cosmos"
	"github.com/polynetwork/poly/native/storage"
	abci "github.com/tendermint/tendermint/abci/types"
	"github.com/tendermint/tendermint/crypto/ed25519"
	"github.com/tendermint/tendermint/crypto/merkle"
	tmtypes "github.com/tendermint/tendermint/types"
)

const (
	d30SourceChainID = uint64(5)
	d30TmChainID     = "d30-cosmos"
	d30Height        = int64(10)
)

// d30Chain is the simulated honest source chain.
type d30Chain struct {
	priv   ed25519.PrivKeyEd25519
	vals   []*tmtypes.Validator
	store  *rootmulti.Store
	appCID storetypes.CommitID
}

// newD30Chain creates the source chain whose "ccm" store contains exactly the
// given key/value pairs (plus one unrelated entry so the tree is never empty).
func newD30Chain(t *testing.T, kvs map[string][]byte) *d30Chain {
	c := &d30Chain{}
	c.priv = ed25519.GenPrivKey()
	c.vals = []*tmtypes.Validator{tmtypes.NewValidator(c.priv.PubKey(), 100)}

	// (sdk.NewLevelDB is used only to obtain a tm-db handle without importing
	// tm-db directly, which would make the go tool rewrite go.mod)
	db, err := sdk.NewLevelDB("d30", t.TempDir())
	if err != nil {
		t.Fatalf("open source chain db: %v", err)
	}
	t.Cleanup(func() { db.Close() })
	c.store = rootmulti.NewStore(db)
	ccmKey := storetypes.NewKVStoreKey("ccm")
	otherKey := storetypes.NewKVStoreKey("bank")
	c.store.MountStoreWithDB(ccmKey, storetypes.StoreTypeIAVL, nil)
	c.store.MountStoreWithDB(otherKey, storetypes.StoreTypeIAVL, nil)
	if err := c.store.LoadLatestVersion(); err != nil {
		t.Fatalf("load multistore: %v", err)
	}
	c.store.GetKVStore(ccmKey).Set([]byte("some-unrelated-entry"), []byte("v"))
	c.store.GetKVStore(otherKey).Set([]byte("balance"), []byte("1"))
	for k, v := range kvs {
		c.store.GetKVStore(ccmKey).Set([]byte(k), v)
	}
	c.appCID = c.store.Commit()
	return c
}

// query runs the chain's own ABCI store query with prove=true.
func (c *d30Chain) query(t *testing.T, key []byte) abci.ResponseQuery {
	res := c.store.Query(abci.RequestQuery{
		Path:   "/ccm/key",
		Data:   key,
		Height: c.appCID.Version,
		Prove:  true,
	})
	if res.Code != 0 || res.Proof == nil {
		t.Fatalf("source chain query failed: code=%d log=%s", res.Code, res.Log)
	}
	return res
}

// signedHeader returns the amino encoded, validator-signed header whose
// AppHash commits to the multistore.
func (c *d30Chain) signedHeader(t *testing.T) []byte {
	valset := tmtypes.NewValidatorSet(c.vals)
	now := time.Unix(1600000000, 0).UTC()
	hdr := tmtypes.Header{
		ChainID:            d30TmChainID,
		Height:             d30Height,
		Time:               now,
		ValidatorsHash:     valset.Hash(),
		NextValidatorsHash: valset.Hash(),
		AppHash:            c.appCID.Hash,
		ProposerAddress:    c.vals[0].Address,
	}
	hdr.Version.Block = 10
	blockID := tmtypes.BlockID{
		Hash:        hdr.Hash(),
		PartsHeader: tmtypes.PartSetHeader{Total: 1, Hash: bytes.Repeat([]byte{0xab}, 32)},
	}
	vote := &tmtypes.Vote{
		Type:             tmtypes.PrecommitType,
		Height:           d30Height,
		Round:            0,
		BlockID:          blockID,
		Timestamp:        now,
		ValidatorAddress: c.vals[0].Address,
		ValidatorIndex:   0,
	}
	sig, err := c.priv.Sign(vote.SignBytes(d30TmChainID))
	if err != nil {
		t.Fatalf("sign vote: %v", err)
	}
	vote.Signature = sig
	commit := tmtypes.NewCommit(d30Height, 0, blockID, []tmtypes.CommitSig{vote.CommitSig()})

	raw, err := synccom.Cdc.MarshalBinaryBare(synccom.CosmosHeader{Header: hdr, Commit: commit, Valsets: c.vals})
	if err != nil {
		t.Fatalf("marshal header: %v", err)
	}
	return raw
}

// newD30Native builds a NativeService on an in-memory store on which the
// source chain has been registered with the header sync contract (epoch info
// pointing at the chain's validator set).
func (c *d30Chain) newD30Native(t *testing.T, input []byte, db *storage.CacheDB) *native.NativeService {
	if db == nil {
		store, _ := leveldbstore.NewMemLevelDBStore()
		db = storage.NewCacheDB(overlaydb.NewOverlayDB(store))
	}
	ns, err := native.NewNativeService(db, &types.Transaction{}, 0, 0, common.Uint256{}, 0, input, false)
	if err != nil {
		t.Fatalf("NewNativeService: %v", err)
	}
	synccom.PutEpochSwitchInfo(ns, d30SourceChainID, &synccom.CosmosEpochSwitchInfo{
		Height:             1,
		BlockHash:          bytes.Repeat([]byte{1}, 32),
		NextValidatorsHash: tmtypes.NewValidatorSet(c.vals).Hash(),
		ChainID:            d30TmChainID,
	})
	return ns
}

func d30Entrance(t *testing.T, header []byte, proof *merkle.Proof, pv CosmosProofValue) []byte {
	proofBz, err := synccom.Cdc.MarshalBinaryBare(*proof)
	if err != nil {
		t.Fatalf("marshal proof: %v", err)
	}
	extra, err := synccom.Cdc.MarshalBinaryBare(pv)
	if err != nil {
		t.Fatalf("marshal proof value: %v", err)
	}
	param := &ccmcom.EntranceParam{
		SourceChainID:         d30SourceChainID,
		Height:                uint32(d30Height),
		Proof:                 proofBz,
		RelayerAddress:        bytes.Repeat([]byte{7}, 20),
		Extra:                 extra,
		HeaderOrCrossChainMsg: header,
	}
	sink := common.NewZeroCopySink(nil)
	param.Serialization(sink)
	return sink.Bytes()
}

// The forged message: "unlock" on target chain 2, never emitted by the source
// chain's cross chain manager.  Its serialization starts with the var-bytes
// length of TxHash; choosing len(TxHash)==47 makes that first byte '/' (0x2f),
// and starting TxHash with "ccm/" makes the whole serialization read as the
// key path "/ccm/<rest>".
func d30ForgedTxParam() *ccmcom.MakeTxParam {
	return &ccmcom.MakeTxParam{
		TxHash:              append([]byte("ccm/"), bytes.Repeat([]byte{0x11}, 43)...),
		CrossChainID:        bytes.Repeat([]byte{0x22}, 32),
		FromContractAddress: bytes.Repeat([]byte{0x33}, 20),
		ToChainID:           2,
		ToContractAddress:   bytes.Repeat([]byte{0x44}, 20),
		Method:              "unlock",
		Args:                bytes.Repeat([]byte{0x55}, 60),
	}
}

// TestD30_AbsenceProofMustNotCreateDeposit: a relayer submits a genuine header
// and a genuine proof that a key is ABSENT from the source chain's state.  The
// correct behaviour is to reject it, because no cross chain message has been
// proven to exist.  On the unchanged tree MakeDepositProposal returns the
// forged MakeTxParam and marks it done.
func TestD30_AbsenceProofMustNotCreateDeposit(t *testing.T) {
	forged := d30ForgedTxParam()
	sink := common.NewZeroCopySink(nil)
	forged.Serialization(sink)
	value := sink.Bytes()

	// sanity: the serialized message is a well formed two-part key path
	if value[0] != '/' || bytes.Count(value, []byte("/")) != 2 || bytes.Contains(value, []byte("%")) {
		t.Fatalf("test setup: forged value is not a plain 2-part key path: %q", value)
	}
	keys, err := merkle.KeyPathToKeys(string(value))
	if err != nil || len(keys) != 2 || string(keys[0]) != "ccm" {
		t.Fatalf("test setup: unexpected key path split: %v %q", err, keys)
	}
	absentKey := keys[1]

	// Honest source chain: the key is NOT in the ccm store.
	chain := newD30Chain(t, nil)
	res := chain.query(t, absentKey)
	if res.Value != nil {
		t.Fatalf("test setup: key unexpectedly present on source chain")
	}
	// sanity: what we hold really is an absence proof and nothing else
	prt := ProofRuntime()
	if err := prt.VerifyAbsence(res.Proof, chain.appCID.Hash, string(value)); err != nil {
		t.Fatalf("test setup: absence proof does not verify: %v", err)
	}
	if err := prt.VerifyValue(res.Proof, chain.appCID.Hash, string(value), value); err == nil {
		t.Fatalf("test setup: absence proof verifies as a value proof")
	}

	input := d30Entrance(t, chain.signedHeader(t), res.Proof, CosmosProofValue{Kp: "", Value: value})
	ns := chain.newD30Native(t, input, nil)

	txParam, err := NewCosmosHandler().MakeDepositProposal(ns)
	if err == nil {
		t.Errorf("DEFECT: MakeDepositProposal accepted a proof of ABSENCE and produced a cross chain "+
			"tx: method=%q toChain=%d toContract=%x args=%x", txParam.Method, txParam.ToChainID,
			txParam.ToContractAddress, txParam.Args)
	}
	if txParam != nil {
		t.Errorf("DEFECT: a MakeTxParam was returned for a message that provably does not exist on the source chain")
	}
	// and the forged message must not have been recorded as a processed tx
	if e := ccmcom.CheckDoneTx(ns, forged.CrossChainID, d30SourceChainID); e != nil {
		t.Errorf("DEFECT: forged cross chain id was recorded as done: %v", e)
	}
}

// TestD30_ExistenceProofStillAccepted is the positive control: a message that
// really is stored in the source chain's ccm store, proven with a value
// (existence) proof, is accepted -- before and after the fix.
func TestD30_ExistenceProofStillAccepted(t *testing.T) {
	real := &ccmcom.MakeTxParam{
		TxHash:              bytes.Repeat([]byte{0x01}, 32),
		CrossChainID:        bytes.Repeat([]byte{0x02}, 32),
		FromContractAddress: bytes.Repeat([]byte{0x03}, 20),
		ToChainID:           2,
		ToContractAddress:   bytes.Repeat([]byte{0x04}, 20),
		Method:              "unlock",
		Args:                []byte{1, 2, 3},
	}
	sink := common.NewZeroCopySink(nil)
	real.Serialization(sink)
	value := sink.Bytes()
	storeKey := append([]byte{0x01}, real.CrossChainID...)

	chain := newD30Chain(t, map[string][]byte{string(storeKey): value})
	res := chain.query(t, storeKey)
	if !bytes.Equal(res.Value, value) {
		t.Fatalf("test setup: value not found on source chain")
	}
	kp := merkle.KeyPath{}.
		AppendKey([]byte("ccm"), merkle.KeyEncodingURL).
		AppendKey(storeKey, merkle.KeyEncodingURL).String()

	input := d30Entrance(t, chain.signedHeader(t), res.Proof, CosmosProofValue{Kp: kp, Value: value})
	ns := chain.newD30Native(t, input, nil)
	txParam, err := NewCosmosHandler().MakeDepositProposal(ns)
	if err != nil {
		t.Fatalf("existence proof rejected: %v", err)
	}
	if txParam.Method != "unlock" || !bytes.Equal(txParam.CrossChainID, real.CrossChainID) {
		t.Fatalf("unexpected tx param: %+v", txParam)
	}
	// replay is rejected
	ns2 := chain.newD30Native(t, input, ns.GetCacheDB())
	if _, err := NewCosmosHandler().MakeDepositProposal(ns2); err == nil {
		t.Fatalf("replay of the same deposit was accepted")
	}
}
