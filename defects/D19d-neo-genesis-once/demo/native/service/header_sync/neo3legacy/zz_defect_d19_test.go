package neo3legacy

// D19 demonstration: Neo3Handler.SyncGenesisHeader does keep the stored trust
// root on a second call (it only writes when nothing is stored), but it
// reports SUCCESS instead of failing like every other router does, so an
// operator-signed second SyncGenesisHeader transaction is accepted as a
// silent no-op.

import (
	"testing"

	"github.com/joeqian10/neo3-gogogo-legacy/block"
	"github.com/joeqian10/neo3-gogogo-legacy/helper"
	tx2 "github.com/joeqian10/neo3-gogogo-legacy/tx"
	"github.com/ontio/ontology-crypto/keypair"
	"github.com/polynetwork/poly/account"
	"github.com/polynetwork/poly/common"
	vconfig "github.com/polynetwork/poly/consensus/vbft/config"
	"github.com/polynetwork/poly/core/states"
	"github.com/polynetwork/poly/core/store/leveldbstore"
	"github.com/polynetwork/poly/core/store/overlaydb"
	"github.com/polynetwork/poly/core/types"
	"github.com/polynetwork/poly/native"
	"github.com/polynetwork/poly/native/service/governance/node_manager"
	scom "github.com/polynetwork/poly/native/service/header_sync/common"
	"github.com/polynetwork/poly/native/service/utils"
	"github.com/polynetwork/poly/native/storage"
)

const d19ChainID = uint64(14)

// d19NewDB builds an in-memory cache DB in which `op` is the only consensus
// peer, i.e. the current consensus operator is the address derived from op.
func d19NewDB(t *testing.T, op *account.Account) (*storage.CacheDB, common.Address) {
	store, err := leveldbstore.NewMemLevelDBStore()
	if err != nil {
		t.Fatal(err)
	}
	db := storage.NewCacheDB(overlaydb.NewOverlayDB(store))

	sink := common.NewZeroCopySink(nil)
	(&node_manager.GovernanceView{TxHash: common.UINT256_EMPTY}).Serialization(sink)
	db.Put(utils.ConcatKey(utils.NodeManagerContractAddress, []byte(node_manager.GOVERNANCE_VIEW)),
		states.GenRawStorageItem(sink.Bytes()))

	pk := vconfig.PubkeyID(op.PublicKey)
	ppm := &node_manager.PeerPoolMap{PeerPoolMap: map[string]*node_manager.PeerPoolItem{
		pk: {Address: op.Address, Status: node_manager.ConsensusStatus, PeerPubkey: pk},
	}}
	sink = common.NewZeroCopySink(nil)
	ppm.Serialization(sink)
	db.Put(utils.ConcatKey(utils.NodeManagerContractAddress, []byte(node_manager.PEER_POOL), utils.GetUint32Bytes(0)),
		states.GenRawStorageItem(sink.Bytes()))

	operator, err := types.AddressFromBookkeepers([]keypair.PublicKey{op.PublicKey})
	if err != nil {
		t.Fatal(err)
	}
	return db, operator
}

func d19Native(t *testing.T, db *storage.CacheDB, signer common.Address, args []byte) *native.NativeService {
	ns, err := native.NewNativeService(db, &types.Transaction{SignedAddr: []common.Address{signer}}, 0, 0, common.Uint256{}, 0, args, false)
	if err != nil {
		t.Fatal(err)
	}
	return ns
}

// d19GenesisArgs builds the SyncGenesisHeader input for a neo3 header at
// `index` whose NextConsensus is the 20-byte script hash filled with `tag`.
func d19GenesisArgs(t *testing.T, index uint32, tag byte) []byte {
	raw := make([]byte, 20)
	for i := range raw {
		raw[i] = tag
	}
	next := helper.UInt160FromBytes(raw)
	hdr := &NeoBlockHeader{Header: block.NewBlockHeader()}
	hdr.SetPrevHash(helper.UInt256Zero)
	hdr.SetMerkleRoot(helper.UInt256Zero)
	hdr.SetTimeStamp(1468595301000)
	hdr.SetIndex(index)
	hdr.SetNextConsensus(next)
	hdr.SetWitnesses([]tx2.Witness{{InvocationScript: []byte{}, VerificationScript: []byte{0x11}}})
	sink := common.NewZeroCopySink(nil)
	if err := hdr.Serialization(sink); err != nil {
		t.Fatal(err)
	}
	param := &scom.SyncGenesisHeaderParam{ChainID: d19ChainID, GenesisHeader: sink.Bytes()}
	sink = common.NewZeroCopySink(nil)
	param.Serialization(sink)
	return sink.Bytes()
}

func TestD19_Neo3Legacy_SyncGenesisHeaderOnlyOnce(t *testing.T) {
	op := account.NewAccount("")
	db, operator := d19NewDB(t, op)
	h := NewNeo3Handler()

	// 1st call installs the trust root (NextConsensus) for the chain at height 100.
	if err := h.SyncGenesisHeader(d19Native(t, db, operator, d19GenesisArgs(t, 100, 0xAA))); err != nil {
		t.Fatalf("first SyncGenesisHeader must succeed: %v", err)
	}
	c1, err := getConsensusValByChainId(d19Native(t, db, operator, nil), d19ChainID)
	if err != nil {
		t.Fatal(err)
	}

	// 2nd call (same chain, different height and NextConsensus) must be rejected.
	err2 := h.SyncGenesisHeader(d19Native(t, db, operator, d19GenesisArgs(t, 5, 0xEE)))
	if err2 == nil {
		t.Errorf("DEFECT: second SyncGenesisHeader for chain %d returned success (nil), want error", d19ChainID)
	}

	// ... and must leave the light-client state unchanged (this part already holds).
	c2, err := getConsensusValByChainId(d19Native(t, db, operator, nil), d19ChainID)
	if err != nil {
		t.Fatal(err)
	}
	if c2.Height != c1.Height || c2.Height != 100 || !c2.NextConsensus.Equals(c1.NextConsensus) {
		t.Errorf("DEFECT: stored consensus (trust root) was replaced: %d/%s -> %d/%s",
			c1.Height, c1.NextConsensus.String(), c2.Height, c2.NextConsensus.String())
	}
}
