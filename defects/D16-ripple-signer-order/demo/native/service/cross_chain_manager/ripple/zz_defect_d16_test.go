package ripple

import (
	"bytes"
	"encoding/hex"
	"encoding/json"
	"fmt"
	"math/big"
	"testing"

	"github.com/polynetwork/poly/common"
	"github.com/polynetwork/poly/core/store/leveldbstore"
	"github.com/polynetwork/poly/core/store/overlaydb"
	ptypes "github.com/polynetwork/poly/core/types"
	"github.com/polynetwork/poly/native"
	"github.com/polynetwork/poly/native/service/governance/side_chain_manager"
	"github.com/polynetwork/poly/native/storage"
	"github.com/polynetwork/ripple-sdk/types"
	"github.com/rubblelabs/ripple/crypto"
	"github.com/rubblelabs/ripple/data"
)

// D16: (*RippleHandler).MultiSign assembles payment.Signers by ranging over the Go map
// multisignInfo.SigMap and puts json.Marshal(payment) into the "multisignedTxJson" notify event.
// With >= 2 signers the order of the Signers array (hence the event bytes persisted in the
// event store of every node executing the block) depends on Go's randomised map iteration.
//
// The test replays the *same* contract-call sequence (4 signers, quorum 4, one MultiSign call per
// signer) many times on fresh in-memory ledgers and requires
//   (a) that the emitted event is byte-identical in every replay, and
//   (b) that the Signers array is in the canonical XRPL order (ascending by signer account id),
//       which is what rippled requires of a multi-signed transaction.

const (
	d16RippleChainId = uint64(39)
	d16FromChainId   = uint64(2)
	d16NumSigners    = 4
	d16Replays       = 40
)

type d16Fixture struct {
	raw      string   // hex of the unsigned multisign payment
	pks      [][]byte // public keys of the multisign account's signers
	txJsons  []string // one signed tx json per signer
	txHash   []byte
	accounts []data.Account
}

func d16NewAccount(t *testing.T, password string) *types.Account {
	seed, err := crypto.GenerateFamilySeed(password)
	if err != nil {
		t.Fatal(err)
	}
	key, err := crypto.NewECDSAKey(seed.Payload())
	if err != nil {
		t.Fatal(err)
	}
	var seq uint32
	id, err := crypto.AccountId(key, &seq)
	if err != nil {
		t.Fatal(err)
	}
	var acc data.Account
	copy(acc[:], id.Payload())
	return &types.Account{Account: acc, Key: key}
}

func d16BuildFixture(t *testing.T) *d16Fixture {
	from, _ := data.NewAccountFromAddress("rsHYGX2AoQ4tXqFywzEeeTDgXFTUfL1Fw9")
	to, _ := data.NewAccountFromAddress("rT4vRkeJsgaq7t6TVJJPsbrQp5oKMGRfN")
	amount, _ := data.NewAmount("13/XRP")
	fee, _ := data.NewValue("0.0002", true)
	payment := types.GeneratePayment(*from, *to, *amount, *fee, 25336389)
	_, rawBytes, err := data.Raw(payment)
	if err != nil {
		t.Fatal(err)
	}
	f := &d16Fixture{raw: hex.EncodeToString(rawBytes), txHash: bytes.Repeat([]byte{0xd1}, 32)}
	for i := 0; i < d16NumSigners; i++ {
		acc := d16NewAccount(t, fmt.Sprintf("d16-signer-%d", i))
		signed, err := acc.MultiSignTx(f.raw)
		if err != nil {
			t.Fatal(err)
		}
		js, err := json.Marshal(signed)
		if err != nil {
			t.Fatal(err)
		}
		var seq uint32
		f.pks = append(f.pks, acc.Key.Public(&seq))
		f.txJsons = append(f.txJsons, string(js))
		f.accounts = append(f.accounts, acc.Account)
	}
	return f
}

// d16Replay executes the full call sequence on a fresh ledger and returns the json string carried
// by the "multisignedTxJson" event.
func d16Replay(t *testing.T, f *d16Fixture) string {
	store, _ := leveldbstore.NewMemLevelDBStore()
	cacheDB := storage.NewCacheDB(overlaydb.NewOverlayDB(store))

	// state prepared by governance (side chain registration) and by MakeTransaction
	setup, _ := native.NewNativeService(cacheDB, new(ptypes.Transaction), 0, 200, common.Uint256{}, 0, nil, false)
	extra := &side_chain_manager.RippleExtraInfo{
		Sequence:      25336389,
		Quorum:        d16NumSigners,
		SignerNum:     d16NumSigners,
		Pks:           f.pks,
		ReserveAmount: big.NewInt(0),
	}
	sink := common.NewZeroCopySink(nil)
	extra.Serialization(sink)
	if err := side_chain_manager.PutSideChain(setup, &side_chain_manager.SideChain{
		ChainId: d16RippleChainId, Name: "ripple", ExtraInfo: sink.Bytes(), CCMCAddress: []byte{},
	}); err != nil {
		t.Fatal(err)
	}
	PutTxJsonInfo(setup, d16FromChainId, f.txHash, f.raw)

	var result string
	events := 0
	for i, txJson := range f.txJsons {
		p := &MultiSignParam{
			ToChainId:    d16RippleChainId,
			AssetAddress: []byte{},
			FromChainId:  d16FromChainId,
			TxHash:       f.txHash,
			TxJson:       txJson,
		}
		in := common.NewZeroCopySink(nil)
		p.Serialization(in)
		service, _ := native.NewNativeService(cacheDB, new(ptypes.Transaction), 0, uint32(201+i), common.Uint256{}, 0, in.Bytes(), false)
		if err := NewRippleHandler().MultiSign(service); err != nil {
			t.Fatalf("MultiSign call %d failed: %v", i, err)
		}
		for _, n := range service.GetNotify() {
			if len(n.States.([]interface{})) > 0 && n.States.([]interface{})[0] == "multisignedTxJson" {
				result = n.States.([]interface{})[4].(string)
				events++
			}
		}
	}
	if events != 1 {
		t.Fatalf("expected exactly one multisignedTxJson event, got %d", events)
	}
	return result
}

func TestDefectD16_MultiSignEventIsDeterministic(t *testing.T) {
	f := d16BuildFixture(t)

	distinct := map[string]int{}
	for i := 0; i < d16Replays; i++ {
		distinct[d16Replay(t, f)]++
	}
	if len(distinct) != 1 {
		for js, n := range distinct {
			p := new(types.MultisignPayment)
			_ = json.Unmarshal([]byte(js), p)
			order := ""
			for _, s := range p.Signers {
				order += s.Signer.Account + " "
			}
			t.Logf("%2d replays -> signer order: %s", n, order)
		}
		t.Fatalf("identical MultiSign call sequence produced %d distinct multisignedTxJson events in %d replays; "+
			"event content depends on map iteration order", len(distinct), d16Replays)
	}

	// canonical XRPL ordering: Signers sorted ascending by account id
	for js := range distinct {
		p := new(types.MultisignPayment)
		if err := json.Unmarshal([]byte(js), p); err != nil {
			t.Fatal(err)
		}
		if len(p.Signers) != d16NumSigners {
			t.Fatalf("expected %d signers, got %d", d16NumSigners, len(p.Signers))
		}
		var prev []byte
		for _, s := range p.Signers {
			acc, err := data.NewAccountFromAddress(s.Signer.Account)
			if err != nil {
				t.Fatal(err)
			}
			if prev != nil && bytes.Compare(prev, acc.Bytes()) >= 0 {
				t.Fatalf("Signers not sorted ascending by account id: %s", js)
			}
			prev = acc.Bytes()
		}
	}
}
