package node_manager_test

// Demonstration for suspected defect D18 (two independent defects):
//
//  (a) node_manager.InitConfig's "already executed" guard reads a storage key
//      that is never written, so a second initConfig invocation replaces the
//      consensus peer pool / governance view.
//  (b) btc.(*BTCHandler).SyncGenesisHeader performs no consensus-operator
//      witness check, so an unsigned transaction can install the BTC trust
//      root.
//
// This is an external test package (node_manager_test) on purpose: header_sync/btc
// already depends (transitively) on node_manager, so an in-package test could
// not import it, and the in-package tests of header_sync/btc do not compile in
// this tree (undefined: netParam).

import (
	"bytes"
	"encoding/binary"
	"strings"
	"testing"

	"github.com/btcsuite/btcd/chaincfg"
	"github.com/btcsuite/btcd/wire"
	"github.com/ontio/ontology-crypto/keypair"
	"github.com/polynetwork/poly/account"
	"github.com/polynetwork/poly/common"
	"github.com/polynetwork/poly/common/config"
	vconfig "github.com/polynetwork/poly/consensus/vbft/config"
	"github.com/polynetwork/poly/core/store/leveldbstore"
	"github.com/polynetwork/poly/core/store/overlaydb"
	"github.com/polynetwork/poly/core/types"
	"github.com/polynetwork/poly/native"
	"github.com/polynetwork/poly/native/service/governance/node_manager"
	"github.com/polynetwork/poly/native/service/header_sync/btc"
	scom "github.com/polynetwork/poly/native/service/header_sync/common"
	"github.com/polynetwork/poly/native/storage"
)

func d18NewDB(t *testing.T) *storage.CacheDB {
	store, err := leveldbstore.NewMemLevelDBStore()
	if err != nil {
		t.Fatal(err)
	}
	return storage.NewCacheDB(overlaydb.NewOverlayDB(store))
}

func d18Native(t *testing.T, db *storage.CacheDB, tx *types.Transaction, args []byte) *native.NativeService {
	ns, err := native.NewNativeService(db, tx, 0, 0, common.Uint256{}, 0, args, false)
	if err != nil {
		t.Fatal(err)
	}
	return ns
}

func d18Accounts(n int) []*account.Account {
	accts := make([]*account.Account, n)
	for i := range accts {
		accts[i] = account.NewAccount("")
	}
	return accts
}

// d18VBFTConfigBytes builds a VBFTConfig which satisfies CheckVBFTConfig and
// whose consensus peers are exactly accts.
func d18VBFTConfigBytes(t *testing.T, accts []*account.Account) []byte {
	cfg := &config.VBFTConfig{
		BlockMsgDelay:        10000,
		HashMsgDelay:         10000,
		PeerHandshakeTimeout: 10,
		MaxBlockChangeView:   1000,
		VrfValue:             strings.Repeat("1", 128),
		VrfProof:             strings.Repeat("2", 128),
	}
	for i, a := range accts {
		cfg.Peers = append(cfg.Peers, &config.VBFTPeerInfo{
			Index:      uint32(i + 1),
			PeerPubkey: vconfig.PubkeyID(a.PublicKey),
			Address:    a.Address.ToBase58(),
		})
	}
	sink := common.NewZeroCopySink(nil)
	if err := cfg.Serialization(sink); err != nil {
		t.Fatal(err)
	}
	return sink.Bytes()
}

func d18Operator(t *testing.T, accts []*account.Account) common.Address {
	pks := make([]keypair.PublicKey, 0, len(accts))
	for _, a := range accts {
		pks = append(pks, a.PublicKey)
	}
	op, err := types.AddressFromBookkeepers(pks)
	if err != nil {
		t.Fatal(err)
	}
	return op
}

// (a) initConfig must be executable only once.
func TestD18_InitConfigOnlyOnce(t *testing.T) {
	db := d18NewDB(t)
	honest := d18Accounts(4)
	attacker := d18Accounts(4)

	// 1. genesis-style initConfig with the honest validator set (unsigned tx,
	//    exactly like core/genesis.NewInitNodeManagerTransaction).
	ns := d18Native(t, db, &types.Transaction{}, d18VBFTConfigBytes(t, honest))
	if _, err := node_manager.InitConfig(ns); err != nil {
		t.Fatalf("first initConfig must succeed: %v", err)
	}
	opBefore, err := node_manager.GetCurConOperator(ns)
	if err != nil {
		t.Fatal(err)
	}
	if opBefore != d18Operator(t, honest) {
		t.Fatalf("unexpected operator after genesis init")
	}

	// 2. a later unsigned transaction invokes initConfig again with a
	//    completely different validator set, on the same ledger state.
	ns2 := d18Native(t, db, &types.Transaction{}, d18VBFTConfigBytes(t, attacker))
	_, err = node_manager.InitConfig(ns2)
	if err == nil {
		t.Errorf("second initConfig succeeded; expected 'initConfig is already executed'")
	}

	// 3. the consensus peer pool / operator must still be the honest one.
	pool, perr := node_manager.GetPeerPoolMap(ns2, 1)
	if perr != nil {
		t.Fatal(perr)
	}
	for _, a := range attacker {
		if _, ok := pool.PeerPoolMap[vconfig.PubkeyID(a.PublicKey)]; ok {
			t.Errorf("attacker peer %s is now in the consensus peer pool of view 1", a.Address.ToBase58())
		}
	}
	for _, a := range honest {
		if _, ok := pool.PeerPoolMap[vconfig.PubkeyID(a.PublicKey)]; !ok {
			t.Errorf("honest peer %s was removed from the consensus peer pool of view 1", a.Address.ToBase58())
		}
	}
	opAfter, err := node_manager.GetCurConOperator(ns2)
	if err != nil {
		t.Fatal(err)
	}
	if opAfter != opBefore {
		t.Errorf("consensus operator changed from %s to %s by a second initConfig",
			opBefore.ToBase58(), opAfter.ToBase58())
	}
}

func d18BtcGenesisParam(chainID uint64) []byte {
	var buf bytes.Buffer
	_ = chaincfg.TestNet3Params.GenesisBlock.Header.BtcEncode(&buf, wire.ProtocolVersion, wire.LatestEncoding)
	h := make([]byte, 4)
	binary.BigEndian.PutUint32(h, 0)
	p := &scom.SyncGenesisHeaderParam{ChainID: chainID, GenesisHeader: append(buf.Bytes(), h...)}
	sink := common.NewZeroCopySink(nil)
	p.Serialization(sink)
	return sink.Bytes()
}

// (b) installing the BTC genesis header (trust root) must require the witness
// of the current consensus operator, like every other SyncGenesisHeader.
func TestD18_BTCSyncGenesisHeaderNeedsOperatorWitness(t *testing.T) {
	const chainID = 1
	db := d18NewDB(t)
	honest := d18Accounts(4)
	ns := d18Native(t, db, &types.Transaction{}, d18VBFTConfigBytes(t, honest))
	if _, err := node_manager.InitConfig(ns); err != nil {
		t.Fatalf("initConfig: %v", err)
	}
	operator := d18Operator(t, honest)
	handler := btc.NewBTCHandler()

	// 1. transaction carrying no signature at all.
	unsigned := d18Native(t, db, &types.Transaction{}, d18BtcGenesisParam(chainID))
	if err := handler.SyncGenesisHeader(unsigned); err == nil {
		t.Errorf("unsigned tx installed the BTC genesis header; expected a checkWitness error")
	}
	if _, err := btc.GetBestBlockHeader(unsigned, chainID); err == nil {
		t.Errorf("BTC trust root for chain %d is stored after an unsigned SyncGenesisHeader", chainID)
	}

	// 2. transaction signed by some arbitrary non-operator account.
	stranger := account.NewAccount("")
	strangerNs := d18Native(t, db, &types.Transaction{SignedAddr: []common.Address{stranger.Address}},
		d18BtcGenesisParam(chainID+1))
	if err := handler.SyncGenesisHeader(strangerNs); err == nil {
		t.Errorf("non-operator tx installed the BTC genesis header; expected a checkWitness error")
	}

	// 3. transaction witnessed by the consensus operator must (still) work.
	signed := d18Native(t, db, &types.Transaction{SignedAddr: []common.Address{operator}},
		d18BtcGenesisParam(chainID+2))
	if err := handler.SyncGenesisHeader(signed); err != nil {
		t.Errorf("operator-signed SyncGenesisHeader must succeed: %v", err)
	}
	if _, err := btc.GetBestBlockHeader(signed, chainID+2); err != nil {
		t.Errorf("operator-signed SyncGenesisHeader did not store the header: %v", err)
	}
}
