package ont

// Demonstration for defect D24:
//
// VerifyCrossChainMsg (utils.go) accepts a caller supplied bookkeeper list
// without checking that the listed public keys are DISTINCT. Because
// signature.VerifyMultiSignature only masks key *slots* (not key values), a
// single tracked consensus peer can list its own key k times, repeat its one
// signature k times, and thereby satisfy the "enough bookkeepers" threshold on
// its own. The sibling verifyHeader in the same file rejects this through its
// usedPubKey map.
//
// The tests below drive the real ONTHandler.SyncCrossChainMsg entry point.

import (
	"encoding/json"
	"testing"

	"github.com/ontio/ontology-crypto/keypair"
	osig "github.com/ontio/ontology-crypto/signature"
	ocommon "github.com/ontio/ontology/common"
	otypes "github.com/ontio/ontology/core/types"
	"github.com/polynetwork/poly/common"
	vconfig "github.com/polynetwork/poly/consensus/vbft/config"
	"github.com/polynetwork/poly/core/store/leveldbstore"
	"github.com/polynetwork/poly/core/store/overlaydb"
	"github.com/polynetwork/poly/core/types"
	"github.com/polynetwork/poly/native"
	scom "github.com/polynetwork/poly/native/service/header_sync/common"
	"github.com/polynetwork/poly/native/storage"
)

const d24ChainID = uint64(3)

type d24Peer struct {
	pri keypair.PrivateKey
	pub keypair.PublicKey
}

func d24NewPeers(t *testing.T, n int) []d24Peer {
	peers := make([]d24Peer, 0, n)
	for i := 0; i < n; i++ {
		pri, pub, err := keypair.GenerateKeyPair(keypair.PK_ECDSA, keypair.P256)
		if err != nil {
			t.Fatalf("GenerateKeyPair: %v", err)
		}
		peers = append(peers, d24Peer{pri: pri, pub: pub})
	}
	return peers
}

// d24Setup creates an in-memory native service whose header-sync store tracks
// the given ONT consensus peers from key height 0 on. The peers are installed
// with the real UpdateConsensusPeer (the function SyncGenesisHeader uses) fed
// with a genesis header carrying a vbft NewChainConfig.
func d24Setup(t *testing.T, peers []d24Peer) *storage.CacheDB {
	store, err := leveldbstore.NewMemLevelDBStore()
	if err != nil {
		t.Fatalf("NewMemLevelDBStore: %v", err)
	}
	db := storage.NewCacheDB(overlaydb.NewOverlayDB(store))
	ns, err := native.NewNativeService(db, new(types.Transaction), 0, 0, common.Uint256{}, 0, nil, false)
	if err != nil {
		t.Fatalf("NewNativeService: %v", err)
	}

	cfg := &vconfig.ChainConfig{Version: 1, View: 1, N: uint32(len(peers)), C: uint32((len(peers) - 1) / 3)}
	for i, p := range peers {
		cfg.Peers = append(cfg.Peers, &vconfig.PeerConfig{Index: uint32(i + 1), ID: vconfig.PubkeyID(p.pub)})
	}
	payload, err := json.Marshal(&vconfig.VbftBlockInfo{NewChainConfig: cfg})
	if err != nil {
		t.Fatalf("marshal VbftBlockInfo: %v", err)
	}
	genesis := &otypes.Header{Height: 0, ConsensusPayload: payload}
	if err := UpdateConsensusPeer(ns, d24ChainID, genesis); err != nil {
		t.Fatalf("UpdateConsensusPeer: %v", err)
	}
	return db
}

// d24Sync builds the wire form "CrossChainMsg || varuint(n) || n * varbytes(pubkey)"
// and submits it through the real ONTHandler.SyncCrossChainMsg.
func d24Sync(t *testing.T, db *storage.CacheDB, msg *otypes.CrossChainMsg, bookkeepers []keypair.PublicKey) error {
	sink := ocommon.NewZeroCopySink(nil)
	msg.Serialization(sink)
	sink.WriteVarUint(uint64(len(bookkeepers)))
	for _, bk := range bookkeepers {
		sink.WriteVarBytes(keypair.SerializePublicKey(bk))
	}

	param := &scom.SyncCrossChainMsgParam{
		ChainID:        d24ChainID,
		CrossChainMsgs: [][]byte{sink.Bytes()},
	}
	psink := common.NewZeroCopySink(nil)
	param.Serialization(psink)

	ns, err := native.NewNativeService(db, new(types.Transaction), 0, 0, common.Uint256{}, 0, psink.Bytes(), false)
	if err != nil {
		t.Fatalf("NewNativeService: %v", err)
	}
	return NewONTHandler().SyncCrossChainMsg(ns)
}

func d24Sign(t *testing.T, p d24Peer, msg *otypes.CrossChainMsg) []byte {
	hash := msg.Hash()
	sig, err := osig.Sign(osig.SHA256withECDSA, p.pri, hash[:], nil)
	if err != nil {
		t.Fatalf("Sign: %v", err)
	}
	raw, err := osig.Serialize(sig)
	if err != nil {
		t.Fatalf("Serialize sig: %v", err)
	}
	return raw
}

func d24Stored(t *testing.T, db *storage.CacheDB, height uint32) *otypes.CrossChainMsg {
	ns, err := native.NewNativeService(db, new(types.Transaction), 0, 0, common.Uint256{}, 0, nil, false)
	if err != nil {
		t.Fatalf("NewNativeService: %v", err)
	}
	m, err := GetCrossChainMsg(ns, d24ChainID, height)
	if err != nil {
		return nil
	}
	return m
}

// The defect: ONE of seven tracked validators forges a cross chain message
// (arbitrary StatesRoot) by listing its key three times and repeating its
// single signature three times. Correct behaviour: rejected, nothing stored.
func TestDefectD24_DuplicatedBookkeeperForgesCrossChainMsg(t *testing.T) {
	peers := d24NewPeers(t, 7)
	db := d24Setup(t, peers)
	rogue := peers[0]

	forged := &otypes.CrossChainMsg{Version: 0, Height: 1}
	for i := range forged.StatesRoot {
		forged.StatesRoot[i] = 0xEE // attacker chosen state root
	}
	sig := d24Sign(t, rogue, forged)

	// sanity: the same validator alone, listed once, is below the threshold.
	forged.SigData = [][]byte{sig}
	if err := d24Sync(t, db, forged, []keypair.PublicKey{rogue.pub}); err == nil {
		t.Fatalf("a single bookkeeper (1 of 7) must not be enough")
	}
	if d24Stored(t, db, 1) != nil {
		t.Fatalf("message with a single bookkeeper must not be stored")
	}

	// attack: same key x3, same signature x3.
	forged.SigData = [][]byte{sig, sig, sig}
	err := d24Sync(t, db, forged, []keypair.PublicKey{rogue.pub, rogue.pub, rogue.pub})
	if err == nil {
		t.Errorf("DEFECT: cross chain msg signed by ONE validator (key and signature repeated 3 times) was accepted by SyncCrossChainMsg")
	}
	if m := d24Stored(t, db, 1); m != nil {
		t.Errorf("DEFECT: forged cross chain msg stored for chain %d height %d with StatesRoot %s",
			d24ChainID, m.Height, m.StatesRoot.ToHexString())
	}
}

// Control: a message carrying three DISTINCT tracked validators' signatures is
// (and must stay) accepted, so that a fix does not remove functionality.
func TestDefectD24_DistinctBookkeepersStillAccepted(t *testing.T) {
	peers := d24NewPeers(t, 7)
	db := d24Setup(t, peers)

	msg := &otypes.CrossChainMsg{Version: 0, Height: 1}
	msg.StatesRoot[0] = 0x01
	var bks []keypair.PublicKey
	for _, p := range peers[:3] {
		msg.SigData = append(msg.SigData, d24Sign(t, p, msg))
		bks = append(bks, p.pub)
	}
	if err := d24Sync(t, db, msg, bks); err != nil {
		t.Fatalf("honest cross chain msg with 3 distinct bookkeepers rejected: %v", err)
	}
	if d24Stored(t, db, 1) == nil {
		t.Fatalf("honest cross chain msg was not stored")
	}
}
