package relayer_manager

// Demonstration for defect D33(b): ApproveRemoveRelayer applies an approved
// removal request but never consumes the pending RELAYER_REMOVE record, so the
// same removal id stays "pending" forever and can be approved and applied again
// without a new RemoveRelayer request.

import (
	"testing"

	"github.com/polynetwork/poly/account"
	"github.com/polynetwork/poly/common"
	"github.com/polynetwork/poly/core/types"
	"github.com/polynetwork/poly/native/service/utils"
	"github.com/polynetwork/poly/native/storage"
)

func d33ListInput(owner common.Address, list []common.Address) []byte {
	p := &RelayerListParam{AddressList: list, Address: owner}
	sink := common.NewZeroCopySink(nil)
	p.Serialization(sink)
	return sink.Bytes()
}

func d33ApproveInput(id uint64, approver common.Address) []byte {
	p := &ApproveRelayerParam{ID: id, Address: approver}
	sink := common.NewZeroCopySink(nil)
	p.Serialization(sink)
	return sink.Bytes()
}

func d33IsRelayer(t *testing.T, db *storage.CacheDB, addr common.Address) bool {
	v, err := db.Get(utils.ConcatKey(utils.RelayerManagerContractAddress, []byte(RELAYER), addr[:]))
	if err != nil {
		t.Fatalf("db.Get relayer: %v", err)
	}
	return v != nil
}

func TestD33ApprovedRemoveRelayerIsConsumed(t *testing.T) {
	// 4 consensus nodes => quorum is (2*4+2)/3 = 3 approvals.
	nodes := make([]*account.Account, 4)
	for i := range nodes {
		nodes[i] = account.NewAccount("")
	}
	owner := account.NewAccount("")
	relayer := common.Address{0xd3, 0x3b}

	base := NewNative(nil, &types.Transaction{}, nil)
	db := base.GetCacheDB()
	putPeerMapPoolAndView(db, nodes)

	register := func(signer common.Address, input []byte) ([]byte, error) {
		return RegisterRelayer(NewNative(input, &types.Transaction{SignedAddr: []common.Address{signer}}, db))
	}
	approveRegister := func(signer common.Address, input []byte) ([]byte, error) {
		return ApproveRegisterRelayer(NewNative(input, &types.Transaction{SignedAddr: []common.Address{signer}}, db))
	}
	remove := func(signer common.Address, input []byte) ([]byte, error) {
		return RemoveRelayer(NewNative(input, &types.Transaction{SignedAddr: []common.Address{signer}}, db))
	}
	approveRemove := func(signer common.Address, input []byte) ([]byte, error) {
		return ApproveRemoveRelayer(NewNative(input, &types.Transaction{SignedAddr: []common.Address{signer}}, db))
	}
	must := func(step string, res []byte, err error) {
		t.Helper()
		if err != nil || string(res) != string(utils.BYTE_TRUE) {
			t.Fatalf("%s: res=%v err=%v", step, res, err)
		}
	}

	// 1. register the relayer (apply id 0) and approve it with a quorum.
	res, err := register(owner.Address, d33ListInput(owner.Address, []common.Address{relayer}))
	must("RegisterRelayer #0", res, err)
	for _, n := range nodes[:3] {
		res, err = approveRegister(n.Address, d33ApproveInput(0, n.Address))
		must("ApproveRegisterRelayer #0", res, err)
	}
	if !d33IsRelayer(t, db, relayer) {
		t.Fatalf("setup: relayer not registered after quorum approval")
	}

	// 2. request its removal (remove id 0) and approve it with a quorum.
	res, err = remove(owner.Address, d33ListInput(owner.Address, []common.Address{relayer}))
	must("RemoveRelayer #0", res, err)
	for _, n := range nodes[:3] {
		res, err = approveRemove(n.Address, d33ApproveInput(0, n.Address))
		must("ApproveRemoveRelayer #0", res, err)
	}
	if d33IsRelayer(t, db, relayer) {
		t.Fatalf("setup: relayer still registered after quorum-approved removal")
	}

	// PROPERTY: the approved and applied request is no longer pending.
	if _, err := getRelayerRemove(NewNative(nil, &types.Transaction{}, db), 0); err == nil {
		t.Errorf("DEFECT: remove request id 0 is still pending after it was approved and applied")
	}
	// The sibling ApproveRegisterRelayer rejects a late approval of an applied id; so must this.
	if _, err := approveRegister(nodes[3].Address, d33ApproveInput(0, nodes[3].Address)); err == nil {
		t.Fatalf("sanity: late ApproveRegisterRelayer of applied id 0 unexpectedly accepted")
	}
	_, lateErr := approveRemove(nodes[3].Address, d33ApproveInput(0, nodes[3].Address))
	if lateErr == nil {
		t.Errorf("DEFECT: late ApproveRemoveRelayer of already applied remove id 0 accepted (opens a new signing round)")
	}

	// 3. the relayer is registered again later (apply id 1, quorum approved) ...
	res, err = register(owner.Address, d33ListInput(owner.Address, []common.Address{relayer}))
	must("RegisterRelayer #1", res, err)
	for _, n := range nodes[:3] {
		res, err = approveRegister(n.Address, d33ApproveInput(1, n.Address))
		must("ApproveRegisterRelayer #1", res, err)
	}
	if !d33IsRelayer(t, db, relayer) {
		t.Fatalf("setup: relayer not registered after second quorum approval")
	}

	// 4. ... and NOBODY files a new RemoveRelayer request. Approvals that name the
	// stale remove id 0 must not be able to remove the relayer a second time.
	for _, n := range nodes[:3] {
		approveRemove(n.Address, d33ApproveInput(0, n.Address))
	}
	if !d33IsRelayer(t, db, relayer) {
		t.Errorf("DEFECT: stale remove request id 0 was applied a second time: relayer %x removed without a new RemoveRelayer request", relayer[:])
	}
}
