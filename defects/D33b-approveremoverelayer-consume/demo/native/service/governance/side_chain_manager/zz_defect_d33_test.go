package side_chain_manager

// Demonstration for defect D33(a): ApproveQuitSideChain deletes the key
// <contract>|"quitSideChain"|chainid, but the pending quit request is stored
// (putQuitSideChain) and looked up (getQuitSideChain) under
// <contract>|"quitSideChainRequest"|chainid. The approved request is therefore
// never consumed: it stays pending and can be approved and applied again
// against a later re-registration of the same chain id, without a QuitSideChain
// request of the (new) owner.

import (
	"testing"

	"github.com/polynetwork/poly/account"
	"github.com/polynetwork/poly/common"
	vconfig "github.com/polynetwork/poly/consensus/vbft/config"
	cstates "github.com/polynetwork/poly/core/states"
	"github.com/polynetwork/poly/core/types"
	"github.com/polynetwork/poly/native"
	"github.com/polynetwork/poly/native/service/governance/node_manager"
	"github.com/polynetwork/poly/native/service/utils"
	"github.com/polynetwork/poly/native/storage"
)

// d33PutConsensus installs view 0 with the given accounts as consensus peers.
func d33PutConsensus(db *storage.CacheDB, nodes []*account.Account) {
	peerPoolMap := &node_manager.PeerPoolMap{PeerPoolMap: make(map[string]*node_manager.PeerPoolItem)}
	for i, n := range nodes {
		pk := vconfig.PubkeyID(n.PublicKey)
		peerPoolMap.PeerPoolMap[pk] = &node_manager.PeerPoolItem{
			Index:      uint32(i),
			PeerPubkey: pk,
			Address:    n.Address,
			Status:     node_manager.ConsensusStatus,
		}
	}
	sink := common.NewZeroCopySink(nil)
	peerPoolMap.Serialization(sink)
	db.Put(utils.ConcatKey(utils.NodeManagerContractAddress, []byte(node_manager.PEER_POOL), utils.GetUint32Bytes(0)),
		cstates.GenRawStorageItem(sink.Bytes()))

	govView := node_manager.GovernanceView{View: 0, Height: 10, TxHash: common.UINT256_EMPTY}
	sink = common.NewZeroCopySink(nil)
	govView.Serialization(sink)
	db.Put(utils.ConcatKey(utils.NodeManagerContractAddress, []byte(node_manager.GOVERNANCE_VIEW)),
		cstates.GenRawStorageItem(sink.Bytes()))
}

func d33RegisterInput(t *testing.T, owner common.Address, chainID uint64, name string) []byte {
	p := &RegisterSideChainParam{
		Address:      owner,
		ChainId:      chainID,
		Router:       3,
		Name:         name,
		BlocksToWait: 4,
		CCMCAddress:  []byte{0xcc},
		ExtraInfo:    []byte{},
	}
	sink := common.NewZeroCopySink(nil)
	if err := p.Serialization(sink); err != nil {
		t.Fatalf("RegisterSideChainParam.Serialization: %v", err)
	}
	return sink.Bytes()
}

func d33ChainidInput(chainID uint64, signer common.Address) []byte {
	p := &ChainidParam{Chainid: chainID, Address: signer}
	sink := common.NewZeroCopySink(nil)
	p.Serialization(sink)
	return sink.Bytes()
}

func TestD33ApprovedQuitSideChainIsConsumed(t *testing.T) {
	const chainID = uint64(833)

	// 4 consensus nodes => quorum is (2*4+2)/3 = 3 approvals.
	nodes := make([]*account.Account, 4)
	for i := range nodes {
		nodes[i] = account.NewAccount("")
	}
	ownerA := account.NewAccount("")
	ownerB := account.NewAccount("")

	db := NewNative(nil, &types.Transaction{}, nil).GetCacheDB()
	d33PutConsensus(db, nodes)

	// ns builds the native service for one transaction signed by signer.
	ns := func(signer common.Address, input []byte) *native.NativeService {
		return NewNative(input, &types.Transaction{SignedAddr: []common.Address{signer}}, db)
	}
	must := func(step string, res []byte, err error) {
		t.Helper()
		if err != nil || string(res) != string(utils.BYTE_TRUE) {
			t.Fatalf("%s: res=%v err=%v", step, res, err)
		}
	}
	registered := func() *SideChain {
		t.Helper()
		sc, err := GetSideChain(NewNative(nil, &types.Transaction{}, db), chainID)
		if err != nil {
			t.Fatalf("GetSideChain: %v", err)
		}
		return sc
	}

	// 1. owner A registers the chain, a quorum approves.
	res, err := RegisterSideChain(ns(ownerA.Address, d33RegisterInput(t, ownerA.Address, chainID, "chainA")))
	must("RegisterSideChain A", res, err)
	for _, n := range nodes[:3] {
		res, err = ApproveRegisterSideChain(ns(n.Address, d33ChainidInput(chainID, n.Address)))
		must("ApproveRegisterSideChain A", res, err)
	}
	if sc := registered(); sc == nil || sc.Address != ownerA.Address {
		t.Fatalf("setup: side chain of owner A not registered: %+v", sc)
	}

	// 2. owner A requests to quit, a quorum approves: chain is removed.
	res, err = QuitSideChain(ns(ownerA.Address, d33ChainidInput(chainID, ownerA.Address)))
	must("QuitSideChain A", res, err)
	for _, n := range nodes[:3] {
		res, err = ApproveQuitSideChain(ns(n.Address, d33ChainidInput(chainID, n.Address)))
		must("ApproveQuitSideChain A", res, err)
	}
	if registered() != nil {
		t.Fatalf("setup: side chain still registered after quorum-approved quit")
	}

	// PROPERTY: the approved and applied quit request is no longer pending.
	if err := getQuitSideChain(NewNative(nil, &types.Transaction{}, db), chainID); err == nil {
		t.Errorf("DEFECT: quit request for chain %d is still pending after it was approved and applied", chainID)
	}
	// A late approval of the already applied request must be rejected ("no record"),
	// not accepted as the first signature of a fresh approval round.
	if _, err := ApproveQuitSideChain(ns(nodes[3].Address, d33ChainidInput(chainID, nodes[3].Address))); err == nil {
		t.Errorf("DEFECT: late ApproveQuitSideChain of the already applied quit request accepted (opens a new signing round)")
	}

	// 3. the same chain id is registered again, now by owner B, and approved.
	res, err = RegisterSideChain(ns(ownerB.Address, d33RegisterInput(t, ownerB.Address, chainID, "chainB")))
	must("RegisterSideChain B", res, err)
	for _, n := range nodes[:3] {
		res, err = ApproveRegisterSideChain(ns(n.Address, d33ChainidInput(chainID, n.Address)))
		must("ApproveRegisterSideChain B", res, err)
	}
	if sc := registered(); sc == nil || sc.Address != ownerB.Address {
		t.Fatalf("setup: side chain of owner B not registered: %+v", sc)
	}

	// 4. owner B never calls QuitSideChain. Approvals naming the chain id must not
	// be able to remove B's chain on the strength of A's stale, already applied request.
	for _, n := range nodes[:3] {
		ApproveQuitSideChain(ns(n.Address, d33ChainidInput(chainID, n.Address)))
	}
	if sc := registered(); sc == nil {
		t.Errorf("DEFECT: owner B's side chain %d was removed by re-approving owner A's stale quit request; B never requested to quit", chainID)
	}
}
