package types

import (
	"bytes"
	"encoding/binary"
	"fmt"
	"testing"

	"github.com/polynetwork/poly/common"
	"github.com/polynetwork/poly/common/config"
	comm "github.com/polynetwork/poly/p2pserver/common"
)

// Demonstration for suspected defect D05 (property C05: "reading arbitrary
// byte streams never panics").
//
// An "addr" payload whose 8-byte little-endian count is >= 2^63 makes
// (*Addr).Deserialization skip its read loop (int(count) is negative), clamp
// count to MAX_ADDR_NODE_CNT and then evaluate this.NodeAddrs[:64] on a nil
// slice, which panics.  ReadMessage has no recover(), and neither has the
// reader goroutine (*Link).Rx in p2pserver/link, so one correctly framed
// 32-byte message takes the whole node down.

// d05NoPanic runs f and converts a panic into a returned description.
func d05NoPanic(f func() error) (err error, panicked interface{}) {
	defer func() {
		if r := recover(); r != nil {
			panicked = r
		}
	}()
	return f(), nil
}

// d05Frame builds a complete, correctly framed p2p message by hand
// (magic | cmd[12] | length | checksum[4] | payload), independent of WriteMessage.
func d05Frame(cmd string, payload []byte) []byte {
	frame := make([]byte, 0, comm.MSG_HDR_LEN+len(payload))
	var u32 [4]byte
	binary.LittleEndian.PutUint32(u32[:], config.DefConfig.P2PNode.NetworkMagic)
	frame = append(frame, u32[:]...)
	var c [comm.MSG_CMD_LEN]byte
	copy(c[:], cmd)
	frame = append(frame, c[:]...)
	binary.LittleEndian.PutUint32(u32[:], uint32(len(payload)))
	frame = append(frame, u32[:]...)
	sum := comm.Checksum(payload)
	frame = append(frame, sum[:]...)
	frame = append(frame, payload...)
	return frame
}

func d05PeerAddr(i int) comm.PeerAddr {
	var ip [16]byte
	copy(ip[:], []byte{0, 0, 0, 0, 0, 0, 0, 0, 0, 0, 0xff, 0xff, 10, 0, byte(i >> 8), byte(i)})
	return comm.PeerAddr{
		Time:          int64(1600000000 + i),
		Services:      uint64(i % 3),
		IpAddr:        ip,
		Port:          uint16(20000 + i),
		ConsensusPort: uint16(30000 + i),
		ID:            uint64(0xabcdef0000 + i),
	}
}

// (1) Deserialization of the bare 8-byte payload ff..ff must not panic; it must
// report an error, because the payload claims 2^64-1 addresses and holds none.
func TestD05_AddrDeserialization_HugeCount_NoPanic(t *testing.T) {
	payload := []byte{0xff, 0xff, 0xff, 0xff, 0xff, 0xff, 0xff, 0xff}

	var msg Addr
	err, p := d05NoPanic(func() error {
		return msg.Deserialization(common.NewZeroCopySource(payload))
	})
	if p != nil {
		t.Fatalf("(*Addr).Deserialization panicked on 8-byte payload %x: %v", payload, p)
	}
	if err == nil {
		t.Fatalf("(*Addr).Deserialization accepted a payload that claims %d addresses but carries none (got %d addrs)",
			uint64(1<<64-1), len(msg.NodeAddrs))
	}
}

// (2) The same payload, correctly framed, fed to ReadMessage (which is what the
// link reader goroutine calls on bytes straight from the socket).
func TestD05_ReadMessage_AddrHugeCount_NoPanic(t *testing.T) {
	payload := []byte{0xff, 0xff, 0xff, 0xff, 0xff, 0xff, 0xff, 0xff}
	frame := d05Frame(comm.ADDR_TYPE, payload)
	if len(frame) != comm.MSG_HDR_LEN+8 {
		t.Fatalf("unexpected frame length %d", len(frame))
	}

	// sanity: our hand-made framing is exactly what the code itself accepts
	// (an empty addr message built the same way is read back fine).
	if m, n, err := ReadMessage(bytes.NewReader(d05Frame(comm.ADDR_TYPE, make([]byte, 8)))); err != nil || n != 8 || m.CmdType() != comm.ADDR_TYPE {
		t.Fatalf("hand-made frame with count 0 not accepted: msg=%v n=%d err=%v", m, n, err)
	}

	var got Message
	err, p := d05NoPanic(func() error {
		var e error
		got, _, e = ReadMessage(bytes.NewReader(frame))
		return e
	})
	if p != nil {
		t.Fatalf("ReadMessage panicked on the %d-byte frame %x: %v", len(frame), frame, p)
	}
	if err == nil {
		t.Fatalf("ReadMessage accepted an addr frame with an unsatisfiable count: %#v", got)
	}
}

// Other counts with the top bit set, with and without trailing address bytes,
// must not panic either.
func TestD05_AddrDeserialization_TopBitCounts_NoPanic(t *testing.T) {
	one := common.NewZeroCopySink(nil)
	if err := (Addr{NodeAddrs: []comm.PeerAddr{d05PeerAddr(1)}}).Serialization(one); err != nil {
		t.Fatal(err)
	}
	oneAddrBytes := one.Bytes()[8:] // one serialized PeerAddr, without the count

	counts := []uint64{1 << 63, 1<<63 + 1, 1<<63 + 64, 1<<64 - 2, 1<<64 - 1}
	for _, count := range counts {
		for _, tail := range [][]byte{nil, oneAddrBytes[:5], oneAddrBytes, append(append([]byte{}, oneAddrBytes...), oneAddrBytes...)} {
			payload := make([]byte, 8, 8+len(tail))
			binary.LittleEndian.PutUint64(payload, count)
			payload = append(payload, tail...)
			name := fmt.Sprintf("count=%#x/tail=%d", count, len(tail))

			var msg Addr
			err, p := d05NoPanic(func() error {
				return msg.Deserialization(common.NewZeroCopySource(payload))
			})
			if p != nil {
				t.Errorf("%s: Deserialization panicked: %v", name, p)
				continue
			}
			if err == nil {
				t.Errorf("%s: Deserialization accepted an unsatisfiable count", name)
			}

			err, p = d05NoPanic(func() error {
				_, _, e := ReadMessage(bytes.NewReader(d05Frame(comm.ADDR_TYPE, payload)))
				return e
			})
			if p != nil {
				t.Errorf("%s: ReadMessage panicked: %v", name, p)
			} else if err == nil {
				t.Errorf("%s: ReadMessage accepted an unsatisfiable count", name)
			}
		}
	}
}

// (3) Honest traffic keeps working exactly as today: a small Addr round-trips,
// and one with more than MAX_ADDR_NODE_CNT entries is truncated to the limit
// (its first MAX_ADDR_NODE_CNT entries, in order).  A count that is merely too
// large for the bytes present (but < 2^63) keeps returning an error.
func TestD05_HonestAddr_RoundTripAndTruncation(t *testing.T) {
	for _, n := range []int{0, 1, 3, comm.MAX_ADDR_NODE_CNT, comm.MAX_ADDR_NODE_CNT + 1, 200} {
		var msg Addr
		for i := 0; i < n; i++ {
			msg.NodeAddrs = append(msg.NodeAddrs, d05PeerAddr(i))
		}

		sink := common.NewZeroCopySink(nil)
		if err := WriteMessage(sink, &msg); err != nil {
			t.Fatalf("n=%d: WriteMessage: %v", n, err)
		}
		// WriteMessage must agree with the hand-made framing used above.
		pl := common.NewZeroCopySink(nil)
		_ = msg.Serialization(pl)
		if !bytes.Equal(sink.Bytes(), d05Frame(comm.ADDR_TYPE, pl.Bytes())) {
			t.Fatalf("n=%d: WriteMessage framing differs from hand-made framing", n)
		}

		var out Message
		var size uint32
		err, p := d05NoPanic(func() error {
			var e error
			out, size, e = ReadMessage(bytes.NewReader(sink.Bytes()))
			return e
		})
		if p != nil {
			t.Fatalf("n=%d: ReadMessage panicked on an honest message: %v", n, p)
		}
		if err != nil {
			t.Fatalf("n=%d: ReadMessage: %v", n, err)
		}
		if int(size) != 8+44*n {
			t.Fatalf("n=%d: payload size %d, want %d", n, size, 8+44*n)
		}
		got, ok := out.(*Addr)
		if !ok {
			t.Fatalf("n=%d: got %T", n, out)
		}
		want := n
		if want > comm.MAX_ADDR_NODE_CNT {
			want = comm.MAX_ADDR_NODE_CNT
		}
		if len(got.NodeAddrs) != want {
			t.Fatalf("n=%d: got %d addrs, want %d", n, len(got.NodeAddrs), want)
		}
		for i := 0; i < want; i++ {
			if got.NodeAddrs[i] != msg.NodeAddrs[i] {
				t.Fatalf("n=%d: addr %d differs: %+v != %+v", n, i, got.NodeAddrs[i], msg.NodeAddrs[i])
			}
		}
	}

	// count = 5 but only 3 addresses present: error today, error after.
	var three Addr
	for i := 0; i < 3; i++ {
		three.NodeAddrs = append(three.NodeAddrs, d05PeerAddr(i))
	}
	pl := common.NewZeroCopySink(nil)
	_ = three.Serialization(pl)
	short := append([]byte{}, pl.Bytes()...)
	binary.LittleEndian.PutUint64(short, 5)
	err, p := d05NoPanic(func() error {
		_, _, e := ReadMessage(bytes.NewReader(d05Frame(comm.ADDR_TYPE, short)))
		return e
	})
	if p != nil {
		t.Fatalf("short message panicked: %v", p)
	}
	if err == nil {
		t.Fatalf("short message (count 5, 3 addrs) was accepted")
	}
}
