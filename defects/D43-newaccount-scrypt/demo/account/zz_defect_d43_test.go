package account

import (
	"path/filepath"
	"testing"

	"github.com/ontio/ontology-crypto/keypair"
	s "github.com/ontio/ontology-crypto/signature"
)

// Demonstration for D43: an account created with NewAccount in a wallet whose
// scrypt section is not the library default must still be decryptable with its
// password, both immediately and after the wallet file is reloaded.
//
// The wallet with non-default scrypt parameters is produced exactly the way
// `account export --low-security` (cmd/account_cmd.go accountExport) does it:
// Clone() + ToLowSecurity() + Save().
func TestD43NewAccountInNonDefaultScryptWallet(t *testing.T) {
	dir := t.TempDir()
	srcPath := filepath.Join(dir, "wallet_default.dat")
	lowPath := filepath.Join(dir, "wallet_low.dat")
	pwd := []byte("passw0rd")

	// 1. ordinary wallet with one account (default scrypt parameters)
	src, err := Open(srcPath)
	if err != nil {
		t.Fatalf("open source wallet: %s", err)
	}
	accA, err := src.NewAccount("a", keypair.PK_ECDSA, keypair.P256, s.SHA256withECDSA, pwd)
	if err != nil {
		t.Fatalf("NewAccount a: %s", err)
	}

	// 2. `account export --low-security`
	wd := src.GetWalletData().Clone()
	if err := wd.ToLowSecurity([][]byte{pwd}); err != nil {
		t.Fatalf("ToLowSecurity: %s", err)
	}
	if err := wd.Save(lowPath); err != nil {
		t.Fatalf("save low security wallet: %s", err)
	}

	// 3. open the exported wallet; the pre-existing account is fine
	low, err := Open(lowPath)
	if err != nil {
		t.Fatalf("open low security wallet: %s", err)
	}
	if n := low.GetWalletData().Scrypt.N; n != 4096 {
		t.Fatalf("precondition: expected wallet scrypt N=4096, got %d", n)
	}
	got, err := low.GetAccountByAddress(accA.Address.ToBase58(), pwd)
	if err != nil || got == nil {
		t.Fatalf("precondition: re-encrypted account a must decrypt, err=%v", err)
	}

	// 4. `account add` on that wallet
	accB, err := low.NewAccount("b", keypair.PK_ECDSA, keypair.P256, s.SHA256withECDSA, pwd)
	if err != nil {
		t.Fatalf("NewAccount b: %s", err)
	}
	addrB := accB.Address.ToBase58()

	// 5. same client instance: the new account must decrypt with its password
	got, err = low.GetAccountByAddress(addrB, pwd)
	if err != nil {
		t.Errorf("account b created by NewAccount cannot be decrypted in the same client: %s", err)
	} else if got == nil || got.Address != accB.Address {
		t.Errorf("account b decrypted to a different account")
	}

	// 6. reload the wallet file from disk: it must still decrypt
	reloaded, err := Open(lowPath)
	if err != nil {
		t.Fatalf("reopen low security wallet: %s", err)
	}
	if reloaded.GetAccountNum() != 2 {
		t.Fatalf("expected 2 accounts after reload, got %d", reloaded.GetAccountNum())
	}
	got, err = reloaded.GetAccountByAddress(addrB, pwd)
	if err != nil {
		t.Errorf("account b created by NewAccount cannot be decrypted after reload: %s", err)
	} else if got == nil || got.Address != accB.Address {
		t.Errorf("account b decrypted to a different account after reload")
	}
	// the older account keeps working
	got, err = reloaded.GetAccountByLabel("a", pwd)
	if err != nil || got == nil || got.Address != accA.Address {
		t.Errorf("account a must still decrypt after reload, err=%v", err)
	}
	// and the password of b can be changed (ChangePassword decrypts with wallet params)
	if err := reloaded.ChangePassword(addrB, pwd, []byte("another")); err != nil {
		t.Errorf("ChangePassword on account b failed: %s", err)
	}
}
