package side_chain_manager

// Demonstration for suspected defect D17:
//
// RegisterRedeem and SetBtcTxParam both keep their pending m-of-n signature
// collections in the SAME record kind "bindSignInfo" and the two message
// layouts are not disjoint:
//
//   RegisterRedeem : Hash160(redeem) || LE64(RedeemChainID) || ContractAddress (free bytes) || LE64(ContractChainID)
//   SetBtcTxParam  : Hash160(redeem) || LE64(RedeemChainId) || varuint(PVersion) varuint(FeeRate) varuint(MinChange)
//
// With ContractAddress = 00 01 FF and ContractChainID = 2^32 the first message
// ends in 00 01 FF 00 00 00 00 01 00 00 00, which is exactly the var-uint
// encoding of PVersion = 0, FeeRate = 1, MinChange = 2^32.  Signatures given
// for one operation are therefore counted towards the threshold of the other.

import (
	"testing"

	"github.com/btcsuite/btcd/btcec"
	"github.com/btcsuite/btcd/txscript"
	"github.com/btcsuite/btcutil"
	"github.com/polynetwork/poly/common"
	"github.com/polynetwork/poly/core/store/leveldbstore"
	"github.com/polynetwork/poly/core/store/overlaydb"
	"github.com/polynetwork/poly/core/types"
	"github.com/polynetwork/poly/native"
	"github.com/polynetwork/poly/native/service/utils"
	"github.com/polynetwork/poly/native/storage"
)

const (
	d17RedeemChainID   = uint64(1)
	d17ContractChainID = uint64(1) << 32 // LE64 = 00 00 00 00 01 00 00 00
	d17PVersion        = uint64(0)       // varuint = 00
	d17FeeRate         = uint64(1)       // varuint = 01
	d17MinChange       = uint64(1) << 32 // varuint = FF 00 00 00 00 01 00 00 00
)

var d17ContractAddress = []byte{0x00, 0x01, 0xFF}

// d17Multisig builds a fresh 5-of-7 multisig redeem script and returns the keys.
func d17Multisig(t *testing.T) ([]*btcec.PrivateKey, []byte) {
	privs := make([]*btcec.PrivateKey, 7)
	addrs := make([]*btcutil.AddressPubKey, 7)
	for i := range privs {
		p, err := btcec.NewPrivateKey(btcec.S256())
		if err != nil {
			t.Fatal(err)
		}
		a, err := btcutil.NewAddressPubKey(p.PubKey().SerializeCompressed(), netParam)
		if err != nil {
			t.Fatal(err)
		}
		privs[i], addrs[i] = p, a
	}
	redeem, err := txscript.MultiSigScript(addrs, 5)
	if err != nil {
		t.Fatal(err)
	}
	return privs, redeem
}

func d17Sign(t *testing.T, p *btcec.PrivateKey, hash []byte) []byte {
	s, err := p.Sign(hash)
	if err != nil {
		t.Fatal(err)
	}
	return s.Serialize()
}

// message signed by the redeem key holders for RegisterRedeem (same as verifyRedeemRegister)
func d17RegisterHash(redeem []byte) []byte {
	b := append([]byte{}, redeem...)
	b = append(b, utils.GetUint64Bytes(d17RedeemChainID)...)
	b = append(b, d17ContractAddress...)
	b = append(b, utils.GetUint64Bytes(d17ContractChainID)...)
	b = append(b, utils.GetUint64Bytes(0)...) // CVersion
	return btcutil.Hash160(b)
}

// message signed by the redeem key holders for SetBtcTxParam (same as verifyBtcTxParam)
func d17ParamHash(redeem []byte) []byte {
	b := append([]byte{}, redeem...)
	b = append(b, utils.GetUint64Bytes(d17RedeemChainID)...)
	b = append(b, utils.GetUint64Bytes(d17FeeRate)...)
	b = append(b, utils.GetUint64Bytes(d17MinChange)...)
	b = append(b, utils.GetUint64Bytes(d17PVersion)...)
	return btcutil.Hash160(b)
}

func d17NewDB() *storage.CacheDB {
	store, _ := leveldbstore.NewMemLevelDBStore()
	return storage.NewCacheDB(overlaydb.NewOverlayDB(store))
}

func d17Service(t *testing.T, db *storage.CacheDB, input []byte) *native.NativeService {
	ns, err := native.NewNativeService(db, new(types.Transaction), 0, 200, common.Uint256{}, 0, input, false)
	if err != nil {
		t.Fatal(err)
	}
	return ns
}

func d17CallRegisterRedeem(t *testing.T, db *storage.CacheDB, redeem []byte, sigs [][]byte) *native.NativeService {
	p := &RegisterRedeemParam{
		RedeemChainID:   d17RedeemChainID,
		ContractChainID: d17ContractChainID,
		Redeem:          redeem,
		CVersion:        0,
		ContractAddress: d17ContractAddress,
		Signs:           sigs,
	}
	sink := common.NewZeroCopySink(nil)
	p.Serialization(sink)
	ns := d17Service(t, db, sink.Bytes())
	ok, err := RegisterRedeem(ns)
	if err != nil || string(ok) != string(utils.BYTE_TRUE) {
		t.Fatalf("RegisterRedeem must accept valid signatures: ok=%v err=%v", ok, err)
	}
	return ns
}

func d17CallSetBtcTxParam(t *testing.T, db *storage.CacheDB, redeem []byte, sigs [][]byte) (*native.NativeService, error) {
	p := &BtcTxParam{
		Redeem:        redeem,
		RedeemChainId: d17RedeemChainID,
		Sigs:          sigs,
		Detial:        &BtcTxParamDetial{PVersion: d17PVersion, FeeRate: d17FeeRate, MinChange: d17MinChange},
	}
	sink := common.NewZeroCopySink(nil)
	p.Serialization(sink)
	ns := d17Service(t, db, sink.Bytes())
	_, err := SetBtcTxParam(ns)
	return ns, err
}

// 4 of the 7 key holders sign a contract binding (below the 5-of-7 threshold),
// then ONE key holder signs a SetBtcTxParam request. One signature out of the
// required five must not be enough to install the BTC transaction parameters.
func TestDefectD17_RegisterRedeemSigsCountForSetBtcTxParam(t *testing.T) {
	privs, redeem := d17Multisig(t)
	rk := btcutil.Hash160(redeem)
	db := d17NewDB()

	rh := d17RegisterHash(redeem)
	var regSigs [][]byte
	for _, p := range privs[:4] {
		regSigs = append(regSigs, d17Sign(t, p, rh))
	}
	ns := d17CallRegisterRedeem(t, db, redeem, regSigs)
	if len(ns.GetNotify()) != 0 {
		t.Fatalf("4 of 5 required signatures must not complete the binding")
	}
	if cb, _ := GetContractBind(ns, d17RedeemChainID, d17ContractChainID, rk); cb != nil {
		t.Fatalf("4 of 5 required signatures must not complete the binding")
	}

	// a single signature (key #5) for the BTC tx parameters
	ns, err := d17CallSetBtcTxParam(t, db, redeem, [][]byte{d17Sign(t, privs[4], d17ParamHash(redeem))})
	if err != nil {
		t.Fatalf("SetBtcTxParam with one valid signature should just record it, got error: %v", err)
	}
	detail, err := GetBtcTxParam(ns, rk, d17RedeemChainID)
	if err != nil {
		t.Fatal(err)
	}
	if detail != nil {
		t.Errorf("DEFECT: BTC tx parameters (feeRate=%d, minChange=%d) were installed with ONE SetBtcTxParam "+
			"signature of a 5-of-7 redeem script; the 4 signatures collected by RegisterRedeem were counted "+
			"because both operations share the same bindSignInfo storage key", detail.FeeRate, detail.MinChange)
	}
	if n := len(ns.GetNotify()); n != 0 {
		t.Errorf("DEFECT: SetBtcTxParam emitted %d completion event(s) with a single signature", n)
	}
}

// The other direction: 4 key holders sign BTC tx parameters, then ONE key
// holder signs a contract binding. The binding must stay pending.
func TestDefectD17_SetBtcTxParamSigsCountForRegisterRedeem(t *testing.T) {
	privs, redeem := d17Multisig(t)
	rk := btcutil.Hash160(redeem)
	db := d17NewDB()

	ph := d17ParamHash(redeem)
	var parSigs [][]byte
	for _, p := range privs[:4] {
		parSigs = append(parSigs, d17Sign(t, p, ph))
	}
	ns, err := d17CallSetBtcTxParam(t, db, redeem, parSigs)
	if err != nil {
		t.Fatal(err)
	}
	if d, _ := GetBtcTxParam(ns, rk, d17RedeemChainID); d != nil {
		t.Fatalf("4 of 5 required signatures must not install the parameters")
	}

	ns = d17CallRegisterRedeem(t, db, redeem, [][]byte{d17Sign(t, privs[4], d17RegisterHash(redeem))})
	cb, err := GetContractBind(ns, d17RedeemChainID, d17ContractChainID, rk)
	if err != nil {
		t.Fatal(err)
	}
	if cb != nil {
		t.Errorf("DEFECT: contract %x was bound to the redeem script with ONE RegisterRedeem signature of a "+
			"5-of-7 redeem script; the 4 signatures collected by SetBtcTxParam were counted", cb.Contract)
	}
}

// A completed (strange but valid) contract binding must not block the key
// holders from later setting the BTC tx parameters whose encoding happens to
// coincide with the binding's key.
func TestDefectD17_CompletedBindingBlocksSetBtcTxParam(t *testing.T) {
	privs, redeem := d17Multisig(t)
	rk := btcutil.Hash160(redeem)
	db := d17NewDB()

	rh := d17RegisterHash(redeem)
	var regSigs [][]byte
	for _, p := range privs[:5] {
		regSigs = append(regSigs, d17Sign(t, p, rh))
	}
	ns := d17CallRegisterRedeem(t, db, redeem, regSigs)
	if cb, _ := GetContractBind(ns, d17RedeemChainID, d17ContractChainID, rk); cb == nil {
		t.Fatalf("5 of 5 required signatures must complete the binding")
	}

	ph := d17ParamHash(redeem)
	var parSigs [][]byte
	for _, p := range privs[:5] {
		parSigs = append(parSigs, d17Sign(t, p, ph))
	}
	ns, err := d17CallSetBtcTxParam(t, db, redeem, parSigs)
	if err != nil {
		t.Errorf("DEFECT: fully signed SetBtcTxParam rejected because of an unrelated RegisterRedeem record: %v", err)
	}
	if d, _ := GetBtcTxParam(ns, rk, d17RedeemChainID); d == nil {
		t.Errorf("DEFECT: fully signed BTC tx parameters were not installed")
	}
}
