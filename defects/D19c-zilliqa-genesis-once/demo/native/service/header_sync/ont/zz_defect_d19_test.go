package ont

// D19 demonstration: ONTHandler.SyncGenesisHeader has no "genesis already
// stored" guard, so a second operator-signed SyncGenesisHeader for the same
// side chain silently replaces the trust root (consensus peer set, header
// index, current height, key heights).

import (
	"encoding/json"
	"testing"

	"github.com/ontio/ontology-crypto/keypair"
	otypes "github.com/ontio/ontology/core/types"
	"github.com/polynetwork/poly/account"
	"github.com/polynetwork/poly/common"
	vconfig "github.com/polynetwork/poly/consensus/vbft/config"
	"github.com/polynetwork/poly/core/states"
	"github.com/polynetwork/poly/core/store/leveldbstore"
	"github.com/polynetwork/poly/core/store/overlaydb"
	"github.com/polynetwork/poly/core/types"
	"github.com/polynetwork/poly/native"
	"github.com/polynetwork/poly/native/service/governance/node_manager"
	scom "github.com/polynetwork/poly/native/service/header_sync/common"
	"github.com/polynetwork/poly/native/service/utils"
	"github.com/polynetwork/poly/native/storage"
)

const d19ChainID = uint64(3)

// d19NewDB builds an in-memory cache DB in which `op` is the only consensus
// peer, i.e. the current consensus operator is the address derived from op.
func d19NewDB(t *testing.T, op *account.Account) (*storage.CacheDB, common.Address) {
	store, err := leveldbstore.NewMemLevelDBStore()
	if err != nil {
		t.Fatal(err)
	}
	db := storage.NewCacheDB(overlaydb.NewOverlayDB(store))

	sink := common.NewZeroCopySink(nil)
	(&node_manager.GovernanceView{TxHash: common.UINT256_EMPTY}).Serialization(sink)
	db.Put(utils.ConcatKey(utils.NodeManagerContractAddress, []byte(node_manager.GOVERNANCE_VIEW)),
		states.GenRawStorageItem(sink.Bytes()))

	pk := vconfig.PubkeyID(op.PublicKey)
	ppm := &node_manager.PeerPoolMap{PeerPoolMap: map[string]*node_manager.PeerPoolItem{
		pk: {Address: op.Address, Status: node_manager.ConsensusStatus, PeerPubkey: pk},
	}}
	sink = common.NewZeroCopySink(nil)
	ppm.Serialization(sink)
	db.Put(utils.ConcatKey(utils.NodeManagerContractAddress, []byte(node_manager.PEER_POOL), utils.GetUint32Bytes(0)),
		states.GenRawStorageItem(sink.Bytes()))

	operator, err := types.AddressFromBookkeepers([]keypair.PublicKey{op.PublicKey})
	if err != nil {
		t.Fatal(err)
	}
	return db, operator
}

func d19Native(t *testing.T, db *storage.CacheDB, signer common.Address, args []byte) *native.NativeService {
	ns, err := native.NewNativeService(db, &types.Transaction{SignedAddr: []common.Address{signer}}, 0, 0, common.Uint256{}, 0, args, false)
	if err != nil {
		t.Fatal(err)
	}
	return ns
}

// d19GenesisArgs builds the SyncGenesisHeader input for an ontology header at
// `height` whose VBFT payload announces the given consensus peer ids.
func d19GenesisArgs(t *testing.T, height uint32, peerIDs ...string) []byte {
	cfg := &vconfig.ChainConfig{N: uint32(len(peerIDs))}
	for i, id := range peerIDs {
		cfg.Peers = append(cfg.Peers, &vconfig.PeerConfig{Index: uint32(i + 1), ID: id})
	}
	payload, err := json.Marshal(&vconfig.VbftBlockInfo{NewChainConfig: cfg})
	if err != nil {
		t.Fatal(err)
	}
	hdr := &otypes.Header{Height: height, Timestamp: 1, ConsensusPayload: payload}
	param := &scom.SyncGenesisHeaderParam{ChainID: d19ChainID, GenesisHeader: hdr.ToArray()}
	sink := common.NewZeroCopySink(nil)
	param.Serialization(sink)
	return sink.Bytes()
}

func TestD19_ONT_SyncGenesisHeaderOnlyOnce(t *testing.T) {
	op := account.NewAccount("")
	db, operator := d19NewDB(t, op)
	h := NewONTHandler()

	const honestPeer = "02aaaaaaaaaaaaaaaaaaaaaaaaaaaaaaaaaaaaaaaaaaaaaaaaaaaaaaaaaaaaaaaa"
	const evilPeer = "03bbbbbbbbbbbbbbbbbbbbbbbbbbbbbbbbbbbbbbbbbbbbbbbbbbbbbbbbbbbbbbbb"

	// 1st call installs the trust root for chain 3 at height 100.
	if err := h.SyncGenesisHeader(d19Native(t, db, operator, d19GenesisArgs(t, 100, honestPeer))); err != nil {
		t.Fatalf("first SyncGenesisHeader must succeed: %v", err)
	}
	ns := d19Native(t, db, operator, nil)
	hdr1, err := GetHeaderByHeight(ns, d19ChainID, 100)
	if err != nil {
		t.Fatal(err)
	}
	peers1, err := getConsensusPeersByHeight(ns, d19ChainID, 100)
	if err != nil {
		t.Fatal(err)
	}
	if _, ok := peers1.PeerMap[honestPeer]; !ok || len(peers1.PeerMap) != 1 {
		t.Fatalf("unexpected initial peers: %v", peers1.PeerMap)
	}

	// 2nd call (same chain, same height, different validator set) must be rejected.
	err2 := h.SyncGenesisHeader(d19Native(t, db, operator, d19GenesisArgs(t, 100, evilPeer)))
	if err2 == nil {
		t.Errorf("DEFECT: second SyncGenesisHeader for chain %d succeeded, want error", d19ChainID)
	}

	// ... and must leave the light-client state unchanged.
	ns = d19Native(t, db, operator, nil)
	peers2, err := getConsensusPeersByHeight(ns, d19ChainID, 100)
	if err != nil {
		t.Fatal(err)
	}
	if _, ok := peers2.PeerMap[honestPeer]; !ok || len(peers2.PeerMap) != 1 {
		t.Errorf("DEFECT: consensus peers (trust root) at key height 100 were replaced: now %v", d19Keys(peers2.PeerMap))
	}
	hdr2, err := GetHeaderByHeight(ns, d19ChainID, 100)
	if err != nil {
		t.Fatal(err)
	}
	if h1, h2 := hdr1.Hash(), hdr2.Hash(); h1 != h2 {
		t.Errorf("DEFECT: stored genesis header at height 100 was replaced: %s -> %s", h1.ToHexString(), h2.ToHexString())
	}
	kh, err := GetKeyHeights(ns, d19ChainID)
	if err != nil {
		t.Fatal(err)
	}
	if len(kh.HeightList) != 1 {
		t.Errorf("DEFECT: key heights changed by second genesis sync: %v", kh.HeightList)
	}
}

func d19Keys(m map[string]*Peer) []string {
	r := make([]string, 0, len(m))
	for k := range m {
		r = append(r, k)
	}
	return r
}
