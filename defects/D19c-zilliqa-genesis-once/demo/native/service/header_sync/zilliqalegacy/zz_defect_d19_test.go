package zilliqalegacy

// D19 demonstration: in Handler.SyncGenesisHeader the "genesis header had been
// initialized" guard is commented out, so a second operator-signed
// SyncGenesisHeader for the same side chain silently replaces the trust root
// (stored genesis header, main-chain tip / current height and the DS
// committee used to verify every later block).

import (
	"encoding/json"
	"testing"

	"github.com/ontio/ontology-crypto/keypair"
	"github.com/polynetwork/poly/account"
	"github.com/polynetwork/poly/common"
	vconfig "github.com/polynetwork/poly/consensus/vbft/config"
	"github.com/polynetwork/poly/core/states"
	"github.com/polynetwork/poly/core/store/leveldbstore"
	"github.com/polynetwork/poly/core/store/overlaydb"
	"github.com/polynetwork/poly/core/types"
	"github.com/polynetwork/poly/native"
	"github.com/polynetwork/poly/native/service/governance/node_manager"
	scom "github.com/polynetwork/poly/native/service/header_sync/common"
	"github.com/polynetwork/poly/native/service/utils"
	"github.com/polynetwork/poly/native/storage"
	"github.com/renlulu/gozilliqa-sdklegacy/core"
)

const d19ChainID = uint64(17)

// d19NewDB builds an in-memory cache DB in which `op` is the only consensus
// peer, i.e. the current consensus operator is the address derived from op.
func d19NewDB(t *testing.T, op *account.Account) (*storage.CacheDB, common.Address) {
	store, err := leveldbstore.NewMemLevelDBStore()
	if err != nil {
		t.Fatal(err)
	}
	db := storage.NewCacheDB(overlaydb.NewOverlayDB(store))

	sink := common.NewZeroCopySink(nil)
	(&node_manager.GovernanceView{TxHash: common.UINT256_EMPTY}).Serialization(sink)
	db.Put(utils.ConcatKey(utils.NodeManagerContractAddress, []byte(node_manager.GOVERNANCE_VIEW)),
		states.GenRawStorageItem(sink.Bytes()))

	pk := vconfig.PubkeyID(op.PublicKey)
	ppm := &node_manager.PeerPoolMap{PeerPoolMap: map[string]*node_manager.PeerPoolItem{
		pk: {Address: op.Address, Status: node_manager.ConsensusStatus, PeerPubkey: pk},
	}}
	sink = common.NewZeroCopySink(nil)
	ppm.Serialization(sink)
	db.Put(utils.ConcatKey(utils.NodeManagerContractAddress, []byte(node_manager.PEER_POOL), utils.GetUint32Bytes(0)),
		states.GenRawStorageItem(sink.Bytes()))

	operator, err := types.AddressFromBookkeepers([]keypair.PublicKey{op.PublicKey})
	if err != nil {
		t.Fatal(err)
	}
	return db, operator
}

func d19Native(t *testing.T, db *storage.CacheDB, signer common.Address, args []byte) *native.NativeService {
	ns, err := native.NewNativeService(db, &types.Transaction{SignedAddr: []common.Address{signer}}, 0, 0, common.Uint256{}, 0, args, false)
	if err != nil {
		t.Fatal(err)
	}
	return ns
}

// d19GenesisArgs builds the SyncGenesisHeader input: a tx block `txNum`
// (hash filled with `tag`) in DS epoch `dsNum` plus the DS committee `comm`.
func d19GenesisArgs(t *testing.T, tag byte, txNum, dsNum uint64, comm ...string) []byte {
	var txHash, dsHash [32]byte
	for i := range txHash {
		txHash[i], dsHash[i] = tag, tag+1
	}
	g := &TxBlockAndDsComm{
		TxBlock: &core.TxBlock{BlockBase: core.BlockBase{BlockHash: txHash}, BlockHeader: &core.TxBlockHeader{BlockNum: txNum, DSBlockNum: dsNum}},
		DsBlock: &core.DsBlock{BlockBase: core.BlockBase{BlockHash: dsHash}, BlockHeader: &core.DsBlockHeader{BlockNum: dsNum}},
	}
	for _, pk := range comm {
		g.DsComm = append(g.DsComm, core.PairOfNode{PubKey: pk})
	}
	raw, err := json.Marshal(g)
	if err != nil {
		t.Fatal(err)
	}
	param := &scom.SyncGenesisHeaderParam{ChainID: d19ChainID, GenesisHeader: raw}
	sink := common.NewZeroCopySink(nil)
	param.Serialization(sink)
	return sink.Bytes()
}

func TestD19_Zilliqa_SyncGenesisHeaderOnlyOnce(t *testing.T) {
	op := account.NewAccount("")
	db, operator := d19NewDB(t, op)
	h := NewHandler()

	// 1st call installs the trust root for chain 17: tx block 100, DS epoch 10, committee {HONEST1, HONEST2}.
	if err := h.SyncGenesisHeader(d19Native(t, db, operator, d19GenesisArgs(t, 0x11, 100, 10, "HONEST1", "HONEST2"))); err != nil {
		t.Fatalf("first SyncGenesisHeader must succeed: %v", err)
	}
	ns := d19Native(t, db, operator, nil)
	genesisKey := utils.ConcatKey(utils.HeaderSyncContractAddress, []byte(scom.GENESIS_HEADER), utils.GetUint64Bytes(d19ChainID))
	g1, err := ns.GetCacheDB().Get(genesisKey)
	if err != nil || g1 == nil {
		t.Fatalf("genesis header not stored: %v", err)
	}
	comm1, err := getDsComm(ns, 10, d19ChainID)
	if err != nil || len(comm1) != 2 {
		t.Fatalf("unexpected initial ds committee: %v %v", comm1, err)
	}

	// 2nd call (same chain, different block, same DS epoch, attacker committee) must be rejected.
	err2 := h.SyncGenesisHeader(d19Native(t, db, operator, d19GenesisArgs(t, 0x66, 7, 10, "EVIL")))
	if err2 == nil {
		t.Errorf("DEFECT: second SyncGenesisHeader for chain %d succeeded, want error", d19ChainID)
	}

	// ... and must leave the light-client state unchanged.
	ns = d19Native(t, db, operator, nil)
	g2, _ := ns.GetCacheDB().Get(genesisKey)
	if string(g1) != string(g2) {
		t.Errorf("DEFECT: stored genesis header was replaced")
	}
	comm2, err := getDsComm(ns, 10, d19ChainID)
	if err != nil {
		t.Fatal(err)
	}
	if len(comm2) != 2 || comm2[0].PubKey != "HONEST1" || comm2[1].PubKey != "HONEST2" {
		t.Errorf("DEFECT: DS committee (trust root) of epoch 10 was replaced: now %+v", comm2)
	}
	ht, err := GetCurrentTxHeaderHeight(ns, d19ChainID)
	if err != nil {
		t.Fatal(err)
	}
	if ht != 100 {
		t.Errorf("DEFECT: current header height was rewound: 100 -> %d", ht)
	}
}
