package ledgerstore

// Demonstration for suspected defect D12:
//
//   recoverStore() must, after a crash between blockStore.CommitTo() and
//   stateStore.CommitTo() in submitBlock(), re-apply exactly the blocks in
//   (stateHeight, blockHeight] to the state store.  The unchanged code iterates
//   [stateHeight, blockHeight) instead: it re-applies the block that is already
//   in the state store and never applies the block that is missing.
//
// The test drives the real LedgerStoreImp on real on-disk leveldb stores:
//   - ledger "control": genesis + block 1 saved by submitBlock() (no crash)
//   - ledger "crash":   genesis + block 1 saved by the very same sequence of
//     calls that submitBlock() performs, but stopping right before
//     stateStore.CommitTo() (= the process died there); then the ledger is
//     closed, re-opened and InitLedgerStoreWithGenesisBlock() runs recoverStore().
// After recovery the state store of "crash" must be byte-identical to "control".

import (
	"encoding/hex"
	"encoding/json"
	"path/filepath"
	"testing"

	"github.com/ontio/ontology-crypto/keypair"
	"github.com/polynetwork/poly/account"
	"github.com/polynetwork/poly/common"
	"github.com/polynetwork/poly/common/config"
	vconfig "github.com/polynetwork/poly/consensus/vbft/config"
	"github.com/polynetwork/poly/core/genesis"
	"github.com/polynetwork/poly/core/types"
)

func d12DumpStateDB(t *testing.T, ls *LedgerStoreImp) map[string]string {
	t.Helper()
	out := make(map[string]string)
	it := ls.stateStore.store.NewIterator(nil)
	defer it.Release()
	for ok := it.First(); ok; ok = it.Next() {
		out[hex.EncodeToString(it.Key())] = hex.EncodeToString(it.Value())
	}
	if err := it.Error(); err != nil {
		t.Fatalf("iterate state db: %s", err)
	}
	return out
}

// d12Block1 builds an (empty) block of height 1 on top of the genesis block.
func d12Block1(t *testing.T, ls *LedgerStoreImp, genesisBlock *types.Block) *types.Block {
	t.Helper()
	payload, err := json.Marshal(&vconfig.VbftBlockInfo{LastConfigBlockNum: 0})
	if err != nil {
		t.Fatal(err)
	}
	genesisHash := genesisBlock.Hash()
	header := &types.Header{
		Version:          types.CURR_HEADER_VERSION,
		ChainID:          genesisBlock.Header.ChainID,
		PrevBlockHash:    genesisHash,
		Timestamp:        genesisBlock.Header.Timestamp + 1,
		Height:           1,
		ConsensusData:    1,
		ConsensusPayload: payload,
		NextBookkeeper:   genesisBlock.Header.NextBookkeeper,
		BlockRoot:        ls.GetBlockRootWithPreBlockHashes(1, []common.Uint256{genesisHash}),
	}
	block := &types.Block{Header: header, Transactions: []*types.Transaction{}}
	block.RebuildMerkleRoot()
	return block
}

func TestDefectD12_RecoverStoreAfterCrashBetweenBlockAndStateCommit(t *testing.T) {
	var bookkeepers []keypair.PublicKey
	for i := 0; i < 7; i++ {
		bookkeepers = append(bookkeepers, account.NewAccount("").PublicKey)
	}
	genesisBlock, err := genesis.BuildGenesisBlock(bookkeepers, config.DefConfig.Genesis)
	if err != nil {
		t.Fatalf("BuildGenesisBlock: %s", err)
	}

	// ---------------------------------------------------------------- control
	controlDir := filepath.Join(t.TempDir(), "control")
	control, err := NewLedgerStore(controlDir)
	if err != nil {
		t.Fatalf("NewLedgerStore(control): %s", err)
	}
	if err := control.InitLedgerStoreWithGenesisBlock(genesisBlock, bookkeepers); err != nil {
		t.Fatalf("control init: %s", err)
	}
	block1 := d12Block1(t, control, genesisBlock)
	result, err := control.executeBlock(block1)
	if err != nil {
		t.Fatalf("control executeBlock(1): %s", err)
	}
	if err := control.submitBlock(block1, result); err != nil {
		t.Fatalf("control submitBlock(1): %s", err)
	}
	wantStateRoot1, err := control.GetStateMerkleRoot(1)
	if err != nil {
		t.Fatalf("control GetStateMerkleRoot(1): %s", err)
	}
	wantDump := d12DumpStateDB(t, control)
	if err := control.Close(); err != nil {
		t.Fatalf("control close: %s", err)
	}

	// ------------------------------------------------------------------ crash
	crashDir := filepath.Join(t.TempDir(), "crash")
	ls, err := NewLedgerStore(crashDir)
	if err != nil {
		t.Fatalf("NewLedgerStore(crash): %s", err)
	}
	if err := ls.InitLedgerStoreWithGenesisBlock(genesisBlock, bookkeepers); err != nil {
		t.Fatalf("crash init: %s", err)
	}
	if b := d12Block1(t, ls, genesisBlock); b.Hash() != block1.Hash() {
		t.Fatalf("test bug: block 1 differs between the two ledgers")
	}
	result, err = ls.executeBlock(block1)
	if err != nil {
		t.Fatalf("executeBlock(1): %s", err)
	}
	// Same sequence as submitBlock() ...
	ls.blockStore.NewBatch()
	ls.stateStore.NewBatch()
	ls.eventStore.NewBatch()
	if err := ls.saveBlockToBlockStore(block1); err != nil {
		t.Fatal(err)
	}
	if err := ls.saveBlockToStateStore(block1, result); err != nil {
		t.Fatal(err)
	}
	if err := ls.saveBlockToEventStore(block1); err != nil {
		t.Fatal(err)
	}
	if err := ls.blockStore.CommitTo(); err != nil {
		t.Fatal(err)
	}
	if err := ls.eventStore.CommitTo(); err != nil {
		t.Fatal(err)
	}
	// ... and the process dies here: stateStore.CommitTo() never happens.
	if err := ls.Close(); err != nil {
		t.Fatalf("close after simulated crash: %s", err)
	}

	// ---------------------------------------------------------------- restart
	ls, err = NewLedgerStore(crashDir)
	if err != nil {
		t.Fatalf("re-open after crash: %s", err)
	}
	_, blockHeight, err := ls.blockStore.GetCurrentBlock()
	if err != nil {
		t.Fatal(err)
	}
	_, stateHeight, err := ls.stateStore.GetCurrentBlock()
	if err != nil {
		t.Fatal(err)
	}
	if blockHeight != 1 || stateHeight != 0 {
		t.Fatalf("crash simulation is wrong: blockHeight=%d stateHeight=%d, want 1 and 0", blockHeight, stateHeight)
	}
	// runs init() -> recoverStore()
	if err := ls.InitLedgerStoreWithGenesisBlock(genesisBlock, bookkeepers); err != nil {
		t.Fatalf("init (recovery) after crash: %s", err)
	}

	// ----------------------------------------------------------------- checks
	stateHash, stateHeight, err := ls.stateStore.GetCurrentBlock()
	if err != nil {
		t.Fatal(err)
	}
	block1Hash := block1.Hash()
	if stateHeight != 1 || stateHash != block1Hash {
		t.Errorf("after recovery the state store is at height %d (hash %s); want height 1 (hash %s): block 1 was never applied to the state",
			stateHeight, stateHash.ToHexString(), block1Hash.ToHexString())
	}
	treeSize, _, err := ls.stateStore.GetBlockMerkleTree()
	if err != nil {
		t.Fatal(err)
	}
	if treeSize != stateHeight+1 {
		t.Errorf("after recovery block merkle tree size = %d but state height = %d (want size = height+1): a block was applied twice",
			treeSize, stateHeight)
	}
	gotStateRoot1, err := ls.GetStateMerkleRoot(1)
	if err != nil {
		t.Errorf("after recovery GetStateMerkleRoot(1) fails: %s", err)
	} else if gotStateRoot1 != wantStateRoot1 {
		t.Errorf("after recovery state merkle root(1) = %s, want %s", gotStateRoot1.ToHexString(), wantStateRoot1.ToHexString())
	}
	gotDump := d12DumpStateDB(t, ls)
	for k, want := range wantDump {
		got, ok := gotDump[k]
		if !ok {
			t.Errorf("state db after recovery lacks key %s", k)
		} else if got != want {
			t.Errorf("state db after recovery differs at key %s:\n got  %s\n want %s", k, got, want)
		}
	}
	for k := range gotDump {
		if _, ok := wantDump[k]; !ok {
			t.Errorf("state db after recovery has extra key %s", k)
		}
	}
	if err := ls.Close(); err != nil {
		t.Fatalf("close after recovery: %s", err)
	}

	// A second restart must work as well (the state store checks that its
	// block merkle tree is consistent with its current height when opening).
	ls, err = NewLedgerStore(crashDir)
	if err != nil {
		t.Fatalf("second restart after recovery fails: %s", err)
	}
	if err := ls.InitLedgerStoreWithGenesisBlock(genesisBlock, bookkeepers); err != nil {
		t.Errorf("second restart: init fails: %s", err)
	}
	if ls.GetCurrentBlockHash() != block1Hash {
		t.Errorf("second restart: current block is not block 1")
	}
	if err := ls.Close(); err != nil {
		t.Fatalf("close: %s", err)
	}
}
