package merkle

import (
	"testing"

	"github.com/polynetwork/poly/common"
)

// D07: MerkleProve treats every position flag other than LEFT (0) as RIGHT, so a
// proof whose flag byte was ALTERED from 1 to 2 (or any other non-zero value)
// still verifies.  (It also ignores trailing bytes shorter than one (flag, hash)
// pair — recorded as an observation, not claimed under C07.)
func TestD07_AlteredPositionFlagStillVerifies(t *testing.T) {
	values := [][]byte{[]byte("a"), []byte("b"), []byte("c"), []byte("d")}
	var leaves []common.Uint256
	for _, v := range values {
		leaves = append(leaves, HashLeaf(v))
	}
	root := TreeHasher{}.HashFullTreeWithLeafHash(leaves)
	path, err := MerkleLeafPath(values[0], leaves)
	if err != nil {
		t.Fatal(err)
	}
	if _, err := MerkleProve(path, root[:]); err != nil {
		t.Fatalf("honest proof rejected: %v", err)
	}
	// varbytes(value) = 1 length byte + 1 data byte, then the first position flag
	flagAt := 2
	if path[flagAt] != RIGHT {
		t.Fatalf("unexpected layout: flag %d", path[flagAt])
	}
	altered := append([]byte{}, path...)
	altered[flagAt] = 2 // neither LEFT (0) nor RIGHT (1)
	if v, err := MerkleProve(altered, root[:]); err == nil {
		t.Errorf("proof with position flag altered from 1 to 2 still verifies (value %q)", v)
	}
}
