package quorum

// D19 demonstration: QuorumHandler.SyncGenesisHeader has no "genesis already
// stored" guard, so a second operator-signed SyncGenesisHeader for the same
// side chain silently replaces the trust root (the Istanbul validator set and
// its height).

import (
	"encoding/json"
	"math/big"
	"testing"

	ecom "github.com/ethereum/go-ethereum/common"
	etypes "github.com/ethereum/go-ethereum/core/types"
	"github.com/ethereum/go-ethereum/rlp"
	"github.com/ontio/ontology-crypto/keypair"
	"github.com/polynetwork/poly/account"
	"github.com/polynetwork/poly/common"
	vconfig "github.com/polynetwork/poly/consensus/vbft/config"
	"github.com/polynetwork/poly/core/states"
	"github.com/polynetwork/poly/core/store/leveldbstore"
	"github.com/polynetwork/poly/core/store/overlaydb"
	"github.com/polynetwork/poly/core/types"
	"github.com/polynetwork/poly/native"
	"github.com/polynetwork/poly/native/service/governance/node_manager"
	scom "github.com/polynetwork/poly/native/service/header_sync/common"
	"github.com/polynetwork/poly/native/service/utils"
	"github.com/polynetwork/poly/native/storage"
)

const d19ChainID = uint64(8)

// d19NewDB builds an in-memory cache DB in which `op` is the only consensus
// peer, i.e. the current consensus operator is the address derived from op.
func d19NewDB(t *testing.T, op *account.Account) (*storage.CacheDB, common.Address) {
	store, err := leveldbstore.NewMemLevelDBStore()
	if err != nil {
		t.Fatal(err)
	}
	db := storage.NewCacheDB(overlaydb.NewOverlayDB(store))

	sink := common.NewZeroCopySink(nil)
	(&node_manager.GovernanceView{TxHash: common.UINT256_EMPTY}).Serialization(sink)
	db.Put(utils.ConcatKey(utils.NodeManagerContractAddress, []byte(node_manager.GOVERNANCE_VIEW)),
		states.GenRawStorageItem(sink.Bytes()))

	pk := vconfig.PubkeyID(op.PublicKey)
	ppm := &node_manager.PeerPoolMap{PeerPoolMap: map[string]*node_manager.PeerPoolItem{
		pk: {Address: op.Address, Status: node_manager.ConsensusStatus, PeerPubkey: pk},
	}}
	sink = common.NewZeroCopySink(nil)
	ppm.Serialization(sink)
	db.Put(utils.ConcatKey(utils.NodeManagerContractAddress, []byte(node_manager.PEER_POOL), utils.GetUint32Bytes(0)),
		states.GenRawStorageItem(sink.Bytes()))

	operator, err := types.AddressFromBookkeepers([]keypair.PublicKey{op.PublicKey})
	if err != nil {
		t.Fatal(err)
	}
	return db, operator
}

func d19Native(t *testing.T, db *storage.CacheDB, signer common.Address, args []byte) *native.NativeService {
	ns, err := native.NewNativeService(db, &types.Transaction{SignedAddr: []common.Address{signer}}, 0, 0, common.Uint256{}, 0, args, false)
	if err != nil {
		t.Fatal(err)
	}
	return ns
}

// d19GenesisArgs builds the SyncGenesisHeader input for a quorum (IBFT) header
// at `number` whose istanbul extra-data carries the given validator set.
func d19GenesisArgs(t *testing.T, number int64, vals ...ecom.Address) []byte {
	extra, err := rlp.EncodeToBytes(&IstanbulExtra{Validators: vals, Seal: []byte{}, CommittedSeal: [][]byte{}})
	if err != nil {
		t.Fatal(err)
	}
	hdr := &etypes.Header{
		Number:     big.NewInt(number),
		Difficulty: big.NewInt(1),
		MixDigest:  IstanbulDigest,
		Extra:      append(make([]byte, IstanbulExtraVanity), extra...),
	}
	raw, err := json.Marshal(hdr)
	if err != nil {
		t.Fatal(err)
	}
	param := &scom.SyncGenesisHeaderParam{ChainID: d19ChainID, GenesisHeader: raw}
	sink := common.NewZeroCopySink(nil)
	param.Serialization(sink)
	return sink.Bytes()
}

func TestD19_Quorum_SyncGenesisHeaderOnlyOnce(t *testing.T) {
	op := account.NewAccount("")
	db, operator := d19NewDB(t, op)
	h := NewQuorumHandler()

	honest := []ecom.Address{ecom.HexToAddress("0x1111111111111111111111111111111111111111"), ecom.HexToAddress("0x2222222222222222222222222222222222222222")}
	evil := []ecom.Address{ecom.HexToAddress("0xeeeeeeeeeeeeeeeeeeeeeeeeeeeeeeeeeeeeeeee")}

	// 1st call installs the trust root for chain 8 at height 5000.
	if err := h.SyncGenesisHeader(d19Native(t, db, operator, d19GenesisArgs(t, 5000, honest...))); err != nil {
		t.Fatalf("first SyncGenesisHeader must succeed: %v", err)
	}
	ns := d19Native(t, db, operator, nil)
	vs1, err := GetValSet(ns, d19ChainID)
	if err != nil {
		t.Fatal(err)
	}
	if len(vs1) != 2 || vs1[0] != honest[0] || vs1[1] != honest[1] {
		t.Fatalf("unexpected initial validator set: %v", vs1)
	}

	// 2nd call (same chain, lower height, attacker validator set) must be rejected.
	err2 := h.SyncGenesisHeader(d19Native(t, db, operator, d19GenesisArgs(t, 1, evil...)))
	if err2 == nil {
		t.Errorf("DEFECT: second SyncGenesisHeader for chain %d succeeded, want error", d19ChainID)
	}

	// ... and must leave the light-client state unchanged.
	ns = d19Native(t, db, operator, nil)
	vs2, err := GetValSet(ns, d19ChainID)
	if err != nil {
		t.Fatal(err)
	}
	if len(vs2) != 2 || vs2[0] != honest[0] || vs2[1] != honest[1] {
		t.Errorf("DEFECT: validator set (trust root) was replaced: %v -> %v", d19Hex(vs1), d19Hex(vs2))
	}
	ht, err := GetCurrentValHeight(ns, d19ChainID)
	if err != nil {
		t.Fatal(err)
	}
	if ht != 5000 {
		t.Errorf("DEFECT: validator-set height was rewound: 5000 -> %d", ht)
	}
}

func d19Hex(vs QuorumValSet) []string {
	r := make([]string, 0, len(vs))
	for _, v := range vs {
		r = append(r, v.Hex())
	}
	return r
}
