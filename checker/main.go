// polyverif: repository-specific static checker for polynetwork/poly.
package main

import (
	"encoding/json"
	"flag"
	"fmt"
	"os"
	"sort"
	"strconv"
	"strings"
	"time"

	"polyverif/core"
	"polyverif/ir"
	"polyverif/load"
	_ "polyverif/rules"
)

func main() {
	if len(os.Args) >= 2 && os.Args[1] == "list" {
		type ent struct{ ID, Level, Title, Explain, Technique string }
		var out []ent
		for _, ch := range core.Registry {
			out = append(out, ent{ch.ID, ch.Level, ch.Title, ch.FullExplain(), ch.Technique})
		}
		sort.Slice(out, func(i, j int) bool { return out[i].ID < out[j].ID })
		b, _ := json.MarshalIndent(out, "", " ")
		fmt.Println(string(b))
		return
	}
	if len(os.Args) >= 4 && os.Args[1] == "dump" {
		lp, err := load.Load(load.Options{Repo: envOr("VERIF_REPO", "/repo")})
		if err != nil {
			fmt.Fprintln(os.Stderr, err)
			os.Exit(2)
		}
		fn, err := ir.New(lp).Func(os.Args[2], os.Args[3])
		if err != nil {
			fmt.Fprintln(os.Stderr, err)
			os.Exit(2)
		}
		fn.WriteTo(os.Stdout)
		for _, a := range fn.AnonFuncs {
			a.WriteTo(os.Stdout)
		}
		return
	}
	if len(os.Args) < 3 || os.Args[1] != "check" {
		fmt.Fprintln(os.Stderr, "usage: polyverif check <id[,id...]|all> [-tier quick|thorough] [-v] [-repo /repo] [-verif /verif]")
		os.Exit(2)
	}
	ids := os.Args[2]
	fs := flag.NewFlagSet("check", flag.ExitOnError)
	tier := fs.String("tier", envOr("VERIF_TIER", "quick"), "quick|thorough")
	verbose := fs.Bool("v", false, "print every obligation")
	repo := fs.String("repo", "/repo", "repository")
	verif := fs.String("verif", "/verif", "verif dir (known_findings.json)")
	out := fs.String("out", "", "directory receiving evidence/ (default: the verif dir)")
	overlay := fs.String("overlay", "", "comma-separated /repo/file.go=/path/replacement.go (self-tests only)")
	goos := fs.String("goos", "", "analyse under this GOOS (thorough tier's second build context)")
	goarch := fs.String("goarch", "", "analyse under this GOARCH")
	sub := fs.Bool("sub", false, "internal: a sub-run of the thorough tier (no further fan-out)")
	fs.Parse(os.Args[3:])
	seed, _ := strconv.Atoi(os.Getenv("VERIF_SEED"))

	var list []string
	if ids == "all" {
		for k := range core.Registry {
			list = append(list, k)
		}
	} else {
		list = strings.Split(ids, ",")
	}
	sort.Strings(list)
	for _, id := range list {
		if core.Registry[id] == nil {
			fmt.Fprintf(os.Stderr, "BROKEN: no check registered for %s\n", id)
			os.Exit(2)
		}
	}
	outDir := *verif
	if *out != "" {
		outDir = *out
	}
	ff, err := core.LoadFindings(*verif + "/known_findings.json")
	if err != nil {
		fmt.Fprintln(os.Stderr, "BROKEN: known_findings.json:", err)
		os.Exit(2)
	}
	t0 := time.Now()
	var ov map[string][]byte
	if *overlay != "" {
		ov = map[string][]byte{}
		for _, kv := range strings.Split(*overlay, ",") {
			p := strings.SplitN(kv, "=", 2)
			b, err := os.ReadFile(p[1])
			if err != nil {
				fmt.Fprintln(os.Stderr, "BROKEN: overlay:", err)
				os.Exit(2)
			}
			ov[p[0]] = b
		}
	}
	lp, err := load.Load(load.Options{Repo: *repo, Overlay: ov, GOOS: *goos, GOARCH: *goarch})
	if err != nil {
		fmt.Fprintln(os.Stderr, "BROKEN: load:", err)
		os.Exit(2)
	}
	p := ir.New(lp)
	loadWall := time.Since(t0).Seconds()
	fmt.Printf("loaded %d packages (%d of the module) from %s in %.1fs\n", len(lp.Order), len(lp.Mod), *repo, loadWall)
	exit := 0
	for _, id := range list {
		r := core.RunOne(p, core.Registry[id], *tier, seed, ff, outDir, loadWall)
		e := r.Print(*verbose, outDir)
		if e == 1 || (e == 2 && exit == 0) {
			exit = e
		}
		if *tier == "thorough" && !*sub {
			e2 := runThorough(id, *repo, *verif, outDir)
			if e2 == 1 || (e2 == 2 && exit == 0) {
				exit = e2
			}
		}
	}
	os.Exit(exit)
}

func envOr(k, d string) string {
	if v := os.Getenv(k); v != "" {
		return v
	}
	return d
}
