// Package core is the plumbing shared by all property checks: obligations,
// verdicts, evidence files, known findings, exit codes.
package core

import (
	"encoding/json"
	"fmt"
	"os"
	"path/filepath"
	"sort"
	"strings"
	"time"

	"golang.org/x/tools/go/ssa"

	"polyverif/ir"
)

type Status string

const (
	Holds     Status = "holds"
	Violation Status = "violation"
	Undecided Status = "undecided" // BROKEN: the checker could not decide
	Info      Status = "info"      // printed, not an obligation
)

// Obligation is one decided (or undecided) rule instance.
type Obligation struct {
	Rule      string `json:"rule"`
	Func      string `json:"func"`
	Construct string `json:"construct"`
	Pos       string `json:"pos"`
	Status    Status `json:"status"`
	Detail    string `json:"detail,omitempty"`
	Known     bool   `json:"known_finding,omitempty"`
}

// Key identifies an obligation independent of line numbers.
func (o Obligation) Key() string { return o.Rule + "|" + o.Func + "|" + o.Construct }

// Ctx is handed to each property check.
type Ctx struct {
	P        *ir.P
	Prop     string
	Tier     string
	Obls     []Obligation
	Notes    []string
	Assume   []string
	Funcs    map[string]bool // functions analysed
	Sites    int             // call sites / constructs inspected
	floors   []floor
	brokenMu []string
	// attr: obligations found in a private helper are keyed by the function the helper was
	// split from (so a known finding or a breaker keeps its identity when code moves)
	attr map[string]string
}

// Attribute makes obligations recorded for `helper` appear under `owner`.
func (c *Ctx) Attribute(helper, owner interface{}) {
	if c.attr == nil {
		c.attr = map[string]string{}
	}
	c.attr[fnName(helper)] = fnName(owner)
}

type floor struct {
	what string
	got  int
	min  int
}

func (c *Ctx) add(st Status, rule string, fn string, construct, pos, detail string) {
	if o, ok := c.attr[fn]; ok {
		detail = strings.TrimSpace(detail + " [in helper " + fn + "]")
		fn = o
	}
	c.Obls = append(c.Obls, Obligation{Rule: rule, Func: fn, Construct: construct, Pos: pos, Status: st, Detail: detail})
}

func fnName(fn interface{}) string {
	switch x := fn.(type) {
	case *ssa.Function:
		return ir.FuncName(x)
	case string:
		return x
	case nil:
		return ""
	}
	return fmt.Sprint(fn)
}

// Hold records a decided-holds obligation.
func (c *Ctx) Hold(rule string, fn interface{}, construct, pos, detail string) {
	c.add(Holds, rule, fnName(fn), construct, pos, detail)
}

// Violate records a violation.
func (c *Ctx) Violate(rule string, fn interface{}, construct, pos, detail string) {
	c.add(Violation, rule, fnName(fn), construct, pos, detail)
}

// Broken records an undecided construct: the check is broken, not the code.
func (c *Ctx) Broken(rule string, fn interface{}, construct, pos, detail string) {
	c.add(Undecided, rule, fnName(fn), construct, pos, detail)
}

// Decide records holds or violation.
func (c *Ctx) Decide(ok bool, rule string, fn interface{}, construct, pos, detail string) {
	if ok {
		c.Hold(rule, fn, construct, pos, detail)
	} else {
		c.Violate(rule, fn, construct, pos, detail)
	}
}

func (c *Ctx) Note(format string, a ...interface{}) {
	c.Notes = append(c.Notes, fmt.Sprintf(format, a...))
}
func (c *Ctx) Assumef(format string, a ...interface{}) {
	c.Assume = append(c.Assume, fmt.Sprintf(format, a...))
}

// Floor asserts a minimum instance count: fewer means the rule went vacuous.
func (c *Ctx) Floor(what string, got, min int) {
	c.floors = append(c.floors, floor{what, got, min})
	if got < min {
		c.Broken("floor", "", what, "", fmt.Sprintf("measured %d < floor %d: rule would pass vacuously", got, min))
	}
}

// Touch records that fn was analysed.
func (c *Ctx) Touch(fns ...*ssa.Function) {
	for _, f := range fns {
		if f != nil {
			c.Funcs[ir.FuncName(f)] = true
		}
	}
}

// Fn resolves a function or records BROKEN.
// FnAny resolves the first of the named functions that exists (a private worker or, when it was inlined,
// the exported method that now does its work); an anchor failure is reported only when none exists.
func (c *Ctx) FnAny(pkg string, names ...string) *ssa.Function {
	for _, n := range names {
		if fn, err := c.P.Func(pkg, n); err == nil {
			c.Touch(fn)
			return fn
		}
	}
	return c.Fn(pkg, names[0])
}

func (c *Ctx) Fn(pkg, name string) *ssa.Function {
	fn, err := c.P.Func(pkg, name)
	if err != nil {
		c.Broken("anchor", pkg+"."+name, "resolve", "", err.Error())
		return nil
	}
	c.Touch(fn)
	return fn
}

// ---------------------------------------------------------------------------
// known findings

type Finding struct {
	Property string `json:"property"`
	Key      string `json:"key"`   // obligation key rule|func|construct
	What     string `json:"what"`  // what fails
	Input    string `json:"input"` // the failing input / history / call site
	State    string `json:"state"` // "known" or "fixed"
	Commit   string `json:"commit,omitempty"`
	Count    int    `json:"count,omitempty"` // occurrences of the key covered (default 1)
}

func max1(n int) int {
	if n < 1 {
		return 1
	}
	return n
}

type FindingsFile struct {
	Findings []Finding `json:"findings"`
}

func LoadFindings(path string) (*FindingsFile, error) {
	b, err := os.ReadFile(path)
	if err != nil {
		if os.IsNotExist(err) {
			return &FindingsFile{}, nil
		}
		return nil, err
	}
	ff := &FindingsFile{}
	if err := json.Unmarshal(b, ff); err != nil {
		return nil, err
	}
	return ff, nil
}

// ---------------------------------------------------------------------------
// check registry and runner

type Check struct {
	ID    string
	Level string // "other" | "proof"
	Title string
	Run   func(c *Ctx)
	// Explanation of what is decided / not decided, for evidence.
	Explain string
	// Technique: a few words naming the deciding method (MANIFEST.technique).
	Technique string
}

var Registry = map[string]*Check{}

// ExplainMore holds the clauses added to a check after its Explain text was written
// (rules added when a seeded change was missed); FullExplain appends them.
var ExplainMore = map[string][]string{}

func AddExplain(id, text string) { ExplainMore[id] = append(ExplainMore[id], text) }

func (ch *Check) FullExplain() string {
	s := ch.Explain
	if more := ExplainMore[ch.ID]; len(more) > 0 {
		s += " FURTHER CLAUSES (added with the seeded-change rounds): "
		for i, m := range more {
			if i > 0 {
				s += " "
			}
			s += "(" + string(rune('a'+i%26)) + ") " + m
		}
	}
	return s
}

func Register(ch *Check) { Registry[ch.ID] = ch }

type Result struct {
	ID         string
	Exit       int
	Violations []Obligation
	Known      []Obligation
	Broken     []Obligation
	Ctx        *Ctx
	Wall       float64
}

// RunOne runs a check and writes evidence.
func RunOne(p *ir.P, ch *Check, tier string, seed int, ff *FindingsFile, verifDir string, loadWall float64) (res *Result) {
	t0 := time.Now()
	c := &Ctx{P: p, Prop: ch.ID, Tier: tier, Funcs: map[string]bool{}}
	res = &Result{ID: ch.ID, Ctx: c}
	func() {
		defer func() {
			if r := recover(); r != nil {
				c.Broken("panic", "", "checker", "", fmt.Sprint(r))
			}
		}()
		ch.Run(c)
	}()
	known := map[string]Finding{}
	for _, f := range ff.Findings {
		if f.Property == ch.ID && f.State == "known" {
			known[f.Key] = f
		}
	}
	seenKnown := map[string]bool{}
	usedKnown := map[string]int{}
	for i := range c.Obls {
		o := &c.Obls[i]
		switch o.Status {
		case Violation:
			if kf, ok := known[o.Key()]; ok && usedKnown[o.Key()] < max1(kf.Count) {
				// a listed finding suppresses at most Count occurrences of its key:
				// one more violation with the same key is a new violation
				usedKnown[o.Key()]++
				o.Known = true
				res.Known = append(res.Known, *o)
				seenKnown[o.Key()] = true
			} else {
				res.Violations = append(res.Violations, *o)
			}
		case Undecided:
			res.Broken = append(res.Broken, *o)
		}
	}
	if len(c.Obls) == 0 {
		c.Broken("floor", "", "no obligations", "", "check produced no obligations")
		res.Broken = append(res.Broken, c.Obls[len(c.Obls)-1])
	}
	res.Wall = time.Since(t0).Seconds() + loadWall
	switch {
	case len(res.Violations) > 0:
		res.Exit = 1
	case len(res.Broken) > 0:
		res.Exit = 2
	}
	writeEvidence(ch, c, res, tier, seed, verifDir)
	return res
}

func writeEvidence(ch *Check, c *Ctx, res *Result, tier string, seed int, verifDir string) {
	holds, viol, und := 0, 0, 0
	rules := map[string]int{}
	var samples []interface{}
	perRuleSample := map[string]int{}
	for _, o := range c.Obls {
		switch o.Status {
		case Holds:
			holds++
		case Violation:
			viol++
		case Undecided:
			und++
		}
		rules[o.Rule]++
		if perRuleSample[o.Rule] < 3 || o.Status != Holds {
			perRuleSample[o.Rule]++
			samples = append(samples, o)
		}
	}
	if len(samples) > 80 {
		samples = samples[:80]
	}
	fl := []string{}
	for _, f := range c.floors {
		fl = append(fl, fmt.Sprintf("%s: %d (floor %d)", f.what, f.got, f.min))
	}
	fnames := make([]string, 0, len(c.Funcs))
	for k := range c.Funcs {
		fnames = append(fnames, k)
	}
	sort.Strings(fnames)
	cov := map[string]interface{}{
		"explanation":         ch.FullExplain(),
		"rule":                "obligations are rule instances (rule|function|construct) enumerated from /repo's type-checked SSA on this run; non-trivial = each instance is a distinct construct in the source",
		"obligations":         len(c.Obls),
		"discharged":          holds,
		"violations_known":    len(res.Known),
		"violations_new":      len(res.Violations),
		"undecided":           und,
		"evaluations":         len(c.Obls),
		"distinct_nontrivial": distinctKeys(c.Obls),
		"rule_instances":      rules,
		"functions_analysed":  len(c.Funcs),
		"functions":           fnames,
		"packages_loaded":     len(c.P.Order),
		"module_packages":     len(c.P.Mod),
		"floors":              fl,
		"samples":             samples,
		"notes":               c.Notes,
		"exhaustive":          true,
	}
	if ch.Level == "proof" {
		cov["checker_cmd"] = "/verif/run.sh " + ch.ID + " " + tier
		cov["trusted_base"] = []string{"go/types", "go/ssa (x/tools v0.29.0)", "polyverif expression-tree extractor", "polyverif quasi-linear normal-form calculator"}
	}
	ev := map[string]interface{}{
		"property_id": ch.ID,
		"tier":        tier,
		"seed":        seed,
		"level":       ch.Level,
		"coverage":    cov,
		"assumptions": append([]string{"dependency code outside github.com/polynetwork/poly is analysed by signature only", "path-insensitive CFG reasoning: infeasible paths are treated as feasible (may cause BROKEN/false violation, never a false pass)"}, c.Assume...),
		"wall_s":      res.Wall,
		"violations":  len(res.Violations),
	}
	dir := filepath.Join(verifDir, "evidence")
	os.MkdirAll(dir, 0o755)
	b, _ := json.MarshalIndent(ev, "", " ")
	os.WriteFile(filepath.Join(dir, ch.ID+".json"), b, 0o644)
	if len(res.Violations) > 0 {
		vb, _ := json.MarshalIndent(map[string]interface{}{"property": ch.ID, "violations": res.Violations}, "", " ")
		os.WriteFile(filepath.Join(dir, ch.ID+".violation.json"), vb, 0o644)
	} else {
		os.Remove(filepath.Join(dir, ch.ID+".violation.json"))
	}
}

func distinctKeys(os []Obligation) int {
	m := map[string]bool{}
	for _, o := range os {
		m[o.Key()] = true
	}
	return len(m)
}

// Print prints the result in the contract format and returns the exit code.
func (r *Result) Print(verbose bool, verifDir string) int {
	c := r.Ctx
	holds := 0
	for _, o := range c.Obls {
		if o.Status == Holds {
			holds++
		}
	}
	fmt.Printf("== %s: %d obligations, %d hold, %d known findings, %d new violations, %d undecided; %d functions analysed\n",
		r.ID, len(c.Obls), holds, len(r.Known), len(r.Violations), len(r.Broken), len(c.Funcs))
	if verbose {
		for _, o := range c.Obls {
			fmt.Printf("   [%s] %s | %s | %s @ %s %s\n", o.Status, o.Rule, o.Func, o.Construct, o.Pos, o.Detail)
		}
		for _, n := range c.Notes {
			fmt.Printf("   note: %s\n", n)
		}
	}
	for _, o := range r.Known {
		fmt.Printf("KNOWN-FINDING: property=%s %s %s %s @ %s: %s\n", r.ID, o.Rule, o.Func, o.Construct, o.Pos, oneLine(o.Detail))
	}
	for _, o := range r.Broken {
		fmt.Printf("BROKEN: property=%s %s %s %s @ %s: %s\n", r.ID, o.Rule, o.Func, o.Construct, o.Pos, oneLine(o.Detail))
	}
	for _, o := range r.Violations {
		fmt.Printf("violation: property=%s %s | %s | %s @ %s: %s\n", r.ID, o.Rule, o.Func, o.Construct, o.Pos, oneLine(o.Detail))
	}
	if len(r.Violations) > 0 && r.Exit == 1 {
		fmt.Printf("VIOLATION property=%s replay=%s\n", r.ID, filepath.Join(verifDir, "evidence", r.ID+".violation.json"))
	}
	return r.Exit
}

func oneLine(s string) string { return strings.ReplaceAll(s, "\n", " ") }
