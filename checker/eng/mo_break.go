package eng

import (
	"golang.org/x/tools/go/ssa"
)

// earlyBreakWithEffects: the loop has an exit edge other than map exhaustion
// (a `break`, not a return) that is not guarded by an equality test on the
// iteration's element, and some iteration writes to a map or to memory that
// outlives the iteration.
func earlyBreakWithEffects(fn *ssa.Function, lp MapLoop, region map[*ssa.BasicBlock]bool, iterDerived func(ssa.Value) bool) (int, bool) {
	effects := false
	for b := range region {
		for _, in := range b.Instrs {
			switch x := in.(type) {
			case *ssa.MapUpdate:
				effects = true
			case *ssa.Store:
				if _, local := x.Addr.(*ssa.Alloc); !local {
					effects = true
				}
			}
		}
	}
	if !effects {
		return 0, false
	}
	for b := range region {
		if b == lp.Header {
			continue
		}
		for _, s := range b.Succs {
			if region[s] || s == lp.Header {
				continue
			}
			// an edge leaving the loop from its body
			last := b.Instrs[len(b.Instrs)-1]
			if _, isRet := last.(*ssa.Return); isRet {
				continue
			}
			// blocks that only return (error exits) are classified by classifyLoopReturn
			if len(s.Instrs) > 0 {
				if _, isRet := s.Instrs[len(s.Instrs)-1].(*ssa.Return); isRet && s != lp.Exit && len(s.Succs) == 0 && !reachesBlock(lp.Exit, s) {
					continue
				}
			}
			if guardedByEquality(s, iterDerived) || guardedByEquality(b, iterDerived) {
				continue
			}
			return fn.Prog.Fset.Position(last.Pos()).Line, true
		}
	}
	return 0, false
}

func reachesBlock(from, to *ssa.BasicBlock) bool { return from == to || reaches(from, to) }
