package eng

import (
	"go/token"
	"go/types"
	"strings"

	"golang.org/x/tools/go/ssa"

	"polyverif/ir"
)

// CS — codec schema.  A (de)serialisation function is reduced to the ordered
// list of wire operations it performs on the path to its success return: each
// operation has a wire kind (u8/u16/u32/u64/bool/varuint/varbytes/string/hash/
// address/bytes/…) and the struct field it writes from / reads into.  Sibling
// codecs (writer vs reader, zero-copy vs io.Writer variants) must yield the same
// list; a signed-content encoder must cover a stated field set.

type CodecOp struct {
	Kind  string
	Field string // "" if the operand is not a field of the receiver
	Write bool
	Pos   token.Pos
	Call  ssa.CallInstruction
}

func (o CodecOp) String() string {
	return o.Kind + ":" + o.Field
}

var csKinds = map[string]string{
	"Uint8": "u8", "Byte": "u8", "Uint16": "u16", "Uint32": "u32", "Uint64": "u64", "Int64": "i64", "Int32": "i32", "Int16": "i16",
	"Bool": "bool", "VarUint": "varuint", "VarBytes": "varbytes", "String": "string", "Hash": "hash", "Address": "address", "Bytes": "bytes",
}

// csClassify maps a call to (kind, isWrite, operand index or -1 for receiver, ok).
func csClassify(ci ssa.CallInstruction) (kind string, write bool, operand int, ok bool) {
	o := ir.CalleeObj(ci)
	if o == nil || o.Pkg() == nil {
		return "", false, 0, false
	}
	name := o.Name()
	pkg := o.Pkg().Path()
	sig, _ := o.Type().(*types.Signature)
	recv := ""
	if sig != nil && sig.Recv() != nil {
		t := sig.Recv().Type()
		if p, isP := t.(*types.Pointer); isP {
			t = p.Elem()
		}
		if n, isN := t.(*types.Named); isN {
			recv = n.Obj().Name()
		}
	}
	switch {
	case recv == "ZeroCopySink" && strings.HasPrefix(name, "Write"):
		if k, found := csKinds[strings.TrimPrefix(name, "Write")]; found {
			return k, true, 1, true
		}
	case recv == "ZeroCopySource" && strings.HasPrefix(name, "Next"):
		if k, found := csKinds[strings.TrimPrefix(name, "Next")]; found {
			return k, false, -2, true
		}
	case strings.HasSuffix(pkg, "/common/serialization") && recv == "":
		if strings.HasPrefix(name, "Write") {
			if k, found := csKinds[strings.TrimPrefix(name, "Write")]; found {
				return k, true, 1, true
			}
		}
		if strings.HasPrefix(name, "Read") {
			if k, found := csKinds[strings.TrimPrefix(name, "Read")]; found {
				return k, false, -2, true
			}
		}
	case (recv == "Uint256" || recv == "Address") && (name == "Serialize" || name == "Deserialize"):
		k := "hash"
		if recv == "Address" {
			k = "address"
		}
		return k, name == "Serialize", -1, true
	}
	return "", false, 0, false
}

func csFieldOfValue(v ssa.Value, recv ssa.Value) string {
	v = ir.Strip(v)
	for i := 0; i < 4; i++ {
		switch x := v.(type) {
		case *ssa.UnOp:
			if fa, ok := x.X.(*ssa.FieldAddr); ok && ir.Strip(fa.X) == recv {
				return csFieldName(fa)
			}
			return ""
		case *ssa.FieldAddr:
			if ir.Strip(x.X) == recv {
				return csFieldName(x)
			}
			return ""
		case *ssa.Convert:
			v = x.X
		case *ssa.ChangeType:
			v = x.X
		case *ssa.Slice:
			v = x.X
		default:
			return ""
		}
	}
	return ""
}

func csFieldName(fa *ssa.FieldAddr) string {
	st := fa.X.Type().Underlying().(*types.Pointer).Elem().Underlying().(*types.Struct)
	return st.Field(fa.Field).Name()
}

// csStoredField: the receiver field a read result ends up in.
func csStoredField(v ssa.Value, recv ssa.Value, depth int) string {
	if depth > 4 || v == nil || v.Referrers() == nil {
		return ""
	}
	for _, r := range *v.Referrers() {
		switch x := r.(type) {
		case *ssa.Store:
			if x.Val != v {
				continue
			}
			if fa, ok := x.Addr.(*ssa.FieldAddr); ok && ir.Strip(fa.X) == recv {
				return csFieldName(fa)
			}
		case *ssa.Extract:
			if x.Index == 0 {
				if f := csStoredField(x, recv, depth+1); f != "" {
					return f
				}
			}
		case *ssa.Convert:
			if f := csStoredField(x, recv, depth+1); f != "" {
				return f
			}
		case *ssa.ChangeType:
			if f := csStoredField(x, recv, depth+1); f != "" {
				return f
			}
		}
	}
	return ""
}

// CodecSeq extracts the wire operations of fn (receiver = first parameter) in
// the order of the blocks that dominate the success return (the spine).
var seqDepth int
var seqInline bool

// CodecSeqInline: as CodecSeq, with the operations of same-receiver helpers handed the stream standing at
// their call sites.
func CodecSeqInline(fn *ssa.Function) []CodecOp {
	seqInline = true
	defer func() { seqInline = false }()
	return CodecSeq(fn)
}

func CodecSeq(fn *ssa.Function) []CodecOp {
	if fn == nil || len(fn.Blocks) == 0 || len(fn.Params) == 0 {
		return nil
	}
	recv := ssa.Value(fn.Params[0])
	// success block: for error-returning functions the nil return; otherwise the last return
	var target *ssa.BasicBlock
	for _, s := range ir.SuccessSinks(fn) {
		target = s.Instr.Block()
	}
	if target == nil {
		for _, b := range fn.Blocks {
			if len(b.Instrs) > 0 {
				if _, ok := b.Instrs[len(b.Instrs)-1].(*ssa.Return); ok && b != fn.Recover {
					target = b
				}
			}
		}
	}
	if target == nil {
		return nil
	}
	var spine []*ssa.BasicBlock
	for b := target; b != nil; b = b.Idom() {
		spine = append([]*ssa.BasicBlock{b}, spine...)
	}
	var out []CodecOp
	for _, b := range spine {
		for _, in := range b.Instrs {
			ci, ok := in.(ssa.CallInstruction)
			if !ok {
				continue
			}
			if _, isDefer := in.(*ssa.Defer); isDefer {
				continue
			}
			// helper of the same codec on the same receiver, handed the stream: its operations stand here
			if callee := ci.Common().StaticCallee(); callee != nil && len(callee.Blocks) > 0 && seqInline && seqDepth < 3 {
				a := ci.Common().Args
				if len(a) >= 2 && a[0] == recv && callee.Signature.Recv() != nil && !isCodecMethodName(callee.Name()) && passesStream(fn, a[1:]) {
					seqDepth++
					out = append(out, CodecSeq(callee)...)
					seqDepth--
					continue
				}
			}
			kind, write, operand, ok := csClassify(ci)
			if !ok {
				continue
			}
			op := CodecOp{Kind: kind, Write: write, Pos: ci.Pos(), Call: ci}
			args := ci.Common().Args
			switch {
			case operand == -1: // method on the field itself (or on a temporary later copied into a field)
				op.Field = csFieldOfValue(args[0], recv)
				if op.Field == "" && !write {
					// temp.Deserialize(r); this.F = *temp
					if al, isAl := args[0].(*ssa.Alloc); isAl && al.Referrers() != nil {
						for _, r := range *al.Referrers() {
							if ld, isLd := r.(*ssa.UnOp); isLd {
								if f := csStoredField(ld, recv, 0); f != "" {
									op.Field = f
								}
							}
						}
					}
				}
			case operand == -2: // reader: result flows into a field
				if v, isV := ci.(ssa.Value); isV {
					op.Field = csStoredField(v, recv, 0)
				}
			default:
				if operand < len(args) {
					op.Field = csFieldOfValue(args[operand], recv)
				}
			}
			out = append(out, op)
		}
	}
	return out
}

func CodecSeqString(ops []CodecOp) string {
	var s []string
	for _, o := range ops {
		s = append(s, o.String())
	}
	return strings.Join(s, " ")
}

// ---- flattened codec sequences (whole-function, control structure ignored)

// FlatCodec lists the wire operations of fn in dominator preorder, skipping
// blocks from which no success return is reachable.  Nested codec calls
// (x.Serialization / x.Deserialization / Serialize / Deserialize on a
// non-primitive type) appear as kind "T:<type>".  Adjacent operations of the
// same kind that sit in mutually exclusive blocks are merged (if/else arms
// writing the same tag).
func FlatCodec(fn *ssa.Function) []CodecOp {
	if fn == nil || len(fn.Blocks) == 0 {
		return nil
	}
	recv := ssa.Value(nil)
	if len(fn.Params) > 0 {
		recv = fn.Params[0]
	}
	// blocks that can reach a success return
	good := map[*ssa.BasicBlock]bool{}
	var work []*ssa.BasicBlock
	sinks := ir.SuccessSinks(fn)
	if len(sinks) == 0 {
		for _, b := range fn.Blocks {
			if len(b.Instrs) > 0 {
				if _, ok := b.Instrs[len(b.Instrs)-1].(*ssa.Return); ok && b != fn.Recover {
					work = append(work, b)
				}
			}
		}
	}
	for _, s := range sinks {
		work = append(work, s.Instr.Block())
	}
	for len(work) > 0 {
		b := work[len(work)-1]
		work = work[:len(work)-1]
		if good[b] {
			continue
		}
		good[b] = true
		work = append(work, b.Preds...)
	}
	var out []CodecOp
	var blocks []*ssa.BasicBlock
	for _, b := range fn.DomPreorder() {
		if !good[b] {
			continue
		}
		for _, in := range b.Instrs {
			ci, ok := in.(ssa.CallInstruction)
			if !ok {
				continue
			}
			if _, isDefer := in.(*ssa.Defer); isDefer {
				continue
			}
			// helper of the same codec: a static call on the same receiver (tx.SerializeUnsigned(sink),
			// this.deserializationUnsigned(source)) is inlined
			if callee := ci.Common().StaticCallee(); callee != nil && recv != nil && len(callee.Blocks) > 0 && flatDepth < 3 {
				a := ci.Common().Args
				if len(a) >= 2 && a[0] == recv && callee.Signature.Recv() != nil && !isCodecMethodName(callee.Name()) && passesStream(fn, a[1:]) {
					flatDepth++
					inner := FlatCodec(callee)
					flatDepth--
					for _, io := range inner {
						out = append(out, io)
						blocks = append(blocks, b)
					}
					continue
				}
			}
			kind, write, operand, ok := csClassify(ci)
			if !ok {
				kind, write, ok = csNested(ci)
				operand = -1
				if !ok {
					// an unclassified module helper that is handed this codec's stream (a loop body or a
					// few reads/writes extracted into a function): its operations are part of this codec
					if callee := ci.Common().StaticCallee(); callee != nil && len(callee.Blocks) > 0 && flatDepth < 3 &&
						callee.Pkg != nil && callee.Pkg == fn.Pkg && !isCodecMethodName(callee.Name()) && passesStream(fn, ci.Common().Args) {
						flatDepth++
						inner := FlatCodec(callee)
						flatDepth--
						for _, io := range inner {
							io.Field = "" // the helper's operands are not fields of this receiver
							out = append(out, io)
							blocks = append(blocks, b)
						}
					}
					continue
				}
			}
			op := CodecOp{Kind: kind, Write: write, Pos: ci.Pos(), Call: ci}
			args := ci.Common().Args
			if recv != nil {
				switch {
				case operand == -1:
					if len(args) > 0 {
						op.Field = csFieldOfValue(args[0], recv)
					}
				case operand == -2:
					if v, isV := ci.(ssa.Value); isV {
						op.Field = csStoredField(v, recv, 0)
					}
				default:
					if operand < len(args) {
						op.Field = csFieldOfValue(args[operand], recv)
					}
				}
			}
			if op.Kind == "bytes" {
				if k := csFixedBytesKind(ci, write); k == "reread" {
					continue
				} else if k != "" {
					op.Kind = k
				}
			}
			// merge with the previous op when same kind and mutually exclusive blocks
			if n := len(out); n > 0 && out[n-1].Kind == op.Kind && blocks[n-1] != b && !reaches(blocks[n-1], b) && !reaches(b, blocks[n-1]) {
				continue
			}
			out = append(out, op)
			blocks = append(blocks, b)
		}
	}
	return out
}

func reaches(a, b *ssa.BasicBlock) bool {
	seen := map[*ssa.BasicBlock]bool{}
	work := []*ssa.BasicBlock{a}
	for len(work) > 0 {
		x := work[len(work)-1]
		work = work[:len(work)-1]
		for _, s := range x.Succs {
			if s == b {
				return true
			}
			if !seen[s] {
				seen[s] = true
				work = append(work, s)
			}
		}
	}
	return false
}

// csNested recognises nested codec calls.
func csNested(ci ssa.CallInstruction) (kind string, write bool, ok bool) {
	var name string
	var recvT types.Type
	if ci.Common().IsInvoke() {
		name = ci.Common().Method.Name()
		recvT = ci.Common().Value.Type()
	} else {
		o := ir.CalleeObj(ci)
		if o == nil {
			return "", false, false
		}
		sig, _ := o.Type().(*types.Signature)
		if sig == nil || sig.Recv() == nil {
			return "", false, false
		}
		name = o.Name()
		recvT = sig.Recv().Type()
	}
	switch name {
	case "Serialization", "Serialize":
		write = true
	case "Deserialization", "Deserialize":
	default:
		return "", false, false
	}
	if p, isP := recvT.(*types.Pointer); isP {
		recvT = p.Elem()
	}
	tn := "?"
	if n, isN := recvT.(*types.Named); isN {
		tn = n.Obj().Name()
	}
	return "T:" + tn, write, true
}

// KindString renders only the wire kinds.
func KindString(ops []CodecOp) string {
	var s []string
	for _, o := range ops {
		s = append(s, o.Kind)
	}
	return strings.Join(s, " ")
}
