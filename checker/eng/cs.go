package eng

import (
	"go/token"
	"go/types"
	"strings"

	"golang.org/x/tools/go/ssa"

	"polyverif/ir"
)

// CS — codec schema.  A (de)serialisation function is reduced to the ordered
// list of wire operations it performs on the path to its success return: each
// operation has a wire kind (u8/u16/u32/u64/bool/varuint/varbytes/string/hash/
// address/bytes/…) and the struct field it writes from / reads into.  Sibling
// codecs (writer vs reader, zero-copy vs io.Writer variants) must yield the same
// list; a signed-content encoder must cover a stated field set.

type CodecOp struct {
	Kind  string
	Field string // "" if the operand is not a field of the receiver
	Write bool
	Pos   token.Pos
	Call  ssa.CallInstruction
}

func (o CodecOp) String() string {
	return o.Kind + ":" + o.Field
}

var csKinds = map[string]string{
	"Uint8": "u8", "Byte": "u8", "Uint16": "u16", "Uint32": "u32", "Uint64": "u64", "Int64": "i64", "Int32": "i32", "Int16": "i16",
	"Bool": "bool", "VarUint": "varuint", "VarBytes": "varbytes", "String": "string", "Hash": "hash", "Address": "address", "Bytes": "bytes",
}

// csClassify maps a call to (kind, isWrite, operand index or -1 for receiver, ok).
func csClassify(ci ssa.CallInstruction) (kind string, write bool, operand int, ok bool) {
	o := ir.CalleeObj(ci)
	if o == nil || o.Pkg() == nil {
		return "", false, 0, false
	}
	name := o.Name()
	pkg := o.Pkg().Path()
	sig, _ := o.Type().(*types.Signature)
	recv := ""
	if sig != nil && sig.Recv() != nil {
		t := sig.Recv().Type()
		if p, isP := t.(*types.Pointer); isP {
			t = p.Elem()
		}
		if n, isN := t.(*types.Named); isN {
			recv = n.Obj().Name()
		}
	}
	switch {
	case recv == "ZeroCopySink" && strings.HasPrefix(name, "Write"):
		if k, found := csKinds[strings.TrimPrefix(name, "Write")]; found {
			return k, true, 1, true
		}
	case recv == "ZeroCopySource" && strings.HasPrefix(name, "Next"):
		if k, found := csKinds[strings.TrimPrefix(name, "Next")]; found {
			return k, false, -2, true
		}
	case strings.HasSuffix(pkg, "/common/serialization") && recv == "":
		if strings.HasPrefix(name, "Write") {
			if k, found := csKinds[strings.TrimPrefix(name, "Write")]; found {
				return k, true, 1, true
			}
		}
		if strings.HasPrefix(name, "Read") {
			if k, found := csKinds[strings.TrimPrefix(name, "Read")]; found {
				return k, false, -2, true
			}
		}
	case (recv == "Uint256" || recv == "Address") && (name == "Serialize" || name == "Deserialize"):
		k := "hash"
		if recv == "Address" {
			k = "address"
		}
		return k, name == "Serialize", -1, true
	}
	return "", false, 0, false
}

func csFieldOfValue(v ssa.Value, recv ssa.Value) string {
	v = ir.Strip(v)
	for i := 0; i < 4; i++ {
		switch x := v.(type) {
		case *ssa.UnOp:
			if fa, ok := x.X.(*ssa.FieldAddr); ok && ir.Strip(fa.X) == recv {
				return csFieldName(fa)
			}
			return ""
		case *ssa.FieldAddr:
			if ir.Strip(x.X) == recv {
				return csFieldName(x)
			}
			return ""
		case *ssa.Convert:
			v = x.X
		case *ssa.ChangeType:
			v = x.X
		case *ssa.Slice:
			v = x.X
		default:
			return ""
		}
	}
	return ""
}

func csFieldName(fa *ssa.FieldAddr) string {
	st := fa.X.Type().Underlying().(*types.Pointer).Elem().Underlying().(*types.Struct)
	return st.Field(fa.Field).Name()
}

// csStoredField: the receiver field a read result ends up in.
func csStoredField(v ssa.Value, recv ssa.Value, depth int) string {
	if depth > 4 || v == nil || v.Referrers() == nil {
		return ""
	}
	for _, r := range *v.Referrers() {
		switch x := r.(type) {
		case *ssa.Store:
			if x.Val != v {
				continue
			}
			if fa, ok := x.Addr.(*ssa.FieldAddr); ok && ir.Strip(fa.X) == recv {
				return csFieldName(fa)
			}
		case *ssa.Extract:
			if x.Index == 0 {
				if f := csStoredField(x, recv, depth+1); f != "" {
					return f
				}
			}
		case *ssa.Convert:
			if f := csStoredField(x, recv, depth+1); f != "" {
				return f
			}
		case *ssa.ChangeType:
			if f := csStoredField(x, recv, depth+1); f != "" {
				return f
			}
		}
	}
	return ""
}

// CodecSeq extracts the wire operations of fn (receiver = first parameter) in
// the order of the blocks that dominate the success return (the spine).
func CodecSeq(fn *ssa.Function) []CodecOp {
	if fn == nil || len(fn.Blocks) == 0 || len(fn.Params) == 0 {
		return nil
	}
	recv := ssa.Value(fn.Params[0])
	// success block: for error-returning functions the nil return; otherwise the last return
	var target *ssa.BasicBlock
	for _, s := range ir.SuccessSinks(fn) {
		target = s.Instr.Block()
	}
	if target == nil {
		for _, b := range fn.Blocks {
			if len(b.Instrs) > 0 {
				if _, ok := b.Instrs[len(b.Instrs)-1].(*ssa.Return); ok && b != fn.Recover {
					target = b
				}
			}
		}
	}
	if target == nil {
		return nil
	}
	var spine []*ssa.BasicBlock
	for b := target; b != nil; b = b.Idom() {
		spine = append([]*ssa.BasicBlock{b}, spine...)
	}
	var out []CodecOp
	for _, b := range spine {
		for _, in := range b.Instrs {
			ci, ok := in.(ssa.CallInstruction)
			if !ok {
				continue
			}
			if _, isDefer := in.(*ssa.Defer); isDefer {
				continue
			}
			kind, write, operand, ok := csClassify(ci)
			if !ok {
				continue
			}
			op := CodecOp{Kind: kind, Write: write, Pos: ci.Pos(), Call: ci}
			args := ci.Common().Args
			switch {
			case operand == -1: // method on the field itself (or on a temporary later copied into a field)
				op.Field = csFieldOfValue(args[0], recv)
				if op.Field == "" && !write {
					// temp.Deserialize(r); this.F = *temp
					if al, isAl := args[0].(*ssa.Alloc); isAl && al.Referrers() != nil {
						for _, r := range *al.Referrers() {
							if ld, isLd := r.(*ssa.UnOp); isLd {
								if f := csStoredField(ld, recv, 0); f != "" {
									op.Field = f
								}
							}
						}
					}
				}
			case operand == -2: // reader: result flows into a field
				if v, isV := ci.(ssa.Value); isV {
					op.Field = csStoredField(v, recv, 0)
				}
			default:
				if operand < len(args) {
					op.Field = csFieldOfValue(args[operand], recv)
				}
			}
			out = append(out, op)
		}
	}
	return out
}

func CodecSeqString(ops []CodecOp) string {
	var s []string
	for _, o := range ops {
		s = append(s, o.String())
	}
	return strings.Join(s, " ")
}
