package eng

import (
	"go/token"

	"golang.org/x/tools/go/ssa"

	"polyverif/ir"
)

// BExpr is a boolean formula reconstructed from go/ssa's lowering of
// short-circuit && / || used as a value (phi of a constant and a condition).
type BExpr struct {
	Op   string // "atom" "or" "and" "not" "const"
	Atom ssa.Value
	K    bool
	L, R *BExpr
}

func (b *BExpr) String() string {
	switch b.Op {
	case "atom":
		return b.Atom.String()
	case "const":
		if b.K {
			return "true"
		}
		return "false"
	case "not":
		return "!(" + b.L.String() + ")"
	}
	return "(" + b.L.String() + " " + b.Op + " " + b.R.String() + ")"
}

// BoolTree reconstructs the formula of a boolean SSA value.
func BoolTree(v ssa.Value) *BExpr {
	switch x := v.(type) {
	case *ssa.Const:
		if k, ok := ir.ConstBool(x); ok {
			return &BExpr{Op: "const", K: k}
		}
	case *ssa.UnOp:
		if x.Op == token.NOT {
			return &BExpr{Op: "not", L: BoolTree(x.X)}
		}
	case *ssa.Phi:
		if len(x.Edges) == 2 {
			for i := 0; i < 2; i++ {
				k, isK := ir.ConstBool(x.Edges[i])
				if !isK {
					continue
				}
				pc := x.Block().Preds[i]
				other := x.Edges[1-i]
				if len(pc.Instrs) == 0 {
					continue
				}
				ifi, ok := pc.Instrs[len(pc.Instrs)-1].(*ssa.If)
				if !ok {
					continue
				}
				// which successor of pc is the join block?
				joinIdx := -1
				for j, s := range pc.Succs {
					if s == x.Block() {
						joinIdx = j
					}
				}
				if joinIdx < 0 {
					continue
				}
				a := BoolTree(ifi.Cond)
				// join reached on true edge with const true: a || other
				// join reached on false edge with const false: a && other
				if k && joinIdx == 0 {
					return &BExpr{Op: "or", L: a, R: BoolTree(other)}
				}
				if !k && joinIdx == 1 {
					return &BExpr{Op: "and", L: a, R: BoolTree(other)}
				}
				if k && joinIdx == 1 { // !a || other
					return &BExpr{Op: "or", L: &BExpr{Op: "not", L: a}, R: BoolTree(other)}
				}
				if !k && joinIdx == 0 { // !a && other
					return &BExpr{Op: "and", L: &BExpr{Op: "not", L: a}, R: BoolTree(other)}
				}
			}
		}
	}
	return &BExpr{Op: "atom", Atom: v}
}

// Atoms lists the atomic conditions of the formula.
func (b *BExpr) Atoms() []ssa.Value {
	switch b.Op {
	case "atom":
		return []ssa.Value{b.Atom}
	case "const":
		return nil
	case "not":
		return b.L.Atoms()
	}
	return append(b.L.Atoms(), b.R.Atoms()...)
}

// Eval evaluates the formula under an assignment of its atoms.
func (b *BExpr) Eval(val func(ssa.Value) bool) bool {
	switch b.Op {
	case "atom":
		return val(b.Atom)
	case "const":
		return b.K
	case "not":
		return !b.L.Eval(val)
	case "or":
		return b.L.Eval(val) || b.R.Eval(val)
	case "and":
		return b.L.Eval(val) && b.R.Eval(val)
	}
	return false
}
