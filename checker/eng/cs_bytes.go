package eng

import (
	"go/types"

	"golang.org/x/tools/go/ssa"

	"polyverif/ir"
)

// csFixedBytesKind refines a raw "bytes" operation:
//   - WriteBytes(x[:]) with x a common.Uint256 / common.Address array is the
//     fixed-width hash / address encoding;
//   - a one-byte raw read or write is u8;
//   - NextBytes(n) directly after BackUp(n) in the same block re-reads bytes that
//     were already consumed (hash window, raw copy): "reread", not a wire field.
func csFixedBytesKind(ci ssa.CallInstruction, write bool) string {
	args := ci.Common().Args
	if write {
		if len(args) >= 2 {
			if sl, ok := args[1].(*ssa.Slice); ok {
				t := sl.X.Type()
				if p, isP := t.Underlying().(*types.Pointer); isP {
					t = p.Elem()
				}
				if n, isN := t.(*types.Named); isN {
					switch n.Obj().Name() {
					case "Uint256":
						return "hash"
					case "Address":
						return "address"
					}
				}
			}
		}
		return ""
	}
	// reader
	var lenArg ssa.Value
	if len(args) >= 2 {
		lenArg = args[len(args)-1]
	}
	if k, ok := ir.ConstInt(lenArg); ok && k == 1 {
		return "u8"
	}
	if in, ok := ci.(ssa.Instruction); ok && lenArg != nil {
		for _, prev := range in.Block().Instrs {
			if prev == in {
				break
			}
			if pc, isC := prev.(ssa.CallInstruction); isC {
				if o := ir.CalleeObj(pc); o != nil && o.Name() == "BackUp" && len(pc.Common().Args) >= 2 && pc.Common().Args[1] == lenArg {
					return "reread"
				}
			}
		}
	}
	return ""
}
