// Package eng holds the analysis engines on top of package ir.
package eng

import (
	"fmt"
	"go/token"
	"go/types"

	"golang.org/x/tools/go/ssa"

	"polyverif/core"
	"polyverif/ir"
)

// Opt carries optional query parameters: a start instruction (start-relative
// dominance) and extra edges to delete (configuration facts: edges that are
// infeasible under the stated configuration).
type Opt struct {
	Start ssa.Instruction
	// StartBlock: begin at the first instruction of this block (e.g. a loop body)
	StartBlock *ssa.BasicBlock
	Cuts       []ir.Edge
	Fact       string
	// HelperCuts: the same fact expressed for a helper function (edges of h that contradict it)
	HelperCuts func(h *ssa.Function) []ir.Edge
}

func (o *Opt) start() ssa.Instruction {
	if o == nil {
		return nil
	}
	return o.Start
}
func (o *Opt) run(r *ir.Reach) *ir.Reach {
	if o != nil && o.StartBlock != nil {
		return r.RunFromBlock(o.StartBlock)
	}
	return r.Run(o.start())
}

func (o *Opt) cuts() []ir.Edge {
	if o == nil {
		return nil
	}
	return o.Cuts
}

// NamedGuard is a guard with a printable description.
type NamedGuard struct {
	Name string
	G    ir.Guard
}

// Dominates decides: every path from the entry of fn (or from just after
// `start`) to any sink takes a pass edge of guard g.  One obligation per
// (fn, guard, sinkDesc).
func Dominates(c *core.Ctx, rule string, fn *ssa.Function, g NamedGuard, sinks []ir.Sink, sinkDesc string, opt *Opt) bool {
	g.G = ir.AllForms(g.G)
	if fn == nil {
		return false
	}
	if opt != nil && opt.HelperCuts != nil {
		prev := FactCutsFor
		FactCutsFor = opt.HelperCuts
		defer func() { FactCutsFor = prev }()
	}
	c.Touch(fn)
	construct := g.Name + " ≺ " + sinkDesc
	if len(sinks) == 0 {
		c.Broken(rule, fn, construct, c.P.Rel(fn.Pos()), "no sink found: "+sinkDesc)
		return false
	}
	pass := ir.PassEdges(fn, g.G)
	r := opt.run(ir.NewReach(fn).CutEdges(pass).CutEdges(opt.cuts()))
	var lifted []liftedCall
	liftedDone := false
	for _, s := range sinks {
		if s.BoolVal != nil {
			// `return <cond>`: returning want is equivalent to the guard passing
			v, neg := s.BoolVal, false
			for {
				if u, ok := v.(*ssa.UnOp); ok && u.Op == token.NOT {
					v, neg = u.X, !neg
					continue
				}
				break
			}
			if ok, passTrue := g.G(ir.Cond{V: v, Neg: false}); ok && (passTrue != neg) == s.BoolWant {
				continue
			}
			// `return helper(...)`: the helper answers `want` only on exits that passed the guard
			if cl, isCall := v.(*ssa.Call); isCall {
				if h := moduleHelper(cl, fn); h != nil {
					bad, good := guardExits(h, cl, g.G, 0)
					if good > 0 {
						wantVal := kTrue
						if s.BoolWant == neg {
							wantVal = kFalse
						}
						allOther := true
						for _, e := range bad {
							if len(e.known) == 0 || e.known[0] == wantVal || e.known[0] == kUnknown {
								allOther = false
							}
						}
						if allOther {
							continue
						}
					}
				}
			}
		}
		if r.SinkReachable(s) {
			// the guard may sit in a helper function: summarise helper calls and retry
			if !liftedDone {
				lifted, liftedDone = liftGuard(fn, g.G, 0), true
			}
			if len(lifted) > 0 {
				bad, r2 := sinkReachableLifted(fn, lifted,
					func() *ir.Reach { return ir.NewReach(fn).CutEdges(pass).CutEdges(opt.cuts()) },
					func(x *ir.Reach) *ir.Reach { return opt.run(x) }, s)
				if !bad {
					continue
				}
				r = r2
			}
			what := "guard absent in function"
			if len(pass) > 0 {
				what = fmt.Sprintf("%d guard test(s) present but a path avoids them", len(pass))
			}
			c.Violate(rule, fn, construct, c.P.Rel(s.Instr.Pos()),
				fmt.Sprintf("%s reachable without passing [%s] (%s); path %s", s.Note, g.Name, what, r.Path(c.P, s.Instr)))
			return false
		}
	}
	c.Hold(rule, fn, construct, c.P.Rel(fn.Pos()), fmt.Sprintf("%d sink(s), %d pass edge(s)", len(sinks), len(pass)))
	return true
}

// MustPassCall decides: every path from entry (or start) to any sink executes
// a call satisfying pred first.
func MustPassCall(c *core.Ctx, rule string, fn *ssa.Function, callDesc string, pred func(ssa.CallInstruction) bool, sinks []ir.Sink, sinkDesc string, opt *Opt) bool {
	if fn == nil {
		return false
	}
	if opt != nil && opt.HelperCuts != nil {
		prev := FactCutsFor
		FactCutsFor = opt.HelperCuts
		defer func() { FactCutsFor = prev }()
	}
	c.Touch(fn)
	construct := "call " + callDesc + " ≺ " + sinkDesc
	if len(sinks) == 0 {
		c.Broken(rule, fn, construct, c.P.Rel(fn.Pos()), "no sink found: "+sinkDesc)
		return false
	}
	r := ir.NewReach(fn).CutEdges(opt.cuts())
	n := 0
	for _, call := range ir.Calls(fn, pred) {
		r.Barrier[call] = true
		n++
	}
	opt.run(r)
	var lifted []liftedCall
	liftedDone := false
	for _, s := range sinks {
		if r.SinkReachable(s) {
			// the obligatory call may sit in a helper function
			if !liftedDone {
				lifted, liftedDone = liftCall(fn, pred, 0), true
			}
			if len(lifted) > 0 {
				bad, r2 := sinkReachableLifted(fn, lifted,
					func() *ir.Reach {
						x := ir.NewReach(fn).CutEdges(opt.cuts())
						for _, call := range ir.Calls(fn, pred) {
							x.Barrier[call] = true
						}
						return x
					},
					func(x *ir.Reach) *ir.Reach { return opt.run(x) }, s)
				if !bad {
					continue
				}
				r = r2
			}
			c.Violate(rule, fn, construct, c.P.Rel(s.Instr.Pos()),
				fmt.Sprintf("%s reachable without a prior call of %s (%d such call(s) in function); path %s", s.Note, callDesc, n, r.Path(c.P, s.Instr)))
			return false
		}
	}
	c.Hold(rule, fn, construct, c.P.Rel(fn.Pos()), fmt.Sprintf("%d sink(s), %d call(s)", len(sinks), n))
	return true
}

// NoCallAfter decides: no call satisfying `later` is reachable after a call
// satisfying `first` ... (used for ordering a ≺ b: b never before a is
// expressed with MustPassCall; this one is "b is not followed by a").
func NoCallAfter(c *core.Ctx, rule string, fn *ssa.Function, firstDesc string, first func(ssa.CallInstruction) bool, laterDesc string, later func(ssa.CallInstruction) bool) bool {
	if fn == nil {
		return false
	}
	c.Touch(fn)
	construct := "no " + laterDesc + " after " + firstDesc
	firsts := ir.Calls(fn, first)
	if len(firsts) == 0 {
		c.Broken(rule, fn, construct, c.P.Rel(fn.Pos()), "no call of "+firstDesc)
		return false
	}
	laters := ir.Calls(fn, later)
	for _, f := range firsts {
		r := ir.NewReach(fn).Run(f)
		for _, l := range laters {
			if r.Instr(l) {
				c.Violate(rule, fn, construct, c.P.Rel(l.Pos()), fmt.Sprintf("%s reachable after %s at %s", laterDesc, firstDesc, c.P.Rel(f.Pos())))
				return false
			}
		}
	}
	c.Hold(rule, fn, construct, c.P.Rel(fn.Pos()), fmt.Sprintf("%d/%d sites", len(firsts), len(laters)))
	return true
}

// Success sinks of fn with a floor of one.
func Success(fn *ssa.Function) []ir.Sink { return ir.SuccessSinks(fn) }

// ErrNilOf builds the guard "call to obj returned a nil error".
func ErrNilOf(name string, objs ...*types.Func) NamedGuard {
	return NamedGuard{Name: name + " err==nil", G: ir.ErrNil(ir.CallTo(objs...))}
}

// Obj resolves a function object or records BROKEN.
func Obj(c *core.Ctx, pkg, name string) *types.Func {
	o, err := c.P.FuncObj(pkg, name)
	if err != nil {
		c.Broken("anchor", pkg+"."+name, "resolve", "", err.Error())
		return nil
	}
	return o
}

// CallPred builds a CallInstruction predicate from objects.
func CallPred(objs ...*types.Func) func(ssa.CallInstruction) bool {
	return func(ci ssa.CallInstruction) bool { return ir.CalleeIs(ci, objs...) }
}

// NetFactCuts returns the CFG edges of fn that are infeasible under the
// configuration fact "config.DefConfig.P2PNode.NetworkId == netID": for each
// `K == NetworkId` / `K != NetworkId` test the edge contradicting the fact.
func NetFactCuts(fn *ssa.Function, netID int64) []ir.Edge {
	var out []ir.Edge
	isNet := func(v ssa.Value) bool {
		u, ok := ir.Strip(v).(*ssa.UnOp)
		if !ok {
			return false
		}
		fa, ok := u.X.(*ssa.FieldAddr)
		if !ok {
			return false
		}
		st, ok := fa.X.Type().Underlying().(*types.Pointer).Elem().Underlying().(*types.Struct)
		return ok && st.Field(fa.Field).Name() == "NetworkId"
	}
	for _, cd := range ir.Conds(fn) {
		b, ok := cd.V.(*ssa.BinOp)
		if !ok || (b.Op != token.EQL && b.Op != token.NEQ) {
			continue
		}
		var k int64
		var isk bool
		if isNet(b.X) {
			k, isk = ir.ConstInt(b.Y)
		} else if isNet(b.Y) {
			k, isk = ir.ConstInt(b.X)
		}
		if !isk {
			continue
		}
		val := (k == netID) == (b.Op == token.EQL) // value of cd.V under the fact
		idx := cd.FalseIdx()
		if !val {
			idx = cd.TrueIdx()
		}
		out = append(out, ir.Edge{From: cd.If.Block(), Idx: idx})
	}
	return out
}
