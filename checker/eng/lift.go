package eng

import (
	"go/token"
	"go/types"
	"strings"

	"golang.org/x/tools/go/ssa"

	"polyverif/ir"
)

// ---------------------------------------------------------------------------
// Helper lifting.
//
// A maintainer may move a check ("is this message already done?", "is the
// height the next one?") or an obligatory call ("mark it done", "forward the
// entry") into a small helper function.  The rule about the caller must not
// change its verdict: behaviour did not change.  Instead of inlining (go/ssa
// values cannot be cloned from outside the package) the engines use SUMMARIES:
//
//   for a call site `cl` of a module function H inside fn, compute the exits of
//   H that are reachable WITHOUT passing the guard / the obligatory call inside
//   H ("bad exits"), each with what is statically known about the values it
//   returns (bool constant, nil / non-nil error, nil pointer).  If H has at least
//   one good exit, `cl` becomes a barrier in the caller's main query, and for
//   every bad exit a second query starts just after `cl` with the caller's tests
//   on H's results resolved by the known values (the "scenario"): the sinks must
//   be unreachable in every scenario.
//
// While H is analysed its parameters are bound to the caller's arguments
// (ir.Strip resolves a bound parameter), so a guard predicate that recognises
// `block.Header.Height` in the caller also recognises the helper's parameter
// that received it.
// ---------------------------------------------------------------------------

type exitKnown int

const (
	kUnknown exitKnown = iota
	kTrue
	kFalse
	kNil
	kNonNil
)

type helperExit struct {
	ret   *ssa.Return
	known []exitKnown
}

type liftedCall struct {
	call *ssa.Call
	bad  []helperExit
}

const liftMaxBlocks = 60

func moduleHelper(cl *ssa.Call, caller *ssa.Function) *ssa.Function {
	h := cl.Common().StaticCallee()
	if h == nil || h == caller || len(h.Blocks) == 0 || len(h.Blocks) > liftMaxBlocks || h.Pkg == nil || h.Pkg.Pkg == nil {
		return nil
	}
	if !strings.HasPrefix(h.Pkg.Pkg.Path(), ir.Mod) {
		return nil
	}
	// synthetic wrappers (bound method closures) are followed to the method they call
	return h
}

func classifyExit(h *ssa.Function, ret *ssa.Return) []exitKnown {
	out := make([]exitKnown, len(ret.Results))
	for i, v := range ret.Results {
		if k, ok := ir.ConstBool(v); ok {
			if k {
				out[i] = kTrue
			} else {
				out[i] = kFalse
			}
			continue
		}
		if ir.IsNilConst(v) {
			out[i] = kNil
			continue
		}
		if ir.IsErrorType(v.Type()) {
			switch ir.ClassifyErr(h, v, ret.Block()) {
			case ir.RetFail:
				out[i] = kNonNil
			case ir.RetSuccess:
				out[i] = kNil
			}
		}
	}
	return out
}

// scenarioCuts: edges of fn that are infeasible when call cl returned `known`.
func scenarioCuts(fn *ssa.Function, cl *ssa.Call, known []exitKnown) []ir.Edge {
	resultIdx := func(v ssa.Value) int {
		v = ir.Strip(v)
		if v == ssa.Value(cl) {
			return 0
		}
		if ex, ok := v.(*ssa.Extract); ok && ex.Tuple == ssa.Value(cl) {
			return ex.Index
		}
		return -1
	}
	var cuts []ir.Edge
	for _, cd := range ir.Conds(fn) {
		// boolean result used directly or compared with a constant
		v := cd.V
		valWhenTrue := true
		if b, ok := v.(*ssa.BinOp); ok {
			if k, isK := ir.ConstBool(b.Y); isK {
				switch b.Op.String() {
				case "==":
					v, valWhenTrue = b.X, k
				case "!=":
					v, valWhenTrue = b.X, !k
				}
			}
		}
		if i := resultIdx(v); i >= 0 && i < len(known) && (known[i] == kTrue || known[i] == kFalse) {
			isTrue := known[i] == kTrue
			// the condition holds iff result == valWhenTrue
			if isTrue == valWhenTrue {
				cuts = append(cuts, ir.Edge{From: cd.If.Block(), Idx: cd.FalseIdx()})
			} else {
				cuts = append(cuts, ir.Edge{From: cd.If.Block(), Idx: cd.TrueIdx()})
			}
			continue
		}
		if x, neq, ok := ir.NilCmp(cd.V); ok {
			if i := resultIdx(x); i >= 0 && i < len(known) && (known[i] == kNil || known[i] == kNonNil) {
				isNil := known[i] == kNil
				condHolds := isNil != neq // x == nil holds iff isNil; x != nil holds iff !isNil
				if condHolds {
					cuts = append(cuts, ir.Edge{From: cd.If.Block(), Idx: cd.FalseIdx()})
				} else {
					cuts = append(cuts, ir.Edge{From: cd.If.Block(), Idx: cd.TrueIdx()})
				}
			}
		}
	}
	return cuts
}

// liftGuard returns the helper calls of fn that act as (partial) pass points of
// guard g, with their bad exits.
func liftGuard(fn *ssa.Function, g ir.Guard, depth int) []liftedCall {
	if depth > 2 {
		return nil
	}
	var out []liftedCall
	for _, b := range fn.Blocks {
		for _, in := range b.Instrs {
			cl, ok := in.(*ssa.Call)
			if !ok {
				continue
			}
			h := moduleHelper(cl, fn)
			if h == nil {
				continue
			}
			bad, good := guardExits(h, cl, g, depth)
			if good == 0 {
				continue
			}
			out = append(out, liftedCall{cl, bad})
		}
	}
	return out
}

// guardExits classifies the returns of helper h (called at cl) into those
// reachable without passing g and the others.
func guardExits(h *ssa.Function, cl *ssa.Call, g ir.Guard, depth int) (bad []helperExit, good int) {
	undo := ir.BindParams(h, cl.Common().Args)
	defer undo()
	pass := ir.PassEdges(h, g)
	inner := liftGuard(h, g, depth+1)
	if len(pass) == 0 && len(inner) == 0 && !returnsGuardValue(h, g) {
		return nil, 0
	}
	r := ir.NewReach(h).CutEdges(pass).CutEdges(factCuts(h))
	for _, lc := range inner {
		r.Barrier[lc.call] = true
	}
	r.Run(nil)
	reachable := map[*ssa.Return]bool{}
	mark := func(rr *ir.Reach) {
		for _, b := range h.Blocks {
			if len(b.Instrs) == 0 || b == h.Recover {
				continue
			}
			if ret, ok := b.Instrs[len(b.Instrs)-1].(*ssa.Return); ok && rr.Instr(ret) {
				reachable[ret] = true
			}
		}
	}
	mark(r)
	for _, lc := range inner {
		for _, e := range lc.bad {
			r2 := ir.NewReach(h).CutEdges(pass).CutEdges(scenarioCuts(h, lc.call, e.known)).CutEdges(factCuts(h))
			for _, o := range inner {
				if o.call != lc.call {
					r2.Barrier[o.call] = true
				}
			}
			r2.Run(lc.call)
			mark(r2)
		}
	}
	for _, b := range h.Blocks {
		if len(b.Instrs) == 0 || b == h.Recover {
			continue
		}
		ret, ok := b.Instrs[len(b.Instrs)-1].(*ssa.Return)
		if !ok {
			continue
		}
		if reachable[ret] {
			// `return <cond>` where <cond> is an instance of the guard: the exit is good for the
			// outcome on which the guard passes and bad (with a known boolean) for the other
			split := false
			for i, v := range ret.Results {
				if bt, isB := v.Type().Underlying().(*types.Basic); !isB || bt.Kind() != types.Bool {
					continue
				}
				if _, isK := ir.ConstBool(v); isK {
					continue
				}
				cv, neg := v, false
				// `return a || b` / `a && b`: the result is a phi in the return block; when the cut
				// leaves one live incoming edge the value returned on the remaining paths is that edge's
				if phi, isPhi := cv.(*ssa.Phi); isPhi && phi.Block() == b {
					var live []ssa.Value
					for pi, pred := range b.Preds {
						if !r.BlockEntered(pred) {
							continue
						}
						cut := false
						for _, e := range pass {
							if e.From == pred && e.Idx < len(pred.Succs) && pred.Succs[e.Idx] == b {
								cut = true
							}
						}
						if !cut {
							live = append(live, phi.Edges[pi])
						}
					}
					if len(live) == 1 {
						cv = live[0]
					}
					// `return a || b || c`: every short-circuit edge carries the constant K; without passing
					// the guard the value returned is K (all live edges constant), or K / the last operand
					var rest []ssa.Value
					kAll, kSet, kSame := false, false, true
					for _, lv := range live {
						if k, isK := ir.ConstBool(lv); isK {
							if kSet && k != kAll {
								kSame = false
							}
							kAll, kSet = k, true
						} else {
							rest = append(rest, lv)
						}
					}
					if kSet && kSame && len(rest) == 0 && len(live) < len(phi.Edges) {
						known := classifyExit(h, ret)
						if kAll {
							known[i] = kTrue
						} else {
							known[i] = kFalse
						}
						bad = append(bad, helperExit{ret, known})
						good++
						split = true
						break
					}
					if kSet && kSame && len(rest) == 1 {
						lv, lneg := rest[0], false
						for {
							if u, isU := lv.(*ssa.UnOp); isU && u.Op == token.NOT {
								lv, lneg = u.X, !lneg
								continue
							}
							break
						}
						if ok, passTrue := g(ir.Cond{V: lv}); ok && ((!passTrue) != lneg) == kAll {
							known := classifyExit(h, ret)
							if kAll {
								known[i] = kTrue
							} else {
								known[i] = kFalse
							}
							bad = append(bad, helperExit{ret, known})
							good++
							split = true
							break
						}
					}
				}
				for {
					if u, isU := cv.(*ssa.UnOp); isU && u.Op == token.NOT {
						cv, neg = u.X, !neg
						continue
					}
					break
				}
				if ok, passTrue := g(ir.Cond{V: cv}); ok {
					known := classifyExit(h, ret)
					// the returned value is true iff cond(cv) != neg; guard passes iff cond == passTrue
					badWhenCond := !passTrue
					retVal := badWhenCond != neg
					if retVal {
						known[i] = kTrue
					} else {
						known[i] = kFalse
					}
					bad = append(bad, helperExit{ret, known})
					good++
					split = true
					break
				}
			}
			// `return inner(...)` handing back the error / pointer result of the very call the guard is
			// about: the exit is good when that result is nil (resp. non-nil) and bad, with the result
			// known, otherwise
			if !split {
				for i, v := range ret.Results {
					if _, isK := v.(*ssa.Const); isK {
						continue
					}
					isErr := ir.IsErrorType(v.Type())
					isPtr := nilable(v.Type())
					if !isErr && !isPtr {
						continue
					}
					nilK := ssa.NewConst(nil, v.Type())
					if ok, passTrue := g(ir.Cond{V: &ssa.BinOp{Op: token.EQL, X: v, Y: nilK}}); ok {
						known := classifyExit(h, ret)
						if passTrue { // guard passes when v == nil: the bad outcome is v != nil
							known[i] = kNonNil
						} else {
							known[i] = kNil
						}
						bad = append(bad, helperExit{ret, known})
						good++
						split = true
						break
					}
				}
			}
			if !split {
				bad = append(bad, helperExit{ret, classifyExit(h, ret)})
			}
		} else {
			good++
		}
	}
	return bad, good
}

// liftCall: as liftGuard, for "every path executes a call satisfying pred".
func liftCall(fn *ssa.Function, pred func(ssa.CallInstruction) bool, depth int) []liftedCall {
	return liftInstr(fn, func(in ssa.Instruction) bool {
		ci, ok := in.(ssa.CallInstruction)
		return ok && pred(ci)
	}, depth)
}

// liftInstr: as liftCall for an arbitrary obligatory instruction (a store, a map update …).
func liftInstr(fn *ssa.Function, pred func(ssa.Instruction) bool, depth int) []liftedCall {
	if depth > 2 {
		return nil
	}
	var out []liftedCall
	for _, b := range fn.Blocks {
		for _, in := range b.Instrs {
			cl, ok := in.(*ssa.Call)
			if !ok || pred(cl) {
				continue
			}
			h := moduleHelper(cl, fn)
			if h == nil {
				continue
			}
			bad, good := callExits(h, cl, pred, depth)
			if good == 0 {
				continue
			}
			out = append(out, liftedCall{cl, bad})
		}
	}
	return out
}

func callExits(h *ssa.Function, cl *ssa.Call, pred func(ssa.Instruction) bool, depth int) (bad []helperExit, good int) {
	undo := ir.BindParams(h, cl.Common().Args)
	defer undo()
	var direct []ssa.Instruction
	for _, b := range h.Blocks {
		for _, in := range b.Instrs {
			if pred(in) {
				direct = append(direct, in)
			}
		}
	}
	inner := liftInstr(h, pred, depth+1)
	if len(direct) == 0 && len(inner) == 0 {
		return nil, 0
	}
	reachable := map[*ssa.Return]bool{}
	mark := func(rr *ir.Reach) {
		for _, b := range h.Blocks {
			if len(b.Instrs) == 0 || b == h.Recover {
				continue
			}
			if ret, ok := b.Instrs[len(b.Instrs)-1].(*ssa.Return); ok && rr.Instr(ret) {
				reachable[ret] = true
			}
		}
	}
	r := ir.NewReach(h).CutEdges(factCuts(h))
	for _, d := range direct {
		r.Barrier[d] = true
	}
	for _, lc := range inner {
		r.Barrier[lc.call] = true
	}
	r.Run(nil)
	mark(r)
	for _, lc := range inner {
		for _, e := range lc.bad {
			r2 := ir.NewReach(h).CutEdges(scenarioCuts(h, lc.call, e.known)).CutEdges(factCuts(h))
			for _, d := range direct {
				r2.Barrier[d] = true
			}
			for _, o := range inner {
				if o.call != lc.call {
					r2.Barrier[o.call] = true
				}
			}
			r2.Run(lc.call)
			mark(r2)
		}
	}
	for _, b := range h.Blocks {
		if len(b.Instrs) == 0 || b == h.Recover {
			continue
		}
		ret, ok := b.Instrs[len(b.Instrs)-1].(*ssa.Return)
		if !ok {
			continue
		}
		if reachable[ret] {
			bad = append(bad, helperExit{ret, classifyExit(h, ret)})
		} else {
			good++
		}
	}
	return bad, good
}

// sinkReachableLifted: with the lifted calls as barriers, is sink s reachable in
// the main query or in any bad-exit scenario?  `mk` builds a fresh Reach carrying
// the caller's own cuts/barriers (pass edges, direct calls, configuration cuts).
func sinkReachableLifted(fn *ssa.Function, lifted []liftedCall, mk func() *ir.Reach, run func(*ir.Reach) *ir.Reach, s ir.Sink) (bool, *ir.Reach) {
	r := mk()
	for _, lc := range lifted {
		r.Barrier[lc.call] = true
	}
	run(r)
	if r.SinkReachable(s) {
		return true, r
	}
	for _, lc := range lifted {
		// the call must itself be reachable in the main query for its scenarios to matter
		if !r.Instr(lc.call) {
			continue
		}
		for _, e := range lc.bad {
			r2 := mk().CutEdges(scenarioCuts(fn, lc.call, e.known))
			for _, o := range lifted {
				if o.call != lc.call {
					r2.Barrier[o.call] = true
				}
			}
			r2.Run(lc.call)
			if r2.SinkReachable(s) {
				// `return helper(...)`: in this scenario the helper's error result is known
				// non-nil, so the return is a failing one, not the accepting sink
				if sinkFailsInScenario(s, lc.call, e.known) {
					continue
				}
				return true, r2
			}
		}
	}
	return false, r
}

// sinkFailsInScenario: sink s is a return whose error result is the lifted call's
// own error result, known non-nil in this scenario (or a bool result known false
// for a boolean-returning caller).
func sinkFailsInScenario(s ir.Sink, cl *ssa.Call, known []exitKnown) bool {
	ret, ok := s.Instr.(*ssa.Return)
	if !ok || len(ret.Results) == 0 {
		return false
	}
	last := ret.Results[len(ret.Results)-1]
	// `if err == nil { err = h(...) }; return err`: the sink is one incoming edge of the phi
	if phi, isPhi := last.(*ssa.Phi); isPhi && s.Via != nil && phi.Block() == ret.Block() {
		for i, p := range ret.Block().Preds {
			if p == s.Via.From && i < len(phi.Edges) {
				last = phi.Edges[i]
			}
		}
	}
	idx := -1
	v := ir.Strip(last)
	if v == ssa.Value(cl) {
		idx = 0
	} else if ex, isEx := v.(*ssa.Extract); isEx && ex.Tuple == ssa.Value(cl) {
		idx = ex.Index
	}
	if idx < 0 || idx >= len(known) {
		return false
	}
	if ir.IsErrorType(last.Type()) {
		return known[idx] == kNonNil
	}
	return false
}

// returnsGuardValue: some return of h hands back a boolean that is an instance of g.
func returnsGuardValue(h *ssa.Function, g ir.Guard) bool {
	for _, b := range h.Blocks {
		if len(b.Instrs) == 0 {
			continue
		}
		ret, ok := b.Instrs[len(b.Instrs)-1].(*ssa.Return)
		if !ok {
			continue
		}
		for _, v := range ret.Results {
			if _, isK := v.(*ssa.Const); isK {
				continue
			}
			// an error / pointer result that is the subject of the guard's nil test
			isPtr := nilable(v.Type())
			if ir.IsErrorType(v.Type()) || isPtr {
				if ok2, _ := g(ir.Cond{V: &ssa.BinOp{Op: token.EQL, X: v, Y: ssa.NewConst(nil, v.Type())}}); ok2 {
					return true
				}
				continue
			}
			if bt, isB := v.Type().Underlying().(*types.Basic); !isB || bt.Kind() != types.Bool {
				continue
			}
			cv := v
			for {
				if u, isU := cv.(*ssa.UnOp); isU && u.Op == token.NOT {
					cv = u.X
					continue
				}
				break
			}
			if ok2, _ := g(ir.Cond{V: cv}); ok2 {
				return true
			}
			// the last operand of `return a || b || c` (a phi in the return block)
			if phi, isPhi := cv.(*ssa.Phi); isPhi && phi.Block() == b {
				for _, e := range phi.Edges {
					for {
						if u, isU := e.(*ssa.UnOp); isU && u.Op == token.NOT {
							e = u.X
							continue
						}
						break
					}
					if _, isK := e.(*ssa.Const); isK {
						continue
					}
					if ok2, _ := g(ir.Cond{V: e}); ok2 {
						return true
					}
				}
			}
		}
	}
	return false
}

// PassEdgesThrough: the pass edges of g in fn, including the tests fn makes on
// the result of a module helper that merely hands back the guard's subject —
// `ok, err := forward(...)` with `func forward(...) (bool, error) { return inner(...) }`:
// the edge `ok == true` of the caller is a pass edge of "inner(...) == true".
func PassEdgesThrough(fn *ssa.Function, g ir.Guard) []ir.Edge {
	g = ir.AllForms(g)
	out := ir.PassEdges(fn, g)
	for _, b := range fn.Blocks {
		for _, in := range b.Instrs {
			cl, ok := in.(*ssa.Call)
			if !ok {
				continue
			}
			h := moduleHelper(cl, fn)
			if h == nil {
				continue
			}
			undo := ir.BindParams(h, cl.Common().Args)
			nres := h.Signature.Results().Len()
			for i := 0; i < nres; i++ {
				// every return must hand back an instance of g at result i with the same polarity
				n, agree, passTrue := 0, true, false
				isBool := false
				if bt, isB := h.Signature.Results().At(i).Type().Underlying().(*types.Basic); isB && bt.Kind() == types.Bool {
					isBool = true
				}
				isErr := ir.IsErrorType(h.Signature.Results().At(i).Type())
				if !isBool && !isErr {
					continue
				}
				for _, hb := range h.Blocks {
					ret, isRet := hb.Instrs[len(hb.Instrs)-1].(*ssa.Return)
					if !isRet || i >= len(ret.Results) {
						continue
					}
					v := ret.Results[i]
					var okG, pt bool
					if isBool {
						okG, pt = g(ir.Cond{V: v})
					} else {
						okG, pt = g(ir.Cond{V: &ssa.BinOp{Op: token.EQL, X: v, Y: ssa.NewConst(nil, v.Type())}})
					}
					if !okG || (n > 0 && pt != passTrue) {
						agree = false
					}
					passTrue = pt
					n++
				}
				if n == 0 || !agree {
					continue
				}
				for _, cd := range ir.Conds(fn) {
					var subj ssa.Value
					eqNil := false
					if isBool {
						subj = cd.V
					} else if x, neq, okN := ir.NilCmp(cd.V); okN {
						subj, eqNil = x, !neq
					} else {
						continue
					}
					hit := false
					if ex, isEx := subj.(*ssa.Extract); isEx && ex.Tuple == ssa.Value(cl) && ex.Index == i {
						hit = true
					} else if nres == 1 && subj == ssa.Value(cl) {
						hit = true
					}
					if !hit {
						continue
					}
					// caller's condition true <=> (isBool: result true) / (isErr: result==nil iff eqNil)
					condTrueMeansPass := passTrue
					if !isBool {
						condTrueMeansPass = passTrue == eqNil
					}
					idx := cd.FalseIdx()
					if condTrueMeansPass {
						idx = cd.TrueIdx()
					}
					out = append(out, ir.Edge{From: cd.If.Block(), Idx: idx})
				}
			}
			undo()
		}
	}
	return out
}

// nilable: a pointer, slice or map type (a value whose nil test a guard may be about).
func nilable(t types.Type) bool {
	switch t.Underlying().(type) {
	case *types.Pointer, *types.Slice, *types.Map:
		return true
	}
	return false
}

// FactCutsFor, when set, gives the edges of a helper that contradict a configuration fact the current rule
// assumes (e.g. "the node runs on main net"); helper summaries are computed under the same fact as the
// function they are lifted into.  Rules set it for the duration of a Dominates / MustPassCall call through
// Opt.HelperCuts.
var FactCutsFor func(h *ssa.Function) []ir.Edge

func factCuts(h *ssa.Function) []ir.Edge {
	if FactCutsFor == nil {
		return nil
	}
	return FactCutsFor(h)
}
