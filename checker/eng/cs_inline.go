package eng

import (
	"strings"

	"golang.org/x/tools/go/ssa"
)

var flatDepth int

func isCodecMethodName(n string) bool {
	switch n {
	case "Serialization", "Serialize", "Deserialization", "Deserialize":
		return true
	}
	return false
}

// passesStream: one of the arguments is a stream parameter of fn (sink, source, writer, reader).
func passesStream(fn *ssa.Function, args []ssa.Value) bool {
	for _, a := range args {
		p, ok := a.(*ssa.Parameter)
		if !ok {
			continue
		}
		t := p.Type().String()
		if strings.Contains(t, "ZeroCopySink") || strings.Contains(t, "ZeroCopySource") || strings.Contains(t, "io.Writer") || strings.Contains(t, "io.Reader") {
			return true
		}
	}
	return false
}
