package eng

import (
	"fmt"
	"go/constant"
	"go/token"

	"golang.org/x/tools/go/ssa"

	"polyverif/ir"
)

// NF — quasi-linear normal forms of integer threshold expressions.
//
// An Expr is a tree over one variable N, integer constants, + - * and
// truncating division by a positive constant.  For N >= n0, provided every
// division numerator is non-negative there (checked), such a tree is
// quasi-linear: f(N+P) = f(N) + s with P the product of the divisors.  Two
// trees are therefore equal for ALL N >= n0 iff they agree on [n0, n0+2P).
// The values are obtained by evaluating the *extracted tree*, never by
// running the program.

type Expr struct {
	Op   string // "N" "k" "+" "-" "*" "/"
	K    int64
	L, R *Expr
}

func N() *Expr                   { return &Expr{Op: "N"} }
func K(k int64) *Expr            { return &Expr{Op: "k", K: k} }
func Add(a, b *Expr) *Expr       { return &Expr{Op: "+", L: a, R: b} }
func Sub(a, b *Expr) *Expr       { return &Expr{Op: "-", L: a, R: b} }
func Mul(a, b *Expr) *Expr       { return &Expr{Op: "*", L: a, R: b} }
func Div(a *Expr, k int64) *Expr { return &Expr{Op: "/", L: a, R: K(k)} }

func (e *Expr) String() string {
	switch e.Op {
	case "N":
		return "N"
	case "k":
		return fmt.Sprint(e.K)
	}
	return "(" + e.L.String() + e.Op + e.R.String() + ")"
}

func (e *Expr) Eval(n int64) int64 {
	switch e.Op {
	case "N":
		return n
	case "k":
		return e.K
	case "+":
		return e.L.Eval(n) + e.R.Eval(n)
	case "-":
		return e.L.Eval(n) - e.R.Eval(n)
	case "*":
		return e.L.Eval(n) * e.R.Eval(n)
	case "/":
		d := e.R.Eval(n)
		if d == 0 {
			return 0
		}
		return e.L.Eval(n) / d // Go truncating division
	}
	return 0
}

func (e *Expr) isConst() bool {
	switch e.Op {
	case "N":
		return false
	case "k":
		return true
	}
	return e.L.isConst() && e.R.isConst()
}

// period: product of divisors; ok=false for non-linear trees.
func (e *Expr) period() (int64, bool) {
	switch e.Op {
	case "N", "k":
		return 1, true
	case "+", "-":
		a, ok1 := e.L.period()
		b, ok2 := e.R.period()
		return lcm(a, b), ok1 && ok2
	case "*":
		if !e.L.isConst() && !e.R.isConst() {
			return 0, false
		}
		a, ok1 := e.L.period()
		b, ok2 := e.R.period()
		return lcm(a, b), ok1 && ok2
	case "/":
		if !e.R.isConst() || e.R.Eval(0) <= 0 {
			return 0, false
		}
		a, ok := e.L.period()
		return a * e.R.Eval(0), ok
	}
	return 0, false
}

func gcd(a, b int64) int64 {
	for b != 0 {
		a, b = b, a%b
	}
	return a
}
func lcm(a, b int64) int64 { return a / gcd(a, b) * b }

// QuasiLinear verifies that e is quasi-linear for all N >= n0 and returns its
// period and slope.  It checks recursively that every division numerator is
// non-negative on one period and has non-negative slope (so truncation is
// floor for all N >= n0).
func (e *Expr) QuasiLinear(n0 int64) (P, slope int64, err error) {
	P, ok := e.period()
	if !ok {
		return 0, 0, fmt.Errorf("%s is not linear in N", e)
	}
	if P > 1<<20 {
		return 0, 0, fmt.Errorf("period too large")
	}
	var check func(x *Expr) error
	check = func(x *Expr) error {
		switch x.Op {
		case "N", "k":
			return nil
		case "/":
			p, ok := x.L.period()
			if !ok {
				return fmt.Errorf("non-linear numerator %s", x.L)
			}
			s := x.L.Eval(n0+p) - x.L.Eval(n0)
			if s < 0 {
				return fmt.Errorf("numerator %s has negative slope", x.L)
			}
			for r := int64(0); r < p; r++ {
				if x.L.Eval(n0+r) < 0 {
					return fmt.Errorf("numerator %s negative at N=%d", x.L, n0+r)
				}
				if x.L.Eval(n0+p+r)-x.L.Eval(n0+r) != s {
					return fmt.Errorf("numerator %s not quasi-linear", x.L)
				}
			}
			return check(x.L)
		default:
			if err := check(x.L); err != nil {
				return err
			}
			return check(x.R)
		}
	}
	if err := check(e); err != nil {
		return 0, 0, err
	}
	slope = e.Eval(n0+P) - e.Eval(n0)
	for r := int64(0); r < P; r++ {
		if e.Eval(n0+P+r)-e.Eval(n0+r) != slope {
			return 0, 0, fmt.Errorf("%s: difference over one period not constant at residue %d", e, r)
		}
	}
	return P, slope, nil
}

// EqualForAll decides f(N) == g(N) for all N >= n0.
func EqualForAll(f, g *Expr, n0 int64) (bool, string) {
	pf, _, err := f.QuasiLinear(n0)
	if err != nil {
		return false, "undecided: " + err.Error()
	}
	pg, _, err := g.QuasiLinear(n0)
	if err != nil {
		return false, "undecided: " + err.Error()
	}
	P := lcm(pf, pg)
	for n := n0; n < n0+2*P; n++ {
		if f.Eval(n) != g.Eval(n) {
			return false, fmt.Sprintf("differ at N=%d: %s=%d, %s=%d", n, f, f.Eval(n), g, g.Eval(n))
		}
	}
	return true, fmt.Sprintf("%s ≡ %s for all N>=%d (period %d, both quasi-linear, equal on two periods)", f, g, n0, P)
}

// PositiveForAll decides h(N) > 0 for all N >= n0.
func PositiveForAll(h *Expr, n0 int64) (bool, string) {
	P, s, err := h.QuasiLinear(n0)
	if err != nil {
		return false, "undecided: " + err.Error()
	}
	if s < 0 {
		return false, fmt.Sprintf("%s has negative slope %d per %d", h, s, P)
	}
	for n := n0; n < n0+P; n++ {
		if h.Eval(n) <= 0 {
			return false, fmt.Sprintf("%s = %d at N=%d", h, h.Eval(n), n)
		}
	}
	return true, fmt.Sprintf("%s > 0 for all N>=%d (period %d, slope %d >= 0, positive on one period)", h, n0, P, s)
}

// ExtractExpr builds the expression tree of an SSA integer value.  isN
// recognises the variable.  Anything else than constants, + - * / and
// conversions makes it fail.
func ExtractExpr(v ssa.Value, isN func(ssa.Value) bool) (*Expr, error) {
	return extract(v, isN, 0)
}

func extract(v ssa.Value, isN func(ssa.Value) bool, d int) (*Expr, error) {
	if d > 20 {
		return nil, fmt.Errorf("expression too deep")
	}
	if isN(v) {
		return N(), nil
	}
	if rv := ir.Resolve(v); rv != v {
		return extract(rv, isN, d+1)
	}
	switch x := v.(type) {
	case *ssa.Const:
		if k, ok := ir.ConstInt(x); ok {
			return K(k), nil
		}
	case *ssa.Convert:
		if isN(x.X) {
			return N(), nil
		}
		return extract(x.X, isN, d+1)
	case *ssa.ChangeType:
		return extract(x.X, isN, d+1)
	case *ssa.BinOp:
		var op string
		switch x.Op {
		case token.ADD:
			op = "+"
		case token.SUB:
			op = "-"
		case token.MUL:
			op = "*"
		case token.QUO:
			op = "/"
		default:
			return nil, fmt.Errorf("operator %s", x.Op)
		}
		l, err := extract(x.X, isN, d+1)
		if err != nil {
			return nil, err
		}
		r, err := extract(x.Y, isN, d+1)
		if err != nil {
			return nil, err
		}
		return &Expr{Op: op, L: l, R: r}, nil
	}
	// a module helper that computes the number (`quorum(n, legacy)`): its parameters stand for the call's
	// arguments, branches on a parameter bound to a boolean constant are decided, and every return that
	// remains feasible must compute the same tree
	if cl, isCall := v.(*ssa.Call); isCall {
		h := cl.Common().StaticCallee()
		if h != nil && len(h.Blocks) > 0 && len(h.Blocks) <= 40 && ir.InModule(h) && h.Signature.Results().Len() == 1 {
			unbind := ir.BindParams(h, cl.Common().Args)
			defer unbind()
			r := ReachUnderBoundConsts(h)
			var res *Expr
			for _, b := range h.Blocks {
				ret, isRet := b.Instrs[len(b.Instrs)-1].(*ssa.Return)
				if !isRet || len(ret.Results) != 1 || !r.Instr(ret) {
					continue
				}
				for _, leaf := range PhiLeaves(r, ret.Results[0]) {
					e, err := extract(leaf, isN, d+1)
					if err != nil {
						return nil, err
					}
					if res != nil && res.String() != e.String() {
						return nil, fmt.Errorf("helper %s returns different trees (%s, %s)", h.Name(), res, e)
					}
					res = e
				}
			}
			if res != nil {
				return res, nil
			}
		}
	}
	return nil, fmt.Errorf("not an arithmetic tree over N: %s (%T)", v.String(), v)
}

// IsLenOf builds an isN predicate: v == len(x) for an x satisfying pred.
func IsLenOf(pred func(ssa.Value) bool) func(ssa.Value) bool {
	return func(v ssa.Value) bool {
		c, ok := v.(*ssa.Call)
		if !ok {
			return false
		}
		b, ok := c.Common().Value.(*ssa.Builtin)
		if !ok || b.Name() != "len" {
			return false
		}
		return pred(c.Common().Args[0])
	}
}

// Standard formulas.
func FormulaNminusF() *Expr    { return Sub(N(), Div(Sub(N(), K(1)), 3)) }  // N - floor((N-1)/3)
func FormulaLegacy() *Expr     { return Sub(N(), Div(Mul(N(), K(6)), 7)) }  // N - floor(6N/7)
func FormulaCeil2N3() *Expr    { return Div(Add(Mul(K(2), N()), K(2)), 3) } // ceil(2N/3)
func FormulaCeilN3() *Expr     { return Div(Add(N(), K(2)), 3) }            // ceil(N/3)
func FormulaFloor2N3p1() *Expr { return Add(Div(Mul(K(2), N()), 3), K(1)) } // floor(2N/3)+1

// ReachUnderBoundConsts: reachability in helper h from its entry with every branch on a parameter that is
// currently bound (ir.BindParams) to a boolean constant decided.
func ReachUnderBoundConsts(h *ssa.Function) *ir.Reach {
	r := ir.NewReach(h)
	for _, cd := range ir.Conds(h) {
		k, isK := ir.Resolve(cd.V).(*ssa.Const)
		if !isK || k.Value == nil || k.Value.Kind() != constant.Bool {
			continue
		}
		if constant.BoolVal(k.Value) {
			r.Cut[ir.Edge{From: cd.If.Block(), Idx: cd.FalseIdx()}] = true
		} else {
			r.Cut[ir.Edge{From: cd.If.Block(), Idx: cd.TrueIdx()}] = true
		}
	}
	r.Run(nil)
	return r
}
