package eng

import (
	"fmt"
	"go/token"
	"go/types"
	"sort"
	"strings"

	"golang.org/x/tools/go/ssa"

	"polyverif/ir"
)

// PU — paired updates.  Two loop-carried variables — a slice of elements and a
// running total of their Value fields — must move in lock-step: on every
// path through one loop iteration the multiset of elements added to / removed
// from the slice equals the multiset of values added to / subtracted from
// the total.  The paths of one iteration are enumerated on the CFG and both
// variables are evaluated symbolically along each path.

type PUResult struct {
	Paths    int
	Mismatch []string
}

// elemToken names an element symbolically.
type puTok struct {
	sign int
	name string
}

func normalizeToks(ts []puTok) string {
	m := map[string]int{}
	for _, t := range ts {
		m[t.name] += t.sign
	}
	var parts []string
	for k, v := range m {
		if v != 0 {
			parts = append(parts, fmt.Sprintf("%+d·%s", v, k))
		}
	}
	sort.Strings(parts)
	return strings.Join(parts, " ")
}

// PairedLoop analyses a loop whose header carries selPhi (slice) and sumPhi (integer).
// valueField is the element field accumulated in sum.
func PairedLoop(fn *ssa.Function, header *ssa.BasicBlock, selPhi, sumPhi *ssa.Phi, valueField string) PUResult {
	res := PUResult{}
	// enumerate acyclic paths from each loop-body successor of header back to header
	var paths [][]*ssa.BasicBlock
	var dfs func(b *ssa.BasicBlock, path []*ssa.BasicBlock, seen map[*ssa.BasicBlock]bool)
	dfs = func(b *ssa.BasicBlock, path []*ssa.BasicBlock, seen map[*ssa.BasicBlock]bool) {
		if len(paths) > 500 {
			return
		}
		if b == header {
			cp := append([]*ssa.BasicBlock{}, path...)
			paths = append(paths, cp)
			return
		}
		if seen[b] {
			return
		}
		seen[b] = true
		for _, s := range b.Succs {
			dfs(s, append(path, b), seen)
		}
		delete(seen, b)
	}
	for _, s := range header.Succs {
		dfs(s, []*ssa.BasicBlock{header}, map[*ssa.BasicBlock]bool{header: true})
	}
	for _, p := range paths {
		if len(p) < 2 {
			continue
		}
		// does the path reach header again? (dfs only records those)
		res.Paths++
		ev := &puEval{fn: fn, path: p, selPhi: selPhi, sumPhi: sumPhi, field: valueField}
		last := p[len(p)-1]
		// operand of the header phis on the back edge from `last`
		idx := -1
		for i, pr := range header.Preds {
			if pr == last {
				idx = i
			}
		}
		if idx < 0 {
			continue
		}
		selT := ev.sel(selPhi.Edges[idx], 0)
		// element replacement stores along the path
		for _, b := range p[1:] {
			for _, in := range b.Instrs {
				st, ok := in.(*ssa.Store)
				if !ok {
					continue
				}
				ia, ok := st.Addr.(*ssa.IndexAddr)
				if !ok || !ev.isSelLineage(ia.X) {
					continue
				}
				if isLenMinus1(ia.Index) {
					selT = append(selT, puTok{-1, ev.lastName(ia.X)}, puTok{+1, ev.elemName(st.Val)})
				} else {
					selT = append(selT, puTok{+1, "store@?"})
				}
			}
		}
		sumT := ev.sum(sumPhi.Edges[idx], 0)
		a, b := normalizeToks(selT), normalizeToks(sumT)
		if a != b {
			var lines []string
			for _, blk := range p {
				for _, in := range blk.Instrs {
					if in.Pos().IsValid() {
						lines = append(lines, fmt.Sprint(fn.Prog.Fset.Position(in.Pos()).Line))
						break
					}
				}
			}
			res.Mismatch = append(res.Mismatch, fmt.Sprintf("path through lines %s: selection changes by {%s} but sum by {%s}", strings.Join(lines, "→"), a, b))
		}
	}
	return res
}

type puEval struct {
	fn             *ssa.Function
	path           []*ssa.BasicBlock
	selPhi, sumPhi *ssa.Phi
	field          string
}

// operandOnPath resolves a phi (not the header's) by the predecessor taken on the path.
func (e *puEval) operandOnPath(p *ssa.Phi) ssa.Value {
	b := p.Block()
	for i := 1; i < len(e.path); i++ {
		if e.path[i] == b {
			prev := e.path[i-1]
			for j, pr := range b.Preds {
				if pr == prev {
					return p.Edges[j]
				}
			}
		}
	}
	return nil
}

func (e *puEval) isSelLineage(v ssa.Value) bool {
	for i := 0; i < 12 && v != nil; i++ {
		if v == ssa.Value(e.selPhi) {
			return true
		}
		switch x := v.(type) {
		case *ssa.Phi:
			v = e.operandOnPath(x)
		case *ssa.Slice:
			v = x.X
		case *ssa.Call:
			if b, ok := x.Common().Value.(*ssa.Builtin); ok && b.Name() == "append" {
				v = x.Common().Args[0]
			} else {
				return false
			}
		default:
			return false
		}
	}
	return false
}

func isLenMinus1(v ssa.Value) bool {
	b, ok := v.(*ssa.BinOp)
	if !ok || b.Op != token.SUB {
		return false
	}
	k, okk := ir.ConstInt(b.Y)
	if !okk || k != 1 {
		return false
	}
	c, ok := b.X.(*ssa.Call)
	if !ok {
		return false
	}
	bi, ok := c.Common().Value.(*ssa.Builtin)
	return ok && bi.Name() == "len"
}

// elemName: a symbolic name for an element value.
func (e *puEval) elemName(v ssa.Value) string {
	v = ir.Strip(v)
	// load of selection[len-1]
	if u, ok := v.(*ssa.UnOp); ok {
		if ia, ok := u.X.(*ssa.IndexAddr); ok {
			if e.isSelLineage(ia.X) && isLenMinus1(ia.Index) {
				return e.lastName(ia.X)
			}
			return "elem[" + ia.X.Name() + "]"
		}
	}
	return "e:" + v.Name()
}

// lastName: the symbolic name of the last element of a selection-lineage value.
func (e *puEval) lastName(sel ssa.Value) string {
	toks := e.sel(sel, 0)
	// the last +token not cancelled is the last element; otherwise the original last
	for i := len(toks) - 1; i >= 0; i-- {
		if toks[i].sign > 0 {
			cancelled := false
			for j := i + 1; j < len(toks); j++ {
				if toks[j].sign < 0 && toks[j].name == toks[i].name {
					cancelled = true
				}
			}
			if !cancelled {
				return toks[i].name
			}
		}
	}
	return "last0"
}

func (e *puEval) sel(v ssa.Value, d int) []puTok {
	if d > 16 || v == nil {
		return []puTok{{+1, "?"}}
	}
	if v == ssa.Value(e.selPhi) {
		return nil
	}
	switch x := v.(type) {
	case *ssa.Phi:
		return e.sel(e.operandOnPath(x), d+1)
	case *ssa.Call:
		if b, ok := x.Common().Value.(*ssa.Builtin); ok && b.Name() == "append" {
			out := e.sel(x.Common().Args[0], d+1)
			for _, el := range variadicElems(x.Common().Args[1]) {
				out = append(out, puTok{+1, e.elemName(el)})
			}
			if variadicElems(x.Common().Args[1]) == nil {
				out = append(out, puTok{+1, "slice:" + x.Common().Args[1].Name()})
			}
			return out
		}
	case *ssa.Slice:
		if x.Low == nil && x.High != nil && isLenMinus1(x.High) {
			base := e.sel(x.X, d+1)
			return append(base, puTok{-1, e.lastName(x.X)})
		}
		if x.Low == nil && x.High == nil {
			return e.sel(x.X, d+1)
		}
	}
	return []puTok{{+1, "?" + v.Name()}}
}

func (e *puEval) sum(v ssa.Value, d int) []puTok {
	if d > 16 || v == nil {
		return []puTok{{+1, "?"}}
	}
	if v == ssa.Value(e.sumPhi) {
		return nil
	}
	switch x := v.(type) {
	case *ssa.Phi:
		return e.sum(e.operandOnPath(x), d+1)
	case *ssa.BinOp:
		switch x.Op {
		case token.ADD:
			return append(e.sum(x.X, d+1), puTok{+1, e.valueAtom(x.Y)})
		case token.SUB:
			return append(e.sum(x.X, d+1), puTok{-1, e.valueAtom(x.Y)})
		}
	}
	return []puTok{{+1, "?" + v.Name()}}
}

// valueAtom names the element whose Value field v loads.
func (e *puEval) valueAtom(v ssa.Value) string {
	u, ok := v.(*ssa.UnOp)
	if !ok {
		return "?" + v.Name()
	}
	fa, ok := u.X.(*ssa.FieldAddr)
	if !ok {
		return "?" + v.Name()
	}
	st, ok := fa.X.Type().Underlying().(*types.Pointer).Elem().Underlying().(*types.Struct)
	if !ok || st.Field(fa.Field).Name() != e.field {
		return "?field"
	}
	return e.elemName(fa.X)
}
