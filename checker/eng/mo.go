package eng

import (
	"fmt"
	"go/token"
	"go/types"
	"strings"

	"golang.org/x/tools/go/ssa"

	"polyverif/ir"
)

// MO — map-order sensitivity of `for … range <map>` loops.

type MOVerdict int

const (
	OrderInsensitive MOVerdict = iota
	OrderSensitive
	OrderUndecided
)

// order-normalising consumers: functions that sort their slice argument
// before using it (frozen, each confirmed by reading).
var orderNormalising = map[string]bool{
	"AddressFromMultiPubKeys":      true, // sorts with keypair.SortPublicKeys before encoding
	"AddressFromBookkeepers":       true, // -> AddressFromMultiPubKeys
	"SortPublicKeys":               true,
	"EncodeMultiPubKeyProgramInto": true,
}

func isSortCall(c ssa.CallInstruction) bool {
	o := ir.CalleeObj(c)
	if o == nil || o.Pkg() == nil {
		return false
	}
	if o.Pkg().Path() == "sort" {
		switch o.Name() {
		case "Slice", "SliceStable", "Sort", "Stable", "Strings", "Ints", "Float64s":
			return true
		}
	}
	return orderNormalising[o.Name()]
}

// effectful callee names whose call order is observable (emission order).
func orderedEffectCall(c ssa.CallInstruction, effectful map[*ssa.Function]bool, callees func(ssa.CallInstruction) []*ssa.Function) (bool, string) {
	o := ir.CalleeObj(c)
	if o != nil {
		n := o.Name()
		recv := ""
		if sig, ok := o.Type().(*types.Signature); ok && sig.Recv() != nil {
			recv = sig.Recv().Type().String()
		}
		if strings.Contains(recv, "ZeroCopySink") && strings.HasPrefix(n, "Write") {
			return true, "writes to a sink: " + n
		}
		if n == "Write" || n == "WriteString" || n == "WriteByte" {
			return true, "writes to a stream: " + recv + "." + n
		}
		if o.Pkg() != nil && strings.HasSuffix(o.Pkg().Path(), "common/serialization") && strings.HasPrefix(n, "Write") {
			return true, "serialization." + n
		}
		if n == "AddNotify" || n == "PutMerkleVal" {
			return true, n
		}
		if n == "Serialization" || n == "Serialize" {
			return true, "nested " + n + " into a shared sink"
		}
	}
	if f := c.Common().StaticCallee(); f != nil && effectful[f] {
		return true, "call reaches a storage write: " + ir.FuncName(f)
	}
	if c.Common().StaticCallee() == nil && callees != nil {
		for _, f := range callees(c) {
			if effectful[f] {
				return true, "dynamic call may reach a storage write: " + ir.FuncName(f)
			}
		}
	}
	return false, ""
}

// MOContext carries the program-wide facts the classifier needs.
type MOContext struct {
	Effectful map[*ssa.Function]bool // functions that may write contract storage
	Callees   func(ssa.CallInstruction) []*ssa.Function
}

var MOCtx = &MOContext{}

// ClassifyMapLoop decides whether the observable effects of a range-over-map
// loop depend on the iteration order.
func ClassifyMapLoop(fn *ssa.Function, lp MapLoop) (MOVerdict, string) {
	// loop region: blocks reachable from Body without entering Exit
	region := map[*ssa.BasicBlock]bool{}
	var work []*ssa.BasicBlock
	if lp.Body != lp.Exit {
		work = append(work, lp.Body)
	}
	for len(work) > 0 {
		b := work[len(work)-1]
		work = work[:len(work)-1]
		if region[b] || b == lp.Exit || b == lp.Header {
			continue
		}
		region[b] = true
		work = append(work, b.Succs...)
	}
	region[lp.Header] = true
	iterDerived := func(v ssa.Value) bool { return derivesFrom(v, lp.Next, 10) }

	var notes []string
	sensitive := func(format string, a ...interface{}) (MOVerdict, string) {
		return OrderSensitive, "order-sensitive: " + fmt.Sprintf(format, a...)
	}

	// 1. loop-carried values: phis in the header
	for _, in := range lp.Header.Instrs {
		phi, ok := in.(*ssa.Phi)
		if !ok {
			continue
		}
		// incoming values from inside the loop
		for i, e := range phi.Edges {
			pred := lp.Header.Preds[i]
			if !region[pred] || pred == lp.Header && false {
				continue
			}
			kind, why := classifyUpdate(phi, e, region, iterDerived, 0)
			switch kind {
			case "acc", "flag", "keep", "minmax":
				notes = append(notes, why)
			case "collect":
				if ok, w := collectIsSorted(fn, phi, region, lp); !ok {
					return sensitive("slice %s is built in map order and %s", phi.Name(), w)
				}
				notes = append(notes, "collect→sort")
			default:
				return sensitive("loop-carried value %s updated by %s", phi.Name(), why)
			}
		}
	}
	// 2. instructions with effects inside the region
	for b := range region {
		for _, in := range b.Instrs {
			switch x := in.(type) {
			case *ssa.MapUpdate:
				if !iterDerived(x.Key) {
					if _, isConst := x.Key.(*ssa.Const); isConst {
						return sensitive("m[const] overwritten per iteration at line %d", fn.Prog.Fset.Position(x.Pos()).Line)
					}
				}
				notes = append(notes, "keyed map write")
			case *ssa.Store:
				// memory-carried collect: *cell = append(*cell, x)
				if cell, ok := x.Addr.(*ssa.Alloc); ok {
					if cl, ok := x.Val.(*ssa.Call); ok {
						if bi, ok := cl.Common().Value.(*ssa.Builtin); ok && bi.Name() == "append" {
							if ld, ok := cl.Common().Args[0].(*ssa.UnOp); ok && ld.X == ssa.Value(cell) {
								if ok, w := cellCollectIsSorted(fn, cell, region, lp); !ok {
									return sensitive("slice %s is built in map order and %s", cell.Comment, w)
								}
								notes = append(notes, "collect→sort")
								continue
							}
						}
					}
				}
				k, why := classifyStore(x, region, iterDerived)
				if k == "bad" {
					return sensitive("%s at line %d", why, fn.Prog.Fset.Position(x.Pos()).Line)
				}
				notes = append(notes, why)
			case *ssa.Send:
				return sensitive("channel send in map order")
			case *ssa.Go:
				return sensitive("goroutine per element")
			case *ssa.Return:
				k, why := classifyLoopReturn(fn, x, iterDerived)
				if k == "bad" {
					return sensitive("%s at line %d", why, fn.Prog.Fset.Position(x.Pos()).Line)
				}
				notes = append(notes, why)
			case ssa.CallInstruction:
				if b, ok := x.Common().Value.(*ssa.Builtin); ok {
					switch b.Name() {
					case "delete", "len", "cap", "copy", "append", "panic", "print", "println":
						continue
					}
				}
				if bad, why := orderedEffectCall(x, MOCtx.Effectful, MOCtx.Callees); bad {
					return sensitive("%s at line %d", why, fn.Prog.Fset.Position(x.Pos()).Line)
				}
			}
		}
	}
	// 3. early exit: leaving the loop before the map is exhausted makes the SET of entries processed
	// depend on the iteration order whenever an iteration has an accumulating effect
	if line, bad := earlyBreakWithEffects(fn, lp, region, iterDerived); bad {
		return sensitive("the loop is left early at line %d after entries were already processed (which ones depends on map order)", line)
	}
	if len(notes) == 0 {
		notes = append(notes, "no effect escapes the loop")
	}
	return OrderInsensitive, "order-insensitive: " + strings.Join(dedupe(notes), ", ")
}

func dedupe(xs []string) []string {
	seen := map[string]bool{}
	var out []string
	for _, x := range xs {
		if !seen[x] {
			seen[x] = true
			out = append(out, x)
		}
	}
	return out
}

// derivesFrom: v is computed from root through pure value operations.
func derivesFrom(v ssa.Value, root ssa.Value, depth int) bool {
	if v == root {
		return true
	}
	if depth == 0 || v == nil {
		return false
	}
	switch x := v.(type) {
	case *ssa.Extract:
		return derivesFrom(x.Tuple, root, depth-1)
	case *ssa.UnOp:
		return derivesFrom(x.X, root, depth-1)
	case *ssa.FieldAddr:
		return derivesFrom(x.X, root, depth-1)
	case *ssa.Field:
		return derivesFrom(x.X, root, depth-1)
	case *ssa.IndexAddr:
		return derivesFrom(x.X, root, depth-1) || derivesFrom(x.Index, root, depth-1)
	case *ssa.Index:
		return derivesFrom(x.X, root, depth-1) || derivesFrom(x.Index, root, depth-1)
	case *ssa.Convert:
		return derivesFrom(x.X, root, depth-1)
	case *ssa.ChangeType:
		return derivesFrom(x.X, root, depth-1)
	case *ssa.MakeInterface:
		return derivesFrom(x.X, root, depth-1)
	case *ssa.Slice:
		return derivesFrom(x.X, root, depth-1)
	case *ssa.BinOp:
		return derivesFrom(x.X, root, depth-1) || derivesFrom(x.Y, root, depth-1)
	case *ssa.Call:
		for _, a := range x.Common().Args {
			if derivesFrom(a, root, depth-1) {
				return true
			}
		}
	case *ssa.Lookup:
		return derivesFrom(x.Index, root, depth-1) || derivesFrom(x.X, root, depth-1)
	case *ssa.Phi:
		for _, e := range x.Edges {
			if e != v && derivesFrom(e, root, depth-1) {
				return true
			}
		}
	case *ssa.Alloc:
		for _, ref := range *x.Referrers() {
			if st, ok := ref.(*ssa.Store); ok && st.Addr == x && derivesFrom(st.Val, root, depth-1) {
				return true
			}
		}
	}
	return false
}

// classifyUpdate classifies the value e flowing back into loop-carried phi.
func classifyUpdate(phi *ssa.Phi, e ssa.Value, region map[*ssa.BasicBlock]bool, iterDerived func(ssa.Value) bool, d int) (string, string) {
	if d > 6 {
		return "bad", "deep update chain"
	}
	if e == ssa.Value(phi) {
		return "keep", "unchanged"
	}
	switch x := e.(type) {
	case *ssa.Const:
		return "flag", "idempotent flag/constant set"
	case *ssa.BinOp:
		if x.Op == token.ADD || x.Op == token.MUL || x.Op == token.OR || x.Op == token.AND || x.Op == token.XOR {
			if x.X == ssa.Value(phi) || x.Y == ssa.Value(phi) {
				return "acc", "commutative accumulation"
			}
			// chain: (phi + a) + b
			if k, _ := classifyUpdate(phi, x.X, region, iterDerived, d+1); k == "acc" {
				return "acc", "commutative accumulation"
			}
		}
		if x.Op == token.SUB && x.X == ssa.Value(phi) {
			return "acc", "commutative accumulation (subtraction of independent terms)"
		}
		return "bad", "non-commutative arithmetic " + x.Op.String()
	case *ssa.Phi:
		// join inside the loop: every incoming value must itself be fine
		if !region[x.Block()] {
			return "bad", "value from outside the loop"
		}
		worst, why := "keep", "unchanged"
		for _, ee := range x.Edges {
			k, w := classifyUpdate(phi, ee, region, iterDerived, d+1)
			if k == "bad" {
				// min/max selection: phi' ∈ {phi, iteration value} chosen by a comparison
				if iterDerived(ee) && selectionByComparison(x, phi, iterDerived) {
					k, w = "minmax", "selection by strict comparison of the kept value"
				} else {
					return "bad", w
				}
			}
			if k != "keep" {
				worst, why = k, w
			}
		}
		return worst, why
	case *ssa.Call:
		if b, ok := x.Common().Value.(*ssa.Builtin); ok && b.Name() == "append" {
			if x.Common().Args[0] == ssa.Value(phi) {
				return "collect", "append"
			}
			if k, _ := classifyUpdate(phi, x.Common().Args[0], region, iterDerived, d+1); k == "collect" || k == "keep" {
				return "collect", "append"
			}
		}
		return "bad", "result of call " + x.Common().Value.Name()
	case *ssa.UnOp, *ssa.Extract, *ssa.Convert, *ssa.Field:
		if iterDerived(e) {
			return "bad", "last iteration value wins"
		}
	}
	return "bad", fmt.Sprintf("%T", e)
}

// selectionByComparison: join phi j chooses between carried phi and an
// iteration value under a comparison that involves the carried value.
func selectionByComparison(j *ssa.Phi, carried *ssa.Phi, iterDerived func(ssa.Value) bool) bool {
	for _, p := range j.Block().Preds {
		for _, q := range append([]*ssa.BasicBlock{p}, p.Preds...) {
			if len(q.Instrs) == 0 {
				continue
			}
			ifi, ok := q.Instrs[len(q.Instrs)-1].(*ssa.If)
			if !ok {
				continue
			}
			if b, ok := ifi.Cond.(*ssa.BinOp); ok {
				switch b.Op {
				case token.LSS, token.GTR, token.LEQ, token.GEQ:
					if (b.X == ssa.Value(carried) && iterDerived(b.Y)) || (b.Y == ssa.Value(carried) && iterDerived(b.X)) {
						return true
					}
				}
			}
		}
	}
	return false
}

func classifyStore(st *ssa.Store, region map[*ssa.BasicBlock]bool, iterDerived func(ssa.Value) bool) (string, string) {
	// store into the iteration element itself
	if iterDerived(st.Addr) {
		return "ok", "per-element update"
	}
	// fresh object created in this iteration
	root := st.Addr
	for i := 0; i < 8; i++ {
		switch x := root.(type) {
		case *ssa.FieldAddr:
			root = x.X
			continue
		case *ssa.IndexAddr:
			root = x.X
			continue
		}
		break
	}
	if al, ok := root.(*ssa.Alloc); ok && region[al.Block()] {
		return "ok", "store into an object allocated in this iteration"
	}
	if ms, ok := root.(*ssa.MakeSlice); ok && region[ms.Block()] {
		return "ok", "store into a slice allocated in this iteration"
	}
	if _, ok := st.Val.(*ssa.Const); ok {
		return "ok", "idempotent flag/constant store"
	}
	if b, ok := st.Val.(*ssa.BinOp); ok && (b.Op == token.ADD || b.Op == token.OR) {
		if u, ok := b.X.(*ssa.UnOp); ok && u.X == st.Addr {
			return "ok", "commutative accumulation through memory"
		}
	}
	// variadic argument arrays / composite literal temporaries
	if al, ok := root.(*ssa.Alloc); ok {
		_ = al
		return "bad", "store to a location outside the iteration (last writer wins)"
	}
	return "bad", "store to shared memory"
}

func classifyLoopReturn(fn *ssa.Function, ret *ssa.Return, iterDerived func(ssa.Value) bool) (string, string) {
	res := fn.Signature.Results()
	if res.Len() == 0 {
		return "ok", "early return"
	}
	last := res.Len() - 1
	if ir.IsErrorType(res.At(last).Type()) {
		if ir.ClassifyErr(fn, ret.Results[last], ret.Block()) == ir.RetFail {
			return "ok", "early failure return"
		}
	}
	for _, r := range ret.Results {
		if _, ok := r.(*ssa.Const); ok {
			continue
		}
		if iterDerived(r) {
			// search: acceptable when the element is identified by an equality test
			if guardedByEquality(ret.Block(), iterDerived) {
				return "ok", "search for the element matching an equality test"
			}
			return "bad", "returns the first element in map order satisfying a non-equality condition"
		}
	}
	return "ok", "early return of constants / loop-independent values"
}

func guardedByEquality(b *ssa.BasicBlock, iterDerived func(ssa.Value) bool) bool {
	seen := map[*ssa.BasicBlock]bool{}
	cur := b
	for i := 0; i < 6 && cur != nil && !seen[cur]; i++ {
		seen[cur] = true
		if len(cur.Preds) != 1 {
			return false
		}
		p := cur.Preds[0]
		if ifi, ok := p.Instrs[len(p.Instrs)-1].(*ssa.If); ok {
			if bo, ok := ifi.Cond.(*ssa.BinOp); ok && bo.Op == token.EQL && (iterDerived(bo.X) || iterDerived(bo.Y)) {
				return true
			}
			if cl, ok := ifi.Cond.(*ssa.Call); ok {
				if o := ir.CalleeObj(cl); o != nil && (o.Name() == "Equal" || o.Name() == "EqualFold") {
					return true
				}
			}
		}
		cur = p
	}
	return false
}

// cellCollectIsSorted: like collectIsSorted for a slice kept in an
// address-taken local (captured by the comparator closure).
func cellCollectIsSorted(fn *ssa.Function, cell *ssa.Alloc, region map[*ssa.BasicBlock]bool, lp MapLoop) (bool, string) {
	var sorts, others []ssa.Instruction
	for _, ref := range *cell.Referrers() {
		ld, ok := ref.(*ssa.UnOp)
		if !ok || region[ld.Block()] && ld.Block() != lp.Header {
			continue
		}
		for _, use := range *ld.Referrers() {
			switch u := use.(type) {
			case ssa.CallInstruction:
				if isSortCall(u) {
					sorts = append(sorts, u)
					continue
				}
				if b, ok := u.Common().Value.(*ssa.Builtin); ok && (b.Name() == "len" || b.Name() == "cap") {
					continue
				}
				others = append(others, u)
			case *ssa.MakeInterface, *ssa.ChangeType, *ssa.Convert:
				if ss := wrapFlowsToSort(u.(ssa.Value), 4); len(ss) > 0 {
					sorts = append(sorts, ss...)
				} else {
					others = append(others, use)
				}
			default:
				others = append(others, use)
			}
		}
	}
	// uses inside the comparator closure are part of the sort
	if len(sorts) == 0 {
		if len(others) == 0 {
			return true, "collected slice is not used after the loop"
		}
		return false, fmt.Sprintf("is used without being sorted (first use at line %d)", fn.Prog.Fset.Position(others[0].Pos()).Line)
	}
	r := ir.NewReach(fn)
	for _, s := range sorts {
		if ci, ok := s.(ssa.CallInstruction); ok {
			if bad, why := SortComparatorBad(ci); bad {
				return false, fmt.Sprintf("the sort at line %d does not order it: %s", fn.Prog.Fset.Position(s.Pos()).Line, why)
			}
		}
		r.Barrier[s] = true
	}
	r.RunFromBlock(lp.Header)
	for _, o := range others {
		if r.Instr(o) {
			return false, fmt.Sprintf("a use at line %d is reachable before the sort", fn.Prog.Fset.Position(o.Pos()).Line)
		}
	}
	return true, "sorted before use"
}

// collectIsSorted: the slice collected in map order is sorted (or handed to an
// order-normalising function) before any order-revealing use after the loop.
func collectIsSorted(fn *ssa.Function, phi *ssa.Phi, region map[*ssa.BasicBlock]bool, lp MapLoop) (bool, string) {
	// values carrying the collected slice after the loop: phi itself (exit value)
	carriers := map[ssa.Value]bool{phi: true}
	// uses outside the loop
	r := ir.NewReach(fn)
	var sorts []ssa.Instruction
	var others []ssa.Instruction
	for _, ref := range *phi.Referrers() {
		if region[ref.Block()] && ref.Block() != lp.Header {
			continue
		}
		switch x := ref.(type) {
		case *ssa.Phi:
			continue
		case ssa.CallInstruction:
			if isSortCall(x) {
				sorts = append(sorts, x)
				continue
			}
			if b, ok := x.Common().Value.(*ssa.Builtin); ok && (b.Name() == "len" || b.Name() == "cap") {
				continue
			}
			others = append(others, x)
		case *ssa.MakeInterface, *ssa.ChangeType, *ssa.Convert:
			// sort.Sort(byX(slice)) / sort.Slice(slice as interface)
			v := ref.(ssa.Value)
			if ss := wrapFlowsToSort(v, 4); len(ss) > 0 {
				sorts = append(sorts, ss...)
			} else {
				others = append(others, ref)
			}
			carriers[v] = true
		case *ssa.MakeClosure:
			continue // comparator closure capturing the slice
		default:
			if in, ok := ref.(ssa.Instruction); ok {
				if _, isIf := in.(*ssa.If); isIf {
					continue
				}
				others = append(others, in)
			}
		}
	}
	if len(others) == 0 && len(sorts) == 0 {
		return true, "collected slice is not used after the loop"
	}
	if len(sorts) == 0 {
		return false, fmt.Sprintf("is used without being sorted (%d use(s), first at line %d)", len(others), fn.Prog.Fset.Position(others[0].Pos()).Line)
	}
	for _, s := range sorts {
		if ci, ok := s.(ssa.CallInstruction); ok {
			if bad, why := SortComparatorBad(ci); bad {
				return false, fmt.Sprintf("the sort at line %d does not order it: %s", fn.Prog.Fset.Position(s.Pos()).Line, why)
			}
		}
		r.Barrier[s] = true
	}
	r.RunFromBlock(lp.Header)
	for _, o := range others {
		if r.Instr(o) {
			return false, fmt.Sprintf("a use at line %d is reachable before the sort", fn.Prog.Fset.Position(o.Pos()).Line)
		}
	}
	return true, "sorted before use"
}

// wrapFlowsToSort follows conversion wrappers (named slice type, interface
// boxing) of a slice value to the sort call(s) consuming it.
func wrapFlowsToSort(v ssa.Value, depth int) []ssa.Instruction {
	var out []ssa.Instruction
	if depth == 0 {
		return nil
	}
	for _, r := range *v.Referrers() {
		switch x := r.(type) {
		case ssa.CallInstruction:
			if isSortCall(x) {
				out = append(out, x)
			}
		case *ssa.MakeInterface, *ssa.ChangeType, *ssa.Convert:
			out = append(out, wrapFlowsToSort(x.(ssa.Value), depth-1)...)
		}
	}
	return out
}

// SingletonMap reports whether map value v provably holds at most one entry:
// it is a local map with exactly one MapUpdate outside any loop and never
// updated by a callee it is passed to, or a parameter all of whose call sites
// pass such a map.  callersOf gives the call sites of a function.
func SingletonMap(v ssa.Value, callersOf func(*ssa.Function) []ssa.CallInstruction, depth int) bool {
	if depth == 0 {
		return false
	}
	v = ir.Strip(v)
	switch x := v.(type) {
	case *ssa.MakeMap:
		updates := 0
		for _, r := range *x.Referrers() {
			switch u := r.(type) {
			case *ssa.MapUpdate:
				if u.Map == ssa.Value(x) {
					updates++
					if blockInLoop(u.Block()) {
						return false
					}
				}
			case ssa.CallInstruction:
				// passed to a callee: the callee must not update it
				f := u.Common().StaticCallee()
				if f == nil {
					return false
				}
				for i, a := range u.Common().Args {
					if a == ssa.Value(x) && i < len(f.Params) && paramUpdated(f.Params[i], 3) {
						return false
					}
				}
			case *ssa.Store, *ssa.MakeInterface, *ssa.MakeClosure:
				return false
			}
		}
		return updates <= 1
	case *ssa.Parameter:
		fn := x.Parent()
		idx := -1
		for i, p := range fn.Params {
			if p == x {
				idx = i
			}
		}
		sites := callersOf(fn)
		if idx < 0 || len(sites) == 0 {
			return false
		}
		for _, s := range sites {
			if idx >= len(s.Common().Args) || !SingletonMap(s.Common().Args[idx], callersOf, depth-1) {
				return false
			}
		}
		return true
	}
	return false
}

func paramUpdated(p *ssa.Parameter, depth int) bool {
	if depth == 0 {
		return true
	}
	for _, r := range *p.Referrers() {
		switch u := r.(type) {
		case *ssa.MapUpdate:
			if u.Map == ssa.Value(p) {
				return true
			}
		case ssa.CallInstruction:
			if b, ok := u.Common().Value.(*ssa.Builtin); ok {
				if b.Name() == "delete" {
					return true
				}
				continue
			}
			f := u.Common().StaticCallee()
			if f == nil {
				return true
			}
			for i, a := range u.Common().Args {
				if a == ssa.Value(p) && i < len(f.Params) && paramUpdated(f.Params[i], depth-1) {
					return true
				}
			}
		case *ssa.Store, *ssa.MakeInterface, *ssa.MakeClosure:
			return true
		}
	}
	return false
}

func blockInLoop(b *ssa.BasicBlock) bool {
	seen := map[*ssa.BasicBlock]bool{}
	work := append([]*ssa.BasicBlock{}, b.Succs...)
	for len(work) > 0 {
		x := work[len(work)-1]
		work = work[:len(work)-1]
		if x == b {
			return true
		}
		if seen[x] {
			continue
		}
		seen[x] = true
		work = append(work, x.Succs...)
	}
	return false
}
