package eng

// Language algebra on key shapes: a shape denotes the set of byte strings
// contract ‖ atoms…; Lit = exact bytes, Fix(n) = any n bytes, Var/Slot = any
// bytes.  Intersects decides whether two shapes can produce the same key.

type sym struct {
	kind int // 0 concrete, 1 any single byte, 2 star
	b    int // concrete byte value, or a negative token id for contract atoms
}

func expand(s KeyShape) []sym {
	var out []sym
	for _, a := range s.Norm() {
		switch a.Kind {
		case AContract:
			// one opaque token per contract name: different contracts never collide
			h := 0
			for _, c := range a.Lit {
				h = h*131 + int(c)
			}
			out = append(out, sym{0, -1 - (h & 0xffffff)})
		case ALit:
			for i := 0; i < len(a.Lit); i++ {
				out = append(out, sym{0, int(a.Lit[i])})
			}
		case AFix:
			for i := 0; i < a.N; i++ {
				out = append(out, sym{1, 0})
			}
		default:
			out = append(out, sym{2, 0})
		}
	}
	return out
}

// Intersects reports whether some byte string matches both shapes.
func Intersects(s, t KeyShape) bool {
	a, b := expand(s), expand(t)
	memo := map[[2]int]int{}
	var m func(i, j int) bool
	m = func(i, j int) bool {
		k := [2]int{i, j}
		if v, ok := memo[k]; ok {
			return v == 1
		}
		memo[k] = 0
		res := false
		switch {
		case i == len(a) && j == len(b):
			res = true
		case i < len(a) && a[i].kind == 2:
			res = m(i+1, j) || (j < len(b) && (func() bool {
				if b[j].kind == 2 {
					return m(i, j+1)
				}
				if b[j].b < 0 {
					return false // a star never swallows a contract token
				}
				return m(i, j+1)
			}()))
		case j < len(b) && b[j].kind == 2:
			res = m(i, j+1) || (i < len(a) && (func() bool {
				if a[i].b < 0 {
					return false
				}
				return m(i+1, j)
			}()))
		case i < len(a) && j < len(b):
			x, y := a[i], b[j]
			ok := false
			switch {
			case x.kind == 0 && y.kind == 0:
				ok = x.b == y.b
			case x.kind == 0 && y.kind == 1:
				ok = x.b >= 0
			case x.kind == 1 && y.kind == 0:
				ok = y.b >= 0
			default:
				ok = true
			}
			res = ok && m(i+1, j+1)
		}
		if res {
			memo[k] = 1
		}
		return res
	}
	return m(0, 0)
}

// Ambiguous reports whether one shape can produce the same key from two
// different parameter tuples: more than one unbounded atom.
func (s KeyShape) Ambiguous() bool { return s.VarCount() > 1 }

// LeadingLit returns the first literal atom after the contract ("" if none).
func (s KeyShape) LeadingLit() string {
	n := s.Norm()
	for i, a := range n {
		if a.Kind == AContract && i == 0 {
			continue
		}
		if a.Kind == ALit {
			return a.Lit
		}
		return ""
	}
	return ""
}

// Contract returns the contract atom's name ("" if the shape has none).
func (s KeyShape) Contract() string {
	n := s.Norm()
	if len(n) > 0 && n[0].Kind == AContract {
		return n[0].Lit
	}
	return ""
}
