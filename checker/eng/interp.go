package eng

import (
	"go/constant"
	"go/token"

	"golang.org/x/tools/go/ssa"
)

// EvalIntPredicate evaluates a small pure function of integer parameters —
// comparisons, + − × of parameters and constants, && / || — on concrete
// arguments by interpreting its SSA.  ok=false when the function does anything
// else (calls, loads, more than 200 steps).
func EvalIntPredicate(fn *ssa.Function, args []int64) (result bool, ok bool) {
	if fn == nil || len(fn.Blocks) == 0 || len(args) != len(fn.Params) {
		return false, false
	}
	type val struct {
		i    int64
		b    bool
		isB  bool
		have bool
	}
	env := map[ssa.Value]val{}
	for i, p := range fn.Params {
		env[p] = val{i: args[i], have: true}
	}
	get := func(v ssa.Value) (val, bool) {
		if k, isK := v.(*ssa.Const); isK {
			if k.Value == nil {
				return val{}, false
			}
			switch k.Value.Kind() {
			case constant.Bool:
				return val{b: constant.BoolVal(k.Value), isB: true, have: true}, true
			case constant.Int:
				x, exact := constant.Int64Val(k.Value)
				return val{i: x, have: true}, exact
			}
			return val{}, false
		}
		x, okx := env[v]
		return x, okx && x.have
	}
	blk := fn.Blocks[0]
	var prev *ssa.BasicBlock
	for steps := 0; steps < 200; steps++ {
		for _, in := range blk.Instrs {
			switch x := in.(type) {
			case *ssa.Phi:
				found := false
				for i, p := range blk.Preds {
					if p == prev {
						v, okv := get(x.Edges[i])
						if !okv {
							return false, false
						}
						env[x] = v
						found = true
					}
				}
				if !found {
					return false, false
				}
			case *ssa.BinOp:
				a, oka := get(x.X)
				b, okb := get(x.Y)
				if !oka || !okb {
					return false, false
				}
				switch x.Op {
				case token.ADD:
					env[x] = val{i: a.i + b.i, have: true}
				case token.SUB:
					env[x] = val{i: a.i - b.i, have: true}
				case token.MUL:
					env[x] = val{i: a.i * b.i, have: true}
				case token.EQL:
					if a.isB {
						env[x] = val{b: a.b == b.b, isB: true, have: true}
					} else {
						env[x] = val{b: a.i == b.i, isB: true, have: true}
					}
				case token.NEQ:
					if a.isB {
						env[x] = val{b: a.b != b.b, isB: true, have: true}
					} else {
						env[x] = val{b: a.i != b.i, isB: true, have: true}
					}
				case token.LSS:
					env[x] = val{b: a.i < b.i, isB: true, have: true}
				case token.LEQ:
					env[x] = val{b: a.i <= b.i, isB: true, have: true}
				case token.GTR:
					env[x] = val{b: a.i > b.i, isB: true, have: true}
				case token.GEQ:
					env[x] = val{b: a.i >= b.i, isB: true, have: true}
				default:
					return false, false
				}
			case *ssa.UnOp:
				if x.Op != token.NOT {
					return false, false
				}
				a, oka := get(x.X)
				if !oka {
					return false, false
				}
				env[x] = val{b: !a.b, isB: true, have: true}
			case *ssa.Convert:
				a, oka := get(x.X)
				if !oka {
					return false, false
				}
				env[x] = a
			case *ssa.If:
				cnd, okc := get(x.Cond)
				if !okc {
					return false, false
				}
				prev = blk
				if cnd.b {
					blk = blk.Succs[0]
				} else {
					blk = blk.Succs[1]
				}
			case *ssa.Jump:
				prev = blk
				blk = blk.Succs[0]
			case *ssa.Return:
				if len(x.Results) != 1 {
					return false, false
				}
				r, okr := get(x.Results[0])
				if !okr || !r.isB {
					return false, false
				}
				return r.b, true
			case *ssa.DebugRef:
			default:
				return false, false
			}
		}
	}
	return false, false
}
