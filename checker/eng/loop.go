package eng

import (
	"fmt"
	"go/token"

	"golang.org/x/tools/go/ssa"

	"polyverif/core"
	"polyverif/ir"
)

// PhiLeaves returns the non-phi values that can flow into v through phi
// edges that are traversable under reachability r.
func PhiLeaves(r *ir.Reach, v ssa.Value) []ssa.Value {
	var out []ssa.Value
	seen := map[ssa.Value]bool{}
	var walk func(v ssa.Value)
	walk = func(v ssa.Value) {
		if seen[v] {
			return
		}
		seen[v] = true
		p, ok := v.(*ssa.Phi)
		if !ok {
			out = append(out, v)
			return
		}
		for i, e := range p.Edges {
			pred := p.Block().Preds[i]
			idx := 0
			for j, s := range pred.Succs {
				if s == p.Block() {
					idx = j
				}
			}
			if r == nil || r.EdgeReachable(ir.Edge{From: pred, Idx: idx}) {
				walk(e)
			}
		}
	}
	walk(v)
	return out
}

// SliceLoop describes a `for … range S` / `for i := 0; i < len(S); i++` loop.
type SliceLoop struct {
	Header *ssa.BasicBlock // block ending in `if i < len(S)`
	Body   *ssa.BasicBlock // successor taken when i < len(S)
	Exit   *ssa.BasicBlock
	Cond   *ssa.If
	Index  *ssa.Phi // the counter (FindSliceLoopsByBound only)
}

// FindSliceLoops finds loops whose continuation test is `i < len(S)` (or
// `i < n` with n = len(S)) for an S satisfying pred.
func FindSliceLoops(fn *ssa.Function, pred func(ssa.Value) bool) []SliceLoop {
	var out []SliceLoop
	isLen := IsLenOf(pred)
	for _, cd := range ir.Conds(fn) {
		b, ok := cd.V.(*ssa.BinOp)
		if !ok || b.Op != token.LSS {
			continue
		}
		if !isLen(b.Y) {
			continue
		}
		if _, isPhi := b.X.(*ssa.Phi); !isPhi {
			// rotated / incremented index: i+1 phi forms
			if bo, ok := b.X.(*ssa.BinOp); !ok || bo.Op != token.ADD {
				continue
			}
		}
		blk := cd.If.Block()
		out = append(out, SliceLoop{Header: blk, Body: blk.Succs[cd.TrueIdx()], Exit: blk.Succs[cd.FalseIdx()], Cond: cd.If})
	}
	return out
}

// MapLoop describes a `for k, v := range M` loop over a map.
type MapLoop struct {
	Range  *ssa.Range
	Header *ssa.BasicBlock // block containing Next
	Body   *ssa.BasicBlock
	Exit   *ssa.BasicBlock
	Next   *ssa.Next
}

// FindMapLoops finds range loops over maps satisfying pred (nil = all).
func FindMapLoops(fn *ssa.Function, pred func(ssa.Value) bool) []MapLoop {
	var out []MapLoop
	for _, b := range fn.Blocks {
		for _, in := range b.Instrs {
			nx, ok := in.(*ssa.Next)
			if !ok || nx.IsString {
				continue
			}
			rg, ok := nx.Iter.(*ssa.Range)
			if !ok {
				continue
			}
			if pred != nil && !pred(rg.X) {
				continue
			}
			ifi, ok := b.Instrs[len(b.Instrs)-1].(*ssa.If)
			if !ok {
				continue
			}
			out = append(out, MapLoop{Range: rg, Header: b, Body: b.Succs[0], Exit: b.Succs[1], Next: nx})
			_ = ifi
		}
	}
	return out
}

// IterationMustPass decides: every path from the first instruction of the
// loop body back to the loop header (next iteration or normal exit) takes a
// pass edge of g.  Paths that leave the function (return/panic) are fine.
func IterationMustPass(c *core.Ctx, rule string, fn *ssa.Function, header, body *ssa.BasicBlock, loopDesc string, g NamedGuard) bool {
	g.G = ir.AllForms(g.G)
	c.Touch(fn)
	construct := "each iteration of " + loopDesc + " passes " + g.Name
	pass := ir.PassEdges(fn, g.G)
	r := ir.NewReach(fn).CutEdges(pass)
	if len(body.Instrs) == 0 {
		c.Broken(rule, fn, construct, c.P.Rel(fn.Pos()), "empty loop body")
		return false
	}
	r.RunFromBlock(body)
	if r.BlockEntered(header) {
		c.Violate(rule, fn, construct, c.P.Rel(header.Instrs[len(header.Instrs)-1].Pos()),
			fmt.Sprintf("an iteration can complete without passing [%s] (%d pass edge(s) in function)", g.Name, len(pass)))
		return false
	}
	c.Hold(rule, fn, construct, c.P.Rel(header.Instrs[len(header.Instrs)-1].Pos()), fmt.Sprintf("%d pass edge(s)", len(pass)))
	return true
}

// IterationMustExec decides: every path from the loop body start back to the
// header executes an instruction satisfying pred.
func IterationMustExec(c *core.Ctx, rule string, fn *ssa.Function, header, body *ssa.BasicBlock, loopDesc, what string, pred func(ssa.Instruction) bool) bool {
	c.Touch(fn)
	construct := "each iteration of " + loopDesc + " executes " + what
	r := ir.NewReach(fn)
	n := 0
	for _, b := range fn.Blocks {
		for _, in := range b.Instrs {
			if pred(in) {
				r.Barrier[in] = true
				n++
			}
		}
	}
	r.RunFromBlock(body)
	if r.BlockEntered(header) {
		// the instruction may sit in a helper the iteration calls: the call is a barrier and every exit
		// of the helper that skipped it must make the caller leave the iteration
		if lifted := liftInstr(fn, pred, 0); len(lifted) > 0 {
			mk := func() *ir.Reach {
				x := ir.NewReach(fn)
				for in := range r.Barrier {
					x.Barrier[in] = true
				}
				return x
			}
			ok := true
			r1 := mk()
			for _, lc := range lifted {
				r1.Barrier[lc.call] = true
			}
			r1.RunFromBlock(body)
			if r1.BlockEntered(header) {
				ok = false
			}
			for _, lc := range lifted {
				for _, e := range lc.bad {
					r2 := mk().CutEdges(scenarioCuts(fn, lc.call, e.known))
					for _, o := range lifted {
						if o.call != lc.call {
							r2.Barrier[o.call] = true
						}
					}
					r2.Run(lc.call)
					if r2.BlockEntered(header) {
						ok = false
					}
				}
			}
			if ok {
				c.Hold(rule, fn, construct, c.P.Rel(header.Instrs[len(header.Instrs)-1].Pos()), fmt.Sprintf("%d instruction(s), %d through helper(s)", n, len(lifted)))
				return true
			}
		}
		c.Violate(rule, fn, construct, c.P.Rel(header.Instrs[len(header.Instrs)-1].Pos()),
			fmt.Sprintf("an iteration can complete without executing %s (%d such instruction(s) in function)", what, n))
		return false
	}
	c.Hold(rule, fn, construct, c.P.Rel(header.Instrs[len(header.Instrs)-1].Pos()), fmt.Sprintf("%d instruction(s)", n))
	return true
}

// FindSliceLoopsByBound finds counted loops `i < B` where B satisfies pred.
func FindSliceLoopsByBound(fn *ssa.Function, pred func(ssa.Value) bool) []SliceLoop {
	var out []SliceLoop
	for _, cd := range ir.Conds(fn) {
		b, ok := cd.V.(*ssa.BinOp)
		if !ok {
			continue
		}
		// `i < B`, or the same test written `B > i`
		var idx *ssa.Phi
		switch {
		case b.Op == token.LSS && pred(b.Y):
			idx, _ = b.X.(*ssa.Phi)
		case b.Op == token.GTR && pred(b.X):
			idx, _ = b.Y.(*ssa.Phi)
		}
		if idx == nil {
			continue
		}
		blk := cd.If.Block()
		out = append(out, SliceLoop{Header: blk, Body: blk.Succs[cd.TrueIdx()], Exit: blk.Succs[cd.FalseIdx()], Cond: cd.If, Index: idx})
	}
	return out
}
