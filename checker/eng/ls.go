package eng

import (
	"fmt"
	"go/token"
	"go/types"
	"sort"
	"strings"

	"golang.org/x/tools/go/ssa"

	"polyverif/core"
	"polyverif/ir"
)

// LS — lock discipline.  A frozen table says which fields of which struct
// type are protected by which mutex field of the same struct.  For every
// access to a protected field (found by type, not by name) the engine decides
// that the mutex OF THE SAME OBJECT (same access path) is held in an adequate
// mode at the access on every path:
//   - inside the function: the access is unreachable from the entry and from
//     every non-deferred release once paths are stopped at adequate acquires;
//   - otherwise the function needs the lock from its callers: the obligation is
//     transferred to every call site (path re-rooted at the argument), up to a
//     stated depth; a function with no caller in the module is an entry point and
//     the access is reported;
//   - objects that are fresh (allocated in the function and not yet published)
//     need no lock.
// Writes (store to the field, map update / delete / element store through the
// loaded field value) need the exclusive lock; reads need shared or exclusive.

type LSGuard struct {
	Pkg    string // module-relative package path
	Type   string
	Mutex  string   // mutex field (embedded: "RWMutex" / "Mutex")
	Fields []string // protected fields
}

type lsAccess struct {
	fn    *ssa.Function
	at    ssa.Instruction
	field string
	write bool
	base  ssa.Value // pointer to the struct
}

type LSResult struct {
	Accesses int
	Writes   int
}

// lsPath canonicalises the access path of a pointer/struct value.
func lsPath(v ssa.Value, d int) string {
	if d > 10 || v == nil {
		return "?"
	}
	switch x := v.(type) {
	case *ssa.Parameter:
		return x.Name()
	case *ssa.FreeVar:
		return "^" + x.Name()
	case *ssa.Global:
		return x.Pkg.Pkg.Path() + "." + x.Name()
	case *ssa.FieldAddr:
		st := x.X.Type().Underlying().(*types.Pointer).Elem().Underlying().(*types.Struct)
		return lsPath(x.X, d+1) + "." + st.Field(x.Field).Name()
	case *ssa.Field:
		st := x.X.Type().Underlying().(*types.Struct)
		return lsPath(x.X, d+1) + "." + st.Field(x.Field).Name()
	case *ssa.IndexAddr:
		return lsPath(x.X, d+1) + "[]"
	case *ssa.UnOp:
		if x.Op == token.MUL {
			if al, ok := x.X.(*ssa.Alloc); ok {
				if sv := ir.SingleStore(al); sv != nil {
					return lsPath(sv, d+1)
				}
				return "?" + al.Name()
			}
			return lsPath(x.X, d+1)
		}
	case *ssa.Alloc:
		// &T{}, new(T) or a local struct variable: an object created in this function
		return "new@" + x.Name()
	case *ssa.ChangeType:
		return lsPath(x.X, d+1)
	case *ssa.MakeInterface:
		return lsPath(x.X, d+1)
	}
	return "?" + v.Name()
}

func lsIsFresh(path string) bool { return strings.HasPrefix(path, "new@") }

// AccessPath canonicalises a value as parameter-rooted field path ("this.walletData.Scrypt").
func AccessPath(v ssa.Value) string { return lsPath(v, 0) }

type lsLockOp struct {
	call     ssa.CallInstruction
	lock     string // path of the mutex
	acquire  bool
	shared   bool
	deferred bool
}

func lsLockOps(fn *ssa.Function) []lsLockOp {
	var out []lsLockOp
	for _, b := range fn.Blocks {
		for _, in := range b.Instrs {
			ci, ok := in.(ssa.CallInstruction)
			if !ok {
				continue
			}
			f := ir.CalleeObj(ci)
			if f == nil || f.Pkg() == nil || f.Pkg().Path() != "sync" {
				continue
			}
			var acq, sh bool
			switch f.Name() {
			case "Lock":
				acq = true
			case "RLock":
				acq, sh = true, true
			case "Unlock":
			case "RUnlock":
				sh = true
			default:
				continue
			}
			args := ci.Common().Args
			if len(args) == 0 {
				continue
			}
			_, isDefer := in.(*ssa.Defer)
			out = append(out, lsLockOp{call: ci, lock: lsPath(args[0], 0), acquire: acq, shared: sh, deferred: isDefer})
		}
	}
	return out
}

// lsHeldAt decides whether lock `lock` is held (exclusive if write) at `at` on
// every path through fn.  It returns (held, openFromEntry, afterRelease).
func lsHeldAt(fn *ssa.Function, at ssa.Instruction, lock string, write bool) (held, fromEntry bool, released ssa.Instruction) {
	ops := lsLockOps(fn)
	r := ir.NewReach(fn)
	for _, o := range ops {
		if o.lock == lock && o.acquire && !o.deferred && (!write || !o.shared) {
			r.Barrier[o.call.(ssa.Instruction)] = true
		}
	}
	r.Run(nil)
	if r.Instr(at) {
		fromEntry = true
	}
	for _, o := range ops {
		if o.lock != lock || o.acquire || o.deferred {
			continue
		}
		r2 := ir.NewReach(fn)
		for k := range r.Barrier {
			r2.Barrier[k] = true
		}
		r2.Run(o.call.(ssa.Instruction))
		if r2.Instr(at) {
			released = o.call.(ssa.Instruction)
		}
	}
	return !fromEntry && released == nil, fromEntry, released
}

// lsCollect finds the accesses to the protected fields in fn.
func lsCollect(fn *ssa.Function, named *types.Named, fields map[string]bool) []lsAccess {
	var out []lsAccess
	for _, b := range fn.Blocks {
		for _, in := range b.Instrs {
			fa, ok := in.(*ssa.FieldAddr)
			if !ok {
				continue
			}
			pt, ok := fa.X.Type().Underlying().(*types.Pointer)
			if !ok || !types.Identical(pt.Elem(), named) {
				continue
			}
			st := named.Underlying().(*types.Struct)
			fname := st.Field(fa.Field).Name()
			if !fields[fname] {
				continue
			}
			refs := fa.Referrers()
			if refs == nil {
				continue
			}
			for _, r := range *refs {
				switch u := r.(type) {
				case *ssa.Store:
					if u.Addr == ssa.Value(fa) {
						out = append(out, lsAccess{fn, u, fname, true, fa.X})
					}
				case *ssa.UnOp:
					if u.Op != token.MUL {
						continue
					}
					// a load: classify by the uses of the loaded value
					wrote := false
					if lr := u.Referrers(); lr != nil {
						for _, use := range *lr {
							switch w := use.(type) {
							case *ssa.MapUpdate:
								if w.Map == ssa.Value(u) {
									out = append(out, lsAccess{fn, w, fname, true, fa.X})
									wrote = true
								}
							case *ssa.Call:
								if bi, isB := w.Common().Value.(*ssa.Builtin); isB && bi.Name() == "delete" && w.Common().Args[0] == ssa.Value(u) {
									out = append(out, lsAccess{fn, w, fname, true, fa.X})
									wrote = true
								}
							case *ssa.IndexAddr:
								if ir2 := w.Referrers(); ir2 != nil {
									for _, s := range *ir2 {
										if st, isSt := s.(*ssa.Store); isSt && st.Addr == ssa.Value(w) {
											out = append(out, lsAccess{fn, st, fname, true, fa.X})
											wrote = true
										}
									}
								}
							}
						}
					}
					_ = wrote
					out = append(out, lsAccess{fn, u, fname, false, fa.X})
				default:
					// address escapes (passed on): treat as a read at this point
					if ri, isI := r.(ssa.Instruction); isI {
						if _, isDbg := r.(*ssa.DebugRef); !isDbg {
							out = append(out, lsAccess{fn, ri, fname, false, fa.X})
						}
					}
				}
			}
		}
	}
	return out
}

type lsNeed struct {
	fn    *ssa.Function
	lock  string
	write bool
}

// LockDiscipline checks one guard table entry over the given functions.
func LockDiscipline(c *core.Ctx, rule string, g LSGuard, fns []*ssa.Function, maxDepth int) LSResult {
	res := LSResult{}
	obj, err := c.P.Obj(g.Pkg, g.Type)
	if err != nil {
		c.Broken(rule, g.Pkg+"."+g.Type, "guarded type", "", err.Error())
		return res
	}
	named, ok := obj.Type().(*types.Named)
	if !ok {
		c.Broken(rule, g.Pkg+"."+g.Type, "guarded type", "", "not a named type")
		return res
	}
	st, ok := named.Underlying().(*types.Struct)
	if !ok {
		c.Broken(rule, g.Pkg+"."+g.Type, "guarded type", "", "not a struct")
		return res
	}
	have := map[string]bool{}
	for i := 0; i < st.NumFields(); i++ {
		have[st.Field(i).Name()] = true
	}
	fields := map[string]bool{}
	for _, f := range append([]string{g.Mutex}, g.Fields...) {
		if !have[f] {
			c.Broken(rule, g.Pkg+"."+g.Type, "field "+f, "", "field not found in struct")
			return res
		}
	}
	for _, f := range g.Fields {
		fields[f] = true
	}
	cg := c.P.CG()
	memo := map[lsNeed]string{} // "" = ok, else reason
	var need func(n lsNeed, depth int, stack []string) string
	need = func(n lsNeed, depth int, stack []string) string {
		if r, ok := memo[n]; ok {
			return r
		}
		memo[n] = "" // break cycles optimistically
		reason := ""
		defer func() { memo[n] = reason }()
		root := n.lock
		if i := strings.IndexAny(root, ".["); i >= 0 {
			root = root[:i]
		}
		pidx := -1
		for i, p := range n.fn.Params {
			if p.Name() == root {
				pidx = i
			}
		}
		if pidx < 0 {
			reason = fmt.Sprintf("%s needs %s held but its path is not rooted in a parameter", ir.FuncName(n.fn), n.lock)
			return reason
		}
		if depth >= maxDepth {
			reason = fmt.Sprintf("lock requirement for %s not discharged within %d call levels (%s)", n.lock, maxDepth, strings.Join(stack, " ← "))
			return reason
		}
		callers := cg.Callers(n.fn)
		nSites := 0
		for _, caller := range callers {
			for _, b := range caller.Blocks {
				for _, in := range b.Instrs {
					ci, ok := in.(ssa.CallInstruction)
					if !ok {
						continue
					}
					hit := false
					for _, cal := range cg.Callees(ci) {
						if cal == n.fn {
							hit = true
						}
					}
					if !hit {
						continue
					}
					nSites++
					if _, isGo := in.(*ssa.Go); isGo {
						reason = fmt.Sprintf("%s is started as a goroutine in %s and needs %s", ir.FuncName(n.fn), ir.FuncName(caller), n.lock)
						return reason
					}
					args := ci.Common().Args
					if ci.Common().IsInvoke() {
						args = append([]ssa.Value{ci.Common().Value}, args...)
					}
					if pidx >= len(args) {
						reason = "argument mismatch at " + ir.FuncName(caller)
						return reason
					}
					ap := lsPath(args[pidx], 0)
					if lsIsFresh(ap) {
						continue
					}
					lockHere := ap + n.lock[len(root):]
					held, fromEntry, rel := lsHeldAt(caller, in, lockHere, n.write)
					if held {
						continue
					}
					if rel != nil {
						reason = fmt.Sprintf("%s calls %s at %s after releasing %s", ir.FuncName(caller), ir.FuncName(n.fn), c.P.Rel(in.Pos()), lockHere)
						return reason
					}
					if fromEntry {
						if r := need(lsNeed{caller, lockHere, n.write}, depth+1, append(stack, ir.FuncName(caller))); r != "" {
							reason = r
							return reason
						}
					}
				}
			}
		}
		if nSites == 0 {
			mode := "shared or exclusive"
			if n.write {
				mode = "exclusive"
			}
			reason = fmt.Sprintf("%s is an entry point (no caller in the module) and runs without %s held (%s)", ir.FuncName(n.fn), n.lock, mode)
		}
		return reason
	}

	type key struct {
		fn    string
		field string
		write bool
	}
	type agg struct {
		fn  *ssa.Function
		n   int
		bad []string
		pos string
	}
	by := map[key]*agg{}
	var keys []key
	for _, fn := range fns {
		for _, a := range lsCollect(fn, named, fields) {
			res.Accesses++
			if a.write {
				res.Writes++
			}
			k := key{ir.FuncName(fn), a.field, a.write}
			if by[k] == nil {
				by[k] = &agg{fn: fn, pos: c.P.Rel(a.at.Pos())}
				keys = append(keys, k)
			}
			ag := by[k]
			ag.n++
			bp := lsPath(a.base, 0)
			if lsIsFresh(bp) {
				continue
			}
			lock := bp + "." + g.Mutex
			held, fromEntry, rel := lsHeldAt(fn, a.at, lock, a.write)
			if held {
				continue
			}
			if rel != nil {
				ag.bad = append(ag.bad, fmt.Sprintf("%s: reachable after %s is released at %s", c.P.Rel(a.at.Pos()), lock, c.P.Rel(rel.Pos())))
				continue
			}
			if fromEntry {
				if r := need(lsNeed{fn, lock, a.write}, 0, []string{ir.FuncName(fn)}); r != "" {
					ag.bad = append(ag.bad, c.P.Rel(a.at.Pos())+": "+r)
				}
			}
		}
	}
	sort.Slice(keys, func(i, j int) bool {
		if keys[i].fn != keys[j].fn {
			return keys[i].fn < keys[j].fn
		}
		if keys[i].field != keys[j].field {
			return keys[i].field < keys[j].field
		}
		return !keys[i].write && keys[j].write
	})
	for _, k := range keys {
		ag := by[k]
		c.Touch(ag.fn)
		kind := "read of"
		mode := "held (shared or exclusive)"
		if k.write {
			kind, mode = "write to", "held exclusively"
		}
		construct := fmt.Sprintf("%s %s.%s with %s.%s %s", kind, g.Type, k.field, g.Type, g.Mutex, mode)
		if len(ag.bad) > 0 {
			c.Violate(rule, ag.fn, construct, ag.pos, strings.Join(ag.bad, "; "))
		} else {
			c.Hold(rule, ag.fn, construct, ag.pos, fmt.Sprintf("%d access(es)", ag.n))
		}
	}
	return res
}
