package eng

import (
	"go/constant"
	"go/token"
	"go/types"
	"os"
	"strings"

	"golang.org/x/tools/go/ssa"
)

// Abstract evaluation of small, almost-pure functions on concrete arguments.
//
// Nothing is executed: the SSA of the function is interpreted over the value
// domain {integer constant, boolean constant, nil, non-nil, unknown}.  It is
// constant propagation along the one path the given arguments select, with
// module helpers evaluated recursively.  The evaluation gives up (ok=false)
// when a branch depends on an unknown value, on recursion deeper than 6, or
// after 2000 steps; a rule that uses it must then fall back to a structural
// argument or report "undecided" — never guess.
//
// What makes it useful for rules: a decision table written as a switch, an
// if-chain, a flag variable, early returns or a helper returning the threshold
// all evaluate to the same answers at the boundary points the rule asks about.

type AKind int

const (
	AUnknown AKind = iota
	AInt
	ABool
	ANil
	ANonNil
)

type AVal struct {
	K AKind
	I int64
	B bool
}

func AIntV(i int64) AVal { return AVal{K: AInt, I: i} }
func ABoolV(b bool) AVal { return AVal{K: ABool, B: b} }

// AEvalOpts: Load resolves a read of module state that is not a local — the
// path is the global's name followed by the selected field names, e.g.
// "DefConfig.P2PNode.NetworkId" — to a value (ok=false ⇒ unknown).
type AEvalOpts struct {
	Load func(path string) (AVal, bool)
}

// AEval evaluates fn on args and returns its results.
func AEval(fn *ssa.Function, args []AVal, opts AEvalOpts) ([]AVal, bool) {
	steps := 0
	return aeval(fn, args, opts, 0, &steps)
}

func aconst(k *ssa.Const) AVal {
	if k.Value == nil {
		switch k.Type().Underlying().(type) {
		case *types.Pointer, *types.Interface, *types.Slice, *types.Map, *types.Signature, *types.Chan:
			return AVal{K: ANil}
		}
		return AVal{}
	}
	switch k.Value.Kind() {
	case constant.Bool:
		return ABoolV(constant.BoolVal(k.Value))
	case constant.Int:
		if x, exact := constant.Int64Val(k.Value); exact {
			return AIntV(x)
		}
		if x, exact := constant.Uint64Val(k.Value); exact {
			return AIntV(int64(x))
		}
	}
	return AVal{}
}

// apath: the access path of an address rooted at a global ("" when it is not one).
func apath(v ssa.Value) string {
	switch x := v.(type) {
	case *ssa.Global:
		return x.Name()
	case *ssa.FieldAddr:
		base := apath(x.X)
		if base == "" {
			return ""
		}
		st, ok := x.X.Type().Underlying().(*types.Pointer)
		if !ok {
			return ""
		}
		s, ok := st.Elem().Underlying().(*types.Struct)
		if !ok {
			return ""
		}
		return base + "." + s.Field(x.Field).Name()
	case *ssa.UnOp:
		if x.Op == token.MUL { // pointer loaded from a global path: DefConfig (a *T global) . field
			return apath(x.X)
		}
	}
	return ""
}

func truncTo(v int64, t types.Type) int64 {
	b, ok := t.Underlying().(*types.Basic)
	if !ok {
		return v
	}
	switch b.Kind() {
	case types.Uint8:
		return int64(uint8(v))
	case types.Uint16:
		return int64(uint16(v))
	case types.Uint32:
		return int64(uint32(v))
	case types.Int8:
		return int64(int8(v))
	case types.Int16:
		return int64(int16(v))
	case types.Int32:
		return int64(int32(v))
	}
	return v
}

func isUnsigned(t types.Type) bool {
	b, ok := t.Underlying().(*types.Basic)
	return ok && b.Info()&types.IsUnsigned != 0
}

func aeval(fn *ssa.Function, args []AVal, opts AEvalOpts, depth int, steps *int) ([]AVal, bool) {
	if fn == nil || len(fn.Blocks) == 0 || len(args) != len(fn.Params) || depth > 6 {
		return nil, false
	}
	env := map[ssa.Value]AVal{}
	tuples := map[ssa.Value][]AVal{}
	mem := map[ssa.Value]AVal{} // local cells (Alloc)
	for i, p := range fn.Params {
		env[p] = args[i]
	}
	get := func(v ssa.Value) AVal {
		switch x := v.(type) {
		case *ssa.Const:
			return aconst(x)
		case *ssa.Function, *ssa.Global, *ssa.MakeClosure:
			return AVal{K: ANonNil}
		}
		return env[v]
	}
	blk := fn.Blocks[0]
	var prev *ssa.BasicBlock
	for {
		moved := false
		for _, in := range blk.Instrs {
			*steps++
			if *steps > 2000 {
				return nil, false
			}
			switch x := in.(type) {
			case *ssa.Phi:
				for i, p := range blk.Preds {
					if p == prev {
						env[x] = get(x.Edges[i])
					}
				}
			case *ssa.BinOp:
				a, b := get(x.X), get(x.Y)
				r := AVal{}
				switch {
				case a.K == AInt && b.K == AInt:
					uns := isUnsigned(x.X.Type())
					switch x.Op {
					case token.ADD:
						r = AIntV(truncTo(a.I+b.I, x.Type()))
					case token.SUB:
						r = AIntV(truncTo(a.I-b.I, x.Type()))
					case token.MUL:
						r = AIntV(truncTo(a.I*b.I, x.Type()))
					case token.QUO:
						if b.I != 0 {
							if uns {
								r = AIntV(int64(uint64(a.I) / uint64(b.I)))
							} else {
								r = AIntV(a.I / b.I)
							}
						}
					case token.REM:
						if b.I != 0 {
							if uns {
								r = AIntV(int64(uint64(a.I) % uint64(b.I)))
							} else {
								r = AIntV(a.I % b.I)
							}
						}
					case token.AND:
						r = AIntV(a.I & b.I)
					case token.OR:
						r = AIntV(a.I | b.I)
					case token.SHL:
						if b.I >= 0 && b.I < 63 {
							r = AIntV(truncTo(a.I<<uint(b.I), x.Type()))
						}
					case token.SHR:
						if b.I >= 0 && b.I < 64 {
							if uns {
								r = AIntV(int64(uint64(a.I) >> uint(b.I)))
							} else {
								r = AIntV(a.I >> uint(b.I))
							}
						}
					case token.EQL:
						r = ABoolV(a.I == b.I)
					case token.NEQ:
						r = ABoolV(a.I != b.I)
					case token.LSS, token.LEQ, token.GTR, token.GEQ:
						var lt, eq bool
						if uns {
							lt, eq = uint64(a.I) < uint64(b.I), a.I == b.I
						} else {
							lt, eq = a.I < b.I, a.I == b.I
						}
						switch x.Op {
						case token.LSS:
							r = ABoolV(lt)
						case token.LEQ:
							r = ABoolV(lt || eq)
						case token.GTR:
							r = ABoolV(!lt && !eq)
						case token.GEQ:
							r = ABoolV(!lt)
						}
					}
				case a.K == ABool && b.K == ABool:
					switch x.Op {
					case token.EQL:
						r = ABoolV(a.B == b.B)
					case token.NEQ:
						r = ABoolV(a.B != b.B)
					case token.AND, token.LAND:
						r = ABoolV(a.B && b.B)
					case token.OR, token.LOR:
						r = ABoolV(a.B || b.B)
					}
				case (a.K == ANil || a.K == ANonNil) && (b.K == ANil || b.K == ANonNil) && (a.K == ANil || b.K == ANil):
					same := a.K == b.K
					switch x.Op {
					case token.EQL:
						r = ABoolV(same)
					case token.NEQ:
						r = ABoolV(!same)
					}
				}
				env[x] = r
			case *ssa.UnOp:
				a := get(x.X)
				switch x.Op {
				case token.NOT:
					if a.K == ABool {
						env[x] = ABoolV(!a.B)
					}
				case token.SUB:
					if a.K == AInt {
						env[x] = AIntV(truncTo(-a.I, x.Type()))
					}
				case token.MUL:
					if al, isA := x.X.(*ssa.Alloc); isA {
						if v, have := mem[al]; have {
							env[x] = v
						} else if _, isBasic := x.Type().Underlying().(*types.Basic); isBasic {
							// zero value of a fresh local
							if bt := x.Type().Underlying().(*types.Basic); bt.Info()&types.IsBoolean != 0 {
								env[x] = ABoolV(false)
							} else if bt.Info()&types.IsInteger != 0 {
								env[x] = AIntV(0)
							}
						} else {
							switch x.Type().Underlying().(type) {
							case *types.Pointer, *types.Interface, *types.Slice, *types.Map:
								env[x] = AVal{K: ANil}
							}
						}
					} else if g, isG := x.X.(*ssa.Global); isG && isSentinelErrName(g.Name()) && types.Identical(x.Type(), types.Universe.Lookup("error").Type()) {
						// io.ErrUnexpectedEOF, io.EOF, ErrNotFound …: package-level error sentinels are never nil
						env[x] = AVal{K: ANonNil}
					} else if p := apath(x.X); p != "" && opts.Load != nil {
						if v, have := opts.Load(p); have {
							env[x] = v
						} else if _, isPtr := x.Type().Underlying().(*types.Pointer); isPtr {
							env[x] = AVal{K: ANonNil}
						}
					}
				}
			case *ssa.Store:
				if al, isA := x.Addr.(*ssa.Alloc); isA {
					mem[al] = get(x.Val)
				}
			case *ssa.Alloc:
				env[x] = AVal{K: ANonNil}
			case *ssa.Convert:
				a := get(x.X)
				if a.K == AInt {
					a.I = truncTo(a.I, x.Type())
				}
				env[x] = a
			case *ssa.ChangeType:
				env[x] = get(x.X)
			case *ssa.ChangeInterface:
				env[x] = get(x.X)
			case *ssa.MakeInterface:
				env[x] = AVal{K: ANonNil}
			case *ssa.FieldAddr, *ssa.IndexAddr, *ssa.MakeSlice, *ssa.MakeMap, *ssa.Slice:
				env[x.(ssa.Value)] = AVal{K: ANonNil}
			case *ssa.Call:
				var res []AVal
				callee := x.Common().StaticCallee()
				decided := false
				if callee != nil && len(callee.Blocks) > 0 && callee.Pkg != nil && callee.Pkg.Pkg != nil && callee.Signature.Recv() == nil {
					var as []AVal
					for _, a := range x.Common().Args {
						as = append(as, get(a))
					}
					if r, okr := aeval(callee, as, opts, depth+1, steps); okr {
						res, decided = r, true
					}
				}
				if !decided && callee != nil && callee.Pkg != nil && callee.Pkg.Pkg != nil {
					full := callee.Pkg.Pkg.Path() + "." + callee.Name()
					switch {
					case full == "fmt.Errorf", full == "errors.New", strings.HasSuffix(full, "/errors.New"), strings.HasSuffix(full, "/errors.Errorf"), strings.HasSuffix(full, "/errors.NewErr"):
						res, decided = []AVal{{K: ANonNil}}, true
					}
				}
				if !decided {
					n := x.Common().Signature().Results().Len()
					res = make([]AVal, n)
				}
				if len(res) == 1 {
					env[x] = res[0]
				} else {
					tuples[x] = res
				}
			case *ssa.Extract:
				if t, have := tuples[x.Tuple]; have && x.Index < len(t) {
					env[x] = t[x.Index]
				}
			case *ssa.If:
				cnd := get(x.Cond)
				if cnd.K != ABool {
					if os.Getenv("PV_DEBUG") != "" {
						println("aeval: branch on unknown in", fn.String(), x.Cond.String(), x.Cond.Name())
					}
					return nil, false
				}
				prev = blk
				if cnd.B {
					blk = blk.Succs[0]
				} else {
					blk = blk.Succs[1]
				}
				moved = true
			case *ssa.Jump:
				prev = blk
				blk = blk.Succs[0]
				moved = true
			case *ssa.Return:
				var out []AVal
				for _, r := range x.Results {
					out = append(out, get(r))
				}
				return out, true
			case *ssa.Panic, *ssa.Defer, *ssa.Go, *ssa.Select:
				return nil, false
			case *ssa.DebugRef:
			default:
				// an instruction with no modelled effect: its value (if any) is unknown
			}
		}
		if !moved {
			return nil, false
		}
	}
}

// GlobalInitInt: the integer a package-level variable is initialised with (`var X = uint64(21)`), when
// the package's init stores one integer constant into it and no function of the package stores into it
// again.  Such a variable is a constant in all but name; rules evaluate code that reads it.
func GlobalInitInt(pkg *ssa.Package, name string) (int64, bool) {
	if pkg == nil {
		return 0, false
	}
	g, ok := pkg.Members[name].(*ssa.Global)
	if !ok {
		return 0, false
	}
	var val int64
	n := 0
	for _, m := range pkg.Members {
		f, isF := m.(*ssa.Function)
		if !isF {
			continue
		}
		fns := []*ssa.Function{f}
		fns = append(fns, f.AnonFuncs...)
		for _, fn := range fns {
			for _, b := range fn.Blocks {
				for _, in := range b.Instrs {
					st, isSt := in.(*ssa.Store)
					if !isSt || st.Addr != ssa.Value(g) {
						continue
					}
					if f.Name() != "init" {
						return 0, false
					}
					v := st.Val
					if cv, isCv := v.(*ssa.Convert); isCv {
						v = cv.X
					}
					k, isK := v.(*ssa.Const)
					if !isK {
						return 0, false
					}
					a := aconst(k)
					if a.K != AInt {
						return 0, false
					}
					val = a.I
					n++
				}
			}
		}
	}
	return val, n == 1
}

func isSentinelErrName(n string) bool {
	return strings.HasPrefix(n, "Err") || n == "EOF" || strings.HasPrefix(n, "err")
}
