package eng

import (
	"golang.org/x/tools/go/ssa"

	"polyverif/ir"
)

// NormalizedKinds renders a flattened codec sequence as wire kinds after two
// normalisations that do not change the bytes on the wire:
//   - "string" and "varbytes" are the same encoding (length-prefixed bytes);
//   - a nested object serialised into a scratch buffer that is then written as
//     varbytes / raw bytes (writer), or read as varbytes / taken as the rest of
//     the input and then parsed from a scratch reader (reader), is one item
//     "wrap(varbytes|raw, T:X)" on both sides.
func NormalizedKinds(ops []CodecOp) []string {
	n := len(ops)
	kinds := make([]string, n)
	drop := make([]bool, n)
	for i, o := range ops {
		k := o.Kind
		if k == "string" {
			k = "varbytes"
		}
		kinds[i] = k
	}
	isNested := func(i int) bool { return len(ops[i].Kind) > 2 && ops[i].Kind[:2] == "T:" }
	for i, o := range ops {
		if !isNested(i) || o.Call == nil {
			continue
		}
		if o.Write {
			// find the scratch buffer the nested object is written into
			var bufs []ssa.Value
			for _, a := range o.Call.Common().Args {
				if b := csBufferRoot(a, 0); b != nil {
					bufs = append(bufs, b)
				}
			}
			if o.Call.Common().IsInvoke() {
				// invoke: receiver is Value, args are the parameters
			}
			for j := i + 1; j < n; j++ {
				if drop[j] || (kinds[j] != "varbytes" && kinds[j] != "bytes") || ops[j].Call == nil {
					continue
				}
				args := ops[j].Call.Common().Args
				if len(args) < 2 {
					continue
				}
				by, _ := ir.CallOf(args[1])
				if by == nil || calleeName(by) != "Bytes" {
					continue
				}
				var recv ssa.Value
				if by.Common().IsInvoke() {
					recv = by.Common().Value
				} else if len(by.Common().Args) > 0 {
					recv = by.Common().Args[0]
				}
				rb := csBufferRoot(recv, 0)
				for _, b := range bufs {
					if rb != nil && rb == b {
						w := "varbytes"
						if kinds[j] == "bytes" {
							w = "raw"
						}
						kinds[i] = "wrap(" + w + "," + ops[i].Kind + ")"
						drop[j] = true
					}
				}
				if drop[j] {
					break
				}
			}
		} else {
			// reader: the nested call's reader argument is a scratch reader built over earlier-read bytes
			for _, a := range o.Call.Common().Args {
				src := csReaderSource(a, 0)
				if src == nil {
					continue
				}
				// src is the byte slice the scratch reader was built over
				matched := false
				for j := 0; j < i; j++ {
					if drop[j] || kinds[j] != "varbytes" || ops[j].Call == nil {
						continue
					}
					if v, ok := ops[j].Call.(ssa.Value); ok && derivesFromCallResult(src, v) {
						kinds[i] = "wrap(varbytes," + ops[i].Kind + ")"
						drop[j] = true
						matched = true
						break
					}
				}
				if !matched {
					if cl, _ := ir.CallOf(src); cl != nil && (calleeName(cl) == "Bytes" || calleeName(cl) == "OffBytes") {
						kinds[i] = "wrap(raw," + ops[i].Kind + ")"
					}
				}
			}
		}
	}
	var out []string
	for i := range ops {
		if !drop[i] {
			out = append(out, kinds[i])
		}
	}
	return out
}

func calleeName(cl *ssa.Call) string {
	if cl.Common().IsInvoke() {
		return cl.Common().Method.Name()
	}
	if o := ir.CalleeObj(cl); o != nil {
		return o.Name()
	}
	return ""
}

// csBufferRoot: the scratch buffer object a writer argument denotes (the
// buffer itself, an interface made from it, or a field of it).
func csBufferRoot(v ssa.Value, d int) ssa.Value {
	if v == nil || d > 5 {
		return nil
	}
	switch x := v.(type) {
	case *ssa.MakeInterface:
		return csBufferRoot(x.X, d+1)
	case *ssa.ChangeInterface:
		return csBufferRoot(x.X, d+1)
	case *ssa.UnOp:
		if fa, ok := x.X.(*ssa.FieldAddr); ok {
			return csBufferRoot(fa.X, d+1)
		}
		if al, ok := x.X.(*ssa.Alloc); ok {
			if sv := ir.SingleStore(al); sv != nil {
				return csBufferRoot(sv, d+1)
			}
		}
		return nil
	case *ssa.FieldAddr:
		return csBufferRoot(x.X, d+1)
	case *ssa.Call:
		// constructor result: bytes.NewBuffer(nil), io.NewBufBinaryWriter(), common.NewZeroCopySink(nil)
		return x
	case *ssa.Extract:
		return csBufferRoot(x.Tuple, d+1)
	case *ssa.Alloc:
		return x
	}
	return nil
}

// csReaderSource: for a scratch reader argument, the byte slice it was built over.
func csReaderSource(v ssa.Value, d int) ssa.Value {
	if v == nil || d > 5 {
		return nil
	}
	switch x := v.(type) {
	case *ssa.MakeInterface:
		return csReaderSource(x.X, d+1)
	case *ssa.ChangeInterface:
		return csReaderSource(x.X, d+1)
	case *ssa.UnOp:
		if fa, ok := x.X.(*ssa.FieldAddr); ok {
			return csReaderSource(fa.X, d+1)
		}
		if al, ok := x.X.(*ssa.Alloc); ok {
			if sv := ir.SingleStore(al); sv != nil {
				return csReaderSource(sv, d+1)
			}
		}
	case *ssa.FieldAddr:
		return csReaderSource(x.X, d+1)
	case *ssa.Call:
		switch calleeName(x) {
		case "NewBuffer", "NewZeroCopySource", "NewBinaryReaderFromBuf", "NewReader", "NewBufferString":
			if len(x.Common().Args) > 0 {
				return x.Common().Args[0]
			}
		}
	}
	return nil
}

func derivesFromCallResult(v ssa.Value, call ssa.Value) bool {
	v = ir.Strip(v)
	if v == call {
		return true
	}
	if ex, ok := v.(*ssa.Extract); ok && ex.Tuple == call {
		return true
	}
	return false
}
