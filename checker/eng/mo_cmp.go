package eng

import (
	"go/token"

	"golang.org/x/tools/go/ssa"

	"polyverif/ir"
)

// SortComparatorBad reports a sort.Slice / sort.SliceStable call whose
// comparator closure indexes a slice other than the one being sorted (then the
// call does not order the collected slice at all) or contains no strict
// comparison.  Other sort entry points (sort.Sort on a named type, sort.Strings…)
// are accepted.
func SortComparatorBad(ci ssa.CallInstruction) (bool, string) {
	if !ir.IsPkgFunc(ci, "sort", "Slice", "SliceStable") {
		return false, ""
	}
	a := ci.Common().Args
	sorted := a[0]
	if mi, ok := sorted.(*ssa.MakeInterface); ok {
		sorted = mi.X
	}
	mc, ok := a[1].(*ssa.MakeClosure)
	if !ok {
		return false, ""
	}
	less, ok := mc.Fn.(*ssa.Function)
	if !ok {
		return false, ""
	}
	var cell ssa.Value
	if ld, isLd := sorted.(*ssa.UnOp); isLd {
		cell = ld.X
	}
	strict := false
	for _, b := range less.Blocks {
		for _, in := range b.Instrs {
			switch x := in.(type) {
			case *ssa.IndexAddr:
				base := x.X
				if ld, isLd := base.(*ssa.UnOp); isLd {
					base = ld.X
				}
				fv, isFv := base.(*ssa.FreeVar)
				if !isFv {
					continue
				}
				for i, f := range less.FreeVars {
					if f == fv && i < len(mc.Bindings) {
						if bnd := mc.Bindings[i]; bnd != sorted && bnd != cell {
							return true, "the comparator indexes " + fv.Name() + ", which is not the slice being sorted"
						}
					}
				}
			case *ssa.BinOp:
				if x.Op == token.LSS || x.Op == token.GTR {
					strict = true
				}
				// three-way results: a.Cmp(b) >= 1, <= -1, == 1, == -1 are strict too
				if k, okk := ir.ConstInt(x.Y); okk {
					if (x.Op == token.GEQ && k == 1) || (x.Op == token.LEQ && k == -1) || (x.Op == token.EQL && (k == 1 || k == -1)) {
						strict = true
					}
				}
			}
		}
	}
	if !strict {
		return true, "the comparator contains no strict comparison"
	}
	return false, ""
}
