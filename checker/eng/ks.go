package eng

import (
	"fmt"
	"go/constant"
	"go/types"
	"sort"
	"strings"

	"golang.org/x/tools/go/ssa"

	"polyverif/ir"
)

// KS — storage key shapes.

type AtomKind int

const (
	AContract AtomKind = iota // 20-byte contract address constant
	ALit                      // literal bytes
	AFix                      // fixed number of arbitrary bytes
	AVar                      // arbitrary bytes of arbitrary length
	ASlot                     // parameter i of the summarised function
)

type Atom struct {
	Kind AtomKind
	Lit  string // ALit bytes / AContract name
	N    int    // AFix width / ASlot index
	Src  string // provenance note (variable / callee)
	// Val: for Fix atoms produced by GetUint64Bytes(x)/GetUint32Bytes(x), the
	// encoded value x expressed in the querying function's terms (nil if lost).
	Val ssa.Value
	// Alts: for a Var atom that is an element of a constant string list (`for _, p := range []string{A, B}`),
	// the literals it ranges over; the site is expanded into one site per literal.
	Alts []string
}

func (a Atom) String() string {
	switch a.Kind {
	case AContract:
		return "@" + a.Lit
	case ALit:
		return fmt.Sprintf("%q", a.Lit)
	case AFix:
		return fmt.Sprintf("Fix%d", a.N)
	case AVar:
		if a.Src != "" {
			return "Var(" + a.Src + ")"
		}
		return "Var"
	case ASlot:
		return fmt.Sprintf("$%d", a.N)
	}
	return "?"
}

type KeyShape []Atom

func (s KeyShape) String() string {
	parts := make([]string, len(s))
	for i, a := range s {
		parts[i] = a.String()
	}
	return strings.Join(parts, "+")
}

// Norm merges adjacent literals and drops empty ones.
func (s KeyShape) Norm() KeyShape {
	var out KeyShape
	for _, a := range s {
		if a.Kind == ALit && a.Lit == "" {
			continue
		}
		if a.Kind == ALit && len(out) > 0 && out[len(out)-1].Kind == ALit {
			out[len(out)-1].Lit += a.Lit
			continue
		}
		out = append(out, a)
	}
	return out
}

// Canon renders the shape without provenance notes (for grouping).
func (s KeyShape) Canon() string {
	parts := make([]string, len(s))
	for i, a := range s {
		b := a
		b.Src = ""
		parts[i] = b.String()
	}
	return strings.Join(parts, "+")
}

// Unifies: same atom count and pairwise compatible (Var matches Var/Fix; Fix
// matches Fix of equal width; literals and contracts must be equal).
func (s KeyShape) Unifies(t KeyShape) bool {
	a, b := s.Norm(), t.Norm()
	if len(a) != len(b) {
		return false
	}
	for i := range a {
		x, y := a[i], b[i]
		switch {
		case x.Kind == AContract || y.Kind == AContract:
			if x.Kind != y.Kind || x.Lit != y.Lit {
				return false
			}
		case x.Kind == ALit || y.Kind == ALit:
			if x.Kind != y.Kind || x.Lit != y.Lit {
				return false
			}
		case x.Kind == AFix && y.Kind == AFix:
			if x.N != y.N {
				return false
			}
		}
	}
	return true
}

// VarCount counts unbounded atoms.
func (s KeyShape) VarCount() int {
	n := 0
	for _, a := range s {
		if a.Kind == AVar || a.Kind == ASlot {
			n++
		}
	}
	return n
}

// KeySite is one storage access with its key shape.
type KeySite struct {
	Op    string // Get Put Delete Iter
	Shape KeyShape
	Fn    *ssa.Function // function containing the CacheDB call
	Top   *ssa.Function // function the query was made for
	Call  ssa.CallInstruction
	// TopCall: the call instruction in Top through which this site is reached
	// (== Call when Fn == Top).
	TopCall ssa.CallInstruction
	Depth   int
	// Chain: the call instructions from Top down to the CacheDB operation.
	Chain []ssa.CallInstruction
}

type ksEngine struct {
	p        *ir.P
	ops      map[*types.Func]string
	concat   *types.Func
	u64, u32 *types.Func
	sums     map[*ssa.Function][]KeySite
	busy     map[*ssa.Function]bool
}

var ksCache = map[*ir.P]*ksEngine{}

func ks(p *ir.P) (*ksEngine, error) {
	if e, ok := ksCache[p]; ok {
		return e, nil
	}
	e := &ksEngine{p: p, ops: map[*types.Func]string{}, sums: map[*ssa.Function][]KeySite{}, busy: map[*ssa.Function]bool{}}
	for name, op := range map[string]string{"CacheDB.Get": "Get", "CacheDB.Put": "Put", "CacheDB.Delete": "Delete", "CacheDB.NewIterator": "Iter"} {
		o, err := p.FuncObj("native/storage", name)
		if err != nil {
			return nil, err
		}
		e.ops[o] = op
	}
	var err error
	if e.concat, err = p.FuncObj("native/service/utils", "ConcatKey"); err != nil {
		return nil, err
	}
	if e.u64, err = p.FuncObj("native/service/utils", "GetUint64Bytes"); err != nil {
		return nil, err
	}
	if e.u32, err = p.FuncObj("native/service/utils", "GetUint32Bytes"); err != nil {
		return nil, err
	}
	ksCache[p] = e
	return e, nil
}

// KeySitesIn returns every storage access reachable from fn through static
// calls up to `depth`, with key shapes expressed in fn's terms.
func KeySitesIn(p *ir.P, fn *ssa.Function, depth int) ([]KeySite, error) {
	e, err := ks(p)
	if err != nil {
		return nil, err
	}
	sites := e.summary(fn, depth)
	out := make([]KeySite, len(sites))
	for i, s := range sites {
		s.Top = fn
		s.Shape = s.Shape.Norm()
		out[i] = s
	}
	return out, nil
}

func (e *ksEngine) summary(fn *ssa.Function, depth int) []KeySite {
	if s, ok := e.sums[fn]; ok && depth <= 4 {
		return s
	}
	if e.busy[fn] || len(fn.Blocks) == 0 {
		return nil
	}
	e.busy[fn] = true
	defer delete(e.busy, fn)
	var out []KeySite
	for _, f := range ir.WithClosures(fn) {
		for _, b := range f.Blocks {
			for _, in := range b.Instrs {
				ci, ok := in.(ssa.CallInstruction)
				if !ok {
					continue
				}
				callee := ir.CalleeObj(ci)
				if callee == nil {
					continue
				}
				if op, isOp := e.ops[callee]; isOp {
					args := ci.Common().Args
					if len(args) >= 2 {
						for _, sh := range expandAlts(e.shape(args[1], 0)) {
							out = append(out, KeySite{Op: op, Shape: sh, Fn: f, Call: ci, TopCall: ci, Chain: []ssa.CallInstruction{ci}})
						}
					}
					continue
				}
				if depth <= 0 {
					continue
				}
				g := ci.Common().StaticCallee()
				if g == nil || len(g.Blocks) == 0 || g.Pkg == nil || !strings.HasPrefix(g.Pkg.Pkg.Path(), ir.Mod+"/native") {
					continue
				}
				sub := e.summary(g, depth-1)
				if len(sub) == 0 {
					continue
				}
				args := ci.Common().Args
				for _, s := range sub {
					for _, sh := range expandAlts(e.subst(s.Shape, args)) {
						ns := s
						ns.Shape = sh
						ns.TopCall = ci
						ns.Chain = append([]ssa.CallInstruction{ci}, s.Chain...)
						ns.Depth = s.Depth + 1
						out = append(out, ns)
					}
				}
			}
		}
	}
	if depth >= 4 {
		e.sums[fn] = out
	}
	return out
}

func (e *ksEngine) subst(s KeyShape, args []ssa.Value) KeyShape {
	var out KeyShape
	for _, a := range s {
		if a.Kind == ASlot {
			if a.N < len(args) {
				out = append(out, e.shape(args[a.N], 0)...)
			} else {
				out = append(out, Atom{Kind: AVar, Src: "slot?"})
			}
			continue
		}
		if p, ok := a.Val.(*ssa.Parameter); ok {
			a.Val = nil
			for i, q := range p.Parent().Params {
				if q == p && i < len(args) {
					a.Val = ir.Strip(args[i])
				}
			}
		} else if _, isConst := a.Val.(*ssa.Const); !isConst {
			// a callee-local value cannot be expressed in the caller's terms
			a.Val = nil
		}
		out = append(out, a)
	}
	return out
}

func isByteSlice(t types.Type) bool {
	s, ok := t.Underlying().(*types.Slice)
	if !ok {
		return false
	}
	b, ok := s.Elem().Underlying().(*types.Basic)
	return ok && b.Kind() == types.Byte
}

func byteArrayLen(t types.Type) (int, bool) {
	if p, ok := t.Underlying().(*types.Pointer); ok {
		t = p.Elem()
	}
	a, ok := t.Underlying().(*types.Array)
	if !ok {
		return 0, false
	}
	b, ok := a.Elem().Underlying().(*types.Basic)
	if !ok || b.Kind() != types.Byte {
		return 0, false
	}
	return int(a.Len()), true
}

// shape abstracts a []byte (or string / array) value.
func (e *ksEngine) shape(v ssa.Value, d int) KeyShape {
	if d > 12 {
		return KeyShape{{Kind: AVar, Src: "deep"}}
	}
	switch x := v.(type) {
	case *ssa.Const:
		if x.Value == nil {
			return KeyShape{}
		}
		if x.Value.Kind() == constant.String {
			return KeyShape{{Kind: ALit, Lit: constant.StringVal(x.Value)}}
		}
	case *ssa.Parameter:
		for i, p := range x.Parent().Params {
			if p == x {
				if n, ok := byteArrayLen(x.Type()); ok {
					_ = i
					return KeyShape{{Kind: AFix, N: n, Src: x.Name()}}
				}
				return KeyShape{{Kind: ASlot, N: i, Src: x.Name()}}
			}
		}
	case *ssa.Convert:
		return e.shape(x.X, d+1)
	case *ssa.ChangeType:
		return e.shape(x.X, d+1)
	case *ssa.Slice:
		// arr[:] of a byte array => fixed width (only when unsliced)
		if x.Low == nil && x.High == nil {
			if n, ok := byteArrayLen(x.X.Type()); ok {
				// contract address global?
				if name, ok := contractGlobal(x.X); ok {
					return KeyShape{{Kind: AContract, Lit: name}}
				}
				if al, ok := x.X.(*ssa.Alloc); ok {
					if c := contractViaAlloc(al); c != "" {
						return KeyShape{{Kind: AContract, Lit: c}}
					}
				}
				return KeyShape{{Kind: AFix, N: n}}
			}
			return e.shape(x.X, d+1)
		}
		if x.Low == nil && x.High != nil {
			if k, ok := ir.ConstInt(x.High); ok {
				return KeyShape{{Kind: AFix, N: int(k)}}
			}
		}
		return KeyShape{{Kind: AVar, Src: "slice"}}
	case *ssa.UnOp:
		// an element of a constant string list
		if ia, ok := x.X.(*ssa.IndexAddr); ok {
			if alts := constStringList(ia.X); len(alts) > 0 {
				return KeyShape{{Kind: AVar, Src: "element of a constant list", Alts: alts}}
			}
		}
		// load of a global string/bytes variable
		if g, ok := x.X.(*ssa.Global); ok {
			if lit, ok := globalConstInit(g); ok {
				return KeyShape{{Kind: ALit, Lit: lit}}
			}
			if n, ok := byteArrayLen(g.Type()); ok {
				if strings.HasSuffix(g.Name(), "ContractAddress") {
					return KeyShape{{Kind: AContract, Lit: g.Name()}}
				}
				return KeyShape{{Kind: AFix, N: n}}
			}
			return KeyShape{{Kind: AVar, Src: "global " + g.Name()}}
		}
		if n, ok := byteArrayLen(x.Type()); ok {
			return KeyShape{{Kind: AFix, N: n}}
		}
	case *ssa.Phi:
		var first KeyShape
		for i, ed := range x.Edges {
			s := e.shape(ed, d+1).Norm()
			if i == 0 {
				first = s
			} else if s.Canon() != first.Canon() {
				return KeyShape{{Kind: AVar, Src: "phi"}}
			}
		}
		return first
	case *ssa.Call:
		callee := ir.CalleeObj(x)
		args := x.Common().Args
		if bi, ok := x.Common().Value.(*ssa.Builtin); ok && bi.Name() == "append" && len(args) == 2 {
			return append(e.shape(args[0], d+1), e.shape(args[1], d+1)...)
		}
		if callee == nil {
			break
		}
		switch {
		case callee == e.concat:
			out := e.shape(args[0], d+1)
			if len(out) == 1 && out[0].Kind == AFix && out[0].N == 20 {
				out[0] = Atom{Kind: AContract, Lit: contractName(args[0])}
			}
			for _, el := range variadicElems(args[1]) {
				out = append(out, e.shape(el, d+1)...)
			}
			if variadicElems(args[1]) == nil && !isNilSlice(args[1]) {
				out = append(out, Atom{Kind: AVar, Src: "variadic"})
			}
			return out
		case callee == e.u64:
			return KeyShape{{Kind: AFix, N: 8, Val: ir.Strip(args[0])}}
		case callee == e.u32:
			return KeyShape{{Kind: AFix, N: 4, Val: ir.Strip(args[0])}}
		}
		// methods returning fixed-size digests
		if n, ok := fixedResult(callee); ok {
			return KeyShape{{Kind: AFix, N: n, Src: callee.Name()}}
		}
		// module function with a single []byte result computed from params: inline its shape
		if g := x.Common().StaticCallee(); g != nil && len(g.Blocks) > 0 && g.Signature.Results().Len() == 1 && d < 6 {
			if s, ok := e.returnShape(g, d+1, 0); ok {
				return e.subst(s, args)
			}
		}
		return KeyShape{{Kind: AVar, Src: callee.Name() + "()"}}
	case *ssa.Extract:
		if call, ok := x.Tuple.(*ssa.Call); ok {
			// module helper returning the key among several results: inline that result's shape
			if g := call.Common().StaticCallee(); g != nil && len(g.Blocks) > 0 && x.Index < g.Signature.Results().Len() && d < 6 {
				if s, ok := e.returnShape(g, d+1, x.Index); ok {
					return e.subst(s, call.Common().Args)
				}
			}
			if callee := ir.CalleeObj(call); callee != nil {
				return KeyShape{{Kind: AVar, Src: callee.Name() + "()"}}
			}
		}
	case *ssa.MakeSlice:
		return KeyShape{{Kind: AVar, Src: "make"}}
	}
	if n, ok := byteArrayLen(v.Type()); ok {
		return KeyShape{{Kind: AFix, N: n}}
	}
	return KeyShape{{Kind: AVar, Src: short(v)}}
}

func short(v ssa.Value) string {
	s := v.Name()
	if len(s) > 20 {
		s = s[:20]
	}
	return s
}

// returnShape: the shape of g's single return value if all returns agree.
func (e *ksEngine) returnShape(g *ssa.Function, d int, idx int) (KeyShape, bool) {
	if !isByteSlice(g.Signature.Results().At(idx).Type()) {
		return nil, false
	}
	var first KeyShape
	n := 0
	for _, b := range g.Blocks {
		ret, ok := b.Instrs[len(b.Instrs)-1].(*ssa.Return)
		if !ok {
			continue
		}
		if idx >= len(ret.Results) {
			return nil, false
		}
		if k, isK := ret.Results[idx].(*ssa.Const); isK && k.IsNil() && len(ret.Results) > 1 {
			continue // `return nil, err`
		}
		s := e.shape(ret.Results[idx], d).Norm()
		if n == 0 {
			first = s
		} else if s.Canon() != first.Canon() {
			return nil, false
		}
		n++
	}
	return first, n > 0
}

func fixedResult(callee *types.Func) (int, bool) {
	sig := callee.Type().(*types.Signature)
	// digest helpers of dependencies with a fixed output width
	if callee.Pkg() != nil && sig.Recv() == nil {
		switch callee.Pkg().Path() + "." + callee.Name() {
		case "github.com/btcsuite/btcutil.Hash160":
			return 20, true // ripemd160(sha256(x))
		}
	}
	if sig.Results().Len() != 1 {
		return 0, false
	}
	rt := sig.Results().At(0).Type()
	if n, ok := byteArrayLen(rt); ok {
		if _, isPtr := rt.Underlying().(*types.Pointer); !isPtr {
			return n, true
		}
	}
	if sig.Recv() != nil && isByteSlice(rt) {
		rn := sig.Recv().Type().String()
		switch callee.Name() {
		case "ToArray", "Bytes", "CloneBytes":
			if strings.HasSuffix(rn, "common.Uint256") || strings.HasSuffix(rn, "chainhash.Hash") || strings.HasSuffix(rn, "common.Hash") {
				return 32, true
			}
			if strings.HasSuffix(rn, "common.Address") {
				return 20, true
			}
		}
	}
	return 0, false
}

func isNilSlice(v ssa.Value) bool {
	c, ok := v.(*ssa.Const)
	return ok && c.Value == nil
}

// variadicElems recovers the elements of a variadic argument slice literal.
func variadicElems(v ssa.Value) []ssa.Value {
	sl, ok := v.(*ssa.Slice)
	if !ok {
		return nil
	}
	al, ok := sl.X.(*ssa.Alloc)
	if !ok {
		return nil
	}
	arr, ok := al.Type().Underlying().(*types.Pointer).Elem().Underlying().(*types.Array)
	if !ok {
		return nil
	}
	elems := make([]ssa.Value, arr.Len())
	for _, ref := range *al.Referrers() {
		ia, ok := ref.(*ssa.IndexAddr)
		if !ok {
			continue
		}
		k, ok := ir.ConstInt(ia.Index)
		if !ok || int(k) >= len(elems) {
			return nil
		}
		for _, r2 := range *ia.Referrers() {
			if st, ok := r2.(*ssa.Store); ok && st.Addr == ia {
				elems[k] = st.Val
			}
		}
	}
	for _, el := range elems {
		if el == nil {
			return nil
		}
	}
	return elems
}

func contractGlobal(v ssa.Value) (string, bool) {
	if g, ok := v.(*ssa.Global); ok && strings.HasSuffix(g.Name(), "ContractAddress") {
		return g.Name(), true
	}
	return "", false
}

// contractViaAlloc: local `contract := utils.XContractAddress` (array copy to alloc).
func contractViaAlloc(al *ssa.Alloc) string {
	name := ""
	n := 0
	for _, ref := range *al.Referrers() {
		st, ok := ref.(*ssa.Store)
		if !ok || st.Addr != al {
			continue
		}
		n++
		if u, ok := st.Val.(*ssa.UnOp); ok {
			if g, ok := u.X.(*ssa.Global); ok {
				name = g.Name()
			}
		}
	}
	if n == 1 && strings.HasSuffix(name, "ContractAddress") {
		return name
	}
	return ""
}

func contractName(v ssa.Value) string {
	switch x := v.(type) {
	case *ssa.UnOp:
		if g, ok := x.X.(*ssa.Global); ok {
			return g.Name()
		}
		if al, ok := x.X.(*ssa.Alloc); ok {
			if c := contractViaAlloc(al); c != "" {
				return c
			}
		}
	case *ssa.Parameter:
		return "$" + x.Name()
	}
	return "?"
}

// globalConstInit: a package-level string variable whose only store is a
// constant in the package initialiser.
func globalConstInit(g *ssa.Global) (string, bool) {
	pkg := g.Pkg
	if pkg == nil {
		return "", false
	}
	lit := ""
	stores := 0
	for _, m := range pkg.Members {
		fn, ok := m.(*ssa.Function)
		if !ok {
			continue
		}
		for _, f := range ir.WithClosures(fn) {
			for _, b := range f.Blocks {
				for _, in := range b.Instrs {
					st, ok := in.(*ssa.Store)
					if !ok || st.Addr != g {
						continue
					}
					stores++
					if c, ok := st.Val.(*ssa.Const); ok && c.Value != nil && c.Value.Kind() == constant.String && fn.Name() == "init" {
						lit = constant.StringVal(c.Value)
					} else {
						return "", false
					}
				}
			}
		}
	}
	if stores == 1 {
		return lit, true
	}
	return "", false
}

// SortSites orders key sites deterministically.
func SortSites(p *ir.P, s []KeySite) {
	sort.SliceStable(s, func(i, j int) bool { return s[i].Call.Pos() < s[j].Call.Pos() })
}

// VariadicElems exposes variadicElems.
func VariadicElems(v ssa.Value) []ssa.Value { return variadicElems(v) }

// ShapeOf abstracts a single []byte value of the program into a key shape.
func ShapeOf(p *ir.P, v ssa.Value) (KeyShape, error) {
	e, err := ks(p)
	if err != nil {
		return nil, err
	}
	return e.shape(v, 0).Norm(), nil
}

// constStringList: v is a slice over a fresh array every element of which is stored once with a string
// constant (`[]string{A, B}`); returns the constants.
func constStringList(v ssa.Value) []string {
	sl, ok := v.(*ssa.Slice)
	if !ok || sl.Low != nil || sl.High != nil {
		return nil
	}
	al, ok := sl.X.(*ssa.Alloc)
	if !ok || al.Referrers() == nil {
		return nil
	}
	pt, ok := al.Type().Underlying().(*types.Pointer)
	if !ok {
		return nil
	}
	arr, ok := pt.Elem().Underlying().(*types.Array)
	if !ok {
		return nil
	}
	vals := map[int64]string{}
	for _, r := range *al.Referrers() {
		switch x := r.(type) {
		case *ssa.IndexAddr:
			k, isK := ir.ConstInt(x.Index)
			if !isK || x.Referrers() == nil {
				return nil
			}
			for _, u := range *x.Referrers() {
				st, isSt := u.(*ssa.Store)
				if !isSt {
					return nil
				}
				c, isC := st.Val.(*ssa.Const)
				if !isC || c.Value == nil || c.Value.Kind() != constant.String {
					return nil
				}
				if _, dup := vals[k]; dup {
					return nil
				}
				vals[k] = constant.StringVal(c.Value)
			}
		case *ssa.Slice, *ssa.DebugRef:
		default:
			return nil
		}
	}
	if int64(len(vals)) != arr.Len() || len(vals) == 0 || len(vals) > 8 {
		return nil
	}
	out := make([]string, 0, len(vals))
	for i := int64(0); i < arr.Len(); i++ {
		out = append(out, vals[i])
	}
	return out
}

// expandAlts: one shape per choice of the atoms that range over a constant list (at most 16 shapes).
func expandAlts(s KeyShape) []KeyShape {
	out := []KeyShape{{}}
	for _, a := range s {
		if a.Kind == AVar && len(a.Alts) > 0 && len(out)*len(a.Alts) <= 16 {
			var next []KeyShape
			for _, pre := range out {
				for _, lit := range a.Alts {
					sh := append(append(KeyShape{}, pre...), Atom{Kind: ALit, Lit: lit})
					next = append(next, sh)
				}
			}
			out = next
			continue
		}
		for i := range out {
			out[i] = append(out[i], a)
		}
	}
	return out
}

// ConstStringList exposes constStringList: the string constants of a `[]string{…}` literal, nil otherwise.
func ConstStringList(v ssa.Value) []string { return constStringList(v) }
