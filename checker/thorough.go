package main

import (
	"encoding/json"
	"fmt"
	"hash/fnv"
	"os"
	"os/exec"
	"path/filepath"
	"regexp"
	"sort"
	"strings"
	"sync"
	"time"
)

// Thorough tier.  Beyond the quick run on /repo's working tree, for one property:
//
//  1. the same check is repeated under other build contexts (GOOS/GOARCH), so
//     files and declarations selected by build constraints are analysed too;
//  2. the check's detection power is re-established on this run: every archived
//     breaking change of the property (seeded/<name>/patch.diff) and the pre-fix
//     form of every repaired defect (defects/<name>/fix.patch, reversed) is
//     applied IN MEMORY (loader overlay of the patched files — /repo is never
//     touched) and the check must report a new violation for it.  A breaker the
//     check no longer detects makes the thorough run BROKEN (exit 2): a rule
//     that silently lost its teeth must not keep reporting "holds".
//
// Every variant runs in a sub-process (one program load each) to bound memory.

type subResult struct {
	Name        string   `json:"name"`
	Kind        string   `json:"kind"` // context | seeded-change | reverted-fix
	Exit        int      `json:"exit"`
	Obligations int      `json:"obligations"`
	Violations  int      `json:"new_violations"`
	Rules       []string `json:"rules_fired,omitempty"`
	Note        string   `json:"note,omitempty"`
	WallS       float64  `json:"wall_s"`
}

var summaryRe = regexp.MustCompile(`^== (C[0-9]+): ([0-9]+) obligations, ([0-9]+) hold, ([0-9]+) known findings, ([0-9]+) new violations, ([0-9]+) undecided`)

// subOut is the private output directory of one sub-run (sub-runs execute concurrently).
func subOut(tmp string, extra []string) string {
	h := fnv.New32a()
	h.Write([]byte(strings.Join(extra, "\x00")))
	return filepath.Join(tmp, fmt.Sprintf("out-%08x", h.Sum32()))
}

func runSub(self string, id, repo, verif, tmp string, extra ...string) subResult {
	if r, ok := takePrefetched(extra); ok {
		return r
	}
	return runSubNow(self, id, repo, verif, tmp, extra...)
}

var (
	prefetchMu sync.Mutex
	prefetched = map[string]subResult{}
)

func takePrefetched(extra []string) (subResult, bool) {
	prefetchMu.Lock()
	defer prefetchMu.Unlock()
	r, ok := prefetched[strings.Join(extra, "\x00")]
	return r, ok
}

// prefetch runs the given sub-runs on a small worker pool (each is a full program load, ≈1 GB and
// several cores) and keeps their results for the sequential reporting code below.
func prefetch(self, id, repo, verif, tmp string, jobs [][]string) {
	prefetchMu.Lock()
	prefetched = map[string]subResult{}
	prefetchMu.Unlock()
	workers := 5
	if v := os.Getenv("VERIF_THOROUGH_WORKERS"); v != "" {
		fmt.Sscan(v, &workers)
	}
	if workers < 1 {
		workers = 1
	}
	ch := make(chan []string)
	var wg sync.WaitGroup
	for i := 0; i < workers; i++ {
		wg.Add(1)
		go func() {
			defer wg.Done()
			for extra := range ch {
				r := runSubNow(self, id, repo, verif, tmp, extra...)
				prefetchMu.Lock()
				prefetched[strings.Join(extra, "\x00")] = r
				prefetchMu.Unlock()
			}
		}()
	}
	for _, j := range jobs {
		ch <- j
	}
	close(ch)
	wg.Wait()
}

func runSubNow(self string, id, repo, verif, tmp string, extra ...string) subResult {
	t0 := time.Now()
	tmp = subOut(tmp, extra)
	os.MkdirAll(filepath.Join(tmp, "evidence"), 0o755)
	args := append([]string{"check", id, "-tier", "quick", "-sub", "-repo", repo, "-verif", verif, "-out", tmp}, extra...)
	cmd := exec.Command(self, args...)
	cmd.Env = os.Environ()
	out, err := cmd.CombinedOutput()
	res := subResult{WallS: time.Since(t0).Seconds()}
	if ee, ok := err.(*exec.ExitError); ok {
		res.Exit = ee.ExitCode()
	} else if err != nil {
		res.Exit = 2
		res.Note = err.Error()
	}
	rules := map[string]bool{}
	for _, l := range strings.Split(string(out), "\n") {
		if m := summaryRe.FindStringSubmatch(l); m != nil {
			fmt.Sscan(m[2], &res.Obligations)
			fmt.Sscan(m[5], &res.Violations)
		}
		if strings.HasPrefix(l, "violation: property=") {
			f := strings.Fields(l)
			if len(f) >= 3 {
				rules[f[2]] = true
			}
		}
		if strings.HasPrefix(l, "BROKEN:") && res.Note == "" {
			res.Note = l
		}
	}
	for r := range rules {
		res.Rules = append(res.Rules, r)
	}
	sort.Strings(res.Rules)
	return res
}

type breaker struct {
	name    string
	kind    string
	patch   string
	reverse bool
}

func breakersFor(id, verif string) []breaker {
	var out []breaker
	// archived seeded changes
	metas, _ := filepath.Glob(verif + "/seeded/*/meta.json")
	sort.Strings(metas)
	for _, m := range metas {
		b, err := os.ReadFile(m)
		if err != nil {
			continue
		}
		var meta struct {
			Property string `json:"property"`
			Name     string `json:"name"`
		}
		if json.Unmarshal(b, &meta) != nil || meta.Property != id {
			continue
		}
		dir := filepath.Dir(m)
		out = append(out, breaker{name: filepath.Base(dir), kind: "seeded-change", patch: dir + "/patch.diff"})
	}
	// repaired defects, reverted
	b, err := os.ReadFile(verif + "/known_findings.json")
	if err == nil {
		var ff struct {
			Findings []struct {
				Property      string `json:"property"`
				State         string `json:"state"`
				Demonstration string `json:"demonstration"`
			} `json:"findings"`
		}
		if json.Unmarshal(b, &ff) == nil {
			seen := map[string]bool{}
			for _, f := range ff.Findings {
				if f.Property != id || f.State != "fixed" {
					continue
				}
				parts := strings.Split(f.Demonstration, "/")
				if len(parts) < 2 || parts[0] != "defects" {
					continue
				}
				name := parts[1]
				p := verif + "/defects/" + name + "/fix.patch"
				if _, err := os.Stat(p); err != nil || seen[name] {
					continue
				}
				seen[name] = true
				out = append(out, breaker{name: name, kind: "reverted-fix", patch: p, reverse: true})
			}
		}
	}
	return out
}

var plusRe = regexp.MustCompile(`(?m)^\+\+\+ b/(\S+)`)

// overlayFor applies the patch to private copies of the files it touches and returns the -overlay argument.
// neutralsFor: the archived behaviour-preserving refactorings written for property id.
func neutralsFor(id, verif string) []breaker {
	var out []breaker
	metas, _ := filepath.Glob(verif + "/neutral/*/meta.json")
	sort.Strings(metas)
	for _, m := range metas {
		b, err := os.ReadFile(m)
		if err != nil {
			continue
		}
		var meta struct {
			Property string `json:"property"`
		}
		if json.Unmarshal(b, &meta) != nil || meta.Property != id {
			continue
		}
		dir := filepath.Dir(m)
		out = append(out, breaker{name: filepath.Base(dir), kind: "refactoring", patch: dir + "/patch.diff"})
	}
	return out
}

func overlayFor(b breaker, repo, tmp string) (string, error) {
	pb, err := os.ReadFile(b.patch)
	if err != nil {
		return "", err
	}
	dir := filepath.Join(tmp, "ov-"+b.name)
	var pairs []string
	for _, m := range plusRe.FindAllStringSubmatch(string(pb), -1) {
		rel := m[1]
		if !strings.HasSuffix(rel, ".go") || strings.HasSuffix(rel, "_test.go") {
			continue
		}
		src, err := os.ReadFile(filepath.Join(repo, rel))
		if err != nil {
			return "", err
		}
		dst := filepath.Join(dir, rel)
		if err := os.MkdirAll(filepath.Dir(dst), 0o755); err != nil {
			return "", err
		}
		if err := os.WriteFile(dst, src, 0o644); err != nil {
			return "", err
		}
		pairs = append(pairs, filepath.Join(repo, rel)+"="+dst)
	}
	if len(pairs) == 0 {
		return "", fmt.Errorf("patch touches no non-test Go file")
	}
	args := []string{"-p1", "--quiet", "--no-backup-if-mismatch", "-d", dir, "-i", b.patch}
	if b.reverse {
		args = append([]string{"-R"}, args...)
	}
	if out, err := exec.Command("patch", args...).CombinedOutput(); err != nil {
		return "", fmt.Errorf("patch does not apply to the current tree: %s", strings.TrimSpace(string(out)))
	}
	return strings.Join(pairs, ","), nil
}

func runThorough(id, repo, verif, outDir string) int {
	self, err := os.Executable()
	if err != nil {
		fmt.Println("BROKEN: property=" + id + " thorough: cannot locate own executable: " + err.Error())
		return 2
	}
	tmp, err := os.MkdirTemp("", "polyverif-thorough-")
	if err != nil {
		fmt.Println("BROKEN: property=" + id + " thorough: " + err.Error())
		return 2
	}
	defer os.RemoveAll(tmp)
	exit := 0
	var results []subResult
	// all sub-runs are independent: run them on a worker pool first, report in order afterwards
	{
		jobs := [][]string{{"-goos", "darwin", "-goarch", "arm64"}, {"-goos", "windows", "-goarch", "amd64"}}
		for _, b := range append(breakersFor(id, verif), neutralsFor(id, verif)...) {
			if ov, err := overlayFor(b, repo, tmp); err == nil {
				jobs = append(jobs, []string{"-overlay", ov})
			}
		}
		prefetch(self, id, repo, verif, tmp, jobs)
	}
	// 1. other build contexts
	for _, ctx := range [][2]string{{"darwin", "arm64"}, {"windows", "amd64"}} {
		r := runSub(self, id, repo, verif, tmp, "-goos", ctx[0], "-goarch", ctx[1])
		r.Name, r.Kind = ctx[0]+"/"+ctx[1], "context"
		results = append(results, r)
		switch r.Exit {
		case 0:
			fmt.Printf("thorough %s: build context %s: %d obligations, 0 new violations (%.1fs)\n", id, r.Name, r.Obligations, r.WallS)
		case 1:
			// keep the violation report
			src := filepath.Join(subOut(tmp, []string{"-goos", ctx[0], "-goarch", ctx[1]}), "evidence", id+".violation.json")
			dst := filepath.Join(outDir, "evidence", id+"."+ctx[0]+"-"+ctx[1]+".violation.json")
			if b, e := os.ReadFile(src); e == nil {
				os.WriteFile(dst, b, 0o644)
			}
			fmt.Printf("thorough %s: build context %s: %d new violation(s): %s\n", id, r.Name, r.Violations, strings.Join(r.Rules, ", "))
			fmt.Printf("VIOLATION property=%s replay=%s\n", id, dst)
			exit = 1
		default:
			fmt.Printf("BROKEN: property=%s thorough: build context %s could not be analysed: %s\n", id, r.Name, r.Note)
			if exit == 0 {
				exit = 2
			}
		}
	}
	// 2. breakers
	tried, detected, skipped := 0, 0, 0
	for _, b := range breakersFor(id, verif) {
		ov, err := overlayFor(b, repo, tmp)
		if err != nil {
			skipped++
			results = append(results, subResult{Name: b.name, Kind: b.kind, Exit: -1, Note: err.Error()})
			fmt.Printf("thorough %s: breaker %s (%s) skipped: %v\n", id, b.name, b.kind, err)
			continue
		}
		tried++
		r := runSub(self, id, repo, verif, tmp, "-overlay", ov)
		r.Name, r.Kind = b.name, b.kind
		results = append(results, r)
		if r.Exit == 1 && r.Violations > 0 {
			detected++
			fmt.Printf("thorough %s: breaker %s (%s) detected by %s (%.1fs)\n", id, b.name, b.kind, strings.Join(r.Rules, ", "), r.WallS)
		} else {
			fmt.Printf("BROKEN: property=%s thorough: breaker %s (%s) is NOT detected any more (exit %d %s)\n", id, b.name, b.kind, r.Exit, r.Note)
			if exit == 0 {
				exit = 2
			}
		}
	}
	// 2b. behaviour-preserving refactorings: the check must stay silent
	nTried, nSilent := 0, 0
	for _, b := range neutralsFor(id, verif) {
		ov, err := overlayFor(b, repo, tmp)
		if err != nil {
			results = append(results, subResult{Name: b.name, Kind: b.kind, Exit: -1, Note: err.Error()})
			fmt.Printf("thorough %s: refactoring %s skipped: %v\n", id, b.name, err)
			continue
		}
		nTried++
		r := runSub(self, id, repo, verif, tmp, "-overlay", ov)
		r.Name, r.Kind = b.name, b.kind
		results = append(results, r)
		if r.Exit == 0 {
			nSilent++
			fmt.Printf("thorough %s: refactoring %s: silent, %d obligations (%.1fs)\n", id, b.name, r.Obligations, r.WallS)
		} else {
			fmt.Printf("BROKEN: property=%s thorough: behaviour-preserving refactoring %s makes the check answer exit %d (%s): a false alarm of the machinery\n", id, b.name, r.Exit, strings.Join(r.Rules, ", "))
			if exit == 0 {
				exit = 2
			}
		}
	}
	// 3. record in the evidence file
	evp := filepath.Join(outDir, "evidence", id+".json")
	if b, err := os.ReadFile(evp); err == nil {
		var ev map[string]interface{}
		if json.Unmarshal(b, &ev) == nil {
			cov, _ := ev["coverage"].(map[string]interface{})
			if cov == nil {
				cov = map[string]interface{}{}
			}
			cov["thorough_build_contexts"] = []string{"linux/amd64 (primary)", "darwin/arm64", "windows/amd64"}
			cov["thorough_breakers_tried"] = tried
			cov["thorough_breakers_detected"] = detected
			cov["thorough_breakers_skipped"] = skipped
			cov["thorough_refactorings_tried"] = nTried
			cov["thorough_refactorings_silent"] = nSilent
			cov["thorough_runs"] = results
			cov["thorough_rule"] = "each archived breaking change and each reverted repair of this property is applied through a loader overlay (in memory; /repo untouched) and must make the check report a new violation; each archived behaviour-preserving refactoring written for this property (neutral/<name>/patch.diff) is applied the same way and must leave the check silent; the check is also repeated under two other GOOS/GOARCH contexts"
			ev["coverage"] = cov
			if nb, err := json.MarshalIndent(ev, "", " "); err == nil {
				os.WriteFile(evp, nb, 0o644)
			}
		}
	}
	return exit
}
