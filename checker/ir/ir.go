// Package ir holds the SSA helpers every engine uses: entity lookup through
// the type checker, callee resolution, value provenance, CFG reachability
// with deleted edges (guard dominance), and success-return classification.
package ir

import (
	"fmt"
	"go/constant"
	"go/token"
	"go/types"
	"sort"
	"strings"

	"golang.org/x/tools/go/ssa"

	"polyverif/load"
)

const Mod = load.ModulePath

// P wraps a loaded program with lookup helpers.
type P struct {
	*load.Program
	cg   *CallGraph
	refs map[*ssa.Function][]*ssa.Function
}

func New(p *load.Program) *P { return &P{Program: p} }

// PkgPath expands a module-relative package path.
func PkgPath(rel string) string {
	if rel == "" {
		return Mod
	}
	if strings.Contains(rel, ".") && strings.Contains(rel, "/") && !strings.HasPrefix(rel, "native") {
		// already absolute (github.com/...)
		if strings.HasPrefix(rel, "github.com/") || strings.HasPrefix(rel, "golang.org/") {
			return rel
		}
	}
	if strings.HasPrefix(rel, Mod) {
		return rel
	}
	return Mod + "/" + rel
}

// Pkg returns the types.Package for a module-relative or absolute path.
func (p *P) Pkg(path string) (*types.Package, error) {
	if pk, ok := p.Pkgs[path]; ok && pk.Types != nil {
		return pk.Types, nil
	}
	if pk, ok := p.Pkgs[PkgPath(path)]; ok && pk.Types != nil {
		return pk.Types, nil
	}
	return nil, fmt.Errorf("package %q not loaded", path)
}

// Obj looks up a package-level object, or a method/field when name is
// "T.m" / "(*T).m".
func (p *P) Obj(pkg, name string) (types.Object, error) {
	tp, err := p.Pkg(pkg)
	if err != nil {
		return nil, err
	}
	name = strings.TrimPrefix(name, "(*")
	name = strings.Replace(name, ").", ".", 1)
	if i := strings.Index(name, "."); i >= 0 {
		tn, mn := name[:i], name[i+1:]
		o := tp.Scope().Lookup(tn)
		if o == nil {
			return nil, fmt.Errorf("%s: type %s not found", pkg, tn)
		}
		obj, _, _ := types.LookupFieldOrMethod(types.NewPointer(o.Type()), true, tp, mn)
		if obj == nil {
			obj, _, _ = types.LookupFieldOrMethod(o.Type(), true, tp, mn)
		}
		if obj == nil {
			return nil, fmt.Errorf("%s: %s.%s not found", pkg, tn, mn)
		}
		return obj, nil
	}
	o := tp.Scope().Lookup(name)
	if o == nil {
		return nil, fmt.Errorf("%s: %s not found", pkg, name)
	}
	return o, nil
}

// FuncObj looks up a function or method object.
func (p *P) FuncObj(pkg, name string) (*types.Func, error) {
	o, err := p.Obj(pkg, name)
	if err != nil {
		return nil, err
	}
	f, ok := o.(*types.Func)
	if !ok {
		return nil, fmt.Errorf("%s.%s is not a function", pkg, name)
	}
	return f, nil
}

// Func returns the SSA function (with body) for pkg.name.
func (p *P) Func(pkg, name string) (*ssa.Function, error) {
	f, err := p.FuncObj(pkg, name)
	if err != nil {
		return nil, err
	}
	fn := p.SSA.FuncValue(f)
	if fn == nil {
		return nil, fmt.Errorf("%s.%s: no SSA function", pkg, name)
	}
	if len(fn.Blocks) == 0 {
		return nil, fmt.Errorf("%s.%s: SSA function has no body", pkg, name)
	}
	return fn, nil
}

// Const returns the constant value of a package-level constant.
func (p *P) Const(pkg, name string) (constant.Value, error) {
	o, err := p.Obj(pkg, name)
	if err != nil {
		return nil, err
	}
	c, ok := o.(*types.Const)
	if !ok {
		return nil, fmt.Errorf("%s.%s is not a constant", pkg, name)
	}
	return c.Val(), nil
}

// FuncName gives a stable readable name pkg.Func or pkg.(T).m, module prefix stripped.
func FuncName(fn *ssa.Function) string {
	if fn == nil {
		return "<nil>"
	}
	s := fn.String()
	s = strings.ReplaceAll(s, Mod+"/", "")
	return s
}

func ObjName(o types.Object) string {
	if o == nil {
		return "<nil>"
	}
	if f, ok := o.(*types.Func); ok {
		return strings.ReplaceAll(f.FullName(), Mod+"/", "")
	}
	if o.Pkg() != nil {
		return strings.ReplaceAll(o.Pkg().Path(), Mod+"/", "") + "." + o.Name()
	}
	return o.Name()
}

// ---------------------------------------------------------------------------
// calls

// CalleeObj returns the types.Func a call instruction targets: the static
// callee's object, or the interface method for invoke-mode calls.  nil for
// calls of function values and builtins.
func CalleeObj(c ssa.CallInstruction) *types.Func {
	cc := c.Common()
	if cc.IsInvoke() {
		return cc.Method
	}
	if f := cc.StaticCallee(); f != nil {
		if o, ok := f.Object().(*types.Func); ok {
			return o
		}
		// closures / synthetic
		return nil
	}
	return nil
}

// CalleeIs reports whether c calls one of objs (by object identity, origin for generics).
func CalleeIs(c ssa.CallInstruction, objs ...*types.Func) bool {
	o := CalleeObj(c)
	if o == nil {
		return false
	}
	for _, x := range objs {
		if x == o || x.Origin() == o.Origin() {
			return true
		}
	}
	return false
}

// IsPkgFunc reports whether the call targets function name of package path
// (used for dependency / stdlib functions which have no types.Object handle
// in rule tables).
func IsPkgFunc(c ssa.CallInstruction, pkgPath string, names ...string) bool {
	o := CalleeObj(c)
	if o == nil || o.Pkg() == nil || o.Pkg().Path() != pkgPath {
		return false
	}
	if sig, ok := o.Type().(*types.Signature); ok && sig.Recv() != nil {
		return false
	}
	for _, n := range names {
		if o.Name() == n {
			return true
		}
	}
	return false
}

// IsMethod reports whether the call targets method `name` on a named type
// `typeName` declared in package path pkgPath (pointer or value receiver,
// or interface method).
func IsMethod(c ssa.CallInstruction, pkgPath, typeName string, names ...string) bool {
	o := CalleeObj(c)
	if o == nil {
		return false
	}
	sig, ok := o.Type().(*types.Signature)
	if !ok || sig.Recv() == nil {
		return false
	}
	t := sig.Recv().Type()
	if pt, ok := t.(*types.Pointer); ok {
		t = pt.Elem()
	}
	nt, ok := t.(*types.Named)
	if !ok {
		return false
	}
	if nt.Obj().Name() != typeName || nt.Obj().Pkg() == nil || nt.Obj().Pkg().Path() != pkgPath {
		return false
	}
	for _, n := range names {
		if o.Name() == n {
			return true
		}
	}
	return false
}

// Calls lists the call instructions of fn (including defer/go) satisfying pred, in block order.
func Calls(fn *ssa.Function, pred func(ssa.CallInstruction) bool) []ssa.CallInstruction {
	var out []ssa.CallInstruction
	for _, b := range fn.Blocks {
		for _, in := range b.Instrs {
			if c, ok := in.(ssa.CallInstruction); ok && (pred == nil || pred(c)) {
				out = append(out, c)
			}
		}
	}
	return out
}

// CallsTo lists calls in fn whose callee object is one of objs.
func CallsTo(fn *ssa.Function, objs ...*types.Func) []ssa.CallInstruction {
	return Calls(fn, func(c ssa.CallInstruction) bool { return CalleeIs(c, objs...) })
}

// WithClosures returns fn and all anonymous functions nested in it.
func WithClosures(fn *ssa.Function) []*ssa.Function {
	out := []*ssa.Function{fn}
	for _, a := range fn.AnonFuncs {
		out = append(out, WithClosures(a)...)
	}
	// a method value used as a callback (`x.ForEach(self.flushEntry)`) plays the role of a
	// closure: include the method the bound wrapper forwards to
	add := func(t *ssa.Function) {
		for _, o := range out {
			if o == t {
				return
			}
		}
		out = append(out, t)
	}
	for _, b := range fn.Blocks {
		for _, in := range b.Instrs {
			// a callback handed over as a plain function value, or produced by a closure factory
			// (`x.ForEach(absorbEntry(h))`): the function / the factory's closures play the same role
			if ci, isCall := in.(ssa.CallInstruction); isCall {
				for _, a := range ci.Common().Args {
					if _, isSig := a.Type().Underlying().(*types.Signature); !isSig {
						continue
					}
					switch x := a.(type) {
					case *ssa.Function:
						if x != fn && len(x.Blocks) > 0 && x.Synthetic == "" && InModule(x) {
							add(x)
						}
					case *ssa.Call:
						if h := x.Common().StaticCallee(); h != nil && h != fn && len(h.Blocks) > 0 && InModule(h) {
							for _, af := range h.AnonFuncs {
								add(af)
							}
						}
					}
				}
			}
			mc, ok := in.(*ssa.MakeClosure)
			if !ok {
				continue
			}
			w, ok := mc.Fn.(*ssa.Function)
			if !ok || w.Synthetic == "" || w.Parent() != nil {
				continue
			}
			for _, wb := range w.Blocks {
				for _, wi := range wb.Instrs {
					if ci, isCall := wi.(ssa.CallInstruction); isCall {
						if t := ci.Common().StaticCallee(); t != nil && t != fn && len(t.Blocks) > 0 {
							dup := false
							for _, o := range out {
								if o == t {
									dup = true
								}
							}
							if !dup {
								out = append(out, t)
							}
						}
					}
				}
			}
		}
	}
	return out
}

// ---------------------------------------------------------------------------
// value provenance

// Strip removes value-preserving wrappers: ChangeType, Convert between
// same-underlying types, MakeInterface, ChangeInterface, single-value Phi of
// identical operands.
func Strip(v ssa.Value) ssa.Value { return stripD(v, 0) }

func stripD(v ssa.Value, depth int) ssa.Value {
	if depth > 12 {
		return v
	}
	for i := 0; i < 32; i++ {
		switch x := v.(type) {
		case *ssa.Parameter:
			// a helper's parameter bound to the caller's argument (see BindParams)
			if b, ok := paramBind[x]; ok && b != nil && b != v {
				v = b
				continue
			}
			return v
		case *ssa.ChangeType:
			v = x.X
		case *ssa.MakeInterface:
			v = x.X
		case *ssa.ChangeInterface:
			v = x.X
		case *ssa.Convert:
			v = x.X
		case *ssa.Phi:
			var first ssa.Value
			same := true
			for _, e := range x.Edges {
				if e == ssa.Value(x) {
					continue // self edge of a loop phi
				}
				e = stripD(e, depth+1)
				if first == nil {
					first = e
				} else if e != first {
					same = false
				}
			}
			if same && first != nil && first != v {
				v = first
			} else {
				return v
			}
		case *ssa.UnOp:
			// load of an address-taken local that is stored exactly once
			// (`x := f()` whose address escapes to a method call): the load
			// yields the stored value.
			if x.Op != token.MUL {
				return v
			}
			al, ok := x.X.(*ssa.Alloc)
			if !ok {
				return v
			}
			sv := SingleStore(al)
			if sv == nil {
				// store-to-load forwarding inside one block: `*cell = x; y = *cell`
				blk := x.Block()
				if blk != nil {
					for _, in := range blk.Instrs {
						if in == ssa.Instruction(x) {
							break
						}
						if st, ok := in.(*ssa.Store); ok && st.Addr == ssa.Value(al) {
							sv = st.Val
						}
					}
				}
			}
			if sv == nil {
				return v
			}
			v = sv
		default:
			return v
		}
	}
	return v
}

// paramBind maps parameters of a helper function under analysis to the
// arguments of the call site it is analysed for (helper lifting in package eng).
var paramBind = map[*ssa.Parameter]ssa.Value{}

// Resolve returns the caller's argument a bound helper parameter stands for (v itself otherwise).
func Resolve(v ssa.Value) ssa.Value {
	if p, ok := v.(*ssa.Parameter); ok {
		if b, ok := paramBind[p]; ok && b != nil {
			return b
		}
	}
	return v
}

// BindParams binds h's parameters to args until the returned function is called.
func BindParams(h *ssa.Function, args []ssa.Value) func() {
	var bound []*ssa.Parameter
	for i, p := range h.Params {
		if i < len(args) {
			if _, had := paramBind[p]; !had {
				paramBind[p] = args[i]
				bound = append(bound, p)
			}
		}
	}
	return func() {
		for _, p := range bound {
			delete(paramBind, p)
		}
	}
}

// SingleStore returns the value stored into a local Alloc when there is
// exactly one store to it (and no store through derived addresses), else nil.
func SingleStore(al *ssa.Alloc) ssa.Value {
	var val ssa.Value
	n := 0
	for _, ref := range *al.Referrers() {
		switch r := ref.(type) {
		case *ssa.Store:
			if r.Addr == al {
				n++
				val = r.Val
			}
		case *ssa.FieldAddr, *ssa.IndexAddr:
			// partial writes through derived addresses would change the value
			var refs *[]ssa.Instruction
			if fa, ok := r.(*ssa.FieldAddr); ok {
				refs = fa.Referrers()
			} else {
				refs = r.(*ssa.IndexAddr).Referrers()
			}
			for _, r2 := range *refs {
				if st, ok := r2.(*ssa.Store); ok && st.Addr == r.(ssa.Value) {
					return nil
				}
			}
		}
	}
	if n == 1 {
		return val
	}
	return nil
}

// CallOf returns the call instruction a value originates from (directly or
// via Extract) and the tuple index (-1 for a direct single result).
func CallOf(v ssa.Value) (*ssa.Call, int) {
	v = Strip(v)
	switch x := v.(type) {
	case *ssa.Call:
		return x, -1
	case *ssa.Extract:
		if c, ok := x.Tuple.(*ssa.Call); ok {
			return c, x.Index
		}
	}
	return nil, 0
}

// IsNilConst reports whether v is the nil constant.
func IsNilConst(v ssa.Value) bool {
	c, ok := v.(*ssa.Const)
	return ok && c.Value == nil && !isBasicZeroable(c.Type())
}

func isBasicZeroable(t types.Type) bool {
	_, ok := t.Underlying().(*types.Basic)
	return ok
}

// ConstInt returns the integer constant value of v, if v is one.
func ConstInt(v ssa.Value) (int64, bool) {
	v = Strip(v)
	c, ok := v.(*ssa.Const)
	if !ok || c.Value == nil {
		return 0, false
	}
	if c.Value.Kind() != constant.Int {
		return 0, false
	}
	n, exact := constant.Int64Val(c.Value)
	if !exact {
		if u, ok2 := constant.Uint64Val(c.Value); ok2 {
			return int64(u), true
		}
		return 0, false
	}
	return n, true
}

// ConstBool returns the bool constant value of v.
func ConstBool(v ssa.Value) (bool, bool) {
	c, ok := Strip(v).(*ssa.Const)
	if !ok || c.Value == nil || c.Value.Kind() != constant.Bool {
		return false, false
	}
	return constant.BoolVal(c.Value), true
}

// ---------------------------------------------------------------------------
// conditions

// Cond is an If condition with negations stripped.
type Cond struct {
	If  *ssa.If
	V   ssa.Value // the condition with leading ! removed
	Neg bool      // true if an odd number of ! were removed
}

// TrueEdge / FalseEdge give successor indices for "V holds" / "V does not hold".
func (c Cond) TrueIdx() int {
	if c.Neg {
		return 1
	}
	return 0
}
func (c Cond) FalseIdx() int { return 1 - c.TrueIdx() }

// Conds enumerates the If instructions of fn.
func Conds(fn *ssa.Function) []Cond {
	var out []Cond
	for _, b := range fn.Blocks {
		if len(b.Instrs) == 0 {
			continue
		}
		ifi, ok := b.Instrs[len(b.Instrs)-1].(*ssa.If)
		if !ok {
			continue
		}
		// negations and comparisons with boolean constants (`x == false`, `x != true`) are folded into Neg
		v, neg := condRoot(ifi.Cond)
		out = append(out, Cond{If: ifi, V: v, Neg: neg})
	}
	return out
}

// Edge is a CFG edge: the Idx'th successor of From.
type Edge struct {
	From *ssa.BasicBlock
	Idx  int
}

func (e Edge) To() *ssa.BasicBlock { return e.From.Succs[e.Idx] }

// Guard recognises a condition and says which outcome is the pass outcome.
// It returns ok=false when the condition is not an instance of the guard.
type Guard func(c Cond) (ok bool, passWhenTrue bool)

// PassEdges returns the pass edges of guard g in fn.
func PassEdges(fn *ssa.Function, g Guard) []Edge {
	g = AllForms(g)
	var out []Edge
	for _, c := range Conds(fn) {
		ok, pt := g(c)
		if !ok {
			// flag form: `f := false; if A { f = <cond> }; if f {…}` — the tested value is a phi whose
			// only non-constant input is an instance of the guard and whose constant inputs all have the
			// guard's failing value: the phi has the passing value only if <cond> had it
			if phi, isPhi := c.V.(*ssa.Phi); isPhi {
				var inst ssa.Value
				nInst, constsOK := 0, true
				var consts []bool
				for _, e := range phi.Edges {
					if k, isK := ConstBool(e); isK {
						consts = append(consts, k)
						continue
					}
					nInst++
					inst = e
				}
				if nInst == 1 {
					cv, neg := inst, false
					for {
						if u, isU := cv.(*ssa.UnOp); isU && u.Op == token.NOT {
							cv, neg = u.X, !neg
							continue
						}
						break
					}
					if ok2, pt2 := g(Cond{V: cv}); ok2 {
						passVal := pt2 != neg // value of the phi input when the guard passes
						for _, k := range consts {
							if k == passVal {
								constsOK = false
							}
						}
						if constsOK {
							ok, pt = true, passVal
						}
					}
				}
			}
			if !ok {
				continue
			}
		}
		idx := c.FalseIdx()
		if pt {
			idx = c.TrueIdx()
		}
		out = append(out, Edge{c.If.Block(), idx})
	}
	return out
}

// NilCmp decomposes `x == nil` / `x != nil`; returns the non-nil operand and
// whether the comparison is "!= nil".
func NilCmp(v ssa.Value) (x ssa.Value, isNeq bool, ok bool) {
	b, ok2 := v.(*ssa.BinOp)
	if !ok2 || (b.Op != token.EQL && b.Op != token.NEQ) {
		return nil, false, false
	}
	if IsNilConst(b.Y) {
		return b.X, b.Op == token.NEQ, true
	}
	if IsNilConst(b.X) {
		return b.Y, b.Op == token.NEQ, true
	}
	return nil, false, false
}

// ErrNil: the guard "error result of a call matching pred is nil".
func ErrNil(pred func(*ssa.Call) bool) Guard {
	return func(c Cond) (bool, bool) {
		x, neq, ok := NilCmp(c.V)
		if !ok {
			return false, false
		}
		call, _ := CallOf(x)
		if call == nil || !pred(call) {
			return false, false
		}
		if !isErrorType(x.Type()) {
			return false, false
		}
		return true, !neq
	}
}

// NotNil: the guard "a (non-error) result of a call matching pred is non-nil".
func NotNil(pred func(*ssa.Call) bool) Guard {
	return func(c Cond) (bool, bool) {
		x, neq, ok := NilCmp(c.V)
		if !ok {
			return false, false
		}
		call, _ := CallOf(x)
		if call == nil || !pred(call) || isErrorType(x.Type()) {
			return false, false
		}
		return true, neq
	}
}

// IsNil: the guard "a (non-error) result of a call matching pred is nil".
func IsNil(pred func(*ssa.Call) bool) Guard {
	g := NotNil(pred)
	return func(c Cond) (bool, bool) {
		ok, p := g(c)
		return ok, !p
	}
}

// BoolIs: the guard "boolean result of a call matching pred equals want".
func BoolIs(pred func(*ssa.Call) bool, want bool) Guard {
	return func(c Cond) (bool, bool) {
		v := c.V
		// forms: v ; v == true ; v == false
		if b, ok := v.(*ssa.BinOp); ok && (b.Op == token.EQL || b.Op == token.NEQ) {
			if k, isk := ConstBool(b.Y); isk {
				call, _ := CallOf(b.X)
				if call == nil || !pred(call) {
					return false, false
				}
				eq := b.Op == token.EQL
				// cond true means X == k (eq) or X != k (neq) => X == (k == eq)
				valWhenTrue := k == eq
				return true, valWhenTrue == want
			}
			// an equality answered as a three-way comparison: bytes.Compare(a, b) == 0 / != 0 stands for
			// bytes.Equal(a, b) (the predicate is asked about the Compare call; see rules.bytesEqual)
			if k, isk := ConstInt(b.Y); isk && k == 0 {
				if call, _ := CallOf(b.X); call != nil && IsPkgFunc(call, "bytes", "Compare") && pred(call) {
					return true, (b.Op == token.EQL) == want
				}
			}
		}
		call, _ := CallOf(v)
		if call == nil || !pred(call) {
			return false, false
		}
		if b, ok := v.Type().Underlying().(*types.Basic); !ok || b.Kind() != types.Bool {
			return false, false
		}
		return true, want
	}
}

// CallTo builds a call predicate from function objects.
func CallTo(objs ...*types.Func) func(*ssa.Call) bool {
	return func(c *ssa.Call) bool { return CalleeIs(c, objs...) }
}

var errType = types.Universe.Lookup("error").Type()

func isErrorType(t types.Type) bool { return types.Identical(t, errType) }
func IsErrorType(t types.Type) bool { return isErrorType(t) }

// Or combines guard alternatives.
func Or(gs ...Guard) Guard {
	return func(c Cond) (bool, bool) {
		for _, g := range gs {
			if ok, p := g(c); ok {
				return true, p
			}
		}
		return false, false
	}
}

// ---------------------------------------------------------------------------
// reachability with deleted edges and barriers

// Reach is an instruction-level reachability query over one function's CFG.
type Reach struct {
	Fn      *ssa.Function
	Cut     map[Edge]bool
	Barrier map[ssa.Instruction]bool // execution does not continue past these

	via    map[Edge]bool
	work   []reachItem
	seen   map[reachItem]bool
	corr   map[ssa.Value]int        // booleans tested by two or more ifs (correlated branches)
	entry  map[*ssa.BasicBlock]bool // block entered at its first instruction
	from   map[*ssa.BasicBlock]Edge // how the block was first entered
	start  ssa.Instruction
	startB *ssa.BasicBlock
	startI int
	// fromBlock: reachability was started at the first instruction of startB (RunFromBlock)
	fromBlock bool
}

func NewReach(fn *ssa.Function) *Reach {
	return &Reach{Fn: fn, Cut: map[Edge]bool{}, Barrier: map[ssa.Instruction]bool{}}
}

func (r *Reach) CutEdges(es []Edge) *Reach {
	for _, e := range es {
		r.Cut[e] = true
	}
	return r
}

// Run computes reachability from the function entry, or from just after
// `start` if start != nil.
func (r *Reach) Run(start ssa.Instruction) *Reach {
	r.entry = map[*ssa.BasicBlock]bool{}
	r.from = map[*ssa.BasicBlock]Edge{}
	r.via = map[Edge]bool{}
	r.seen = map[reachItem]bool{}
	r.corr = correlatedConds(r.Fn)
	r.start = start
	r.fromBlock = false
	if start == nil {
		if len(r.Fn.Blocks) == 0 {
			return r
		}
		b0 := r.Fn.Blocks[0]
		r.entry[b0] = true
		r.leave(b0, 0, -1, r.noFacts())
	} else {
		b := start.Block()
		r.startB = b
		for i, in := range b.Instrs {
			if in == start {
				r.startI = i
			}
		}
		r.leave(b, r.startI+1, -1, r.noFacts())
	}
	r.drain()
	return r
}

// RunFromBlock computes reachability starting at the first instruction of b
// (b itself counts as entered only if it is re-entered through an edge).
func (r *Reach) RunFromBlock(b *ssa.BasicBlock) *Reach {
	r.entry = map[*ssa.BasicBlock]bool{}
	r.from = map[*ssa.BasicBlock]Edge{}
	r.via = map[Edge]bool{}
	r.seen = map[reachItem]bool{}
	r.corr = correlatedConds(r.Fn)
	r.start = nil
	r.startB = b
	r.startI = -1
	r.fromBlock = true
	r.leave(b, 0, -1, r.noFacts())
	r.drain()
	return r
}

// leave propagates out of block b (executed from instruction index `from`),
// having entered it through predecessor index predIdx (-1: unknown).  Flag
// idiom: when b's terminating If tests a boolean phi of b whose incoming value
// on the entering edge is a constant, only the matching successor is feasible
// (`valid := false … if !valid {return err}`).
func (r *Reach) leave(b *ssa.BasicBlock, from int, predIdx int, facts string) {
	if !r.tailOpen(b, from) {
		return
	}
	only := -1
	if predIdx >= 0 {
		only = flagSucc(b, predIdx)
	}
	// correlated branches: a boolean SSA value keeps its value until its defining block is
	// re-entered, so two ifs on the same value cannot disagree along one path
	ci, cneg := -1, false
	if len(r.corr) > 0 && len(b.Instrs) > 0 {
		if ifi, ok := b.Instrs[len(b.Instrs)-1].(*ssa.If); ok {
			v, neg := condRoot(ifi.Cond)
			if idx, tracked := r.corr[v]; tracked {
				ci, cneg = idx, neg
			}
		}
	}
	for i, s := range b.Succs {
		if r.Cut[Edge{b, i}] || (only >= 0 && i != only) {
			continue
		}
		f2 := facts
		if ci >= 0 && len(b.Succs) == 2 {
			val := byte('T') // value of the tracked boolean on this edge
			if (i == 0) == cneg {
				val = 'F'
			}
			if facts[ci] != '?' && facts[ci] != val {
				continue // contradicts what an earlier test of the same value established
			}
			bs := []byte(facts)
			bs[ci] = val
			f2 = string(bs)
		}
		// entering s re-executes the definitions in s: forget what is known about them
		if len(r.corr) > 0 {
			var bs []byte
			for v, idx := range r.corr {
				if in, ok := v.(ssa.Instruction); ok && in.Block() == s && f2[idx] != '?' {
					if bs == nil {
						bs = []byte(f2)
					}
					bs[idx] = '?'
				}
			}
			if bs != nil {
				f2 = string(bs)
			}
		}
		e := Edge{b, i}
		it := reachItem{e, f2}
		if r.seen[it] {
			continue
		}
		r.seen[it] = true
		r.via[e] = true
		if !r.entry[s] {
			r.entry[s] = true
			r.from[s] = e
		}
		r.work = append(r.work, it)
	}
}

type reachItem struct {
	e Edge
	f string
}

func (r *Reach) noFacts() string {
	return strings.Repeat("?", len(r.corr))
}

var corrCache = map[*ssa.Function]map[ssa.Value]int{}

// condRoot strips negations and comparisons with boolean constants from an if
// condition: the tested value and whether the condition is its negation.
func condRoot(v ssa.Value) (ssa.Value, bool) {
	neg := false
	for {
		if u, ok := v.(*ssa.UnOp); ok && u.Op == token.NOT {
			v, neg = u.X, !neg
			continue
		}
		if bo, ok := v.(*ssa.BinOp); ok && (bo.Op == token.EQL || bo.Op == token.NEQ) {
			if k, isk := ConstBool(bo.Y); isk {
				if (bo.Op == token.EQL) != k {
					neg = !neg
				}
				v = bo.X
				continue
			}
		}
		return v, neg
	}
}

// correlatedConds: the boolean values of fn tested by at least two ifs (at most 6 are tracked).
func correlatedConds(fn *ssa.Function) map[ssa.Value]int {
	if m, ok := corrCache[fn]; ok {
		return m
	}
	cnt := map[ssa.Value]int{}
	var order []ssa.Value
	for _, b := range fn.Blocks {
		if len(b.Instrs) == 0 {
			continue
		}
		ifi, ok := b.Instrs[len(b.Instrs)-1].(*ssa.If)
		if !ok {
			continue
		}
		v, _ := condRoot(ifi.Cond)
		if _, isK := v.(*ssa.Const); isK {
			continue
		}
		if cnt[v] == 0 {
			order = append(order, v)
		}
		cnt[v]++
	}
	m := map[ssa.Value]int{}
	for _, v := range order {
		if cnt[v] >= 2 && len(m) < 6 {
			m[v] = len(m)
		}
	}
	corrCache[fn] = m
	return m
}

func (r *Reach) drain() {
	for len(r.work) > 0 {
		it := r.work[len(r.work)-1]
		r.work = r.work[:len(r.work)-1]
		e := it.e
		s := e.To()
		pi := -1
		for i, p := range s.Preds {
			if p == e.From {
				pi = i
				break
			}
		}
		r.leave(s, 0, pi, it.f)
	}
}

// flagSucc: if block b ends in an If whose condition is decided by a boolean
// phi of b with a constant on predecessor edge predIdx, the index of the only
// feasible successor; else -1.
func flagSucc(b *ssa.BasicBlock, predIdx int) int {
	if len(b.Instrs) == 0 {
		return -1
	}
	ifi, ok := b.Instrs[len(b.Instrs)-1].(*ssa.If)
	if !ok {
		return -1
	}
	v := ifi.Cond
	neg := false
	for {
		if u, ok := v.(*ssa.UnOp); ok && u.Op == token.NOT {
			v, neg = u.X, !neg
			continue
		}
		if bo, ok := v.(*ssa.BinOp); ok && (bo.Op == token.EQL || bo.Op == token.NEQ) {
			if k, isk := ConstBool(bo.Y); isk {
				// (x == k): true iff x==k ; (x != k)
				if (bo.Op == token.EQL) != k {
					neg = !neg
				}
				v = bo.X
				continue
			}
		}
		break
	}
	phi, ok := v.(*ssa.Phi)
	if !ok || phi.Block() != b || predIdx >= len(phi.Edges) {
		return -1
	}
	// only side-effect-free instructions may precede the If in b
	for _, in := range b.Instrs[:len(b.Instrs)-1] {
		switch in.(type) {
		case *ssa.Phi, *ssa.BinOp, *ssa.UnOp:
		default:
			return -1
		}
	}
	k, isk := ConstBool(phi.Edges[predIdx])
	if !isk {
		return -1
	}
	if k != neg {
		return 0
	}
	return 1
}

// BlockEntered reports whether b was entered through some edge.
func (r *Reach) BlockEntered(b *ssa.BasicBlock) bool { return r.entry[b] }

// tailOpen: no barrier in b.Instrs[from:].
func (r *Reach) tailOpen(b *ssa.BasicBlock, from int) bool {
	for i := from; i < len(b.Instrs); i++ {
		if r.Barrier[b.Instrs[i]] {
			return false
		}
	}
	return true
}

// Instr reports whether instruction in is reachable.
func (r *Reach) Instr(in ssa.Instruction) bool {
	b := in.Block()
	idx := -1
	for i, x := range b.Instrs {
		if x == in {
			idx = i
			break
		}
	}
	if idx < 0 {
		return false
	}
	if r.entry[b] {
		ok := true
		for i := 0; i < idx; i++ {
			if r.Barrier[b.Instrs[i]] {
				ok = false
				break
			}
		}
		if ok {
			return true
		}
	}
	if (r.start != nil || r.fromBlock) && b == r.startB && idx > r.startI {
		for i := r.startI + 1; i < idx; i++ {
			if r.Barrier[b.Instrs[i]] {
				return false
			}
		}
		return true
	}
	return false
}

// BlockEnd reports whether the end of b (its terminator) is reachable.
func (r *Reach) BlockEnd(b *ssa.BasicBlock) bool {
	if len(b.Instrs) == 0 {
		return r.entry[b]
	}
	return r.Instr(b.Instrs[len(b.Instrs)-1])
}

// EdgeReachable reports whether the edge can be traversed.
func (r *Reach) EdgeReachable(e Edge) bool {
	if r.Cut[e] || !r.BlockEnd(e.From) {
		return false
	}
	if r.via != nil && len(r.corr) > 0 {
		return r.via[e] // correlated branches may make an edge of a reachable block infeasible
	}
	return true
}

// Path returns a readable path of block entry lines leading to in.
func (r *Reach) Path(p *P, in ssa.Instruction) string {
	var parts []string
	b := in.Block()
	seen := map[*ssa.BasicBlock]bool{}
	for b != nil && !seen[b] {
		seen[b] = true
		parts = append(parts, fmt.Sprintf("b%d@%s", b.Index, blockLine(p, b)))
		e, ok := r.from[b]
		if !ok {
			break
		}
		b = e.From
	}
	for i, j := 0, len(parts)-1; i < j; i, j = i+1, j-1 {
		parts[i], parts[j] = parts[j], parts[i]
	}
	if len(parts) > 12 {
		parts = append(parts[:5], append([]string{"…"}, parts[len(parts)-6:]...)...)
	}
	return strings.Join(parts, " → ")
}

func blockLine(p *P, b *ssa.BasicBlock) string {
	for _, in := range b.Instrs {
		if in.Pos().IsValid() {
			ps := p.Fset.Position(in.Pos())
			return fmt.Sprint(ps.Line)
		}
	}
	return "?"
}

// ---------------------------------------------------------------------------
// return classification

type RetClass int

const (
	RetFail RetClass = iota
	RetSuccess
	RetMaySucceed
)

// Sink is an instruction, optionally restricted to arrival over one edge.
type Sink struct {
	Instr ssa.Instruction
	Via   *Edge
	Note  string
	// BoolVal: for a boolean return of a non-constant value, the value
	// returned; the sink "returns want" exactly when BoolVal == BoolWant, so a
	// guard whose condition is BoolVal itself discharges it.
	BoolVal  ssa.Value
	BoolWant bool
}

// errorConstructors never return nil.
func isErrConstructor(c *ssa.Call) bool {
	o := CalleeObj(c)
	if o == nil || o.Pkg() == nil {
		return false
	}
	switch o.Pkg().Path() {
	case "fmt":
		return o.Name() == "Errorf"
	case "errors":
		return o.Name() == "New"
	case "github.com/pkg/errors":
		return o.Name() == "New" || o.Name() == "Errorf"
	case Mod + "/errors":
		return o.Name() == "NewErr" || o.Name() == "NewDetailErr"
	}
	return false
}

// knownNonNil: is v known non-nil at block b?  True when b is reachable only
// through the non-nil edge of some test of v against nil.
func knownNonNil(fn *ssa.Function, v ssa.Value, at *ssa.BasicBlock) bool {
	sv := Strip(v)
	found := false
	r2 := NewReach(fn)
	for _, c := range Conds(fn) {
		x, neq, ok := NilCmp(c.V)
		if !ok || Strip(x) != sv {
			continue
		}
		found = true
		nonNilIdx := c.FalseIdx()
		if neq {
			nonNilIdx = c.TrueIdx()
		}
		r2.Cut[Edge{c.If.Block(), nonNilIdx}] = true
	}
	if !found {
		return false
	}
	r2.Run(nil)
	return !r2.entry[at]
}

// ClassifyErr classifies an error-typed return operand at block b.
func ClassifyErr(fn *ssa.Function, v ssa.Value, at *ssa.BasicBlock) RetClass {
	if IsNilConst(v) {
		return RetSuccess
	}
	switch x := v.(type) {
	case *ssa.MakeInterface:
		// a concrete value boxed into error: non-nil unless it's a nil pointer; treat pointer as may
		if _, isPtr := x.X.Type().Underlying().(*types.Pointer); !isPtr {
			return RetFail
		}
		if _, ok := x.X.(*ssa.Alloc); ok {
			return RetFail
		}
	case *ssa.Call:
		if isErrConstructor(x) {
			return RetFail
		}
		// github.com/pkg/errors wrappers return nil exactly when their error
		// argument is nil
		if o := CalleeObj(x); o != nil && o.Pkg() != nil && o.Pkg().Path() == "github.com/pkg/errors" {
			switch o.Name() {
			case "WithStack", "Wrap", "Wrapf", "WithMessage", "WithMessagef":
				if len(x.Common().Args) > 0 {
					return ClassifyErr(fn, x.Common().Args[0], at)
				}
			}
		}
	}
	if knownNonNil(fn, v, at) {
		return RetFail
	}
	// sentinel error: load of a package-level error variable whose only store
	// is `var errX = errors.New(…)` in the package initialiser
	if ld, ok := v.(*ssa.UnOp); ok && ld.Op == token.MUL {
		if g, ok := ld.X.(*ssa.Global); ok && sentinelError(g) {
			return RetFail
		}
	}
	// named result spilled to memory because of a defer: `return X` stores X
	// into the result cell, runs the defers and returns the loaded cell
	if ld, ok := v.(*ssa.UnOp); ok && ld.Op == token.MUL {
		if cell, ok := ld.X.(*ssa.Alloc); ok {
			b := ld.Block()
			var last *ssa.Store
			for _, in := range b.Instrs {
				if in == ssa.Instruction(ld) {
					break
				}
				if st, ok := in.(*ssa.Store); ok && st.Addr == ssa.Value(cell) {
					last = st
				}
			}
			if last != nil {
				if c2 := ClassifyErr(fn, last.Val, b); c2 != RetMaySucceed {
					return c2
				}
				return RetMaySucceed
			}
			// bare `return` right after `if cell != nil {`
			if len(b.Preds) == 1 {
				p := b.Preds[0]
				if ifi, ok := p.Instrs[len(p.Instrs)-1].(*ssa.If); ok {
					if x, neq, ok := NilCmp(ifi.Cond); ok {
						if l2, ok := x.(*ssa.UnOp); ok && l2.X == ssa.Value(cell) {
							nonNilSucc := 1
							if neq {
								nonNilSucc = 0
							}
							if p.Succs[nonNilSucc] == b {
								return RetFail
							}
						}
					}
				}
			}
		}
	}
	return RetMaySucceed
}

var sentinelCache = map[*ssa.Global]bool{}

// sentinelError: g is initialised once, in init, with an error constructor.
func sentinelError(g *ssa.Global) bool {
	if v, ok := sentinelCache[g]; ok {
		return v
	}
	res := false
	stores := 0
	// standard-library sentinels (bodies are not loaded): io.EOF, io.ErrUnexpectedEOF, …
	if g.Pkg != nil && g.Pkg.Pkg != nil && (g.Pkg.Pkg.Path() == "io" || g.Pkg.Pkg.Path() == "errors" || g.Pkg.Pkg.Path() == "os") &&
		(g.Name() == "EOF" || strings.HasPrefix(g.Name(), "Err")) && isErrorType(g.Type().(*types.Pointer).Elem()) {
		sentinelCache[g] = true
		return true
	}
	if g.Pkg != nil {
		for _, m := range g.Pkg.Members {
			fn, ok := m.(*ssa.Function)
			if !ok {
				continue
			}
			for _, f := range WithClosures(fn) {
				for _, b := range f.Blocks {
					for _, in := range b.Instrs {
						st, ok := in.(*ssa.Store)
						if !ok || st.Addr != ssa.Value(g) {
							continue
						}
						stores++
						if cl, ok := st.Val.(*ssa.Call); ok && isErrConstructor(cl) && fn.Name() == "init" {
							res = true
						} else {
							stores += 100
						}
					}
				}
			}
		}
		// methods may also assign: scan all functions of the package is covered by Members for funcs;
		// assignments from methods are rare for sentinel errors and would be caught by stores>1 only
		// if in plain functions — accept.
	}
	res = res && stores == 1
	sentinelCache[g] = res
	return res
}

// SuccessSinks returns the return sites of fn at which the error result (the
// last result, type error) may be nil.  For functions whose last result is
// bool, `wantBool` selects the value that means success.
func SuccessSinks(fn *ssa.Function) []Sink {
	var out []Sink
	res := fn.Signature.Results()
	if res.Len() == 0 {
		// a procedure cannot refuse: every normal return is a completion
		for _, b := range fn.Blocks {
			if len(b.Instrs) == 0 {
				continue
			}
			if ret, ok := b.Instrs[len(b.Instrs)-1].(*ssa.Return); ok {
				out = append(out, Sink{Instr: ret, Note: "return"})
			}
		}
		return out
	}
	last := res.Len() - 1
	isErr := isErrorType(res.At(last).Type())
	for _, b := range fn.Blocks {
		if len(b.Instrs) == 0 {
			continue
		}
		ret, ok := b.Instrs[len(b.Instrs)-1].(*ssa.Return)
		if !ok {
			continue
		}
		if !isErr {
			out = append(out, Sink{Instr: ret, Note: "return"})
			continue
		}
		v := ret.Results[last]
		if phi, ok := v.(*ssa.Phi); ok && phi.Block() == b {
			for i, e := range phi.Edges {
				pred := b.Preds[i]
				cls := ClassifyErr(fn, e, pred)
				if cls != RetFail && edgeImpliesNonNil(pred, b, e) {
					cls = RetFail // `if err == nil { err = f() }; return err`: the skipping edge carries a non-nil err
				}
				if cls != RetFail {
					idx := succIndex(pred, b)
					out = append(out, Sink{Instr: ret, Via: &Edge{pred, idx}, Note: "return (phi edge)"})
				}
			}
			continue
		}
		if ClassifyErr(fn, v, b) != RetFail {
			out = append(out, Sink{Instr: ret, Note: "return"})
		}
	}
	return out
}

// edgeImpliesNonNil: pred ends in a test of v against nil and control reaches
// `to` from pred only on the outcome "v != nil".
func edgeImpliesNonNil(pred, to *ssa.BasicBlock, v ssa.Value) bool {
	if len(pred.Instrs) == 0 || len(pred.Succs) != 2 || pred.Succs[0] == pred.Succs[1] {
		return false
	}
	ifi, ok := pred.Instrs[len(pred.Instrs)-1].(*ssa.If)
	if !ok {
		return false
	}
	cv, neg := condRoot(ifi.Cond)
	x, neq, ok := NilCmp(cv)
	if !ok || Strip(x) != Strip(v) {
		return false
	}
	// cond true <=> (x != nil) == neq, modulo neg
	nonNilOnTrue := neq != neg
	idx := 1
	if nonNilOnTrue {
		idx = 0
	}
	return pred.Succs[idx] == to
}

func succIndex(from, to *ssa.BasicBlock) int {
	for i, s := range from.Succs {
		if s == to {
			return i
		}
	}
	return 0
}

// BoolReturnSinks returns the return sites where result #idx may equal want.
func BoolReturnSinks(fn *ssa.Function, idx int, want bool) []Sink {
	var out []Sink
	for _, b := range fn.Blocks {
		if len(b.Instrs) == 0 {
			continue
		}
		ret, ok := b.Instrs[len(b.Instrs)-1].(*ssa.Return)
		if !ok {
			continue
		}
		v := ret.Results[idx]
		if k, isk := ConstBool(v); isk {
			if k == want {
				out = append(out, Sink{Instr: ret, Note: "return"})
			}
			continue
		}
		if phi, ok := v.(*ssa.Phi); ok && phi.Block() == b {
			for i, e := range phi.Edges {
				if k, isk := ConstBool(e); isk && k != want {
					continue
				}
				pred := b.Preds[i]
				sk := Sink{Instr: ret, Via: &Edge{pred, succIndex(pred, b)}, Note: "return (phi edge)"}
				if _, isk := ConstBool(e); !isk {
					sk.BoolVal, sk.BoolWant = e, want
				}
				out = append(out, sk)
			}
			continue
		}
		out = append(out, Sink{Instr: ret, Note: "return (non-constant)", BoolVal: v, BoolWant: want})
	}
	return out
}

// SinkReachable evaluates a sink under a reachability result.
func (r *Reach) SinkReachable(s Sink) bool {
	if s.Via != nil {
		return r.EdgeReachable(*s.Via)
	}
	return r.Instr(s.Instr)
}

// CallSinks turns calls into sinks.
func CallSinks(cs []ssa.CallInstruction, note string) []Sink {
	var out []Sink
	for _, c := range cs {
		out = append(out, Sink{Instr: c, Note: note})
	}
	return out
}

// ---------------------------------------------------------------------------
// misc

// SortedKeys returns the sorted keys of a string-keyed map.
func SortedKeys[V any](m map[string]V) []string {
	ks := make([]string, 0, len(m))
	for k := range m {
		ks = append(ks, k)
	}
	sort.Strings(ks)
	return ks
}
