package ir

import (
	"go/types"
	"sort"

	"golang.org/x/tools/go/callgraph"
	"golang.org/x/tools/go/callgraph/cha"
	"golang.org/x/tools/go/callgraph/vta"
	"golang.org/x/tools/go/ssa"
	"golang.org/x/tools/go/ssa/ssautil"
)

// CallGraph is the module call graph (VTA refined over CHA) plus a
// conservative callback rule for function values handed to dependencies.
type CallGraph struct {
	G   *callgraph.Graph
	CHA *callgraph.Graph
	// Out[f] = set of callee functions (with site)
	Out map[*ssa.Function][]CGEdge
	In  map[*ssa.Function][]CGEdge
}

type CGEdge struct {
	Caller *ssa.Function
	Site   ssa.CallInstruction // nil for synthetic callback edges
	Callee *ssa.Function
}

// CG builds (once) and returns the call graph.
func (p *P) CG() *CallGraph {
	if p.cg != nil {
		return p.cg
	}
	all := ssautil.AllFunctions(p.SSA)
	chaG := cha.CallGraph(p.SSA)
	g := vta.CallGraph(all, chaG)
	cg := &CallGraph{G: g, CHA: chaG, Out: map[*ssa.Function][]CGEdge{}, In: map[*ssa.Function][]CGEdge{}}
	seen := map[[3]interface{}]bool{}
	add := func(e CGEdge) {
		k := [3]interface{}{e.Caller, e.Site, e.Callee}
		if seen[k] {
			return
		}
		seen[k] = true
		cg.Out[e.Caller] = append(cg.Out[e.Caller], e)
		cg.In[e.Callee] = append(cg.In[e.Callee], e)
	}
	for fn, n := range g.Nodes {
		if fn == nil {
			continue
		}
		for _, e := range n.Out {
			if e.Callee == nil || e.Callee.Func == nil {
				continue
			}
			add(CGEdge{Caller: fn, Site: e.Site, Callee: e.Callee.Func})
		}
	}
	// callback rule: closures / function values / method values created in a
	// function are assumed callable from it (they may be handed to dependency
	// code whose bodies are not loaded).
	for fn := range all {
		if len(fn.Blocks) == 0 {
			continue
		}
		for _, b := range fn.Blocks {
			for _, in := range b.Instrs {
				switch x := in.(type) {
				case *ssa.MakeClosure:
					if f, ok := x.Fn.(*ssa.Function); ok {
						add(CGEdge{Caller: fn, Callee: f})
					}
				default:
					// function constants used as operands (not as the callee)
					var ops []*ssa.Value
					ops = in.Operands(ops)
					for i, op := range ops {
						if op == nil || *op == nil {
							continue
						}
						f, ok := (*op).(*ssa.Function)
						if !ok {
							continue
						}
						if ci, isCall := in.(ssa.CallInstruction); isCall && i == 0 && ci.Common().Value == f {
							continue
						}
						add(CGEdge{Caller: fn, Callee: f})
					}
				}
			}
		}
	}
	p.cg = cg
	return cg
}

// Callees returns the possible callees at a call site.
func (cg *CallGraph) Callees(site ssa.CallInstruction) []*ssa.Function {
	fn := site.Parent()
	var out []*ssa.Function
	for _, e := range cg.Out[fn] {
		if e.Site == site {
			out = append(out, e.Callee)
		}
	}
	return out
}

// Reachable returns the functions reachable from roots; stop(fn) prunes.
func (cg *CallGraph) Reachable(roots []*ssa.Function, stop func(*ssa.Function) bool) map[*ssa.Function]*ssa.Function {
	parent := map[*ssa.Function]*ssa.Function{}
	var work []*ssa.Function
	for _, r := range roots {
		if _, ok := parent[r]; !ok {
			parent[r] = nil
			work = append(work, r)
		}
	}
	for len(work) > 0 {
		f := work[0]
		work = work[1:]
		if stop != nil && stop(f) {
			continue
		}
		es := cg.Out[f]
		sort.Slice(es, func(i, j int) bool { return es[i].Callee.String() < es[j].Callee.String() })
		for _, e := range es {
			if _, ok := parent[e.Callee]; !ok {
				parent[e.Callee] = f
				work = append(work, e.Callee)
			}
		}
	}
	return parent
}

// PathTo renders the call path root → … → f from a Reachable() parent map.
func PathTo(parent map[*ssa.Function]*ssa.Function, f *ssa.Function) []string {
	var out []string
	for x := f; x != nil; x = parent[x] {
		out = append(out, FuncName(x))
		if len(out) > 40 {
			break
		}
	}
	for i, j := 0, len(out)-1; i < j; i, j = i+1, j-1 {
		out[i], out[j] = out[j], out[i]
	}
	return out
}

// ReachesAny returns the set of functions from which one of targets is
// reachable (targets included).
func (cg *CallGraph) ReachesAny(targets []*ssa.Function) map[*ssa.Function]bool {
	set := map[*ssa.Function]bool{}
	var work []*ssa.Function
	for _, t := range targets {
		if t != nil && !set[t] {
			set[t] = true
			work = append(work, t)
		}
	}
	for len(work) > 0 {
		f := work[len(work)-1]
		work = work[:len(work)-1]
		for _, e := range cg.In[f] {
			if !set[e.Caller] {
				set[e.Caller] = true
				work = append(work, e.Caller)
			}
		}
	}
	return set
}

// Callers returns the distinct caller functions of fn.
func (cg *CallGraph) Callers(fn *ssa.Function) []*ssa.Function {
	m := map[*ssa.Function]bool{}
	var out []*ssa.Function
	for _, e := range cg.In[fn] {
		if !m[e.Caller] {
			m[e.Caller] = true
			out = append(out, e.Caller)
		}
	}
	sort.Slice(out, func(i, j int) bool { return out[i].String() < out[j].String() })
	return out
}

// SiteMayReach reports whether call site c may (transitively) reach a
// function in set.
func (cg *CallGraph) SiteMayReach(c ssa.CallInstruction, set map[*ssa.Function]bool) bool {
	if f := c.Common().StaticCallee(); f != nil {
		return set[f]
	}
	for _, f := range cg.Callees(c) {
		if set[f] {
			return true
		}
	}
	return false
}

// Implementations returns the concrete module methods implementing interface method m.
func (p *P) Implementations(m *types.Func) []*ssa.Function {
	sig := m.Type().(*types.Signature)
	if sig.Recv() == nil {
		return nil
	}
	iface, ok := sig.Recv().Type().Underlying().(*types.Interface)
	if !ok {
		return nil
	}
	var out []*ssa.Function
	for _, pk := range p.Mod {
		if pk.Types == nil {
			continue
		}
		sc := pk.Types.Scope()
		for _, n := range sc.Names() {
			tn, ok := sc.Lookup(n).(*types.TypeName)
			if !ok || tn.IsAlias() {
				continue
			}
			if _, isIface := tn.Type().Underlying().(*types.Interface); isIface {
				continue
			}
			for _, t := range []types.Type{tn.Type(), types.NewPointer(tn.Type())} {
				if !types.Implements(t, iface) {
					continue
				}
				ms := p.SSA.MethodSets.MethodSet(t)
				sel := ms.Lookup(m.Pkg(), m.Name())
				if sel == nil {
					continue
				}
				if f := p.SSA.MethodValue(sel); f != nil {
					if fo, ok := f.Object().(*types.Func); ok {
						if real := p.SSA.FuncValue(fo); real != nil {
							f = real
						}
					}
					out = append(out, f)
				}
				break
			}
		}
	}
	sort.Slice(out, func(i, j int) bool { return out[i].String() < out[j].String() })
	// dedupe
	var res []*ssa.Function
	for i, f := range out {
		if i == 0 || out[i-1] != f {
			res = append(res, f)
		}
	}
	return res
}
