package ir

import (
	"go/types"
	"sort"
	"strings"

	"golang.org/x/tools/go/callgraph"
	"golang.org/x/tools/go/callgraph/cha"
	"golang.org/x/tools/go/callgraph/vta"
	"golang.org/x/tools/go/ssa"
	"golang.org/x/tools/go/ssa/ssautil"
)

// CallGraph is the module call graph (VTA refined over CHA) plus a
// conservative callback rule for function values handed to dependencies.
type CallGraph struct {
	G   *callgraph.Graph
	CHA *callgraph.Graph
	// Out[f] = set of callee functions (with site)
	Out map[*ssa.Function][]CGEdge
	In  map[*ssa.Function][]CGEdge
}

type CGEdge struct {
	Caller *ssa.Function
	Site   ssa.CallInstruction // nil for synthetic callback edges
	Callee *ssa.Function
}

// CG builds (once) and returns the call graph.
func (p *P) CG() *CallGraph {
	if p.cg != nil {
		return p.cg
	}
	all := ssautil.AllFunctions(p.SSA)
	chaG := cha.CallGraph(p.SSA)
	g := vta.CallGraph(all, chaG)
	cg := &CallGraph{G: g, CHA: chaG, Out: map[*ssa.Function][]CGEdge{}, In: map[*ssa.Function][]CGEdge{}}
	seen := map[[3]interface{}]bool{}
	add := func(e CGEdge) {
		k := [3]interface{}{e.Caller, e.Site, e.Callee}
		if seen[k] {
			return
		}
		seen[k] = true
		cg.Out[e.Caller] = append(cg.Out[e.Caller], e)
		cg.In[e.Callee] = append(cg.In[e.Callee], e)
	}
	for fn, n := range g.Nodes {
		if fn == nil {
			continue
		}
		for _, e := range n.Out {
			if e.Callee == nil || e.Callee.Func == nil {
				continue
			}
			add(CGEdge{Caller: fn, Site: e.Site, Callee: e.Callee.Func})
		}
	}
	// callback rule: closures / function values / method values created in a
	// function are assumed callable from it (they may be handed to dependency
	// code whose bodies are not loaded).
	for fn := range all {
		if len(fn.Blocks) == 0 {
			continue
		}
		for _, b := range fn.Blocks {
			for _, in := range b.Instrs {
				switch x := in.(type) {
				case *ssa.MakeClosure:
					if f, ok := x.Fn.(*ssa.Function); ok {
						add(CGEdge{Caller: fn, Callee: f})
					}
				default:
					// function constants used as operands (not as the callee)
					var ops []*ssa.Value
					ops = in.Operands(ops)
					for i, op := range ops {
						if op == nil || *op == nil {
							continue
						}
						f, ok := (*op).(*ssa.Function)
						if !ok {
							continue
						}
						if ci, isCall := in.(ssa.CallInstruction); isCall && i == 0 && ci.Common().Value == f {
							continue
						}
						add(CGEdge{Caller: fn, Callee: f})
					}
				}
			}
		}
	}
	p.cg = cg
	return cg
}

// Callees returns the possible callees at a call site.
func (cg *CallGraph) Callees(site ssa.CallInstruction) []*ssa.Function {
	fn := site.Parent()
	var out []*ssa.Function
	for _, e := range cg.Out[fn] {
		if e.Site == site {
			out = append(out, e.Callee)
		}
	}
	return out
}

// Reachable returns the functions reachable from roots; stop(fn) prunes.
func (cg *CallGraph) Reachable(roots []*ssa.Function, stop func(*ssa.Function) bool) map[*ssa.Function]*ssa.Function {
	parent := map[*ssa.Function]*ssa.Function{}
	var work []*ssa.Function
	for _, r := range roots {
		if _, ok := parent[r]; !ok {
			parent[r] = nil
			work = append(work, r)
		}
	}
	for len(work) > 0 {
		f := work[0]
		work = work[1:]
		if stop != nil && stop(f) {
			continue
		}
		es := cg.Out[f]
		sort.Slice(es, func(i, j int) bool { return es[i].Callee.String() < es[j].Callee.String() })
		for _, e := range es {
			if _, ok := parent[e.Callee]; !ok {
				parent[e.Callee] = f
				work = append(work, e.Callee)
			}
		}
	}
	return parent
}

// PathTo renders the call path root → … → f from a Reachable() parent map.
func PathTo(parent map[*ssa.Function]*ssa.Function, f *ssa.Function) []string {
	var out []string
	for x := f; x != nil; x = parent[x] {
		out = append(out, FuncName(x))
		if len(out) > 40 {
			break
		}
	}
	for i, j := 0, len(out)-1; i < j; i, j = i+1, j-1 {
		out[i], out[j] = out[j], out[i]
	}
	return out
}

// ReachesAny returns the set of functions from which one of targets is
// reachable (targets included).
func (cg *CallGraph) ReachesAny(targets []*ssa.Function) map[*ssa.Function]bool {
	set := map[*ssa.Function]bool{}
	var work []*ssa.Function
	for _, t := range targets {
		if t != nil && !set[t] {
			set[t] = true
			work = append(work, t)
		}
	}
	for len(work) > 0 {
		f := work[len(work)-1]
		work = work[:len(work)-1]
		for _, e := range cg.In[f] {
			if !set[e.Caller] {
				set[e.Caller] = true
				work = append(work, e.Caller)
			}
		}
	}
	return set
}

// Callers returns the distinct caller functions of fn.
func (cg *CallGraph) Callers(fn *ssa.Function) []*ssa.Function {
	m := map[*ssa.Function]bool{}
	var out []*ssa.Function
	for _, e := range cg.In[fn] {
		if !m[e.Caller] {
			m[e.Caller] = true
			out = append(out, e.Caller)
		}
	}
	sort.Slice(out, func(i, j int) bool { return out[i].String() < out[j].String() })
	return out
}

// SiteMayReach reports whether call site c may (transitively) reach a
// function in set.
func (cg *CallGraph) SiteMayReach(c ssa.CallInstruction, set map[*ssa.Function]bool) bool {
	if f := c.Common().StaticCallee(); f != nil {
		return set[f]
	}
	for _, f := range cg.Callees(c) {
		if set[f] {
			return true
		}
	}
	return false
}

// Implementations returns the concrete module methods implementing interface method m.
func (p *P) Implementations(m *types.Func) []*ssa.Function {
	sig := m.Type().(*types.Signature)
	if sig.Recv() == nil {
		return nil
	}
	iface, ok := sig.Recv().Type().Underlying().(*types.Interface)
	if !ok {
		return nil
	}
	var out []*ssa.Function
	for _, pk := range p.Mod {
		if pk.Types == nil {
			continue
		}
		sc := pk.Types.Scope()
		for _, n := range sc.Names() {
			tn, ok := sc.Lookup(n).(*types.TypeName)
			if !ok || tn.IsAlias() {
				continue
			}
			if _, isIface := tn.Type().Underlying().(*types.Interface); isIface {
				continue
			}
			for _, t := range []types.Type{tn.Type(), types.NewPointer(tn.Type())} {
				if !types.Implements(t, iface) {
					continue
				}
				ms := p.SSA.MethodSets.MethodSet(t)
				sel := ms.Lookup(m.Pkg(), m.Name())
				if sel == nil {
					continue
				}
				if f := p.SSA.MethodValue(sel); f != nil {
					if fo, ok := f.Object().(*types.Func); ok {
						if real := p.SSA.FuncValue(fo); real != nil {
							f = real
						}
					}
					out = append(out, f)
				}
				break
			}
		}
	}
	sort.Slice(out, func(i, j int) bool { return out[i].String() < out[j].String() })
	// dedupe
	var res []*ssa.Function
	for i, f := range out {
		if i == 0 || out[i-1] != f {
			res = append(res, f)
		}
	}
	return res
}

// ---------------------------------------------------------------------------
// who-may-call through private helpers

// funcRefs: for every module function, the functions that mention it as a value
// (method value / function value / closure creation).  Built once.
func (p *P) funcRefs() map[*ssa.Function][]*ssa.Function {
	if p.refs != nil {
		return p.refs
	}
	refs := map[*ssa.Function][]*ssa.Function{}
	add := func(target, user *ssa.Function) {
		for _, u := range refs[target] {
			if u == user {
				return
			}
		}
		refs[target] = append(refs[target], user)
	}
	for _, pk := range p.Mod {
		if pk.SSA == nil {
			continue
		}
		for fn := range ssautilAll(pk.SSA) {
			for _, b := range fn.Blocks {
				for _, in := range b.Instrs {
					for _, op := range in.Operands(nil) {
						if op == nil || *op == nil {
							continue
						}
						switch x := (*op).(type) {
						case *ssa.Function:
							if ci, isCall := in.(ssa.CallInstruction); isCall && ci.Common().Value == *op {
								continue // a plain static call, not a value use
							}
							add(x, fn)
						case *ssa.MakeClosure:
							if f, ok := x.Fn.(*ssa.Function); ok {
								add(f, fn)
							}
						}
					}
					if mc, ok := in.(*ssa.MakeClosure); ok {
						if f, isF := mc.Fn.(*ssa.Function); isF {
							add(f, fn)
						}
					}
				}
			}
		}
	}
	p.refs = refs
	return refs
}

func ssautilAll(pkg *ssa.Package) map[*ssa.Function]bool {
	out := map[*ssa.Function]bool{}
	var addFn func(f *ssa.Function)
	addFn = func(f *ssa.Function) {
		if f == nil || out[f] {
			return
		}
		out[f] = true
		for _, a := range f.AnonFuncs {
			addFn(a)
		}
	}
	for _, m := range pkg.Members {
		switch x := m.(type) {
		case *ssa.Function:
			addFn(x)
		case *ssa.Type:
			for _, t := range []types.Type{x.Type(), types.NewPointer(x.Type())} {
				ms := pkg.Prog.MethodSets.MethodSet(t)
				for i := 0; i < ms.Len(); i++ {
					addFn(pkg.Prog.MethodValue(ms.At(i)))
				}
			}
		}
	}
	return out
}

// EffectiveCallers returns the callers of fn with private helpers made
// transparent: a caller that is not accepted by ok and is a private helper — an
// anonymous closure, a synthetic wrapper (bound method value), or an unexported
// function of the module — is replaced by ITS users (static callers, the
// functions that create the closure / take the method value), recursively.
// Extracting a few lines into an unexported helper, or passing a method value
// instead of a closure, therefore does not change who is reported.
func (p *P) EffectiveCallers(fn *ssa.Function, ok func(*ssa.Function) bool) []*ssa.Function {
	cg := p.CG()
	refs := p.funcRefs()
	seen := map[*ssa.Function]bool{}
	res := map[*ssa.Function]bool{}
	var visit func(f *ssa.Function, depth int)
	isPrivate := func(x *ssa.Function) bool {
		if x.Parent() != nil || x.Synthetic != "" {
			return true
		}
		if x.Pkg == nil || x.Pkg.Pkg == nil || len(x.Name()) == 0 {
			return false
		}
		c := x.Name()[0]
		return c >= 'a' && c <= 'z' || c == '_'
	}
	users := func(x *ssa.Function) []*ssa.Function {
		var out []*ssa.Function
		if x.Parent() != nil {
			return []*ssa.Function{x.Parent()}
		}
		if len(refs[x]) > 0 && x.Synthetic != "" {
			return refs[x] // a bound-method wrapper: who takes the method value
		}
		for _, e := range cg.In[x] {
			if e.Site != nil && e.Site.Common().StaticCallee() == x {
				out = append(out, e.Caller)
			}
		}
		out = append(out, refs[x]...)
		return out
	}
	var resolve func(x *ssa.Function, depth int)
	resolve = func(x *ssa.Function, depth int) {
		if seen[x] {
			return
		}
		seen[x] = true
		if ok(x) || !isPrivate(x) || depth >= 5 {
			res[x] = true
			return
		}
		us := users(x)
		if len(us) == 0 {
			res[x] = true
			return
		}
		for _, u := range us {
			resolve(u, depth+1)
		}
	}
	visit = func(f *ssa.Function, depth int) {
		for _, caller := range cg.Callers(f) {
			resolve(caller, 0)
		}
	}
	visit(fn, 0)
	out := make([]*ssa.Function, 0, len(res))
	for f := range res {
		out = append(out, f)
	}
	sort.Slice(out, func(i, j int) bool { return out[i].String() < out[j].String() })
	return out
}

// CallsThrough lists the call instructions of fn that satisfy pred or that call
// a module function (statically, at most `depth` levels down, at most 60 blocks
// each) containing a call that does: the sites in fn through which an operation
// is performed when a few lines were moved into a private helper.
func CallsThrough(fn *ssa.Function, pred func(ssa.CallInstruction) bool, depth int) []ssa.CallInstruction {
	var reaches func(h *ssa.Function, d int, seen map[*ssa.Function]bool) bool
	reaches = func(h *ssa.Function, d int, seen map[*ssa.Function]bool) bool {
		if h == nil || seen[h] || len(h.Blocks) == 0 || len(h.Blocks) > 60 || h.Pkg == nil || h.Pkg.Pkg == nil || !strings.HasPrefix(h.Pkg.Pkg.Path(), Mod) {
			return false
		}
		seen[h] = true
		for _, b := range h.Blocks {
			for _, in := range b.Instrs {
				ci, ok := in.(ssa.CallInstruction)
				if !ok {
					continue
				}
				if pred(ci) {
					return true
				}
				if d > 0 && reaches(ci.Common().StaticCallee(), d-1, seen) {
					return true
				}
			}
		}
		return false
	}
	var out []ssa.CallInstruction
	for _, b := range fn.Blocks {
		for _, in := range b.Instrs {
			ci, ok := in.(ssa.CallInstruction)
			if !ok {
				continue
			}
			if pred(ci) {
				out = append(out, ci)
				continue
			}
			if depth > 0 && reaches(ci.Common().StaticCallee(), depth-1, map[*ssa.Function]bool{fn: true}) {
				out = append(out, ci)
			}
		}
	}
	return out
}

// InModule: fn is declared in a package of the analysed module.
func InModule(fn *ssa.Function) bool {
	return fn != nil && fn.Pkg != nil && fn.Pkg.Pkg != nil && strings.HasPrefix(fn.Pkg.Pkg.Path(), Mod)
}
