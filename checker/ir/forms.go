package ir

import (
	"go/token"
	"go/types"

	"golang.org/x/tools/go/ssa"
)

// AllForms makes a guard written against one spelling of a comparison match every exactly equivalent
// spelling of the same test: operands swapped (a < b ≡ b > a) and the negated relation on the other edge
// (a < b holds ⇔ a >= b does not).  The guard is tried on the condition as written first; then on the
// equivalent conditions, with the pass edge translated back.  Floating-point comparisons are left alone
// (negation is not exact with NaN).  The synthesised comparison values exist only for matching: they have
// operands and an operator, no position and no block.
func AllForms(g Guard) Guard {
	if g == nil {
		return g
	}
	return func(c Cond) (bool, bool) {
		if ok, pt := g(c); ok {
			return ok, pt
		}
		b, isB := c.V.(*ssa.BinOp)
		if !isB {
			return false, false
		}
		var mir, neg token.Token
		switch b.Op {
		case token.LSS:
			mir, neg = token.GTR, token.GEQ
		case token.GTR:
			mir, neg = token.LSS, token.LEQ
		case token.LEQ:
			mir, neg = token.GEQ, token.GTR
		case token.GEQ:
			mir, neg = token.LEQ, token.LSS
		case token.EQL:
			mir, neg = token.EQL, token.NEQ
		case token.NEQ:
			mir, neg = token.NEQ, token.EQL
		default:
			return false, false
		}
		if bt, isBasic := b.X.Type().Underlying().(*types.Basic); isBasic && bt.Info()&(types.IsFloat|types.IsComplex) != 0 {
			return false, false
		}
		mirOf := func(op token.Token) token.Token {
			switch op {
			case token.LSS:
				return token.GTR
			case token.GTR:
				return token.LSS
			case token.LEQ:
				return token.GEQ
			case token.GEQ:
				return token.LEQ
			}
			return op
		}
		try := func(op token.Token, x, y ssa.Value) (bool, bool) {
			return g(Cond{If: c.If, V: &ssa.BinOp{Op: op, X: x, Y: y}, Neg: c.Neg})
		}
		if ok, pt := try(mir, b.Y, b.X); ok {
			return true, pt
		}
		if ok, pt := try(neg, b.X, b.Y); ok {
			return true, !pt
		}
		if ok, pt := try(mirOf(neg), b.Y, b.X); ok {
			return true, !pt
		}
		return false, false
	}
}
