package rules

import (
	"go/constant"

	"golang.org/x/tools/go/ssa"

	"polyverif/core"
	"polyverif/eng"
	"polyverif/ir"
)

// C27 (continued) — the head pointer.  appendHeader2Main is the only writer of
// the canonical index and of the current-height pointer of the PoW client;
// RestructChain relies on its LAST call to leave the pointer at the new tip,
// which may be LOWER than the old one (a shorter but heavier fork).  So every
// successful call must write both records, unconditionally, for the height it
// was given.
func checkEthHeadPointer(c *core.Ctx) {
	fn := c.Fn(pkEthHS, "appendHeader2Main")
	if fn == nil {
		return
	}
	litOf := func(ci ssa.CallInstruction) string {
		// key = ConcatKey(contract, []byte(LIT), …), written inline or by a key helper: the first
		// literal of the key's shape
		if len(ci.Common().Args) < 2 {
			return ""
		}
		sh, err := eng.ShapeOf(c.P, ci.Common().Args[1])
		if err != nil {
			return ""
		}
		return sh.LeadingLit()
	}
	mainLit, err1 := c.P.Const(pkHSCom, "MAIN_CHAIN")
	curLit, err2 := c.P.Const(pkHSCom, "CURRENT_HEADER_HEIGHT")
	if err1 != nil || err2 != nil {
		c.Broken("C27.head-pointer", fn, "MAIN_CHAIN / CURRENT_HEADER_HEIGHT constants", "", "not found")
		return
	}
	want := map[string]string{constant.StringVal(mainLit): "canonical index entry (MAIN_CHAIN‖chain‖height)", constant.StringVal(curLit): "current-height pointer (CURRENT_HEADER_HEIGHT‖chain)"}
	succ := ir.SuccessSinks(fn)
	heightP := paramByName(fn, "height")
	for lit, desc := range want {
		l := lit
		puts := ir.Calls(fn, func(ci ssa.CallInstruction) bool {
			o := ir.CalleeObj(ci)
			return o != nil && o.Name() == "Put" && litOf(ci) == l
		})
		c.Decide(len(puts) == 1, "C27.head-pointer", fn, "one write of the "+desc, c.P.Rel(fn.Pos()), sprintf("%d", len(puts)))
		if len(puts) != 1 {
			continue
		}
		eng.MustPassCall(c, "C27.head-pointer", fn, "Put of the "+desc, func(ci ssa.CallInstruction) bool { return ci == puts[0] }, succ, "nil return", nil)
		// unconditional: the write is not under any test (its block dominates every return)
		blk := puts[0].Block()
		unconditional := true
		for _, s := range succ {
			if !(blk == s.Instr.Block() || blk.Dominates(s.Instr.Block())) {
				unconditional = false
			}
		}
		c.Decide(unconditional && blk == fn.Blocks[0], "C27.head-pointer", fn, "the "+desc+" is written unconditionally (the pointer may have to move DOWN after a reorganisation to a shorter, heavier fork)", c.P.Rel(puts[0].Pos()), "")
	}
	// the pointer value is the height argument
	okVal := false
	for _, ci := range ir.Calls(fn, func(ci ssa.CallInstruction) bool {
		o := ir.CalleeObj(ci)
		return o != nil && o.Name() == "Put" && litOf(ci) == constant.StringVal(curLit)
	}) {
		if g := calleeNamed(ci.Common().Args[2], "GenRawStorageItem"); g != nil {
			if u := calleeNamed(g.Common().Args[0], "GetUint64Bytes"); u != nil && ir.Strip(u.Common().Args[0]) == ssa.Value(heightP) {
				okVal = true
			}
		}
	}
	c.Decide(okVal, "C27.head-pointer", fn, "the pointer is set to the height just indexed", c.P.Rel(fn.Pos()), "")
}
