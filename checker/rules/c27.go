package rules

import (
	"go/token"
	"go/types"
	"sort"
	"strings"

	"golang.org/x/tools/go/ssa"

	"polyverif/core"
	"polyverif/eng"
	"polyverif/ir"
)

// C27 — PoW light client keeps the heaviest valid chain.
// C28 — Ethereum header rules (rejection clause only).

const pkEthHS = "native/service/header_sync/eth"

func init() {
	core.Register(&core.Check{
		ID: "C27", Level: "other", Title: "PoW light client keeps the heaviest valid chain",
		Technique: "guard dominance + value-flow identity on the header-store path",
		Explain:   "eth.SyncBlockHeader: the putBlockHeader call (the only place a non-genesis header is stored) is dominated by: header not yet stored (IsHeaderExist err==nil and false — a known header takes the continue edge, from which no storage-writing call is reachable before the next header: re-submission changes nothing), parent lookup by header.ParentHash err==nil (parent stored), Number == parent.Number+1, parent.Hash() == header.ParentHash, the fail edge of Time <= parent.Time, the gas-limit / EIP-1559 check err==nil, expected-difficulty Cmp == 0 and the seal check verifyHeader err==nil; the total difficulty stored is new(big.Int).Add(header.Difficulty, parentDifficultySum) with parentDifficultySum the second result of that same parent lookup; the canonical index is extended by appendHeader2Main only when current.Hash() == header.ParentHash and re-pointed by RestructChain only under headerDifficultySum.Cmp(currentDifficultySum) > 0 (strictly heavier). BTC: commitHeader stores a header only after the previous-header lookup succeeded and CheckHeader passed, with height = parent height + 1 and totalWork = parent work + own work, and switches best header only on strictly greater work. NOT decided: gap-freeness / maximality of the canonical index after arbitrary histories (needs loop invariants of RestructChain).",
		Run:       runC27,
	})
	core.Register(&core.Check{
		ID: "C28", Level: "other", Title: "Ethereum header rules match the Ethereum specification",
		Technique: "guard dominance (rejection clause) + decision table of the era dispatch",
		Explain:   "Decides ONLY the rejection clause 'a header that violates any of them is rejected': in eth.SyncBlockHeader the header store is dominated by the timestamp, extra-data size, gas-cap, gasUsed<=gasLimit, gas-limit/EIP-1559, difficulty (expected.Cmp(header.Difficulty)==0) and proof-of-work seal checks; VerifyGaslimit returns nil only under |parent−header| < parent/GasLimitBoundDivisor and header >= MinGasLimit; VerifyEip1559Header only under VerifyGaslimit err==nil (with the elasticity multiplier applied exactly when the parent is pre-London), BaseFee != nil and BaseFee.Cmp(CalcBaseFee(parent)) == 0; the seal check verifyHeader fails unless the ethash result is within the target and the mix digest matches. The era dispatch is extracted as a decision table: ArrowGlacier → bomb delay 10 700 000, London → 9 700 000, otherwise the legacy calculator. NOT decided: equality of the difficulty / base-fee / cache-size FORMULAS with the Ethereum specification for every input (big-integer arithmetic; outside this technique).",
		Run:       runC28,
	})
}

func uint64Of(v ssa.Value, field string, isBase func(ssa.Value) bool) bool {
	cl, _ := ir.CallOf(v)
	if cl == nil || ir.CalleeObj(cl) == nil || ir.CalleeObj(cl).Name() != "Uint64" {
		return false
	}
	base, f, ok := fieldLoad(cl.Common().Args[0])
	return ok && f == field && (isBase == nil || isBase(base))
}

type ethCtx struct {
	fn       *ssa.Function
	puts     []ir.Sink
	parent   *ssa.Call // GetHeaderByHash(parent)
	isHeader func(ssa.Value) bool
	isParent func(ssa.Value) bool
}

func ethContext(c *core.Ctx) *ethCtx {
	fn := c.Fn(pkEthHS, "ETHHandler.SyncBlockHeader")
	pbh := eng.Obj(c, pkEthHS, "putBlockHeader")
	ghbh := eng.Obj(c, pkEthHS, "GetHeaderByHash")
	if fn == nil || pbh == nil || ghbh == nil {
		return nil
	}
	e := &ethCtx{fn: fn}
	e.puts = ir.CallSinks(ir.CallsTo(fn, pbh), "putBlockHeader")
	c.Floor("putBlockHeader in eth.SyncBlockHeader", len(e.puts), 1)
	for _, ci := range ir.CallsTo(fn, ghbh) {
		cl := ci.(*ssa.Call)
		// argument: header.ParentHash.Bytes()
		if b := calleeNamed(cl.Common().Args[1], "Bytes"); b != nil {
			if _, f, ok := fieldLoad(b.Common().Args[0]); ok && f == "ParentHash" {
				e.parent = cl
			}
			if fa, ok := b.Common().Args[0].(*ssa.FieldAddr); ok && fieldNameOf(fa) == "ParentHash" {
				e.parent = cl
			}
		}
	}
	if e.parent == nil {
		c.Broken("C27.parent", fn, "GetHeaderByHash(header.ParentHash)", c.P.Rel(fn.Pos()), "parent lookup not found")
		return nil
	}
	e.isParent = func(v ssa.Value) bool { cl, idx := ir.CallOf(v); return cl == e.parent && idx == 0 }
	e.isHeader = func(v ssa.Value) bool {
		al, ok := ir.Strip(v).(*ssa.Alloc)
		return ok && al.Comment == "header"
	}
	return e
}

func runC27(c *core.Ctx) {
	checkBtcReindexKeepsNewTip(c)
	e := ethContext(c)
	if e == nil {
		return
	}
	fn := e.fn
	ihe := eng.Obj(c, pkEthHS, "IsHeaderExist")
	vh := eng.Obj(c, pkEthHS, "ETHHandler.verifyHeader")
	ah := eng.Obj(c, pkEthHS, "appendHeader2Main")
	rc := eng.Obj(c, pkEthHS, "RestructChain")
	gch := eng.Obj(c, pkEthHS, "GetCurrentHeader")
	if ihe == nil || vh == nil || ah == nil || rc == nil || gch == nil {
		return
	}
	writers := storageWriters(c)
	allWrites := ir.CallSinks(writeCalls(c, fn, writers), "storage-writing call")
	notKnown := eng.NamedGuard{Name: "IsHeaderExist == false", G: ir.BoolIs(ir.CallTo(ihe), false)}
	eng.Dominates(c, "C27.known-header-no-write", fn, notKnown, allWrites, "every storage-writing call", nil)
	eng.Dominates(c, "C27.known-header-no-write", fn, eng.ErrNilOf("IsHeaderExist", ihe), allWrites, "every storage-writing call", nil)
	// the hash checked is the header's own hash
	for _, ci := range ir.CallsTo(fn, ihe) {
		b := calleeNamed(ci.Common().Args[1], "Bytes")
		okH := false
		if b != nil {
			var hv ssa.Value = b.Common().Args[0]
			if al, ok := hv.(*ssa.Alloc); ok {
				hv = ir.SingleStore(al)
			}
			if h := calleeNamed(hv, "Hash"); h != nil && e.isHeader(h.Common().Args[0]) {
				okH = true
			}
		}
		c.Decide(okH, "C27.known-header-no-write", fn, "existence is tested for header.Hash()", c.P.Rel(ci.Pos()), "")
	}
	eng.Dominates(c, "C27.parent", fn, eng.NamedGuard{Name: "GetHeaderByHash(header.ParentHash) err==nil", G: ir.ErrNil(func(cl *ssa.Call) bool { return cl == e.parent })}, e.puts, "putBlockHeader", nil)
	eng.Dominates(c, "C27.parent", fn, cmpGuard("header.Number == parent.Number + 1", func(b *ssa.BinOp) (bool, bool) {
		if b.Op != token.NEQ && b.Op != token.EQL {
			return false, false
		}
		plus1 := func(v ssa.Value) bool {
			a, ok := v.(*ssa.BinOp)
			if !ok || a.Op != token.ADD {
				return false
			}
			k, okk := ir.ConstInt(a.Y)
			return okk && k == 1 && uint64Of(a.X, "Number", e.isParent)
		}
		if (uint64Of(b.X, "Number", e.isHeader) && plus1(b.Y)) || (uint64Of(b.Y, "Number", e.isHeader) && plus1(b.X)) {
			return true, b.Op == token.EQL
		}
		return false, false
	}), e.puts, "putBlockHeader", nil)
	eng.Dominates(c, "C27.parent", fn, eng.NamedGuard{Name: "parent.Hash() == header.ParentHash", G: ir.BoolIs(func(cl *ssa.Call) bool {
		if !bytesEqual(cl) {
			return false
		}
		isPH := func(v ssa.Value) bool {
			b := calleeNamed(v, "Bytes")
			if b == nil {
				return false
			}
			var hv ssa.Value = b.Common().Args[0]
			if al, ok := hv.(*ssa.Alloc); ok {
				hv = ir.SingleStore(al)
			}
			h := calleeNamed(hv, "Hash")
			return h != nil && e.isParent(h.Common().Args[0])
		}
		isHP := func(v ssa.Value) bool {
			b := calleeNamed(v, "Bytes")
			if b == nil {
				return false
			}
			if fa, ok := b.Common().Args[0].(*ssa.FieldAddr); ok {
				return fieldNameOf(fa) == "ParentHash" && e.isHeader(fa.X)
			}
			base, f, ok := fieldLoad(b.Common().Args[0])
			return ok && f == "ParentHash" && e.isHeader(base)
		}
		a := cl.Common().Args
		return (isPH(a[0]) && isHP(a[1])) || (isPH(a[1]) && isHP(a[0]))
	}, true)}, e.puts, "putBlockHeader", nil)
	// seal
	eng.Dominates(c, "C27.seal", fn, eng.ErrNilOf("verifyHeader (ethash seal)", vh), e.puts, "putBlockHeader", nil)
	// total difficulty
	for _, s := range e.puts {
		call := s.Instr.(*ssa.Call)
		sum := call.Common().Args[2]
		okSum := false
		if add := calleeNamed(sum, "Add"); add != nil {
			a := add.Common().Args
			d1 := isFieldNamed(a[1], "Difficulty") || isFieldNamed(a[2], "Difficulty")
			p := func(v ssa.Value) bool { cl, idx := ir.CallOf(v); return cl == e.parent && idx == 1 }
			okSum = d1 && (p(a[1]) || p(a[2]))
		}
		c.Decide(okSum, "C27.total-difficulty", fn, "stored total difficulty = header.Difficulty + parent's stored total", c.P.Rel(call.Pos()), "")
		c.Decide(e.isHeader(call.Common().Args[1]) || func() bool { u, ok := call.Common().Args[1].(*ssa.UnOp); return ok && e.isHeader(u.X) }(), "C27.total-difficulty", fn, "the header stored is the verified header", c.P.Rel(call.Pos()), "")
	}
	// canonical chain
	var sumV ssa.Value
	if len(e.puts) > 0 {
		sumV = e.puts[0].Instr.(*ssa.Call).Common().Args[2]
	}
	// the two canonical-index mutations stand in SyncBlockHeader or in a same-package helper it calls after
	// storing the header (the helper's parameters are bound to the call's arguments): host = where the
	// guards are looked for, via = the sites in SyncBlockHeader through which the mutation happens
	canonHost := func(obj *types.Func) (*ssa.Function, []ssa.CallInstruction, []ssa.CallInstruction) {
		if direct := ir.CallsTo(fn, obj); len(direct) > 0 {
			return fn, direct, direct
		}
		via := ir.CallsThrough(fn, func(ci ssa.CallInstruction) bool { return ir.CalleeIs(ci, obj) }, 1)
		for _, site := range via {
			h := site.Common().StaticCallee()
			if h == nil || h.Pkg != fn.Pkg || len(ir.CallsTo(h, obj)) == 0 {
				continue
			}
			ir.BindParams(h, site.Common().Args) // stays bound for the rest of the check
			c.Attribute(h, fn)
			return h, ir.CallsTo(h, obj), via
		}
		return fn, nil, nil
	}
	ahHost, ahCalls, ahVia := canonHost(ah)
	rcHost, rcCalls, rcVia := canonHost(rc)
	eng.Dominates(c, "C27.canonical", ahHost, eng.NamedGuard{Name: "current.Hash() == header.ParentHash", G: ir.BoolIs(func(cl *ssa.Call) bool {
		if !bytesEqual(cl) {
			return false
		}
		for _, a := range cl.Common().Args {
			if b := calleeNamed(a, "Bytes"); b != nil {
				var hv ssa.Value = b.Common().Args[0]
				if al, ok := hv.(*ssa.Alloc); ok {
					hv = ir.SingleStore(al)
				}
				if h := calleeNamed(hv, "Hash"); h != nil && isCallTo(h.Common().Args[0], gch) {
					return true
				}
			}
		}
		return false
	}, true)}, ir.CallSinks(ahCalls, "appendHeader2Main"), "appendHeader2Main", nil)
	eng.Dominates(c, "C27.canonical", rcHost, cmpGuard("headerDifficultySum.Cmp(currentDifficultySum) > 0", func(b *ssa.BinOp) (bool, bool) {
		cmp := calleeNamed(b.X, "Cmp")
		if cmp == nil {
			return false, false
		}
		k, okk := ir.ConstInt(b.Y)
		if !okk {
			return false, false
		}
		// Cmp answers −1, 0 or +1: the test is identified by the set of answers it holds for
		holds := func(x int64) bool {
			switch b.Op {
			case token.GTR:
				return x > k
			case token.GEQ:
				return x >= k
			case token.LSS:
				return x < k
			case token.LEQ:
				return x <= k
			case token.EQL:
				return x == k
			case token.NEQ:
				return x != k
			}
			return false
		}
		onlyWhen := func(want int64) (bool, bool) {
			all, none := true, true
			for _, x := range []int64{-1, 0, 1} {
				if holds(x) != (x == want) {
					all = false
				}
				if holds(x) != (x != want) {
					none = false
				}
			}
			switch {
			case all:
				return true, true // true exactly for the wanted answer
			case none:
				return true, false // false exactly for the wanted answer
			}
			return false, false
		}
		a := cmp.Common().Args
		cur := func(v ssa.Value) bool { cl, idx := ir.CallOf(v); return cl != nil && idx == 1 && ir.CalleeIs(cl, gch) }
		switch {
		case ir.Strip(a[0]) == ir.Strip(sumV) && cur(a[1]):
			return onlyWhen(1) // new.Cmp(current) is +1
		case cur(a[0]) && ir.Strip(a[1]) == ir.Strip(sumV):
			return onlyWhen(-1) // the same asked the other way round (Cmp is antisymmetric)
		}
		return false, false
	}), ir.CallSinks(rcCalls, "RestructChain"), "RestructChain", nil)
	// both happen only after the header was stored
	for _, o := range []struct {
		desc string
		cs   []ssa.CallInstruction
	}{{"appendHeader2Main", ahVia}, {"RestructChain", rcVia}} {
		eng.MustPassCall(c, "C27.canonical", fn, "putBlockHeader", func(ci ssa.CallInstruction) bool { return len(e.puts) > 0 && ci == e.puts[0].Instr }, ir.CallSinks(o.cs, o.desc), o.desc, nil)
	}
	// the head that fork choice compares against is re-read after every canonical mutation:
	// between two canonical-index mutations (also across loop iterations) GetCurrentHeader is called again
	var muts []ssa.CallInstruction
	muts = append(muts, ahVia...)
	for _, v := range rcVia {
		dup := false
		for _, m := range muts {
			if m == v {
				dup = true
			}
		}
		if !dup {
			muts = append(muts, v)
		}
	}
	for _, m := range muts {
		blk := m.Block()
		var next ssa.Instruction
		for i, in := range blk.Instrs {
			if in == ssa.Instruction(m) && i+1 < len(blk.Instrs) {
				next = blk.Instrs[i+1]
			}
		}
		if next == nil {
			c.Broken("C27.fresh-head", fn, "instruction after canonical mutation", c.P.Rel(m.Pos()), "not found")
			continue
		}
		// a mutation helper that reads the current head itself, before its own mutations, is fresh by construction
		if h := m.Common().StaticCallee(); h != nil && h.Pkg == fn.Pkg && !ir.CalleeIs(m, ah) && !ir.CalleeIs(m, rc) {
			inner := append(ir.CallsTo(h, ah), ir.CallsTo(h, rc)...)
			if len(inner) > 0 && len(ir.CallsTo(h, gch)) > 0 {
				eng.MustPassCall(c, "C27.fresh-head", h, "GetCurrentHeader", eng.CallPred(gch), ir.CallSinks(inner, "canonical mutation"), "canonical mutation (head read inside the mutation helper)", nil)
				continue
			}
		}
		name := "canonical mutation following " + ir.CalleeObj(m).Name() + " (same transaction)"
		eng.MustPassCall(c, "C27.fresh-head", fn, "GetCurrentHeader", eng.CallPred(gch), ir.CallSinks(muts, name), name, &eng.Opt{Start: next})
	}
	checkEthHeadPointer(c)
	checkRestructHeights(c)
	checkBtcCommitHeader(c)
	checkBtcCumulativeWork(c)
}

func checkBtcCommitHeader(c *core.Ctx) {
	pkg := "native/service/header_sync/btc"
	fn := c.Fn(pkg, "commitHeader")
	if fn == nil {
		return
	}
	gph := eng.Obj(c, pkg, "GetPreviousHeader")
	chk := eng.Obj(c, pkg, "CheckHeader")
	pbh := eng.Obj(c, pkg, "putBlockHeader")
	if gph == nil || chk == nil || pbh == nil {
		c.Note("btc: helper names differ; commitHeader analysed by callee names")
	}
	var puts []ir.Sink
	for _, ci := range ir.Calls(fn, nil) {
		if o := ir.CalleeObj(ci); o != nil && o.Name() == "putBlockHeader" {
			puts = append(puts, ir.Sink{Instr: ci, Note: "putBlockHeader"})
		}
	}
	c.Floor("putBlockHeader in btc.commitHeader", len(puts), 1)
	if len(puts) == 0 {
		return
	}
	eng.Dominates(c, "C27.btc", fn, eng.NamedGuard{Name: "parent is the stored tip ∨ GetPreviousHeader err==nil", G: ir.Or(
		ir.ErrNil(func(cl *ssa.Call) bool {
			o := ir.CalleeObj(cl)
			return o != nil && (o.Name() == "GetPreviousHeader" || o.Name() == "GetHeaderByHash")
		}),
		ir.BoolIs(func(cl *ssa.Call) bool {
			o := ir.CalleeObj(cl)
			if o == nil || o.Name() != "IsEqual" {
				return false
			}
			fa, ok := cl.Common().Args[0].(*ssa.FieldAddr)
			return ok && fieldNameOf(fa) == "PrevBlock"
		}, true))}, puts, "putBlockHeader", nil)
	eng.Dominates(c, "C27.btc", fn, eng.NamedGuard{Name: "GetBestBlockHeader err==nil", G: ir.ErrNil(func(cl *ssa.Call) bool {
		o := ir.CalleeObj(cl)
		return o != nil && o.Name() == "GetBestBlockHeader"
	})}, puts, "putBlockHeader", nil)
	// best header switches only on strictly greater cumulative work
	var bests []ir.Sink
	for _, ci := range ir.Calls(fn, nil) {
		if o := ir.CalleeObj(ci); o != nil && (o.Name() == "putBestBlockHeader" || o.Name() == "putBlockHash") {
			bests = append(bests, ir.Sink{Instr: ci, Note: o.Name()})
		}
	}
	c.Floor("best-header updates in btc.commitHeader", len(bests), 2)
	var cum ssa.Value
	strict := cmpGuard("cumulativeWork.Cmp(best.totalWork) == 1", func(b *ssa.BinOp) (bool, bool) {
		cmp := calleeNamed(b.X, "Cmp")
		if cmp == nil {
			return false, false
		}
		k, okk := ir.ConstInt(b.Y)
		if !okk || !isFieldNamed(cmp.Common().Args[1], "totalWork") {
			return false, false
		}
		cum = cmp.Common().Args[0]
		switch {
		case b.Op == token.EQL && k == 1, b.Op == token.GTR && k == 0:
			return true, true
		}
		return false, false
	})
	// newTip is a flag set under the strict comparison; the updates are under `if newTip`
	flag := eng.NamedGuard{Name: "newTip", G: func(cd ir.Cond) (bool, bool) {
		p, ok := cd.V.(*ssa.Phi)
		if !ok {
			return false, false
		}
		for _, l := range eng.PhiLeaves(nil, p) {
			if _, isK := ir.ConstBool(l); !isK {
				return false, false
			}
		}
		return true, true
	}}
	eng.Dominates(c, "C27.btc", fn, flag, bests, "best-header update", nil)
	// the flag's true definition is under the strict comparison
	var trueDefs []ir.Sink
	for _, b := range fn.Blocks {
		for _, in := range b.Instrs {
			if p, ok := in.(*ssa.Phi); ok {
				for i, e := range p.Edges {
					if k, isK := ir.ConstBool(e); isK && k {
						pred := b.Preds[i]
						trueDefs = append(trueDefs, ir.Sink{Instr: p, Via: &ir.Edge{From: pred, Idx: indexOfSucc(pred, b)}, Note: "newTip = true"})
					}
				}
			}
		}
	}
	if len(trueDefs) > 0 {
		eng.Dominates(c, "C27.btc", fn, strict, trueDefs, "newTip = true", nil)
	} else {
		c.Broken("C27.btc", fn, "newTip = true definition", c.P.Rel(fn.Pos()), "not found")
	}
	// height and total work of the stored header
	for _, s := range puts {
		al, ok := ir.Strip(s.Instr.(ssa.CallInstruction).Common().Args[2]).(*ssa.Alloc)
		if !ok {
			if u, isU := s.Instr.(ssa.CallInstruction).Common().Args[2].(*ssa.UnOp); isU {
				al, ok = u.X.(*ssa.Alloc)
			}
		}
		okH, okW := false, false
		if ok {
			for _, ref := range *al.Referrers() {
				if fa, isFA := ref.(*ssa.FieldAddr); isFA {
					for _, r2 := range *fa.Referrers() {
						if st, isSt := r2.(*ssa.Store); isSt && st.Addr == ssa.Value(fa) {
							switch fieldNameOf(fa) {
							case "Height":
								if add, isB := st.Val.(*ssa.BinOp); isB && add.Op == token.ADD && isFieldNamed(add.X, "Height") {
									if k, okk := ir.ConstInt(add.Y); okk && k == 1 {
										okH = true
									}
								}
							case "totalWork":
								if add := calleeNamed(st.Val, "Add"); add != nil {
									a := add.Common().Args
									okW = (isFieldNamed(a[1], "totalWork") && calleeNamed(a[2], "CalcWork") != nil) || (isFieldNamed(a[2], "totalWork") && calleeNamed(a[1], "CalcWork") != nil)
									if cum != nil && ir.Strip(cum) != ir.Strip(st.Val) {
										okW = false
									}
								}
							}
						}
					}
				}
			}
		}
		c.Decide(okH, "C27.btc", fn, "stored height = parent height + 1", c.P.Rel(s.Instr.Pos()), "")
		c.Decide(okW, "C27.btc", fn, "stored total work = parent total work + CalcWork(bits), the value compared with the best header's", c.P.Rel(s.Instr.Pos()), "")
	}
	eng.Dominates(c, "C27.btc", fn, eng.NamedGuard{Name: "CheckHeader passes", G: ir.Or(
		ir.ErrNil(func(cl *ssa.Call) bool { o := ir.CalleeObj(cl); return o != nil && o.Name() == "CheckHeader" }),
		ir.BoolIs(func(cl *ssa.Call) bool { o := ir.CalleeObj(cl); return o != nil && o.Name() == "CheckHeader" }, true))}, puts, "putBlockHeader", nil)
}

func runC28(c *core.Ctx) {
	checkLondonDecidedByHeight(c, "C28.era-by-height")
	checkEthashSizeStep(c)
	nGS := checkCmpGuardsSub(c, "C28.guard-use-agreement", pkEthHS)
	c.Floor("guarded big-integer subtractions in the ETH header rules", nGS, 1)
	e := ethContext(c)
	if e == nil {
		return
	}
	checkBaseFeeShape(c)
	fn := e.fn
	vg := eng.Obj(c, pkEthHS, "VerifyGaslimit")
	v1559 := eng.Obj(c, pkEthHS, "VerifyEip1559Header")
	vh := eng.Obj(c, pkEthHS, "ETHHandler.verifyHeader")
	if vg == nil || v1559 == nil || vh == nil {
		return
	}
	// timestamp after parent
	eng.Dominates(c, "C28.reject", fn, cmpGuard("header.Time > parent.Time", func(b *ssa.BinOp) (bool, bool) {
		if !isFieldNamed(b.X, "Time") || !isFieldNamed(b.Y, "Time") {
			return false, false
		}
		bx, _, _ := fieldLoad(b.X)
		by, _, _ := fieldLoad(b.Y)
		if e.isHeader(bx) && e.isParent(by) {
			switch b.Op {
			case token.LEQ:
				return true, false
			case token.GTR:
				return true, true
			}
		}
		return false, false
	}), e.puts, "putBlockHeader", nil)
	eng.Dominates(c, "C28.reject", fn, cmpGuard("len(Extra) <= MaximumExtraDataSize", func(b *ssa.BinOp) (bool, bool) {
		if b.Op != token.GTR {
			return false, false
		}
		cv, ok := b.X.(*ssa.Convert)
		if !ok || !eng.IsLenOf(func(v ssa.Value) bool { return isFieldNamed(v, "Extra") })(cv.X) {
			return false, false
		}
		return true, false
	}), e.puts, "putBlockHeader", nil)
	eng.Dominates(c, "C28.reject", fn, cmpGuard("GasUsed <= GasLimit", func(b *ssa.BinOp) (bool, bool) {
		if b.Op == token.GTR && isFieldNamed(b.X, "GasUsed") && isFieldNamed(b.Y, "GasLimit") {
			return true, false
		}
		return false, false
	}), e.puts, "putBlockHeader", nil)
	eng.Dominates(c, "C28.reject", fn, cmpGuard("GasLimit <= 2^63-1", func(b *ssa.BinOp) (bool, bool) {
		if b.Op == token.GTR && isFieldNamed(b.X, "GasLimit") {
			if k, ok := ir.ConstInt(b.Y); ok && k == 0x7fffffffffffffff {
				return true, false
			}
		}
		return false, false
	}), e.puts, "putBlockHeader", nil)
	// gas / 1559: err phi of the two verifiers
	eng.Dominates(c, "C28.reject", fn, eng.NamedGuard{Name: "VerifyEip1559Header / VerifyGaslimit err==nil", G: func(cd ir.Cond) (bool, bool) {
		x, neq, ok := ir.NilCmp(cd.V)
		if !ok || !ir.IsErrorType(x.Type()) {
			return false, false
		}
		// the error tested is, on every path, the result of one of the two verifiers (a phi of both in
		// SyncBlockHeader itself, or one of them per return of a helper that forwards it)
		leaves := eng.PhiLeaves(nil, x)
		if len(leaves) == 0 {
			return false, false
		}
		for _, l := range leaves {
			if !isCallTo(l, vg) && !isCallTo(l, v1559) {
				return false, false
			}
		}
		return true, !neq
	}}, e.puts, "putBlockHeader", nil)
	for _, v := range []*types.Func{vg, v1559} {
		vv := v
		n := len(ir.CallsThrough(fn, func(ci ssa.CallInstruction) bool { return ir.CalleeIs(ci, vv) }, 2))
		c.Decide(n >= 1, "C28.reject", fn, vv.Name()+" is applied to the header (directly or through a helper)", c.P.Rel(fn.Pos()), sprintf("%d call site(s)", n))
	}
	// difficulty
	var expected ssa.Value
	eng.Dominates(c, "C28.reject", fn, cmpGuard("expectedDifficulty.Cmp(header.Difficulty) == 0", func(b *ssa.BinOp) (bool, bool) {
		cmp := calleeNamed(b.X, "Cmp")
		if cmp == nil || (b.Op != token.NEQ && b.Op != token.EQL) {
			return false, false
		}
		if k, ok := ir.ConstInt(b.Y); !ok || k != 0 {
			return false, false
		}
		if !isFieldNamed(cmp.Common().Args[1], "Difficulty") {
			return false, false
		}
		expected = cmp.Common().Args[0]
		return true, b.Op == token.EQL
	}), e.puts, "putBlockHeader", nil)
	eng.Dominates(c, "C28.reject", fn, eng.ErrNilOf("verifyHeader (proof of work)", vh), e.puts, "putBlockHeader", nil)
	// era dispatch decision table
	var eraHost *ssa.Function
	if expected != nil {
		leaves := eng.PhiLeaves(nil, expected)
		// the dispatch may sit in a same-package helper that returns the expected difficulty
		if len(leaves) == 1 {
			if cl, _ := ir.CallOf(leaves[0]); cl != nil {
				if h := cl.Common().StaticCallee(); h != nil && h.Pkg == fn.Pkg && h.Parent() == nil && len(h.Blocks) > 1 && h.Name() != "difficultyCalculator" {
					var ls []ssa.Value
					for _, hb := range h.Blocks {
						if ret, isRet := hb.Instrs[len(hb.Instrs)-1].(*ssa.Return); isRet && len(ret.Results) == 1 {
							ls = append(ls, eng.PhiLeaves(nil, ret.Results[0])...)
						}
					}
					if len(ls) > 1 {
						leaves, eraHost = ls, h
						defer ir.BindParams(h, cl.Common().Args)()
						c.Attribute(h, fn)
					}
				}
			}
		}
		var eras []string
		for _, l := range leaves {
			cl, _ := ir.CallOf(l)
			if cl == nil {
				eras = append(eras, "?")
				continue
			}
			// makeDifficultyCalculator(big.NewInt(K))(…) or difficultyCalculator(…)
			if inner, _ := ir.CallOf(cl.Common().Value); inner != nil {
				if bn := calleeNamed(inner.Common().Args[0], "NewInt"); bn != nil {
					if k, ok := ir.ConstInt(bn.Common().Args[0]); ok {
						eras = append(eras, sprintf("bomb-delay %d", k))
						continue
					}
				}
			}
			if f := cl.Common().StaticCallee(); f != nil {
				eras = append(eras, "legacy "+f.Name())
				continue
			}
			eras = append(eras, "?")
		}
		want := map[string]bool{"bomb-delay 10700000": true, "bomb-delay 9700000": true, "legacy difficultyCalculator": true}
		okT := len(eras) == 3
		for _, x := range eras {
			if !want[x] {
				okT = false
			}
		}
		c.Decide(okT, "C28.era-table", fn, "difficulty era dispatch = {ArrowGlacier: 10 700 000, London: 9 700 000, else legacy calculator}", c.P.Rel(fn.Pos()), sprintf("%v", eras))
		// each era's calculator is selected by the era predicates applied to the header under verification
		wantSel := map[string]string{"bomb-delay 10700000": "isArrowGlacier=true", "bomb-delay 9700000": "isArrowGlacier=false isLondon=true", "legacy difficultyCalculator": "isArrowGlacier=false isLondon=false"}
		for i, l := range leaves {
			if i >= len(eras) || wantSel[eras[i]] == "" {
				continue
			}
			li, isI := l.(ssa.Instruction)
			if !isI {
				continue
			}
			var sel []string
			blk := li.Block()
			for a := blk.Idom(); a != nil; a = a.Idom() {
				iff, okIf := a.Instrs[len(a.Instrs)-1].(*ssa.If)
				if !okIf {
					continue
				}
				cl, isCall := iff.Cond.(*ssa.Call)
				if !isCall || cl.Common().StaticCallee() == nil {
					continue
				}
				nm := cl.Common().StaticCallee().Name()
				if nm != "isArrowGlacier" && nm != "isLondon" {
					continue
				}
				t, f := a.Succs[0], a.Succs[1]
				onT := (t == blk || t.Dominates(blk)) && len(t.Preds) == 1
				onF := (f == blk || f.Dominates(blk)) && len(f.Preds) == 1
				if onT == onF {
					continue
				}
				sel = append(sel, sprintf("%s=%v", nm, onT))
			}
			sort.Strings(sel)
			c.Decide(strings.Join(sel, " ") == wantSel[eras[i]], "C28.era-table", fn, "calculator "+eras[i]+" selected exactly under "+wantSel[eras[i]], c.P.Rel(l.Pos()), "selected under "+strings.Join(sel, " "))
			// arguments: (header.Time, parent)
			if cl, _ := ir.CallOf(l); cl != nil && len(cl.Common().Args) == 2 {
				c.Decide(e.isParent(cl.Common().Args[1]), "C28.era-table", fn, "calculator "+eras[i]+" is applied to the stored parent", c.P.Rel(l.Pos()), "")
			}
		}
	}
	// every era predicate in SyncBlockHeader is evaluated on the header under verification (not its parent)
	nPred := 0
	predBlocks := append([]*ssa.BasicBlock{}, fn.Blocks...)
	if eraHost != nil {
		predBlocks = append(predBlocks, eraHost.Blocks...)
	}
	// … and in the other same-package helpers SyncBlockHeader hands the header to (their parameters bound
	// to the call's arguments, so "the header under verification" is still recognised)
	for _, ci := range ir.Calls(fn, func(ci ssa.CallInstruction) bool {
		h := ci.Common().StaticCallee()
		return h != nil && h != fn && h != eraHost && h.Pkg == fn.Pkg && h.Parent() == nil && len(h.Blocks) > 0 && len(h.Blocks) <= 40 && h.Name() != "isArrowGlacier" && h.Name() != "isLondon" && !token.IsExported(h.Name()) && h.Signature.Recv() == nil
	}) {
		h := ci.Common().StaticCallee()
		uses := false
		for _, hb := range h.Blocks {
			for _, in := range hb.Instrs {
				if cl, ok := in.(*ssa.Call); ok && cl.Common().StaticCallee() != nil {
					if nm := cl.Common().StaticCallee().Name(); (nm == "isArrowGlacier" || nm == "isLondon") && cl.Common().StaticCallee().Pkg == fn.Pkg {
						uses = true
					}
				}
			}
		}
		if uses {
			defer ir.BindParams(h, ci.Common().Args)()
			c.Attribute(h, fn)
			predBlocks = append(predBlocks, h.Blocks...)
		}
	}
	for _, b := range predBlocks {
		for _, in := range b.Instrs {
			cl, ok := in.(*ssa.Call)
			if !ok || cl.Common().StaticCallee() == nil {
				continue
			}
			nm := cl.Common().StaticCallee().Name()
			if (nm != "isArrowGlacier" && nm != "isLondon") || cl.Common().StaticCallee().Pkg != fn.Pkg {
				continue
			}
			nPred++
			c.Decide(e.isHeader(cl.Common().Args[0]), "C28.era-table", fn, sprintf("%s #%d is evaluated on the header under verification", nm, nPred), c.P.Rel(cl.Pos()), "")
		}
	}
	c.Floor("era predicate calls in eth.SyncBlockHeader", nPred, 3)
	// the era predicates themselves: true only from the configured fork height on (h.Number >= height for the node's network)
	for _, spec := range []struct{ fn, getter string }{{"isArrowGlacier", "GetEth4345Height"}, {"isLondon", "GetEth1559Height"}} {
		pf := c.Fn(pkEthHS, spec.fn)
		if pf == nil {
			continue
		}
		isNumber := func(v ssa.Value) bool {
			cl := calleeNamed(v, "Uint64")
			return cl != nil && isFieldNamed(cl.Common().Args[0], "Number")
		}
		isHeight := func(v ssa.Value) bool {
			cl := calleeNamed(v, spec.getter)
			return cl != nil && isFieldNamed(cl.Common().Args[0], "NetworkId")
		}
		g := relGuard("h.Number >= "+spec.getter+"(NetworkId)", isNumber, isHeight, token.GEQ)
		trueS := ir.BoolReturnSinks(pf, 0, true)
		if spec.fn == "isLondon" {
			// isLondon is also true for a header that carries a base fee, and honours the test switch
			g = eng.NamedGuard{Name: "h.BaseFee != nil ∨ h.Number >= GetEth1559Height(NetworkId) ∨ test switch", G: ir.Or(g.G,
				func(cd ir.Cond) (bool, bool) {
					x, neq, ok := ir.NilCmp(cd.V)
					if ok && isFieldNamed(x, "BaseFee") {
						return true, neq
					}
					return false, false
				},
				func(cd ir.Cond) (bool, bool) {
					if globalName(cd.V) == "isTest" {
						return true, true
					}
					return false, false
				})}
		}
		c.Floor("true answers of "+spec.fn, len(trueS), 1)
		eng.Dominates(c, "C28.era-table", pf, g, trueS, spec.fn+" answers true", nil)
	}
	// VerifyGaslimit
	if f := c.Fn(pkEthHS, "VerifyGaslimit"); f != nil {
		succ := ir.SuccessSinks(f)
		eng.Dominates(c, "C28.gaslimit", f, cmpGuard("|parent−header| < parent/GasLimitBoundDivisor", func(b *ssa.BinOp) (bool, bool) {
			// `diff >= limit` fails / `diff < limit` passes; limit may be named or written inline
			if b.Op != token.GEQ && b.Op != token.LSS {
				return false, false
			}
			d, ok := ir.Strip(b.Y).(*ssa.BinOp)
			if !ok || d.Op != token.QUO {
				return false, false
			}
			return true, b.Op == token.LSS
		}), succ, "nil return", nil)
		eng.Dominates(c, "C28.gaslimit", f, cmpGuard("headerGasLimit >= MinGasLimit", func(b *ssa.BinOp) (bool, bool) {
			if b.Op == token.LSS && paramNamed("headerGasLimit")(b.X) {
				if k, ok := ir.ConstInt(b.Y); ok && k == 5000 {
					return true, false
				}
			}
			return false, false
		}), succ, "nil return", nil)
	}
	if f := c.Fn(pkEthHS, "VerifyEip1559Header"); f != nil {
		succ := ir.SuccessSinks(f)
		eng.Dominates(c, "C28.eip1559", f, eng.ErrNilOf("VerifyGaslimit", vg), succ, "nil return", nil)
		eng.Dominates(c, "C28.eip1559", f, cmpGuard("header.BaseFee != nil", func(b *ssa.BinOp) (bool, bool) {
			x, neq, ok := ir.NilCmp(b)
			if !ok || !isFieldNamed(x, "BaseFee") {
				return false, false
			}
			return true, neq
		}), succ, "nil return", nil)
		eng.Dominates(c, "C28.eip1559", f, cmpGuard("header.BaseFee.Cmp(CalcBaseFee(parent)) == 0", func(b *ssa.BinOp) (bool, bool) {
			cmp := calleeNamed(b.X, "Cmp")
			if cmp == nil || (b.Op != token.NEQ && b.Op != token.EQL) {
				return false, false
			}
			if calleeNamed(cmp.Common().Args[1], "CalcBaseFee") == nil || !isFieldNamed(cmp.Common().Args[0], "BaseFee") {
				return false, false
			}
			return true, b.Op == token.EQL
		}), succ, "nil return", nil)
	}
}
