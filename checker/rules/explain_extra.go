package rules

import "polyverif/core"

// Clauses added to the checks after their Explain text was written (one line per
// rule added when a seeded change was missed).  They are appended to the
// explanation printed by `polyverif list` and stored in the evidence.
func init() {
	add := core.AddExplain
	add("C01", "full-read: in common and common/serialization every stream read goes through io.ReadFull / io.ReadAtLeast / binary.Read; a direct Reader.Read must consume the count it returns.")
	add("C01", "reserved-bytes-written: in every ZeroCopySink method every return reachable from a NextBytes reservation passes a write into the reserved slice (NextBytes does not clear re-used capacity).")
	add("C02", "count-matches-elements: in every encoder of core/types and core/payload each iteration of a collecting/emitting loop executes its append/Write, and a Write(len(.Z)) count directly before a loop over .S has Z ≡ S.")
	add("C04", "count-matches-elements (as C02, for every encoder under native/, core/states, common/config); bound-accepts-encoder-output: a wire count is refused only when it EXCEEDS source.Len()/k (the non-strict form rejects boundary encodings the encoder emits).")
	add("C05", "count-matches-elements for the p2p message encoders.")
	add("C08", "state-store key prefixes are pairwise distinct; block-root-bound: every store operation of submitBlock is dominated by Height==0 ∨ GetBlockRootWithPreBlockHashes(Height,[PrevBlockHash]) == Header.BlockRoot, and the accumulator leaf appended on save is block.Header.PrevBlockHash.")
	add("C11", "every layer mutator records unconditionally and reads nothing first; CacheDB.Commit's per-entry callback forwards every entry (Put, or Delete for an empty value) on every path; reads-record-nothing: MemDB.Put / MemDB.Delete are called only from OverlayDB.Put/Delete, CacheDB.put/delete (and MemDB.Delete itself).")
	add("C12", "the progress marker recovery compares is the state store's own (a marker taken from another store is a violation).")
	add("C13", "height-under-lock: in SubmitBlock and saveBlock every read of the current height follows the saving-lock acquisition, a height read lies between the acquisition and submitBlock (genesis short-circuit excepted), and submitBlock is called only from those two and genesis initialisation; the accumulator leaf appended is block.Header.PrevBlockHash on every success path of saveBlockToStateStore.")
	add("C14", "the signer mask is allocated once outside the per-signature loop; the membership loop runs over the whole bookkeeper list; handover-is-announced-set: every write into a map[string]uint32 peer table of the ledger store is (p.ID, p.Index) for p in a chain configuration's Peers.")
	add("C15", "MemDB.Reset restores the constructor state (node array cut to the head node, every forward pointer of the head cleared by a constant-bounded loop, scalars reset) and CacheDB.Reset reaches it; committed-delete-visible: OverlayDB.Get and CacheDB.get consult the layer below only on MemDB's `unknown` answer (a tombstone is an answer).")
	add("C16", "early-break rule for map ranges with effects; every sort.Slice/SliceStable comparator is a strict order on the slice being sorted.")
	add("C17", "the UpdateFee round key is built from the current view; ledger-tag: every CheckConsensusSigns call site passes a string-constant tag no other action uses, tags prefix-free; params-in-key: every identifying parameter of a pure reader accessor (one CacheDB.Get, no write) in the native contracts flows into the key it reads.")
	add("C18", "operator-derivation: GetCurConOperator takes the current view's pool, appends a peer key only under Status == ConsensusStatus and for every such peer, and returns AddressFromBookkeepers over those keys only when err == nil.")
	add("C20", "rejected-leaves-nothing: executeBlock resets the per-transaction cache before every handleTransaction on every path, HandleInvokeTransaction commits it only under Invoke err==nil, MemDB.Reset is total; marker-never-empty: the value of every CacheDB.Put in the native contracts is GenRawStorageItem(…) (an empty value reads as deleted at every layer; one frozen exception); accessor-keys for the btc/ripple/consensus_vote managers; BTC done-marker id = proven txid.")
	add("C21", "quit-unregisters: a consensus-approved ApproveQuitSideChain deletes exactly the key GetSideChain reads on every path to its final success return.")
	add("C22", "the request key carries the relay transaction hash and the announced key equals the stored key; accepted⇒outbound: every return of ImportExTransfer whose error may be nil and that carries a verified message has passed an outbound MakeTransaction.")
	add("C23", "hex-quantity: every numeric parse of a Replace0x-stripped proof field uses base 16.")
	add("C25", "N of the threshold is the counter incremented per ConsensusStatus peer of the pool loop (a threshold over any other value is a violation).")
	add("C26", "accept-condition: the minimum change enters only as S >= target+mc (wrap-free); no-aliasing-append: append(sel[:i:j], u) has j ≡ i; sets-always-stored: every return of putTxos passes its CacheDB.Put (the empty list included).")
	add("C27", "the head pointer and the index entry are written unconditionally by appendHeader2Main; restruct-height: in RestructChain height == header.Number is an inductive invariant over the φ-nodes (height−1 whenever the header steps to its parent), the stack is popped downward while the height goes up; btc-work: cumulative work = Add(parent.totalWork, CalcWork(header.Bits)) of the header being committed.")
	add("C28", "base-fee step shape per branch; gas-limit bound strict; guard-use-agreement: under a.Cmp(b) >= 0 the guarded Sub(a, b') has b' ≡ b.")
	add("C29", "recent-signer window from the set in effect; repoint ×7 routers: the deletion loop starts at Number+1, steps by one and is left only on 'no assignment here' or an error, the overwrite walk starts at (Number−1, ParentHash), follows stored parents and ends only where the index agrees, the head is written at (Number, Hash()); span-contains-next-block: both bounds of bor's span test are taken against height+1; accessor-keys.")
	add("C30", "one-validator-per-slot: the validator whose key verifies the signature and whose power is tallied is validator[range index] of the tracked set, never looked up by an index or address recorded inside the vote.")
	add("C31", "key heights stored in ascending order; the new tracked consensus is (header index, header next-consensus); accessor-keys.")
	add("C33", "helper paths delete the pending request too; accessor-keys for node_manager, relayer_manager, neo3_state_manager, signature_manager.")
	add("C35", "ledger-tag (as C17) and quit-unregisters (as C21); accessor-keys.")
	add("C36", "whole-list loops in the approve methods; accessor-keys and ledger-tag for the relayer manager.")
	add("C37", "check-then-insert: no non-deferred unlock lies on a path from the membership lookup of a guarded map to the insertion into it.")
	add("C39", "address-from-declared-threshold: the validator and Transaction.GetSignatureAddresses derive a multi-key entry's address from (entry.PubKeys, entry.M).")
	add("C40", "the exclusion loop covers every excluded leader; exhaustion sentinel test; committer floor on the committer list.")
	add("C41", "one-commit-per-committer: from the same-committer edge of newBlockCommitment's scan neither the scan continues nor the commit is recorded.")
	add("C42", "a threshold replaced by a non-formula is a violation; commitdone-quorum: the count comparisons of commitDone use the tree Sub(Sub(N,1),C) over its parameters.")
	add("C43", "import-verbatim: ImportAccount stores verbatim every field getAccountMetadata mirrors; clone-deep-copy: each element of WalletData.Clone's Accounts is a fresh heap object holding a by-value copy, and the scrypt parameters are copied.")
	add("C44", "block-wrap: each length-prefixed field of vbft.Block.Serialize wraps a sink that received exactly one Serialization since creation/Reset; binary-codec-fields: BlockFetchRespMsg.Serialize writes receiver fields, exactly those Deserialize assigns.")
}
