package rules

import "polyverif/core"

// Clauses added in the fifth round of seeded changes (DESIGN 11.7, "Round 5").
func init() {
	add := core.AddExplain
	add("C01", "stream-length-exact: a non-empty success of the stream byte reader is dominated by io.ReadFull err==nil or by copied == int64(requested) exactly.")
	add("C04", "count-names-collection, map form: the count written before a sorted-keys loop is the length of the map the keys were collected from.")
	add("C07", "the running hash of a path fold is written only by HashLeaf / HashChildren results (no copy into it, no element store).")
	add("C08", "node-positions: a node-store position derived from the sub-tree table comes from getSubTreePos.")
	add("C11", "failed-tx-discarded: every transaction iteration of executeBlock passes the cache Reset before its handler.")
	add("C12", "replay-writes-what-submit-writes: the state-store writers of a block are issued only from saveBlockToStateStore, the routine crash replay re-runs.")
	add("C14", "a threshold that is arithmetic over the length of another collection than the tracked validator set is a violation.")
	add("C16", "no-sync-progress: the ledger's header-sync height/hash is not reachable from block execution.")
	add("C18", "pool-owner-is-applicant: the owner address stored with an approved candidate is the applicant's (GetPeerApply(...).Address).")
	add("C19", "marker-per-chain: an installed-check key of each handler is contract ++ literals ++ one fixed-width chain id.")
	add("C21", "router-height: every CheckRouterStartBlock site passes native.GetHeight() as the block height.")
	add("C27", "btc-reindex-keeps-new-tip: an index delete of the BTC re-index is dominated by i > newBlock.Height.")
	add("C30", "batch-tracks-height: within a batch the tracked height compared with each header is read where the previous header's height store reaches it.")
	add("C31", "the set of signer keys already seen is allocated outside the loop over the keys (shared with C19, C24).")
	add("C32", "vote-only-for-witnessed-approver: every CheckConsensusSigns site is dominated by ValidateOwner(approver) err==nil.")
	add("C34", "application-consumed: every success of ApproveCandidate under the quorum-reached fact passes the delete of the pending application.")
	add("C35", "vote-only-for-witnessed-approver (as C32).")
	add("C37", "verify-block-height: verifyBlock passes req.Height to setHeight before any transaction is assigned to a worker or re-verified.")
	add("C38", "contain-asks-store: ContainTransaction answers (false, nil) only after asking the underlying store.")
	add("C39", "key-count-bound-agreement: every comparison of a key count with the multi-signature limit accepts MAX exactly as it accepts MAX−1 and refuses MAX+1.")
	add("C40", "role-window: checkCalcEndorserOrCommitter, evaluated on the IR at P, P+E and P+E+C, answers false, true, true.")
	add("C41", "one entry, one counter: within the handling of one recorded message the increment of one vote counter is never followed by the increment of another.")
	add("C42", "threshold-operand: verifyHeader takes its acceptance thresholds over the tracked peer set (at most the legacy-fix comparison over the header's own key list).")
	add("C43", "the ciphertext ChangePassword puts back when saving fails is a copy taken before the new one was installed, never a pointer into the record.")
}
