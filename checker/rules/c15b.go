package rules

import (
	"golang.org/x/tools/go/ssa"

	"polyverif/core"
	"polyverif/eng"
	"polyverif/ir"
)

// checkResetBeforeTx: the per-transaction cache is what separates a rejected
// invocation from the block overlay — HandleInvokeTransaction commits it only on
// success, and executeBlock throws it away before the next transaction.  In
// executeBlock every handleTransaction call is preceded by cache.Reset() on every
// path (from entry and around the loop), on the very CacheDB it is handed.
// Shared by C15 (a failed transaction leaves nothing) and C20 (a rejected or
// replayed import leaves no done-marker, vote or message behind).
func checkRejectedLeavesNothing(c *core.Ctx, rule string) {
	checkResetBeforeTx(c, rule)
	hit := c.Fn(pkLedger, "StateStore.HandleInvokeTransaction")
	invoke := eng.Obj(c, pkNative, "NativeService.Invoke")
	commit := eng.Obj(c, pkStorage, "CacheDB.Commit")
	if hit == nil || invoke == nil || commit == nil {
		return
	}
	// directly, or through a private helper that finishes the successful transaction
	commits := ir.CallsThrough(hit, func(ci ssa.CallInstruction) bool { return ir.CalleeIs(ci, commit) }, 2)
	c.Floor("CacheDB.Commit calls in HandleInvokeTransaction", len(commits), 1)
	eng.Dominates(c, rule, hit, eng.ErrNilOf("NativeService.Invoke", invoke), ir.CallSinks(commits, "CacheDB.Commit"), "CacheDB.Commit", nil)
}

func checkResetBeforeTx(c *core.Ctx, rule string) {
	reset := eng.Obj(c, pkStorage, "CacheDB.Reset")
	eb := c.Fn(pkLedger, "LedgerStoreImp.executeBlock")
	ht := eng.Obj(c, pkLedger, "LedgerStoreImp.handleTransaction")
	if reset == nil || eb == nil || ht == nil {
		return
	}
	checkMemDBResetTotal(c, rule+"(memdb)")
	if cr := c.Fn(pkStorage, "CacheDB.Reset"); cr != nil {
		if mr := eng.Obj(c, pkOverlayDB, "MemDB.Reset"); mr != nil {
			var rets []ir.Sink
			for _, b := range cr.Blocks {
				if len(b.Instrs) > 0 {
					if r, ok := b.Instrs[len(b.Instrs)-1].(*ssa.Return); ok && b != cr.Recover {
						rets = append(rets, ir.Sink{Instr: r, Note: "return"})
					}
				}
			}
			eng.MustPassCall(c, rule+"(memdb)", cr, "MemDB.Reset", eng.CallPred(mr), rets, "return of CacheDB.Reset", nil)
		}
	}
	hts := ir.CallsTo(eb, ht)
	c.Floor("handleTransaction calls in executeBlock", len(hts), 1)
	eng.MustPassCall(c, rule, eb, "cache.Reset", eng.CallPred(reset), ir.CallSinks(hts, "handleTransaction"), "handleTransaction", nil)
	for _, h := range hts {
		eng.MustPassCall(c, rule+"(loop)", eb, "cache.Reset", eng.CallPred(reset), ir.CallSinks(hts, "handleTransaction"), "next handleTransaction", &eng.Opt{Start: h})
	}
	// the cache handed to handleTransaction is the one that was reset
	for _, h := range hts {
		cacheArg := ir.Strip(h.Common().Args[2])
		ok := false
		for _, r := range ir.CallsTo(eb, reset) {
			if ir.Strip(r.Common().Args[0]) == cacheArg {
				ok = true
			}
		}
		c.Decide(ok, rule, eb, "the CacheDB passed to handleTransaction is the one Reset() is called on", c.P.Rel(h.Pos()), "")
	}
}
