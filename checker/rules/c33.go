package rules

import (
	"golang.org/x/tools/go/ssa"

	"polyverif/core"
	"polyverif/eng"
	"polyverif/ir"
)

// C33 — approved governance requests are consumed.

type approvePair struct {
	pkg, method, getter string
}

var c33Pairs = []approvePair{
	{pkSCM, "ApproveRegisterSideChain", "getSideChainApply"},
	{pkSCM, "ApproveUpdateSideChain", "getUpdateSideChain"},
	{pkSCM, "ApproveQuitSideChain", "getQuitSideChain"},
	{pkRM, "ApproveRegisterRelayer", "getRelayerApply"},
	{pkRM, "ApproveRemoveRelayer", "getRelayerRemove"},
	{pkNeo3SM, "ApproveRegisterStateValidator", "getStateValidatorApply"},
	{pkNeo3SM, "ApproveRemoveStateValidator", "getStateValidatorRemove"},
	{pkNM, "ApproveCandidate", "GetPeerApply"},
}

func init() {
	core.Register(&core.Check{
		ID: "C33", Level: "other", Title: "Approved governance requests are consumed",
		Explain: "For each of the 8 approval methods with a pending-request record (frozen pairs method→request getter; the set of Approve* handlers is re-enumerated from NativeService.Register on every run and an unpaired one breaks the check): the storage key shape the getter reads (key-shape summary with the request id substituted from the call site) must be deleted by a CacheDB.Delete in the method whose key has the identical shape and, where the id is a fixed-width encoding, encodes the same SSA value as the getter's id argument; and every success return reached through the CheckConsensusSigns==true edge executes that Delete first (must-pass-through on the CFG with the not-yet-approved edge removed). NOT decided: the history statement itself (follows from delete + C32's sign-set reset).",
		Run:     runC33,
	})
}

func runC33(c *core.Ctx) {
	accessorPairs(c, "C33.accessor-keys", 16, pkNM, pkRM, "native/service/governance/neo3_state_manager", "native/service/governance/signature_manager")
	ccs := eng.Obj(c, pkNM, "CheckConsensusSigns")
	if ccs == nil {
		return
	}
	paired := map[*ssa.Function]bool{}
	for _, p := range c33Pairs {
		m := c.Fn(p.pkg, p.method)
		g := eng.Obj(c, p.pkg, p.getter)
		if m == nil || g == nil {
			continue
		}
		paired[m] = true
		sites, err := eng.KeySitesIn(c.P, m, 3)
		if err != nil {
			c.Broken("C33.consume", m, "key sites", "", err.Error())
			continue
		}
		var gets, dels []eng.KeySite
		for _, s := range sites {
			if s.Op == "Get" && s.TopCall != nil && ir.CalleeIs(s.TopCall, g) {
				gets = append(gets, s)
			}
			if s.Op == "Delete" {
				dels = append(dels, s)
			}
		}
		if len(gets) != 1 {
			c.Broken("C33.consume", m, "request getter "+p.getter, c.P.Rel(m.Pos()), sprintf("%d Get sites through the getter", len(gets)))
			continue
		}
		get := gets[0]
		var match *eng.KeySite
		var delShapes []string
		for i := range dels {
			d := dels[i]
			delShapes = append(delShapes, d.Shape.String())
			if d.Shape.Canon() != get.Shape.Canon() {
				continue
			}
			same := true
			for j := range d.Shape {
				a, b := d.Shape[j], get.Shape[j]
				if a.Kind == eng.AFix && a.Val != nil && b.Val != nil && !sameValue(a.Val, b.Val) {
					same = false
				}
			}
			if same {
				match = &dels[i]
			}
		}
		if match == nil {
			c.Violate("C33.consume", m, "pending request "+get.Shape.Canon()+" deleted on approval", c.P.Rel(m.Pos()),
				sprintf("%s reads the pending request under %s but the method deletes only %v: the approved request stays pending and can be applied again", p.getter, get.Shape.String(), delShapes))
			continue
		}
		c.Hold("C33.consume", m, "pending request "+get.Shape.Canon()+" deleted on approval", c.P.Rel(match.TopCall.Pos()), "same shape, same request id")
		// on every approved success path
		notApproved := eng.PassEdgesThrough(m, ir.BoolIs(ir.CallTo(ccs), false))
		if len(notApproved) == 0 {
			c.Broken("C33.consume-on-every-path", m, "CheckConsensusSigns test", c.P.Rel(m.Pos()), "no test of CheckConsensusSigns result")
			continue
		}
		delCall := match.TopCall
		eng.MustPassCall(c, "C33.consume-on-every-path", m, "Delete("+get.Shape.Canon()+")",
			func(ci ssa.CallInstruction) bool { return ci == delCall }, ir.SuccessSinks(m), "success return after approval",
			&eng.Opt{Cuts: notApproved, Fact: "CheckConsensusSigns returned true"})
		// when the delete sits in a helper, the helper must perform it on every successful path too
		for i := 1; i < len(match.Chain); i++ {
			callee := match.Chain[i].Parent()
			next := match.Chain[i]
			if callee == nil || callee == m {
				continue
			}
			// a delete that stands in the body of a loop over a non-empty constant list (`for _, prefix := range
			// []string{REQUEST, RECORD} { Delete(key(prefix, id)) }`) is executed for every element of the list
			inConstLoop := false
			for _, lp := range eng.FindSliceLoops(callee, func(v ssa.Value) bool { return len(eng.ConstStringList(v)) > 0 }) {
				if lp.Body == next.Block() || lp.Body.Dominates(next.Block()) {
					r := ir.NewReach(callee)
					r.Barrier[next] = true
					r.RunFromBlock(lp.Body)
					if !r.BlockEntered(lp.Header) && !func() bool {
						for _, s := range ir.SuccessSinks(callee) {
							if r.SinkReachable(s) {
								return true
							}
						}
						return false
					}() {
						inConstLoop = true
					}
				}
			}
			if inConstLoop {
				c.Hold("C33.consume-on-every-path", callee, "call Delete("+get.Shape.Canon()+") (in helper) ≺ successful return of the helper", c.P.Rel(next.Pos()), "every iteration of a loop over a non-empty constant list performs the delete")
				continue
			}
			eng.MustPassCall(c, "C33.consume-on-every-path", callee, "Delete("+get.Shape.Canon()+") (in helper)",
				func(ci ssa.CallInstruction) bool { return ci == next }, ir.SuccessSinks(callee), "successful return of the helper", nil)
		}
	}
	// completeness: every registered handler that calls CheckConsensusSigns and reads a request record
	for _, h := range Handlers(c) {
		if len(ir.CallsTo(h.Fn, ccs)) == 0 || paired[h.Fn] {
			continue
		}
		// approval-style handlers without a pending record (BlackNode, WhiteNode, UpdateFee): frozen list
		switch ir.FuncName(h.Fn) {
		case "native/service/governance/node_manager.BlackNode", "native/service/governance/node_manager.WhiteNode",
			"native/service/governance/side_chain_manager.UpdateFee":
			c.Hold("C33.paired", h.Fn, "approval without a pending request record", c.P.Rel(h.Fn.Pos()), "acts directly on pool / fee state")
		default:
			c.Violate("C33.paired", h.Fn, "approval handler has a request getter in the table", c.P.Rel(h.Fn.Pos()),
				"a handler that applies a request after CheckConsensusSigns must be paired with its pending-request getter")
		}
	}
	c.Floor("approval methods with a pending record", len(paired), 8)
}
