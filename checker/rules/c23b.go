package rules

import (
	"strings"

	"golang.org/x/tools/go/ssa"

	"polyverif/core"
	"polyverif/ir"
)

// C23 (continued) — completeness of the account proof: the verifier rebuilds
// the RLP of the proven account from the eth_getProof fields and compares it
// with the trie value.  The fields are JSON-RPC hex quantities; after
// Replace0x strips the prefix, every numeric parse must use base 16.  A field
// parsed in another base reproduces the account only when its digits happen to
// read the same, so valid deposits are rejected as soon as, e.g., the contract
// holds a balance ≥ 10 wei.
func checkHexQuantities(c *core.Ctx) {
	const rule = "C23.hex-quantity"
	n := 0
	for _, pk := range c.P.Mod {
		if pk.SSA == nil || pk.Types == nil {
			continue
		}
		rel := strings.TrimPrefix(pk.Types.Path(), ir.Mod+"/")
		if !strings.HasPrefix(rel, "native/service/cross_chain_manager/") {
			continue
		}
		for _, fn := range allFuncs(pk.SSA) {
			for _, ci := range ir.Calls(fn, func(ci ssa.CallInstruction) bool {
				o := ir.CalleeObj(ci)
				if o == nil || o.Pkg() == nil {
					return false
				}
				return (o.Pkg().Path() == "math/big" && o.Name() == "SetString") || (o.Pkg().Path() == "strconv" && (o.Name() == "ParseUint" || o.Name() == "ParseInt"))
			}) {
				a := ci.Common().Args
				// SetString(recv, s, base) / ParseUint(s, base, bits)
				si, bi := 1, 2
				if ir.CalleeObj(ci).Pkg().Path() == "strconv" {
					si, bi = 0, 1
				}
				if len(a) <= bi {
					continue
				}
				src, _ := ir.CallOf(a[si])
				if src == nil || ir.CalleeObj(src) == nil || ir.CalleeObj(src).Name() != "Replace0x" {
					continue
				}
				n++
				k, isK := ir.ConstInt(a[bi])
				field := ""
				if _, f, ok := fieldLoad(src.Common().Args[0]); ok {
					field = "." + f
				}
				c.Decide(isK && k == 16, rule, fn, "hex quantity"+field+" (0x stripped) is parsed in base 16", c.P.Rel(ci.Pos()), sprintf("base %d", k))
			}
		}
	}
	c.Floor("numeric parses of 0x-stripped proof fields", n, 12)
}
