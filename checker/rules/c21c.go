package rules

import (
	"golang.org/x/tools/go/ssa"

	"polyverif/core"
	"polyverif/eng"
	"polyverif/ir"
)

// checkQuitUnregisters — the import gate asks "is this chain registered" through
// side_chain_manager.GetSideChain only.  A consensus-approved quit must therefore
// delete exactly the record GetSideChain reads (same key shape), on every path to
// its final success return.  Deleting a look-alike key (the apply record) leaves
// the chain importable.  Shared by C21 (unregistered chains are refused) and C35
// (registry changes through request and approval).
func checkQuitUnregisters(c *core.Ctx, rule string) {
	gsc := c.Fn(pkSCM, "GetSideChain")
	aq := c.Fn(pkSCM, "ApproveQuitSideChain")
	ccs := eng.Obj(c, pkNM, "CheckConsensusSigns")
	if gsc == nil || aq == nil || ccs == nil {
		return
	}
	rs, err := eng.KeySitesIn(c.P, gsc, 0)
	var want eng.KeyShape
	for _, s := range rs {
		if s.Op == "Get" {
			want = s.Shape
		}
	}
	if err != nil || want == nil {
		c.Broken(rule, gsc, "key GetSideChain reads", c.P.Rel(gsc.Pos()), "not resolved")
		return
	}
	ds, err := eng.KeySitesIn(c.P, aq, 1)
	if err != nil {
		c.Broken(rule, aq, "key sites of ApproveQuitSideChain", c.P.Rel(aq.Pos()), err.Error())
		return
	}
	var dels []ssa.CallInstruction
	var other []string
	for _, s := range ds {
		if s.Op != "Delete" {
			continue
		}
		if s.Shape.Canon() == want.Canon() {
			call := s.TopCall
			if call == nil {
				call = s.Call
			}
			dels = append(dels, call)
		} else {
			other = append(other, s.Shape.String())
		}
	}
	if len(dels) == 0 {
		c.Violate(rule, aq, "an approved quit deletes the record GetSideChain reads ("+want.String()+")", c.P.Rel(aq.Pos()),
			sprintf("ApproveQuitSideChain deletes only %v: the chain stays registered and keeps passing the import gate", other))
		return
	}
	// every success return after the quorum passed goes through that delete
	quorum := eng.PassEdgesThrough(aq, ir.BoolIs(ir.CallTo(ccs), true))
	if len(quorum) == 0 {
		c.Broken(rule, aq, "CheckConsensusSigns == true edge", c.P.Rel(aq.Pos()), "not found")
		return
	}
	ok := true
	for _, e := range quorum {
		r := ir.NewReach(aq)
		for _, d := range dels {
			r.Barrier[d] = true
		}
		r.RunFromBlock(e.To())
		for _, s := range ir.SuccessSinks(aq) {
			if r.SinkReachable(s) {
				ok = false
			}
		}
	}
	c.Decide(ok, rule, aq, "an approved quit deletes the record GetSideChain reads ("+want.String()+")", c.P.Rel(dels[0].Pos()), "a success return is reachable from the quorum edge without the delete")
}
