package rules

import (
	"go/constant"
	"go/token"
	"go/types"
	"sort"
	"strings"

	"golang.org/x/tools/go/ssa"

	"polyverif/core"
	"polyverif/eng"
	"polyverif/ir"
)

// C05 — peer-to-peer frames are integrity-checked and round-trip.

const pkP2PCommon = "p2pserver/common"

func init() {
	core.Register(&core.Check{
		ID: "C05", Level: "other", Title: "Peer-to-peer frames are integrity-checked and round-trip",
		Technique: "codec schema agreement for every message type, registry exhaustiveness (command constants × MakeEmptyMessage arms × CmdType results), guard dominance in ReadMessage with value identity on the checked buffer, wire-bounded allocation and clamp rules",
		Explain:   "Decided statically. (Schema) every message type under p2pserver/ with both directions performs the same ordered wire operations when written and read; the frame header is written and read as u32 magic, 12 command bytes, u32 length, 4 checksum bytes. (Registry) every *_TYPE command constant has an arm in MakeEmptyMessage; the arm for constant k returns a type whose CmdType() returns k; every command fits MSG_CMD_LEN. (Reading) ReadMessage returns a message only after: the header was read; hdr.Magic == config NetworkMagic; hdr.Length <= MAX_PAYLOAD_LEN, and the payload buffer is allocated from hdr.Length only after that test; the payload was read in full; Checksum(buf) == hdr.Checksum for the very buffer that is then parsed; the command is the WHOLE 12-byte field with only trailing NULs trimmed (a frame whose padding is corrupted names no known command); MakeEmptyMessage err==nil; Deserialization(buf) err==nil. (Writing) WriteMessage checksums exactly the bytes after the header (buf[MSG_HDR_LEN:]), records their measured length and the message's CmdType(). Checksum is the first CHECKSUM_LEN bytes of sha256(sha256(data)). (Limits) the Inv and Addr decoders clamp their decoded counts to MAX_INV_BLK_CNT / MAX_ADDR_NODE_CNT before the count bounds a loop; no decoder under p2pserver/message sizes an allocation by an unbounded wire integer. NOT decided: 'every single-byte corruption is rejected' as such (it follows from these guards up to checksum collisions).",
		Run:       runC05,
	})
}

func runC05(c *core.Ctx) {
	checkAppendedElementsFresh(c, "C05.elements-fresh", 1, "p2pserver/message/types")
	c.Floor("zero-copy reads examined for lost end-of-input (p2p messages)", checkEofNotLost(c, "C05.eof-not-lost", funcsOfPkgs(c, "p2pserver/message/types", "p2pserver/common")), 20)
	checkEncoderCounts(c, "C05.count-matches-elements", func(rel string) bool { return strings.HasPrefix(rel, "p2pserver/message") }, 1, 1)
	n := checkCodecPairs(c, "C05.schema", func(p codecPair) bool { return strings.HasPrefix(p.Pkg, "p2pserver/") })
	c.Floor("codec pairs under p2pserver/", n, 14)
	decs := decoderFuncs(c, func(rel string) bool { return strings.HasPrefix(rel, "p2pserver/message") })
	_, nWire := checkWireAllocs(c, "C05.bounded-alloc", decs)
	c.Note("p2p decoders examined: %d, allocations sized by a wire integer: %d", len(decs), nWire)
	c.Floor("decoder functions under p2pserver/message", len(decs), 16)

	// ---- header codec
	rh := c.Fn(pkP2PTypes, "readMessageHeader")
	wh := c.Fn(pkP2PTypes, "writeMessageHeaderInto")
	if rh != nil && wh != nil {
		rk := strings.Join(eng.NormalizedKinds(eng.FlatCodec(rh)), " ")
		wk := strings.Join(eng.NormalizedKinds(eng.FlatCodec(wh)), " ")
		c.Decide(rk == "u32 bytes u32 bytes" && wk == "u32 bytes u32 bytes", "C05.schema", rh, "frame header = u32 magic, command bytes, u32 length, checksum bytes on both sides", c.P.Rel(rh.Pos()), "reader ["+rk+"] writer ["+wk+"]")
	}

	// ---- registry
	pkc := c.P.Pkgs[ir.PkgPath(pkP2PCommon)]
	pkt := c.P.Pkgs[ir.PkgPath(pkP2PTypes)]
	mem := c.Fn(pkP2PTypes, "MakeEmptyMessage")
	if pkc != nil && pkt != nil && mem != nil {
		cmds := map[string]string{}
		sc := pkc.Types.Scope()
		for _, nme := range sc.Names() {
			k, ok := sc.Lookup(nme).(*types.Const)
			if !ok || !strings.HasSuffix(nme, "_TYPE") || k.Val().Kind() != constant.String {
				continue
			}
			cmds[constant.StringVal(k.Val())] = nme
		}
		c.Floor("command constants", len(cmds), 16)
		maxLen := int64(12)
		if v, err := c.P.Const(pkP2PCommon, "MSG_CMD_LEN"); err == nil {
			maxLen, _ = constInt64Val(v)
		}
		arms := map[string]*ssa.BasicBlock{}
		for _, cd := range ir.Conds(mem) {
			b, ok := cd.V.(*ssa.BinOp)
			if !ok || b.Op != token.EQL {
				continue
			}
			k, isK := b.Y.(*ssa.Const)
			if !isK || k.Value == nil || k.Value.Kind() != constant.String {
				continue
			}
			arms[constant.StringVal(k.Value)] = cd.If.Block().Succs[0]
		}
		var names []string
		for s := range cmds {
			names = append(names, s)
		}
		sort.Strings(names)
		for _, s := range names {
			c.Decide(int64(len(s)) <= maxLen, "C05.registry", mem, "command "+cmds[s]+" fits the command field", "", sprintf("%q", s))
			arm := arms[s]
			if arm == nil {
				c.Violate("C05.registry", mem, "command "+cmds[s]+" has an arm in MakeEmptyMessage", c.P.Rel(mem.Pos()), "")
				continue
			}
			var nt *types.Named
			for _, in := range arm.Instrs {
				if al, ok := in.(*ssa.Alloc); ok && al.Heap {
					nt = namedOf(al.Type().Underlying().(*types.Pointer).Elem())
				}
			}
			if nt == nil {
				c.Broken("C05.registry", mem, "arm "+cmds[s]+" constructs a message", c.P.Rel(mem.Pos()), "")
				continue
			}
			ct := declaredMethod(pkt.SSA.Prog, nt, pkt.Types, "CmdType")
			okT, got := false, "no CmdType method"
			if ct != nil {
				for _, b := range ct.Blocks {
					for _, in := range b.Instrs {
						if r, ok := in.(*ssa.Return); ok && len(r.Results) == 1 {
							if k, isK := r.Results[0].(*ssa.Const); isK && k.Value != nil && k.Value.Kind() == constant.String {
								got = constant.StringVal(k.Value)
								okT = got == s
							}
						}
					}
				}
			}
			c.Decide(okT, "C05.registry", mem, "arm "+cmds[s]+" returns a type whose CmdType() is that command", c.P.Rel(mem.Pos()), nt.Obj().Name()+".CmdType() = "+got)
		}
		for s := range arms {
			if _, ok := cmds[s]; !ok {
				c.Violate("C05.registry", mem, sprintf("arm %q corresponds to a command constant", s), c.P.Rel(mem.Pos()), "")
			}
		}
	}

	// ---- ReadMessage
	if fn := c.Fn(pkP2PTypes, "ReadMessage"); fn != nil {
		succ := nonNilParamSuccess(fn)
		c.Floor("message returns of ReadMessage", len(succ), 1)
		var hdrCall *ssa.Call
		eng.Dominates(c, "C05.read", fn, eng.NamedGuard{Name: "readMessageHeader err==nil", G: ir.ErrNil(func(x *ssa.Call) bool {
			if x.Common().StaticCallee() == rh {
				hdrCall = x
				return true
			}
			return false
		})}, succ, "message returned", nil)
		isHdrField := func(f string) func(ssa.Value) bool { return isFieldOf(f, nil) }
		eng.Dominates(c, "C05.read", fn, relGuard("hdr.Magic == NetworkMagic", isHdrField("Magic"), isHdrField("NetworkMagic"), token.EQL), succ, "message returned", nil)
		maxPay, err := c.P.Const(pkP2PCommon, "MAX_PAYLOAD_LEN")
		var bufMake *ssa.MakeSlice
		// the payload may be read (and checked) by a small same-package helper
		hosts, releaseHosts := hostsWithHelpers(fn)
		defer releaseHosts()
		for _, host := range hosts {
			for _, b := range host.Blocks {
				for _, in := range b.Instrs {
					if ms, ok := in.(*ssa.MakeSlice); ok && isHdrField("Length")(ms.Len) {
						bufMake = ms
					}
				}
			}
		}
		if err == nil && bufMake != nil {
			k, _ := constInt64Val(maxPay)
			var allocSite ssa.Instruction = bufMake
			if cl := callIn(fn, bufMake); cl != nil {
				allocSite = cl // the allocation happens inside this call
			}
			eng.Dominates(c, "C05.read", fn, relGuard("hdr.Length <= MAX_PAYLOAD_LEN", isHdrField("Length"), isConstInt(k), token.LEQ), []ir.Sink{{Instr: allocSite, Note: "payload buffer allocation"}}, "payload buffer sized by hdr.Length", nil)
		} else {
			c.Broken("C05.read", fn, "payload buffer make([]byte, hdr.Length) and MAX_PAYLOAD_LEN", c.P.Rel(fn.Pos()), "not found")
		}
		isBuf := func(v ssa.Value) bool {
			if bufMake == nil {
				return false
			}
			if ir.Strip(v) == ssa.Value(bufMake) {
				return true
			}
			via, release := valueVia(v) // the buffer a helper returns
			defer release()
			return via != v && ir.Strip(via) == ssa.Value(bufMake)
		}
		eng.Dominates(c, "C05.read", fn, eng.NamedGuard{Name: "io.ReadFull(reader, buf) err==nil", G: ir.ErrNil(func(x *ssa.Call) bool {
			return ir.IsPkgFunc(x, "io", "ReadFull") && isBuf(x.Common().Args[1])
		})}, succ, "message returned", nil)
		eng.Dominates(c, "C05.read", fn, relGuard("Checksum(buf) == hdr.Checksum", func(v ssa.Value) bool {
			cl, _ := ir.CallOf(v)
			if cl == nil {
				// array value held in a local: load of an alloc whose single store is the call
				if ld, ok := v.(*ssa.UnOp); ok {
					if al, isAl := ld.X.(*ssa.Alloc); isAl {
						cl, _ = ir.CallOf(ir.SingleStore(al))
					}
				}
			}
			return cl != nil && ir.CalleeObj(cl) != nil && ir.CalleeObj(cl).Name() == "Checksum" && isBuf(cl.Common().Args[0])
		}, isHdrField("Checksum"), token.EQL), succ, "message returned", nil)
		// command derivation
		var memCall *ssa.Call
		eng.Dominates(c, "C05.read", fn, eng.NamedGuard{Name: "MakeEmptyMessage(cmd) err==nil", G: ir.ErrNil(func(x *ssa.Call) bool {
			if x.Common().StaticCallee() == mem {
				memCall = x
				return true
			}
			return false
		})}, succ, "message returned", nil)
		if memCall != nil {
			okCmd, detail := false, "not a right-trim of the whole command field"
			v := memCall.Common().Args[0]
			if cv, ok := v.(*ssa.Convert); ok {
				v = cv.X
			}
			if tr, _ := ir.CallOf(v); tr != nil && (ir.IsPkgFunc(tr, "bytes", "TrimRight") || ir.IsPkgFunc(tr, "strings", "TrimRight")) {
				a := tr.Common().Args
				whole := false
				if sl, ok := a[0].(*ssa.Slice); ok && sl.Low == nil && sl.High == nil {
					if fa, isFa := sl.X.(*ssa.FieldAddr); isFa && fieldNameOf(fa) == "CMD" {
						whole = true
					}
				}
				cut := ""
				if k, isK := ir.Strip(a[1]).(*ssa.Const); isK && k.Value != nil && k.Value.Kind() == constant.String {
					cut = constant.StringVal(k.Value)
				}
				if cv, isCv := a[1].(*ssa.Convert); isCv {
					if k, okk := ir.ConstInt(cv.X); okk && k == 0 {
						cut = "\x00"
					}
				}
				okCmd = whole && cut == "\x00"
				detail = sprintf("whole field %v, cutset %q", whole, cut)
			}
			c.Decide(okCmd, "C05.read", fn, "the command is the whole CMD field with only trailing NULs trimmed", c.P.Rel(memCall.Pos()), detail)
			// the message parsed is the one constructed, from the checked buffer
			okParse := false
			for _, ci := range ir.Calls(fn, func(ci ssa.CallInstruction) bool {
				return ci.Common().IsInvoke() && ci.Common().Method.Name() == "Deserialization"
			}) {
				m, mi := ir.CallOf(ci.Common().Value)
				src, _ := ir.CallOf(ci.Common().Args[0])
				okParse = m == memCall && mi == 0 && src != nil && len(src.Common().Args) == 1 && isBuf(src.Common().Args[0])
				if cl, isCl := ci.(*ssa.Call); isCl {
					eng.Dominates(c, "C05.read", fn, eng.NamedGuard{Name: "msg.Deserialization(buf) err==nil", G: ir.ErrNil(func(x *ssa.Call) bool { return x == cl })}, succ, "message returned", nil)
				}
			}
			c.Decide(okParse, "C05.read", fn, "the constructed message is decoded from the checksummed buffer", c.P.Rel(memCall.Pos()), "")
		}
		_ = hdrCall
	}

	// ---- WriteMessage
	if fn := c.Fn(pkP2PTypes, "WriteMessage"); fn != nil {
		hdrLen := int64(24)
		if v, err := c.P.Const(pkP2PCommon, "MSG_HDR_LEN"); err == nil {
			hdrLen, _ = constInt64Val(v)
		}
		okSum, okLen, okCmd := false, false, false
		for _, ci := range ir.Calls(fn, func(ci ssa.CallInstruction) bool { o := ir.CalleeObj(ci); return o != nil && o.Name() == "Checksum" }) {
			if sl, ok := ci.Common().Args[0].(*ssa.Slice); ok && sl.High == nil {
				if lo, okl := ir.ConstInt(sl.Low); okl && lo == hdrLen {
					if nb := calleeNamed(sl.X, "NextBytes"); nb != nil {
						okSum = true
					}
				}
			}
		}
		for _, ci := range ir.Calls(fn, func(ci ssa.CallInstruction) bool {
			f := ci.Common().StaticCallee()
			return f != nil && f.Name() == "newMessageHeader"
		}) {
			a := ci.Common().Args
			if cl, _ := ir.CallOf(a[0]); cl != nil && cl.Common().IsInvoke() && cl.Common().Method.Name() == "CmdType" && cl.Common().Value == ssa.Value(fn.Params[1]) {
				okCmd = true
			}
			// length = (pend - pstart) - MSG_HDR_LEN
			if sub, ok := ir.Strip(a[1]).(*ssa.BinOp); ok && sub.Op == token.SUB {
				if k, okk := ir.ConstInt(sub.Y); okk && k == hdrLen {
					if inner, isI := ir.Strip(sub.X).(*ssa.BinOp); isI && inner.Op == token.SUB && calleeNamed(inner.X, "Size") != nil && calleeNamed(inner.Y, "Size") != nil {
						okLen = true
					}
				}
			}
		}
		c.Decide(okSum && okLen && okCmd, "C05.write", fn, "header = {CmdType(), measured payload length, Checksum(buf[MSG_HDR_LEN:])}", c.P.Rel(fn.Pos()), sprintf("checksum window %v length %v command %v", okSum, okLen, okCmd))
	}
	if fn := c.Fn(pkP2PCommon, "Checksum"); fn != nil {
		// applications of sha256.Sum256 in Checksum: direct calls, or calls of a module helper whose answer
		// is Sum256 of the argument it was handed
		type shaApp struct {
			call *ssa.Call
			arg  ssa.Value
		}
		var sums []shaApp
		for _, ci := range ir.Calls(fn, nil) {
			cl, isCall := ci.(*ssa.Call)
			if !isCall {
				continue
			}
			if ir.IsPkgFunc(ci, "crypto/sha256", "Sum256") {
				sums = append(sums, shaApp{cl, cl.Common().Args[0]})
				continue
			}
			via, release := valueVia(cl)
			if inner, isInner := via.(*ssa.Call); isInner && via != ssa.Value(cl) && ir.IsPkgFunc(inner, "crypto/sha256", "Sum256") {
				if pp, isP := inner.Common().Args[0].(*ssa.Parameter); isP {
					sums = append(sums, shaApp{cl, ir.Resolve(pp)})
				}
			}
			release()
		}
		okD := false
		if len(sums) == 2 {
			first, second := sums[0], sums[1]
			if ir.Strip(first.arg) == ssa.Value(fn.Params[0]) {
				if sl, ok := ir.Strip(second.arg).(*ssa.Slice); ok && sl.Low == nil && sl.High == nil {
					if al, isAl := sl.X.(*ssa.Alloc); isAl && ir.SingleStore(al) == ssa.Value(first.call) {
						okD = true
					}
				}
			}
		}
		c.Decide(okD, "C05.write", fn, "Checksum = leading bytes of sha256(sha256(data))", c.P.Rel(fn.Pos()), sprintf("%d Sum256 call(s)", len(sums)))
	}

	// ---- limits
	for _, spec := range []struct{ fn, konst string }{{"Inv.Deserialization", "MAX_INV_BLK_CNT"}, {"Addr.Deserialization", "MAX_ADDR_NODE_CNT"}} {
		fn := c.Fn(pkP2PTypes, spec.fn)
		kv, err := c.P.Const(pkP2PCommon, spec.konst)
		if fn == nil || err != nil {
			if err != nil {
				c.Broken("C05.limits", spec.fn, spec.konst, "", err.Error())
			}
			continue
		}
		k, _ := constInt64Val(kv)
		// the clamped count min(count, K): a phi of {count, K} selected by count > K, which either bounds the
		// decoding loop or truncates the list that is kept
		okClamp := false
		nLoops := 0
		var phis []*ssa.Phi
		for _, b := range fn.Blocks {
			for _, in := range b.Instrs {
				if p, isPhi := in.(*ssa.Phi); isPhi {
					phis = append(phis, p)
				}
			}
		}
		for _, bound := range phis {
			used := false
			if bound.Referrers() != nil {
				for _, r := range *bound.Referrers() {
					switch x := r.(type) {
					case *ssa.Slice:
						if x.High == ssa.Value(bound) {
							used = true
						}
					case *ssa.BinOp:
						if x.Op == token.LSS && x.Y == ssa.Value(bound) {
							used = true
						}
					case *ssa.Convert:
						used = true
					}
				}
			}
			if !used {
				continue
			}
			nLoops++
			hasK, hasWire := false, false
			for _, e := range bound.Edges {
				if v, okk := ir.ConstInt(e); okk && v == k {
					hasK = true
				}
				if r, _ := wireCount(e, 0); r != nil {
					hasWire = true
				}
			}
			// the wire value flows on only under count <= K
			if hasK && hasWire {
				pred := -1
				for i, e := range bound.Edges {
					if r, _ := wireCount(e, 0); r != nil {
						pred = i
					}
				}
				from := bound.Block().Preds[pred]
				if iff, isIf := from.Instrs[len(from.Instrs)-1].(*ssa.If); isIf {
					if cmp, isB := iff.Cond.(*ssa.BinOp); isB && cmp.Op == token.GTR {
						if v, okk := ir.ConstInt(cmp.Y); okk && v == k && from.Succs[1] == bound.Block() {
							okClamp = true
						}
					}
				}
			}
		}
		// shape-independent form: every re-slice x[:h] of the function has h <= K on every path
		// (a constant <= K, or a value that reaches the slice only under `h <= K`, per φ edge)
		if !(okClamp && nLoops >= 1) {
			nSl, allOk := 0, true
			for _, b := range fn.Blocks {
				for _, in := range b.Instrs {
					sl, isSl := in.(*ssa.Slice)
					if !isSl || sl.High == nil {
						continue
					}
					if _, isArr := sl.X.Type().Underlying().(*types.Pointer); isArr {
						continue
					}
					nSl++
					if !sliceBoundAtMost(fn, sl.High, k, sl, nil, 0) {
						allOk = false
					}
				}
			}
			okClamp, nLoops = allOk && nSl >= 1, nSl
		}
		c.Decide(okClamp && nLoops >= 1, "C05.limits", fn, "the list kept is limited to min(decoded count, "+spec.konst+")", c.P.Rel(fn.Pos()), sprintf("%d candidate phi(s)", nLoops))
	}
	nSl := checkWireSliceBounds(c, "C05.limits", decs)
	c.Note("re-slices bounded by a 64-bit wire count: %d", nSl)
}
