package rules

import (
	"go/token"
	"go/types"
	"strings"

	"golang.org/x/tools/go/ssa"

	"polyverif/core"
	"polyverif/ir"
)

// checkCountNamesMap: the map form of "the count names the collection".  A map
// field is written as  count, then (key, M[key]) for the keys in a sorted local
// list.  The count prefix written just before the emitting loop must be the
// length of the very map whose entries the loop writes (or of the key list
// collected from it): `len(this.AssetMap)` in front of the LockProxyMap entries
// makes the decoder read another number of entries than were written.
func checkCountNamesMap(c *core.Ctx, rule string, encoders []*ssa.Function) int {
	lenArg := func(v ssa.Value) ssa.Value {
		for d := 0; d < 4; d++ {
			if cv, ok := v.(*ssa.Convert); ok {
				v = cv.X
				continue
			}
			break
		}
		cl, ok := v.(*ssa.Call)
		if !ok {
			return nil
		}
		if bi, isB := cl.Common().Value.(*ssa.Builtin); !isB || bi.Name() != "len" {
			return nil
		}
		return cl.Common().Args[0]
	}
	n := 0
	for _, fn := range encoders {
		if fn.Parent() != nil || len(fn.Blocks) == 0 {
			continue
		}
		for _, cd := range ir.Conds(fn) {
			b, ok := cd.V.(*ssa.BinOp)
			if !ok || b.Op != token.LSS {
				continue
			}
			list := lenArg(b.Y)
			if list == nil {
				continue
			}
			if _, isSlice := list.Type().Underlying().(*types.Slice); !isSlice {
				continue
			}
			if _, _, isField := fieldLoad(list); isField {
				continue // slice fields are the other rule's business
			}
			hdr := cd.If.Block()
			body := hdr.Succs[cd.TrueIdx()]
			// the map whose entries the loop writes: a lookup M[key] on a map-typed field inside the loop
			var emitted ssa.Value
			seen := map[*ssa.BasicBlock]bool{}
			work := []*ssa.BasicBlock{body}
			for len(work) > 0 {
				bb := work[len(work)-1]
				work = work[:len(work)-1]
				if seen[bb] || bb == hdr {
					continue
				}
				seen[bb] = true
				for _, in := range bb.Instrs {
					if lk, isLk := in.(*ssa.Lookup); isLk {
						if _, isMap := lk.X.Type().Underlying().(*types.Map); isMap {
							if _, _, okf := fieldLoad(lk.X); okf {
								emitted = lk.X
							}
						}
					}
				}
				work = append(work, bb.Succs...)
			}
			if emitted == nil {
				continue
			}
			// walk back from the loop's entry edge to the count prefix
			var pre *ssa.BasicBlock
			for _, p := range hdr.Preds {
				if !reachesBlk(body, p) {
					pre = p
				}
			}
			var count ssa.Value
			var site ssa.Instruction
			for hops := 0; pre != nil && hops < 4 && count == nil; hops++ {
				for i := len(pre.Instrs) - 1; i >= 0 && count == nil; i-- {
					ci, isC := pre.Instrs[i].(ssa.CallInstruction)
					if !isC {
						continue
					}
					name := ""
					if o := ir.CalleeObj(ci); o != nil {
						name = o.Name()
					}
					if !strings.HasPrefix(name, "Write") {
						continue
					}
					for _, a := range ci.Common().Args {
						if z := lenArg(a); z != nil {
							count, site = z, ci
						}
					}
					if count == nil {
						pre = nil
						break
					}
				}
				if pre != nil && count == nil {
					if len(pre.Preds) == 1 {
						pre = pre.Preds[0]
					} else {
						pre = nil
					}
				}
			}
			if count == nil {
				continue
			}
			n++
			_, eField, _ := fieldLoad(emitted)
			okCount := false
			what := "len(<local>)"
			if _, zField, okZ := fieldLoad(count); okZ {
				what = "len(." + zField + ")"
				okCount = zField == eField && (sameValue(count, emitted) || sameAccessPath(count, emitted))
			} else if ir.Strip(count) == ir.Strip(list) || count == list {
				okCount = true // the length of the key list that drives the loop
				what = "len(key list)"
			}
			c.Decide(okCount, rule, fn, "the count written before the entries of map ."+eField+" is the size of that map", c.P.Rel(site.Pos()),
				"the prefix is "+what+" but the entries that follow are those of ."+eField+": the decoder reads a different number of entries than were written")
		}
	}
	return n
}
