package rules

import (
	"golang.org/x/tools/go/ssa"

	"polyverif/core"
	"polyverif/ir"
)

// C20, BTC router: a Bitcoin deposit has no cross-chain id of its own; the done
// marker is keyed by the id the handler derives from the transaction.  That
// id must be the hash the SPV proof binds — the txid (MsgTx.TxHash, which
// excludes witness data) — otherwise a relayer can re-encode an accepted
// deposit (e.g. with a junk witness), obtain a fresh id for the same txid and
// have it executed again.
func checkBtcTxId(c *core.Ctx) {
	fn := c.Fn(pkBtc, "verifyFromBtcTx")
	vmp := c.Fn(pkBtc, "verifyBtcMerkleProof")
	if fn == nil || vmp == nil {
		return
	}
	isTxid := func(cl *ssa.Call) bool {
		o := ir.CalleeObj(cl)
		return o != nil && o.Name() == "TxHash" && o.Pkg() != nil && o.Pkg().Path() == "github.com/btcsuite/btcd/wire"
	}
	// the transaction handed to the proof check
	var mtx ssa.Value
	for _, ci := range ir.Calls(fn, func(ci ssa.CallInstruction) bool { return ci.Common().StaticCallee() == vmp }) {
		mtx = ci.Common().Args[0]
	}
	if mtx == nil {
		c.Broken("C20.btc-id", fn, "verifyBtcMerkleProof(mtx, …) call", c.P.Rel(fn.Pos()), "not found")
		return
	}
	// (1) the proof check matches the proof's hashes against mtx.TxHash()
	okProof := false
	for _, ci := range ir.Calls(vmp, func(ci ssa.CallInstruction) bool { cl, ok := ci.(*ssa.Call); return ok && isTxid(cl) }) {
		if ir.Strip(ci.Common().Args[0]) == ssa.Value(vmp.Params[0]) {
			okProof = true
		}
	}
	c.Decide(okProof, "C20.btc-id", vmp, "the SPV proof is matched against the txid (MsgTx.TxHash) of the transaction", c.P.Rel(vmp.Pos()), "")
	// (2) both id fields of the returned message are that same txid of the same transaction
	n, okAll := 0, true
	for _, field := range []string{"TxHash", "CrossChainID"} {
		for _, st := range allFieldStores(fn, field) {
			n++
			v := st.Val
			if sl, ok := v.(*ssa.Slice); ok {
				v = sl.X
			}
			if al, ok := v.(*ssa.Alloc); ok {
				v = ir.SingleStore(al)
			}
			cl, _ := ir.CallOf(v)
			if cl == nil || !isTxid(cl) || !sameValue(cl.Common().Args[0], mtx) {
				okAll = false
				c.Violate("C20.btc-id", fn, "message id field "+field+" = txid of the proven transaction", c.P.Rel(st.Pos()), "derived from something other than mtx.TxHash()")
			}
		}
	}
	if okAll {
		c.Decide(n >= 2, "C20.btc-id", fn, "message id fields TxHash and CrossChainID = txid of the proven transaction", c.P.Rel(fn.Pos()), sprintf("%d store(s)", n))
	}
}
