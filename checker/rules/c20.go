package rules

import (
	"go/types"

	"golang.org/x/tools/go/ssa"

	"polyverif/core"
	"polyverif/eng"
	"polyverif/ir"
)

// C20 — each cross-chain message is executed at most once.

func init() {
	core.Register(&core.Check{
		ID: "C20", Level: "other", Title: "Each cross-chain message is executed at most once",
		Explain: "Sibling template over every implementation of ChainHandler.MakeDepositProposal (enumerated with types.Implements on this run): under the configuration fact NetworkId==MAIN_NET every return carrying a non-nil MakeTxParam with a possibly-nil error is (1) dominated by the pass edge of CheckDoneTx(s,id,chain), (2) preceded on every path by a call PutDoneTx(s,id',chain'), with (3) id≡id' and chain≡chain' as SSA values and chain = params.SourceChainID; (4) every PutDoneTx call is dominated by the CheckDoneTx pass edge (mark only after check). CheckDoneTx/PutDoneTx: the key shapes read and written are identical and CheckDoneTx returns nil only when the stored value is nil. Entrance: a nil txParam is accepted only for the VOTE/RIPPLE routers. NOT decided: that the id passed is the message's cross-chain id on the source chain (part of proof verification, C23–C31).",
		Run:     runC20,
	})
}

// nonNilParamSuccess: success returns whose first result is not the nil constant.
func nonNilParamSuccess(fn *ssa.Function) []ir.Sink {
	var out []ir.Sink
	for _, s := range ir.SuccessSinks(fn) {
		ret := s.Instr.(*ssa.Return)
		if len(ret.Results) >= 1 && ir.IsNilConst(ret.Results[0]) {
			continue
		}
		out = append(out, s)
	}
	return out
}

func ifaceMethod(c *core.Ctx, pkg, iface, method string) *types.Func {
	o, err := c.P.Obj(pkg, iface)
	if err != nil {
		c.Broken("anchor", "", pkg+"."+iface, "", err.Error())
		return nil
	}
	m, _, _ := types.LookupFieldOrMethod(o.Type(), true, o.Pkg(), method)
	mf, _ := m.(*types.Func)
	if mf == nil {
		c.Broken("anchor", "", pkg+"."+iface+"."+method, "", "method not found")
	}
	return mf
}

func runC20(c *core.Ctx) {
	nPut := checkStoredValuesNeverEmpty(c, "C20.marker-never-empty", inNativeService, c20RawValueWriters)
	c.Floor("CacheDB.Put sites in the native contracts", nPut, 100)
	checkRejectedLeavesNothing(c, "C20.rejected-leaves-nothing")
	accessorPairs(c, "C20.accessor-keys", 6, "native/service/cross_chain_manager/btc", "native/service/cross_chain_manager/ripple", "native/service/cross_chain_manager/consensus_vote")
	check := eng.Obj(c, pkCCMCom, "CheckDoneTx")
	put := eng.Obj(c, pkCCMCom, "PutDoneTx")
	mdp := ifaceMethod(c, pkCCMCom, "ChainHandler", "MakeDepositProposal")
	if check == nil || put == nil || mdp == nil {
		return
	}
	mainNet, err := c.P.Const("common/config", "NETWORK_ID_MAIN_NET")
	if err != nil {
		c.Broken("anchor", "", "NETWORK_ID_MAIN_NET", "", err.Error())
		return
	}
	mn, _ := ir.ConstInt(ssa.NewConst(mainNet, types.Typ[types.Int]))
	impls := c.P.Implementations(mdp)
	c.Floor("MakeDepositProposal implementations", len(impls), 22)
	c.Assumef("configuration fact for C20: config.DefConfig.P2PNode.NetworkId == NETWORK_ID_MAIN_NET (the property is stated for main net); edges contradicting it are removed")
	for _, fn := range impls {
		opt := &eng.Opt{Cuts: eng.NetFactCuts(fn, mn), Fact: "main net", HelperCuts: func(h *ssa.Function) []ir.Edge { return eng.NetFactCuts(h, mn) }}
		sinks := nonNilParamSuccess(fn)
		g := eng.NamedGuard{Name: "CheckDoneTx err==nil", G: ir.ErrNil(ir.CallTo(check))}
		eng.Dominates(c, "C20.check≺accept", fn, g, sinks, "accepting return (non-nil param)", opt)
		eng.MustPassCall(c, "C20.mark≺accept", fn, "PutDoneTx", eng.CallPred(put), sinks, "accepting return (non-nil param)", opt)
		puts := ir.CallsTo(fn, put)
		checks := ir.CallsTo(fn, check)
		if len(puts) > 0 {
			eng.Dominates(c, "C20.check≺mark", fn, g, ir.CallSinks(puts, "PutDoneTx"), "PutDoneTx", nil)
		}
		// argument identity
		for _, p := range puts {
			pa := p.Common().Args
			matched := false
			for _, k := range checks {
				ka := k.Common().Args
				if sameValue(pa[1], ka[1]) && sameValue(pa[2], ka[2]) {
					matched = true
				}
			}
			c.Decide(matched, "C20.same-id", fn, "PutDoneTx(id,chain) ≡ CheckDoneTx(id,chain)", c.P.Rel(p.Pos()),
				"the id/chain marked done must be the SSA values that were checked")
			_, f, ok := fieldLoad(pa[2])
			c.Decide(ok && f == "SourceChainID", "C20.chain-is-source", fn, "PutDoneTx chain = params.SourceChainID", c.P.Rel(p.Pos()), "got field "+f)
			// the id is the cross-chain id field of the message object that is returned
			base, idf, okid := fieldLoad(pa[1])
			wantField := "CrossChainID"
			if fn.Pkg != nil && fn.Pkg.Pkg.Path() == ir.PkgPath(pkBtc) {
				wantField = "TxHash" // frozen exception: a BTC deposit has no cross-chain id; its txid is the unique id
			}
			isReturned := false
			for _, s := range sinks {
				if ret, ok := s.Instr.(*ssa.Return); ok && okid {
					if sameValue(base, ret.Results[0]) {
						isReturned = true
					}
					// single-exit form: `accepted` is nil on the failing branches and the message otherwise
					if _, isPhi := ret.Results[0].(*ssa.Phi); isPhi {
						all, n := true, 0
						for _, l := range eng.PhiLeaves(nil, ret.Results[0]) {
							if ir.IsNilConst(l) {
								continue
							}
							n++
							if !sameValue(base, l) {
								all = false
							}
						}
						if all && n > 0 {
							isReturned = true
						}
					}
				}
			}
			c.Decide(okid && idf == wantField && isReturned, "C20.id-is-message-id", fn, "done-marker id = <returned message>."+wantField, c.P.Rel(p.Pos()),
				sprintf("id argument is field %q of the returned message: %v", idf, isReturned))
		}
	}

	// CheckDoneTx: nil only when stored value nil; key shapes agree
	get := eng.Obj(c, pkStorage, "CacheDB.Get")
	if fn := c.Fn(pkCCMCom, "CheckDoneTx"); fn != nil && get != nil {
		eng.Dominates(c, "C20.check-fails-when-stored", fn, eng.NamedGuard{Name: "CacheDB.Get(DONE_TX‖chain‖id) == nil", G: ir.IsNil(ir.CallTo(get))}, ir.SuccessSinks(fn), "nil return", nil)
		eng.Dominates(c, "C20.check-fails-on-storage-error", fn, eng.ErrNilOf("CacheDB.Get", get), ir.SuccessSinks(fn), "nil return", nil)
		pfn := c.Fn(pkCCMCom, "PutDoneTx")
		if pfn != nil {
			a, e1 := eng.KeySitesIn(c.P, fn, 1)
			b, e2 := eng.KeySitesIn(c.P, pfn, 1)
			if e1 != nil || e2 != nil || len(a) != 1 || len(b) != 1 {
				c.Broken("C20.key", fn, "DONE_TX key shape", c.P.Rel(fn.Pos()), sprintf("sites %d/%d", len(a), len(b)))
			} else {
				ok := a[0].Shape.Canon() == b[0].Shape.Canon() && a[0].Op == "Get" && b[0].Op == "Put"
				c.Decide(ok, "C20.key", fn, "CheckDoneTx reads the key PutDoneTx writes", c.P.Rel(fn.Pos()), a[0].Shape.String()+" vs "+b[0].Shape.String())
				// shape: literal, Fix8(chain), slot(id)
				sh := a[0].Shape
				okShape := len(sh) == 4 && sh[1].Kind == eng.ALit && sh[2].Kind == eng.AFix && sh[2].N == 8 && sh[3].Kind == eng.ASlot
				c.Decide(okShape, "C20.key", fn, "key = contract‖DONE_TX‖Fix8(chain)‖id", c.P.Rel(fn.Pos()), sh.String())
			}
		}
	}

	// Entrance: nil txParam accepted only for VOTE/RIPPLE routers
	if fn := c.Fn(pkCCM, "ImportExTransfer"); fn != nil {
		checkNilParamGate(c, fn, mdp)
	}
	checkBtcTxId(c)
}

// sameValue: identical SSA values after stripping conversions, or loads of
// the same field of the same base.
func sameValue(a, b ssa.Value) bool {
	a, b = ir.Strip(a), ir.Strip(b)
	if a == b {
		return true
	}
	ba, fa, oka := fieldLoad(a)
	bb, fb, okb := fieldLoad(b)
	if oka && okb && fa == fb {
		return sameValue(ba, bb) || ba == bb
	}
	// loads of the same element x[i] with identical base and index
	if ua, ok := a.(*ssa.UnOp); ok {
		if ub, ok := b.(*ssa.UnOp); ok {
			ia, ok1 := ua.X.(*ssa.IndexAddr)
			ib, ok2 := ub.X.(*ssa.IndexAddr)
			if ok1 && ok2 && sameValue(ia.X, ib.X) && sameValue(ia.Index, ib.Index) {
				return true
			}
		}
	}
	// slices of the same alloc (temp[:])
	sa, ok1 := a.(*ssa.Slice)
	sb, ok2 := b.(*ssa.Slice)
	if ok1 && ok2 && sa.X == sb.X && sa.Low == sb.Low && sa.High == sb.High {
		return true
	}
	return false
}

// checkNilParamGate: in ImportExTransfer every success return reached with a
// nil txParam passes the router ∈ {VOTE, RIPPLE} test.
func checkNilParamGate(c *core.Ctx, fn *ssa.Function, mdp *types.Func) {
	calls := ir.CallsTo(fn, mdp)
	if len(calls) != 1 {
		c.Broken("C20.nil-param", fn, "MakeDepositProposal call", c.P.Rel(fn.Pos()), sprintf("%d calls", len(calls)))
		return
	}
	call := calls[0].(*ssa.Call)
	// find the If testing txParam == nil
	var nilEdge *ir.Edge
	for _, cd := range ir.Conds(fn) {
		x, neq, ok := ir.NilCmp(cd.V)
		if !ok {
			continue
		}
		cl, idx := ir.CallOf(x)
		if cl != call || idx != 0 {
			continue
		}
		i := cd.TrueIdx()
		if neq {
			i = cd.FalseIdx()
		}
		nilEdge = &ir.Edge{From: cd.If.Block(), Idx: i}
	}
	if nilEdge == nil {
		c.Broken("C20.nil-param", fn, "txParam == nil test", c.P.Rel(fn.Pos()), "not found")
		return
	}
	// from the nil edge target: success returns must pass a router==VOTE or router==RIPPLE true edge
	g := func(cd ir.Cond) (bool, bool) {
		b, ok := cd.V.(*ssa.BinOp)
		if !ok || b.Op.String() != "==" {
			return false, false
		}
		_, f, okf := fieldLoad(b.X)
		gn := globalName(b.Y)
		if okf && f == "Router" && (gn == "VOTE_ROUTER" || gn == "RIPPLE_ROUTER") {
			return true, true
		}
		return false, false
	}
	pass := ir.PassEdges(fn, g)
	r := ir.NewReach(fn).CutEdges(pass)
	// dereferencing the nil txParam panics: such paths do not return success
	for _, b := range fn.Blocks {
		for _, in := range b.Instrs {
			if fa, ok := in.(*ssa.FieldAddr); ok {
				if cl, idx := ir.CallOf(fa.X); cl == call && idx == 0 {
					r.Barrier[in] = true
				}
			}
		}
	}
	tgt := nilEdge.To()
	r.Run(tgt.Instrs[0])
	bad := false
	for _, s := range ir.SuccessSinks(fn) {
		if r.SinkReachable(s) {
			bad = true
			c.Violate("C20.nil-param", fn, "nil txParam accepted only for VOTE/RIPPLE router", c.P.Rel(s.Instr.Pos()), "success return reachable from txParam==nil without the router test")
		}
	}
	if !bad {
		c.Hold("C20.nil-param", fn, "nil txParam accepted only for VOTE/RIPPLE router", c.P.Rel(fn.Pos()), sprintf("%d router tests", len(pass)))
	}
}
