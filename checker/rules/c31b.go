package rules

import (
	"go/token"

	"golang.org/x/tools/go/ssa"

	"polyverif/core"
	"polyverif/eng"
	"polyverif/ir"
)

// C31 (continued) — "the greatest key height below the header".  FindKeyHeight
// returns the FIRST stored key height v with height > v, so it yields the
// greatest one only if the stored list is in descending order.  That order is
// established in exactly one place: KeyHeights.Serialization sorts the list
// (big → small) before writing it.  Decided: the slice that is written is the
// very slice that was sorted, the comparator is a strict descending order on
// that slice, and FindKeyHeight takes the first element below the height.
func checkOntKeyHeightOrder(c *core.Ctx, rule string) {
	pkg := "native/service/header_sync/ont"
	ser := c.Fn(pkg, "KeyHeights.Serialization")
	find := c.Fn(pkg, "FindKeyHeight")
	if ser == nil || find == nil {
		return
	}
	var sorted ssa.Value
	okDesc := false
	for _, ci := range ir.Calls(ser, func(ci ssa.CallInstruction) bool { return ir.IsPkgFunc(ci, "sort", "Slice", "SliceStable") }) {
		a := ci.Common().Args
		sorted = a[0]
		if mi, ok := sorted.(*ssa.MakeInterface); ok {
			sorted = mi.X
		}
		if mc, ok := a[1].(*ssa.MakeClosure); ok {
			less := mc.Fn.(*ssa.Function)
			for _, b := range less.Blocks {
				for _, in := range b.Instrs {
					cmp, isB := in.(*ssa.BinOp)
					if !isB || (cmp.Op != token.GTR && cmp.Op != token.LSS) {
						continue
					}
					idxOf := func(v ssa.Value) ssa.Value {
						if ld, ok := v.(*ssa.UnOp); ok {
							if ia, ok := ld.X.(*ssa.IndexAddr); ok {
								return ia.Index
							}
						}
						return nil
					}
					xi, yi := idxOf(cmp.X), idxOf(cmp.Y)
					if xi == nil || yi == nil || len(less.Params) != 2 {
						continue
					}
					// less(i,j) = s[i] > s[j]  (or s[j] < s[i]) : descending
					if (cmp.Op == token.GTR && xi == ssa.Value(less.Params[0]) && yi == ssa.Value(less.Params[1])) ||
						(cmp.Op == token.LSS && xi == ssa.Value(less.Params[1]) && yi == ssa.Value(less.Params[0])) {
						okDesc = true
					}
				}
			}
		}
	}
	c.Decide(sorted != nil && okDesc, rule, ser, "the key-height list is sorted strictly descending before it is stored", c.P.Rel(ser.Pos()), "")
	// the elements written come from the sorted slice
	n, okSame := 0, true
	for _, ci := range ir.Calls(ser, func(ci ssa.CallInstruction) bool { o := ir.CalleeObj(ci); return o != nil && o.Name() == "WriteUint32" }) {
		n++
		ld, ok := ci.Common().Args[1].(*ssa.UnOp)
		if !ok {
			okSame = false
			continue
		}
		ia, ok := ld.X.(*ssa.IndexAddr)
		if !ok || sorted == nil || !sameValue(ia.X, sorted) {
			okSame = false
		}
	}
	c.Decide(okSame && n == 1, rule, ser, "the list written is the very slice that was sorted", c.P.Rel(ser.Pos()), sprintf("%d element write(s)", n))
	// FindKeyHeight: first element with height > v is returned
	okFirst := false
	{
		hp := paramByName(find, "height")
		nRet := 0
		okAll := true
		for _, bb := range find.Blocks {
			for _, in := range bb.Instrs {
				r, ok := in.(*ssa.Return)
				if !ok || len(r.Results) != 2 || !ir.IsNilConst(r.Results[1]) {
					continue
				}
				nRet++
				// the value answered is a list element, and the return is reached only under height > that element
				// (any spelling of the comparison; the element may be loaded again for the return)
				elem := r.Results[0]
				below := func(el ssa.Value) eng.NamedGuard {
					return relGuard("height > element", func(v ssa.Value) bool { return hp != nil && ir.Strip(v) == ssa.Value(hp) },
						func(v ssa.Value) bool { return v == el || sameValue(v, el) }, token.GTR)
				}
				// flag form: `key, found = v, true; break` … `if !found { return 0, err }; return key, nil` — the
				// answer and the flag merge in the same block, the flag is true exactly on the edges that carry an
				// element, each of those edges is taken only under height > element, and the answer is given only
				// when the flag is true
				if ph, isPhi := elem.(*ssa.Phi); isPhi {
					var flag *ssa.Phi
					for _, in := range ph.Block().Instrs {
						f, isF := in.(*ssa.Phi)
						if !isF || f == ph || len(f.Edges) != len(ph.Edges) {
							continue
						}
						match := true
						for i := range f.Edges {
							k, isK := ir.ConstBool(f.Edges[i])
							_, elemConst := ph.Edges[i].(*ssa.Const)
							if !isK || k == elemConst {
								match = false
							}
						}
						if match {
							flag = f
						}
					}
					okFlag := flag != nil
					if okFlag {
						isFlag := eng.NamedGuard{Name: "found", G: func(cd ir.Cond) (bool, bool) { return cd.V == ssa.Value(flag), true }}
						okFlag = quietDominates(find, isFlag, ir.Sink{Instr: r})
						for i, e := range ph.Edges {
							if _, isK := e.(*ssa.Const); isK {
								continue
							}
							pred := ph.Block().Preds[i]
							if !quietDominates(find, below(e), ir.Sink{Instr: ph, Via: &ir.Edge{From: pred, Idx: indexOfSucc(pred, ph.Block())}}) {
								okFlag = false
							}
						}
					}
					if !okFlag {
						okAll = false
					}
					continue
				}
				if !quietDominates(find, below(elem), ir.Sink{Instr: r}) {
					okAll = false
				}
			}
		}
		okFirst = nRet > 0 && okAll
	}
	c.Decide(okFirst, rule, find, "FindKeyHeight answers the first stored key height strictly below the header height", c.P.Rel(find.Pos()), "")
}
