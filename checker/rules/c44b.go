package rules

import (
	"golang.org/x/tools/go/ssa"

	"polyverif/core"
	"polyverif/eng"
	"polyverif/ir"
)

// C44 (continued) — vbft.Block.Serialize wraps each embedded ledger block as one
// length-prefixed byte string and Deserialize parses exactly one block out of
// each.  Each wrapped string must therefore hold exactly one block: the scratch
// sink whose Bytes() is wrapped has received exactly one Serialization call
// (and no other write) since it was created or Reset.  Re-using the first sink
// for the empty block makes the second field "Block‖EmptyBlock"; the parser
// reads the leading block and silently drops the rest, so the empty block a
// proposal carries does not survive the round trip.
func checkVbftBlockWrapSinks(c *core.Ctx) {
	const rule = "C44.block-wrap"
	fn := c.Fn(pkVbft, "Block.Serialize")
	wvb := eng.Obj(c, pkCommon, "ZeroCopySink.WriteVarBytes")
	bytesM := eng.Obj(c, pkCommon, "ZeroCopySink.Bytes")
	if fn == nil || wvb == nil || bytesM == nil {
		return
	}
	wraps := ir.CallsTo(fn, wvb)
	c.Floor("wrapped byte strings in vbft Block.Serialize", len(wraps), 2)
	seenField := map[string]bool{}
	for _, w := range wraps {
		pos := c.P.Rel(w.Pos())
		bc, _ := ir.CallOf(w.Common().Args[1])
		if bc == nil || !ir.CalleeIs(bc, bytesM) {
			c.Broken(rule, fn, "WriteVarBytes(sink.Bytes())", pos, "argument is not Bytes() of a sink")
			continue
		}
		sink := ir.Strip(bc.Common().Args[0])
		// writers of that sink that can execute before this wrap
		var writers []ssa.CallInstruction
		what := ""
		for _, ci := range ir.Calls(fn, nil) {
			if ci == ssa.CallInstruction(bc) || ci == w {
				continue
			}
			uses := false
			for _, a := range ci.Common().Args {
				if ir.Strip(a) == sink {
					uses = true
				}
			}
			if !uses {
				continue
			}
			if o := ir.CalleeObj(ci); o != nil && (o.Name() == "Bytes" || o.Name() == "Size" || o.Name() == "Reset") {
				continue
			}
			// a write counts when the wrap is reachable from it without the sink being Reset in between
			r := ir.NewReach(fn)
			for _, rs := range ir.Calls(fn, func(x ssa.CallInstruction) bool {
				o := ir.CalleeObj(x)
				return o != nil && o.Name() == "Reset" && len(x.Common().Args) > 0 && ir.Strip(x.Common().Args[0]) == sink
			}) {
				r.Barrier[rs] = true
			}
			if !r.Run(ci).Instr(w) {
				continue // after the wrap, or cleared before it
			}
			writers = append(writers, ci)
			if recv := ci.Common().Args[0]; recv != nil {
				if _, f, ok := fieldLoad(recv); ok {
					what = f
				}
			}
		}
		c.Decide(len(writers) == 1, rule, fn, "the wrapped sink holds exactly one Serialization (one block per length-prefixed field)", pos,
			sprintf("%d write(s) reach this wrap: the field would carry more than one block and the parser keeps only the first", len(writers)))
		if what != "" {
			c.Decide(!seenField[what], rule, fn, "each wrapped field carries a different embedded block ("+what+")", pos, "")
			seenField[what] = true
		}
	}
}
