package rules

import (
	"go/token"

	"golang.org/x/tools/go/ssa"

	"polyverif/core"
	"polyverif/eng"
	"polyverif/ir"
)

// C13 (continued) — "only at the next height" is decided on a height read while
// the saving-block lock is held.  Both committing entry points (SubmitBlock for
// consensus, saveBlock for sync) take the lock, read the current height and call
// submitBlock; a height read before the lock is stale by the time the lock is
// granted, and an already committed height is committed again (duplicate leaf in
// the block accumulator).  Decided per entry point:
//
//	every read of the current height is preceded by the lock acquisition on
//	every path, and every path from the acquisition to submitBlock passes such
//	a read.
func checkHeightUnderLock(c *core.Ctx) {
	const rule = "C13.height-under-lock"
	sb := eng.Obj(c, pkLedger, "LedgerStoreImp.submitBlock")
	gl := eng.Obj(c, pkLedger, "LedgerStoreImp.getSavingBlockLock")
	tgl := eng.Obj(c, pkLedger, "LedgerStoreImp.tryGetSavingBlockLock")
	gch := eng.Obj(c, pkLedger, "LedgerStoreImp.GetCurrentBlockHeight")
	if sb == nil || gl == nil || tgl == nil || gch == nil {
		return
	}
	n := 0
	for _, name := range []string{"LedgerStoreImp.SubmitBlock", "LedgerStoreImp.saveBlock"} {
		fn := c.Fn(pkLedger, name)
		if fn == nil {
			continue
		}
		commits := ir.CallsTo(fn, sb)
		acqs := ir.CallsTo(fn, gl, tgl)
		// a read of the current height: GetCurrentBlockHeight itself or a same-package helper that performs it
		isHeightRead := func(ci ssa.CallInstruction) bool {
			if ir.CalleeIs(ci, gch) {
				return true
			}
			h := ci.Common().StaticCallee()
			return h != nil && h != fn && h.Pkg == fn.Pkg && len(ir.CallsTo(h, gch)) > 0 && len(ir.CallsTo(h, sb)) == 0
		}
		heights := ir.Calls(fn, isHeightRead)
		c.Floor("submitBlock calls in "+name, len(commits), 1)
		c.Floor("lock acquisitions in "+name, len(acqs), 1)
		c.Floor("current-height reads in "+name, len(heights), 1)
		if len(commits) == 0 || len(acqs) == 0 || len(heights) == 0 {
			continue
		}
		n++
		eng.MustPassCall(c, rule, fn, "saving-block lock acquisition", eng.CallPred(gl, tgl), ir.CallSinks(heights, "GetCurrentBlockHeight"), "read of the current height", nil)
		eng.MustPassCall(c, rule, fn, "saving-block lock acquisition", eng.CallPred(gl, tgl), ir.CallSinks(commits, "submitBlock"), "submitBlock", nil)
		// height 0 is the genesis block: it has no predecessor to compare with, so the
		// `blockHeight > 0 && …` short-circuit may skip the read on its false edge
		var genesis []ir.Edge
		for _, cd := range ir.Conds(fn) {
			b, ok := cd.V.(*ssa.BinOp)
			if !ok || !isFieldNamed(b.X, "Height") {
				continue
			}
			k, isK := ir.ConstInt(b.Y)
			if !isK {
				continue
			}
			// Height > 0, Height != 0, Height >= 1: the false edge is "genesis"; Height == 0, Height < 1: the true edge
			switch {
			case (b.Op == token.GTR || b.Op == token.NEQ) && k == 0, b.Op == token.GEQ && k == 1:
				genesis = append(genesis, ir.Edge{From: cd.If.Block(), Idx: cd.FalseIdx()})
			case b.Op == token.EQL && k == 0, b.Op == token.LSS && k == 1:
				genesis = append(genesis, ir.Edge{From: cd.If.Block(), Idx: cd.TrueIdx()})
			}
		}
		for _, a := range acqs {
			eng.MustPassCall(c, rule+"(fresh)", fn, "GetCurrentBlockHeight", isHeightRead, ir.CallSinks(commits, "submitBlock"), "submitBlock after the lock was taken",
				&eng.Opt{Start: a, Cuts: genesis, Fact: "height 0 is the genesis block"})
		}
	}
	c.Floor("committing entry points examined", n, 2)
	// who may call submitBlock
	if fn := c.Fn(pkLedger, "LedgerStoreImp.submitBlock"); fn != nil {
		allowed := map[string]bool{
			"(*core/store/ledgerstore.LedgerStoreImp).SubmitBlock": true,
			"(*core/store/ledgerstore.LedgerStoreImp).saveBlock":   true,
			// frozen exception: start-up, before any other goroutine exists, on an empty store
			"(*core/store/ledgerstore.LedgerStoreImp).InitLedgerStoreWithGenesisBlock": true,
		}
		for _, caller := range c.P.EffectiveCallers(fn, func(y *ssa.Function) bool { return allowed[ir.FuncName(y)] }) {
			nm := ir.FuncName(caller)
			c.Decide(allowed[nm], rule, caller, "submitBlock is called only from the two lock-holding entry points", c.P.Rel(caller.Pos()), nm)
		}
	}
}
