package rules

import (
	"go/token"
	"go/types"

	"golang.org/x/tools/go/ssa"

	"polyverif/core"
	"polyverif/eng"
	"polyverif/ir"
)

// C24 — validator-signed cross-chain messages need distinct tracked signers.

const pkOntHS = "native/service/header_sync/ont"

func init() {
	core.Register(&core.Check{
		ID: "C24", Level: "other", Title: "Validator-signed cross-chain messages need distinct tracked signers",
		Technique: "sibling template: guard dominance + loop-iteration rules + argument provenance",
		Explain:   "Ontology: ont.VerifyCrossChainMsg (and its sibling ont.verifyHeader, same template) returns nil only after (1) the count test 3·len(keys) >= len(PeerMap) of the peer set obtained by getConsensusPeersByHeight(chain, FindKeyHeight(msg.Height)), (2) a loop over the SAME key slice in which every iteration passes membership of PubkeyID(key) in that PeerMap, passes the not-yet-used test and records the key as used (distinct tracked signers), and (3) VerifyMultiSignature(X.Hash(), keys, len(keys), X.SigData) err==nil with exactly those arguments — in particular m = len(keys), so every counted signer must have signed; PutCrossChainMsg is reached, at every call site, only after VerifyCrossChainMsg err==nil for that message. NEO / NEO N3 / legacy N3: VerifyCrossChainMsgSig returns nil only after the message's script hash equals the tracked NextConsensus of getConsensusValByChainId(chain) and VerifyMultiSignatureWitness(msg.GetMessage(), witness built from msg.Witness) is true. NOT decided: distinctness inside neo-gogogo's witness verification and cryptographic validity (dependencies).",
		Run:       runC24,
	})
}

// ontQuorumTemplate checks one of the two ont verification functions.
// keysIs / objName describe where the key slice and the signed object come from.
func ontQuorumTemplate(c *core.Ctx, prop string, fn *ssa.Function, isKeys func(ssa.Value) bool, isSignedObj func(ssa.Value) bool) {
	// the ont router uses ontology's own copy of core/signature (same algorithm as poly's, C14)
	vms, _ := c.P.FuncObj("github.com/ontio/ontology/core/signature", "VerifyMultiSignature")
	if vms == nil {
		c.Broken("anchor", fn, "ontology/core/signature.VerifyMultiSignature", "", "not loaded")
	}
	gcp := eng.Obj(c, pkOntHS, "getConsensusPeersByHeight")
	fkh := eng.Obj(c, pkOntHS, "FindKeyHeight")
	pid := eng.Obj(c, "consensus/vbft/config", "PubkeyID")
	if fn == nil || vms == nil || gcp == nil || fkh == nil || pid == nil {
		return
	}
	succ := ir.SuccessSinks(fn)
	isPeerMap := func(v ssa.Value) bool {
		base, f, ok := fieldLoad(v)
		return ok && f == "PeerMap" && isCallTo(base, gcp)
	}
	// peer set provenance
	for _, cl := range ir.CallsTo(fn, gcp) {
		a := cl.Common().Args
		okP := isCallTo(a[2], fkh)
		if okP {
			k, _ := ir.CallOf(a[2])
			okP = isFieldNamed(k.Common().Args[1], "Height") && func() bool { b, _, _ := fieldLoad(k.Common().Args[1]); return isSignedObj(b) }()
		}
		c.Decide(okP, prop+".tracked-set", fn, "peer set = getConsensusPeersByHeight(chain, FindKeyHeight(<signed object>.Height))", c.P.Rel(cl.Pos()), "")
	}
	eng.Dominates(c, prop+".tracked-set", fn, eng.ErrNilOf("getConsensusPeersByHeight", gcp), succ, "nil return", nil)
	eng.Dominates(c, prop+".tracked-set", fn, eng.ErrNilOf("FindKeyHeight", fkh), succ, "nil return", nil)
	// count test
	lenKeys := eng.IsLenOf(isKeys)
	lenPeers := eng.IsLenOf(isPeerMap)
	count := eng.NamedGuard{Name: "3·len(keys) >= len(PeerMap)", G: func(cd ir.Cond) (bool, bool) {
		b, ok := cd.V.(*ssa.BinOp)
		if !ok {
			return false, false
		}
		// 3·len(keys) OP len(PeerMap), in either operand order
		x, y, op := b.X, b.Y, b.Op
		if lenPeers(ir.Resolve(b.X)) && !lenPeers(ir.Resolve(b.Y)) {
			x, y, op = b.Y, b.X, relMirror(b.Op)
		}
		if (op != token.LSS && op != token.GEQ) || !lenPeers(ir.Resolve(y)) {
			return false, false
		}
		e, err := eng.ExtractExpr(x, func(v ssa.Value) bool { return lenKeys(ir.Resolve(v)) })
		if err != nil {
			return false, false
		}
		if ok, _ := eng.EqualForAll(e, eng.Mul(eng.N(), eng.K(3)), 0); !ok {
			return false, false
		}
		return true, op == token.GEQ
	}}
	eng.Dominates(c, prop+".count", fn, count, succ, "nil return", nil)
	// distinct-member loop over the same keys (in fn or in a helper handed the keys)
	if !distinctMemberLoop(c, prop+".distinct-signers", fn, isKeys, isPeerMap, pid, succ, "nil return") {
		c.Broken(prop+".distinct-signers", fn, "loop over the signer keys", c.P.Rel(fn.Pos()), "no single loop over the keys in the function or in a helper it hands the keys to")
		return
	}
	// the PubkeyID argument is the loop element
	// multi-signature call
	hashOf := func(v ssa.Value) bool {
		sl, ok := ir.Strip(v).(*ssa.Slice)
		if !ok {
			return false
		}
		var hv ssa.Value = sl.X
		if al, isAl := sl.X.(*ssa.Alloc); isAl {
			hv = ir.SingleStore(al)
		}
		cl, _ := ir.CallOf(hv)
		if cl == nil || ir.CalleeObj(cl) == nil || ir.CalleeObj(cl).Name() != "Hash" {
			return false
		}
		return isSignedObj(cl.Common().Args[0])
	}
	msPred := func(cl *ssa.Call) bool {
		if !ir.CalleeIs(cl, vms) {
			return false
		}
		a := cl.Common().Args
		sigsOK := isFieldNamed(a[3], "SigData") && func() bool { b, _, _ := fieldLoad(a[3]); return isSignedObj(b) }()
		return hashOf(a[0]) && isKeys(a[1]) && lenKeys(a[2]) && sigsOK
	}
	nMs := len(ir.CallsTo(fn, vms))
	c.Decide(nMs == 1, prop+".multisig", fn, "one VerifyMultiSignature call", c.P.Rel(fn.Pos()), sprintf("%d", nMs))
	eng.Dominates(c, prop+".multisig", fn, eng.NamedGuard{Name: "VerifyMultiSignature(obj.Hash(), keys, len(keys), obj.SigData) err==nil", G: ir.ErrNil(msPred)}, succ, "nil return", nil)
}

func runC24(c *core.Ctx) {
	checkOntKeyHeightOrder(c, "C24.epoch-of-that-height")
	checkKeyHeightBelow(c, "C24.tracked-set-of-that-height")
	// ont
	isParam := func(name string) func(ssa.Value) bool {
		return func(v ssa.Value) bool { p, ok := ir.Strip(v).(*ssa.Parameter); return ok && p.Name() == name }
	}
	ontQuorumTemplate(c, "C24", c.Fn(pkOntHS, "VerifyCrossChainMsg"), isParam("bookkeepers"), isParam("crossChainMsg"))
	// PutCrossChainMsg only after verification
	vccm := eng.Obj(c, pkOntHS, "VerifyCrossChainMsg")
	pccm := c.Fn(pkOntHS, "PutCrossChainMsg")
	if vccm != nil && pccm != nil {
		cg := c.P.CG()
		n := 0
		for _, e := range cg.In[pccm] {
			if e.Site == nil {
				continue
			}
			n++
			msg := e.Site.Common().Args[2]
			g := eng.NamedGuard{Name: "VerifyCrossChainMsg(same message) err==nil", G: ir.ErrNil(func(cl *ssa.Call) bool {
				return ir.CalleeIs(cl, vccm) && sameValue(cl.Common().Args[2], msg)
			})}
			eng.Dominates(c, "C24.stored-only-if-verified", e.Caller, g, []ir.Sink{{Instr: e.Site, Note: "PutCrossChainMsg"}}, "PutCrossChainMsg", nil)
		}
		c.Floor("PutCrossChainMsg call sites", n, 2)
	}
	// neo family
	checkNeoFamily(c, "C24")
	for _, pkg := range []string{} {
		fn := c.Fn(pkg, "VerifyCrossChainMsgSig")
		gcv := eng.Obj(c, pkg, "getConsensusValByChainId")
		if fn == nil || gcv == nil {
			continue
		}
		succ := ir.SuccessSinks(fn)
		eng.Dominates(c, "C24.neo-tracked-consensus", fn, eng.ErrNilOf("getConsensusValByChainId", gcv), succ, "nil return", nil)
		script := cmpGuard("tracked NextConsensus == message script hash", func(b *ssa.BinOp) (bool, bool) {
			if b.Op != token.EQL && b.Op != token.NEQ {
				return false, false
			}
			tracked := func(v ssa.Value) bool {
				base, f, ok := fieldLoad(v)
				return ok && f == "NextConsensus" && isCallTo(base, gcv)
			}
			fromMsg := func(v ssa.Value) bool {
				cl, _ := ir.CallOf(v)
				if cl == nil || ir.CalleeObj(cl) == nil || ir.CalleeObj(cl).Name() != "GetScriptHash" {
					return false
				}
				return isParam("crossChainMsg")(cl.Common().Args[0])
			}
			if (tracked(b.X) && fromMsg(b.Y)) || (tracked(b.Y) && fromMsg(b.X)) {
				return true, b.Op == token.EQL
			}
			return false, false
		})
		eng.Dominates(c, "C24.neo-tracked-consensus", fn, script, succ, "nil return", nil)
		wit := eng.NamedGuard{Name: "VerifyMultiSignatureWitness(msg.GetMessage(), witness) == true", G: ir.BoolIs(func(cl *ssa.Call) bool {
			o := ir.CalleeObj(cl)
			if o == nil || o.Name() != "VerifyMultiSignatureWitness" {
				return false
			}
			m, _ := ir.CallOf(cl.Common().Args[0])
			if m == nil || ir.CalleeObj(m) == nil || ir.CalleeObj(m).Name() != "GetMessage" || !isParam("crossChainMsg")(m.Common().Args[0]) {
				return false
			}
			return witnessFromMsg(cl.Common().Args[1], isParam("crossChainMsg"))
		}, true)}
		eng.Dominates(c, "C24.neo-witness", fn, wit, succ, "nil return", nil)
	}
}

// witnessFromMsg: the witness literal's two scripts are decoded from msg.Witness.*Script.
func witnessFromMsg(v ssa.Value, isMsg func(ssa.Value) bool) bool {
	al, ok := ir.Strip(v).(*ssa.Alloc)
	if !ok {
		return false
	}
	n := 0
	for _, ref := range *al.Referrers() {
		fa, ok := ref.(*ssa.FieldAddr)
		if !ok {
			continue
		}
		for _, r2 := range *fa.Referrers() {
			st, ok := r2.(*ssa.Store)
			if !ok || st.Addr != ssa.Value(fa) {
				continue
			}
			// value: result 0 of hex.DecodeString(msg.Witness.XScript) or a direct field
			src := st.Val
			if cl, idx := ir.CallOf(src); cl != nil && idx <= 0 && ir.IsPkgFunc(cl, "encoding/hex", "DecodeString") {
				src = cl.Common().Args[0]
			}
			base, f, okf := fieldLoad(src)
			if !okf || f != fieldNameOf(fa) {
				return false
			}
			// base is msg.Witness
			wb, wf, okw := fieldLoad(base)
			if okw && wf == "Witness" && isMsg(wb) {
				n++
				continue
			}
			if fa2, isFA := base.(*ssa.FieldAddr); isFA && fieldNameOf(fa2) == "Witness" && isMsg(fa2.X) {
				n++
				continue
			}
			return false
		}
	}
	_ = types.Typ
	return n == 2
}
