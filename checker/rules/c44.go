package rules

import (
	"go/constant"
	"go/token"
	"go/types"
	"reflect"
	"sort"
	"strings"

	"golang.org/x/tools/go/ssa"

	"polyverif/core"
	"polyverif/eng"
	"polyverif/ir"
)

// C44 — consensus messages round-trip and signatures bind their content.

const pkP2PTypes = "p2pserver/message/types"

func init() {
	core.Register(&core.Check{
		ID: "C44", Level: "other", Title: "Consensus messages round-trip and signatures bind their content",
		Technique: "registry exhaustiveness (constants × switch arms × Type() results), codec schema agreement (ordered wire-operation lists of sibling encoders/decoders), struct-tag audit, guard dominance for the signature checks",
		Explain:   "Decided statically. (Registry) every constant of type MsgType has an arm in DeserializeVbftMsg; the arm for constant k constructs a type whose Type() method returns k, and decodes m.Payload into that fresh value (json.Unmarshal / UnmarshalJSON / Deserialize) before returning it; success is dominated by the Len consistency test; SerializeVbftMsg fills Type/Len/Payload from msg.Type(), len(payload), payload = msg.Serialize(). (JSON kinds) every message struct decoded with json.Unmarshal is encoded by json.Marshal of the receiver, every exported field carries a json tag, tags are unique within the struct and none is '-' (a duplicate or missing tag loses a field on the round trip), and no field has a type encoding/json cannot round-trip (func, chan, complex, interface). (Payload) the four codecs of ConsensusPayload — SerializeUnsigned, serializationUnsigned, DeserializeUnsigned, deserializationUnsigned — perform the same ordered list of (wire kind, field) operations; that list covers every field of the struct except Owner, Signature, PeerId and hash; Serialize/Serialization/Deserialize/Deserialization append Owner (public key) and Signature in that order; Verify returns nil only after signature.Verify(this.Owner, <bytes written by this.SerializeUnsigned>, this.Signature) err==nil — so every signed field is bound. (Proposal) blockProposalMsg.Verify returns nil only after signature.Verify(pub, Block.Hash(), sig(SigData[0])) is true and, when an empty block is attached, the same for EmptyBlock. (vbft Block) Serialize writes varbytes(Block) then varbytes(EmptyBlock) when present; Deserialize reads them in that order. NOT decided: that encoding/json and the block/transaction codecs themselves round-trip (C01–C04), mutation-after-signing beyond field coverage.",
		Run:       runC44,
	})
}

func runC44(c *core.Ctx) {
	checkVbftBlockWrapSinks(c)
	checkVbftBinaryCodecFields(c)
	dvm := c.Fn(pkVbft, "DeserializeVbftMsg")
	svm := c.Fn(pkVbft, "SerializeVbftMsg")
	pk := c.P.Pkgs[ir.PkgPath(pkVbft)]
	if dvm == nil || svm == nil || pk == nil {
		return
	}
	// ---- registry
	mt, err := c.P.Obj(pkVbft, "MsgType")
	if err != nil {
		c.Broken("anchor", dvm, "MsgType", "", err.Error())
		return
	}
	consts := map[int64]string{}
	sc := pk.Types.Scope()
	for _, n := range sc.Names() {
		if k, ok := sc.Lookup(n).(*types.Const); ok && types.Identical(k.Type(), mt.Type()) {
			v, _ := constant.Int64Val(k.Val())
			consts[v] = n
		}
	}
	c.Floor("MsgType constants", len(consts), 10)
	arms := map[int64]*ssa.BasicBlock{}
	for _, cd := range ir.Conds(dvm) {
		b, ok := cd.V.(*ssa.BinOp)
		if !ok || b.Op.String() != "==" {
			continue
		}
		if !isFieldNamed(b.X, "Type") {
			continue
		}
		k, okk := ir.ConstInt(b.Y)
		if !okk {
			continue
		}
		arms[k] = cd.If.Block().Succs[0]
	}
	var ks []int64
	for k := range consts {
		ks = append(ks, k)
	}
	sort.Slice(ks, func(i, j int) bool { return ks[i] < ks[j] })
	jsonKinds := map[string]*types.Named{}
	for _, k := range ks {
		name := consts[k]
		arm := arms[k]
		if arm == nil {
			c.Violate("C44.registry", dvm, "message kind "+name+" has a decoding arm", c.P.Rel(dvm.Pos()), "no `case "+name+"` in DeserializeVbftMsg")
			continue
		}
		// the fresh value
		var fresh *ssa.Alloc
		for _, in := range arm.Instrs {
			if al, ok := in.(*ssa.Alloc); ok && al.Heap {
				fresh = al
				break
			}
		}
		if fresh == nil {
			c.Broken("C44.registry", dvm, "arm "+name+" constructs a message", c.P.Rel(arm.Instrs[0].Pos()), "no allocation found")
			continue
		}
		nt, _ := fresh.Type().Underlying().(*types.Pointer).Elem().(*types.Named)
		if nt == nil {
			c.Broken("C44.registry", dvm, "arm "+name+" constructs a named message type", c.P.Rel(fresh.Pos()), "")
			continue
		}
		// Type() of that type
		tm := methodOf(pk.SSA.Prog, types.NewPointer(nt), pk.Types, "Type")
		okType := false
		detail := "no Type method"
		if tm != nil {
			for _, b := range tm.Blocks {
				for _, in := range b.Instrs {
					if r, ok := in.(*ssa.Return); ok && len(r.Results) == 1 {
						if v, okk := ir.ConstInt(r.Results[0]); okk {
							okType = v == k
							detail = sprintf("%s.Type() returns %s", nt.Obj().Name(), consts[v])
						}
					}
				}
			}
		}
		c.Decide(okType, "C44.registry", dvm, "arm "+name+" constructs a type whose Type() is "+name, c.P.Rel(fresh.Pos()), detail)
		// decoded from m.Payload into the fresh value and returned
		decoded, how := false, ""
		r := ir.NewReach(dvm)
		r.RunFromBlock(arm)
		for _, b := range dvm.Blocks {
			for _, in := range b.Instrs {
				ci, ok := in.(*ssa.Call)
				if !ok || !r.Instr(in) {
					continue
				}
				o := ir.CalleeObj(ci)
				if o == nil {
					continue
				}
				args := ci.Common().Args
				switch {
				case o.Pkg() != nil && o.Pkg().Path() == "encoding/json" && o.Name() == "Unmarshal":
					if isFieldNamed(args[0], "Payload") {
						if mi, isMi := args[1].(*ssa.MakeInterface); isMi && mi.X == ssa.Value(fresh) {
							decoded, how = true, "json.Unmarshal"
							jsonKinds[nt.Obj().Name()] = nt
						}
					}
				case o.Name() == "UnmarshalJSON" || o.Name() == "Deserialize":
					if len(args) == 2 && args[0] == ssa.Value(fresh) && isFieldNamed(args[1], "Payload") {
						decoded, how = true, o.Name()
					}
				}
			}
		}
		c.Decide(decoded, "C44.registry", dvm, "arm "+name+" decodes m.Payload into the fresh "+nt.Obj().Name(), c.P.Rel(fresh.Pos()), how)
	}
	for k := range arms {
		if _, ok := consts[k]; !ok {
			c.Violate("C44.registry", dvm, sprintf("arm for value %d corresponds to a MsgType constant", k), c.P.Rel(dvm.Pos()), "")
		}
	}
	succ := nonNilParamSuccess(dvm)
	eng.Dominates(c, "C44.registry", dvm, relGuard("m.Len >= len(m.Payload)", isFieldOf("Len", nil), isLenOfField("Payload", nil), token.GEQ), succ, "message returned", nil)
	// SerializeVbftMsg
	{
		okT, okL, okP := false, false, false
		var ser *ssa.Call
		for _, ci := range ir.Calls(svm, func(ci ssa.CallInstruction) bool {
			return ci.Common().IsInvoke() && ci.Common().Method.Name() == "Serialize"
		}) {
			ser, _ = ci.(*ssa.Call)
		}
		for _, b := range svm.Blocks {
			for _, in := range b.Instrs {
				st, ok := in.(*ssa.Store)
				if !ok {
					continue
				}
				fa, ok := st.Addr.(*ssa.FieldAddr)
				if !ok {
					continue
				}
				switch fieldNameOf(fa) {
				case "Type":
					if cl, ok := st.Val.(*ssa.Call); ok && cl.Common().IsInvoke() && cl.Common().Method.Name() == "Type" && cl.Common().Value == ssa.Value(svm.Params[0]) {
						okT = true
					}
				case "Len":
					if cl, ok := ir.Strip(st.Val).(*ssa.Call); ok {
						if bi, isB := cl.Common().Value.(*ssa.Builtin); isB && bi.Name() == "len" {
							if s2, i2 := ir.CallOf(cl.Common().Args[0]); s2 == ser && i2 == 0 {
								okL = true
							}
						}
					}
				case "Payload":
					if s2, i2 := ir.CallOf(st.Val); s2 != nil && s2 == ser && i2 == 0 {
						okP = true
					}
				}
			}
		}
		c.Decide(okT && okL && okP && ser != nil, "C44.registry", svm, "envelope = {Type: msg.Type(), Len: len(payload), Payload: payload = msg.Serialize()}", c.P.Rel(svm.Pos()), sprintf("type %v len %v payload %v", okT, okL, okP))
	}

	// ---- JSON kinds
	var jn []string
	for n := range jsonKinds {
		jn = append(jn, n)
	}
	sort.Strings(jn)
	c.Floor("message kinds carried as JSON", len(jn), 8)
	seenStruct := map[string]bool{}
	var audit func(nt *types.Named, owner string)
	audit = func(nt *types.Named, owner string) {
		if seenStruct[nt.Obj().Name()] || nt.Obj().Pkg() == nil || !strings.HasPrefix(nt.Obj().Pkg().Path(), ir.Mod+"/consensus/vbft") {
			return
		}
		st, ok := nt.Underlying().(*types.Struct)
		if !ok {
			return
		}
		seenStruct[nt.Obj().Name()] = true
		tags := map[string]string{}
		var bad []string
		for i := 0; i < st.NumFields(); i++ {
			f := st.Field(i)
			if !f.Exported() {
				bad = append(bad, f.Name()+": unexported field is not encoded")
				continue
			}
			tag := reflect.StructTag(st.Tag(i)).Get("json")
			name := strings.Split(tag, ",")[0]
			if tag == "" {
				bad = append(bad, f.Name()+": no json tag")
				continue
			}
			if name == "-" {
				bad = append(bad, f.Name()+": json:\"-\" drops the field")
				continue
			}
			if other, dup := tags[name]; dup {
				bad = append(bad, f.Name()+": tag "+name+" duplicates "+other)
			}
			tags[name] = f.Name()
			if why := jsonUnsafe(f.Type(), 0); why != "" {
				bad = append(bad, f.Name()+": "+why)
			}
			// nested message structs
			t := f.Type()
			for {
				switch x := t.(type) {
				case *types.Pointer:
					t = x.Elem()
					continue
				case *types.Slice:
					t = x.Elem()
					continue
				}
				break
			}
			if n2, isN := t.(*types.Named); isN {
				audit(n2, nt.Obj().Name())
			}
		}
		c.Decide(len(bad) == 0, "C44.json", nt.Obj().Name(), "every field is exported, tagged, uniquely named and JSON-representable", c.P.Rel(nt.Obj().Pos()), strings.Join(bad, "; "))
	}
	for _, n := range jn {
		nt := jsonKinds[n]
		audit(nt, "")
		// Serialize = json.Marshal(receiver)
		sm := methodOf(pk.SSA.Prog, types.NewPointer(nt), pk.Types, "Serialize")
		okM := false
		if sm != nil {
			for _, ci := range ir.Calls(sm, func(ci ssa.CallInstruction) bool { return ir.IsPkgFunc(ci, "encoding/json", "Marshal") }) {
				if mi, isMi := ci.Common().Args[0].(*ssa.MakeInterface); isMi && mi.X == ssa.Value(sm.Params[0]) {
					okM = true
				}
			}
		}
		c.Decide(okM, "C44.json", n, "Serialize is json.Marshal of the message itself (sibling of the json.Unmarshal arm)", c.P.Rel(nt.Obj().Pos()), "")
		// no custom MarshalJSON/UnmarshalJSON asymmetry
		hasM := methodOf(pk.SSA.Prog, types.NewPointer(nt), pk.Types, "MarshalJSON") != nil
		hasU := methodOf(pk.SSA.Prog, types.NewPointer(nt), pk.Types, "UnmarshalJSON") != nil
		c.Decide(hasM == hasU, "C44.json", n, "custom JSON methods come in pairs", c.P.Rel(nt.Obj().Pos()), sprintf("MarshalJSON %v UnmarshalJSON %v", hasM, hasU))
	}

	// ---- ConsensusPayload
	{
		names := []string{"SerializeUnsigned", "serializationUnsigned", "DeserializeUnsigned", "deserializationUnsigned"}
		var seqs []string
		var first []eng.CodecOp
		for i, n := range names {
			fn := c.Fn(pkP2PTypes, "ConsensusPayload."+n)
			if fn == nil {
				return
			}
			ops := eng.CodecSeqInline(fn)
			if i == 0 {
				first = ops
			}
			seqs = append(seqs, eng.CodecSeqString(ops))
		}
		for i := 1; i < len(names); i++ {
			fn := c.Fn(pkP2PTypes, "ConsensusPayload."+names[i])
			c.Decide(seqs[i] == seqs[0] && seqs[0] != "", "C44.payload-schema", fn, names[i]+" performs the same ordered (kind, field) operations as "+names[0], c.P.Rel(fn.Pos()), seqs[i]+"  vs  "+seqs[0])
		}
		c.Floor("wire operations in ConsensusPayload.SerializeUnsigned", len(first), 6)
		// coverage
		po, err := c.P.Obj(pkP2PTypes, "ConsensusPayload")
		if err == nil {
			st := po.Type().Underlying().(*types.Struct)
			cov := map[string]bool{}
			for _, o := range first {
				cov[o.Field] = true
			}
			exempt := map[string]string{"Owner": "verification key", "Signature": "the signature itself", "PeerId": "local bookkeeping, not transmitted", "hash": "cache"}
			var missing []string
			for i := 0; i < st.NumFields(); i++ {
				n := st.Field(i).Name()
				if !cov[n] && exempt[n] == "" {
					missing = append(missing, n)
				}
			}
			for _, o := range first {
				if o.Field == "" {
					missing = append(missing, "operation "+o.Kind+" writes no field of the payload")
				}
			}
			fn := c.Fn(pkP2PTypes, "ConsensusPayload.SerializeUnsigned")
			c.Decide(len(missing) == 0, "C44.payload-schema", fn, "the signed encoding covers every field except Owner, Signature, PeerId, hash", c.P.Rel(fn.Pos()), strings.Join(missing, ", "))
		}
		// signed variants append owner and signature
		for _, n := range []string{"Serialize", "Serialization", "Deserialize", "Deserialization"} {
			fn := c.Fn(pkP2PTypes, "ConsensusPayload."+n)
			if fn == nil {
				continue
			}
			ops := eng.CodecSeq(fn)
			helperOwner := false
			// inner unsigned call on the receiver
			inner := ""
			for _, ci := range ir.Calls(fn, func(ci ssa.CallInstruction) bool {
				f := ci.Common().StaticCallee()
				return f != nil && strings.HasSuffix(strings.ToLower(f.Name()), "unsigned") && len(ci.Common().Args) > 0 && ci.Common().Args[0] == ssa.Value(fn.Params[0])
			}) {
				inner = ci.Common().StaticCallee().Name()
			}
			// the trailer may be written / read by a same-receiver helper handed the stream
			for _, ci := range ir.Calls(fn, func(ci ssa.CallInstruction) bool {
				f := ci.Common().StaticCallee()
				return f != nil && f.Pkg == fn.Pkg && len(f.Blocks) > 0 && !strings.HasSuffix(strings.ToLower(f.Name()), "unsigned") &&
					len(ci.Common().Args) > 1 && ci.Common().Args[0] == ssa.Value(fn.Params[0]) && f != fn
			}) {
				h := ci.Common().StaticCallee()
				hops := eng.CodecSeq(h)
				if len(hops) == 0 {
					continue
				}
				if len(ops) > 0 && ci.Pos() < ops[0].Pos {
					ops = append(append([]eng.CodecOp{}, hops...), ops...)
				} else {
					ops = append(ops, hops...)
				}
				// the owner key conversion sits there too
				for _, k := range ir.Calls(h, func(k ssa.CallInstruction) bool {
					o := ir.CalleeObj(k)
					return o != nil && (o.Name() == "SerializePublicKey" || o.Name() == "DeserializePublicKey")
				}) {
					if ir.CalleeObj(k).Name() == "SerializePublicKey" {
						helperOwner = helperOwner || isFieldNamed(k.Common().Args[0], "Owner")
					} else if v, isV := k.(ssa.Value); isV {
						helperOwner = helperOwner || storedIntoField(v, "Owner")
					}
				}
			}
			tail := eng.CodecSeqString(ops)
			want := "varbytes: varbytes:Signature"
			if strings.HasPrefix(n, "Des") {
				want = "varbytes: varbytes:Signature"
			}
			okTail := inner != "" && tail == want
			// the first varbytes is the owner key: writers take SerializePublicKey(this.Owner), readers store DeserializePublicKey into Owner
			okOwner := false
			for _, ci := range ir.Calls(fn, func(ci ssa.CallInstruction) bool {
				o := ir.CalleeObj(ci)
				return o != nil && (o.Name() == "SerializePublicKey" || o.Name() == "DeserializePublicKey")
			}) {
				if ir.CalleeObj(ci).Name() == "SerializePublicKey" {
					okOwner = isFieldNamed(ci.Common().Args[0], "Owner")
				} else if v, isV := ci.(ssa.Value); isV {
					okOwner = storedIntoField(v, "Owner")
				}
			}
			okOwner = okOwner || helperOwner
			c.Decide(okTail && okOwner, "C44.payload-schema", fn, n+" = unsigned part, then Owner public key, then Signature", c.P.Rel(fn.Pos()), sprintf("inner %q tail %q owner %v", inner, tail, okOwner))
		}
		// Verify
		if fn := c.Fn(pkP2PTypes, "ConsensusPayload.Verify"); fn != nil {
			su := c.Fn(pkP2PTypes, "ConsensusPayload.SerializeUnsigned")
			succ := ir.SuccessSinks(fn)
			var buf ssa.Value
			eng.Dominates(c, "C44.payload-signature", fn, eng.NamedGuard{Name: "this.SerializeUnsigned(buf) err==nil", G: ir.ErrNil(func(x *ssa.Call) bool {
				if x.Common().StaticCallee() == su && x.Common().Args[0] == ssa.Value(fn.Params[0]) {
					if mi, ok := x.Common().Args[1].(*ssa.MakeInterface); ok {
						buf = mi.X
					}
					return true
				}
				return false
			})}, succ, "nil return", nil)
			eng.Dominates(c, "C44.payload-signature", fn, eng.NamedGuard{Name: "signature.Verify(this.Owner, buf.Bytes(), this.Signature) err==nil", G: ir.ErrNil(func(x *ssa.Call) bool {
				o := ir.CalleeObj(x)
				if o == nil || o.Name() != "Verify" || o.Pkg() == nil || o.Pkg().Path() != ir.PkgPath(pkSig) {
					return false
				}
				a := x.Common().Args
				by := calleeNamed(a[1], "Bytes")
				return isFieldNamed(a[0], "Owner") && isFieldNamed(a[2], "Signature") && by != nil && buf != nil && by.Common().Args[0] == buf
			})}, succ, "nil return", nil)
		}
	}

	// ---- proposal signature
	if fn := c.Fn(pkVbft, "blockProposalMsg.Verify"); fn != nil {
		succ := ir.SuccessSinks(fn)
		pubP := fn.Params[1]
		verifyOf := func(which string) ir.Guard {
			return ir.BoolIs(func(x *ssa.Call) bool {
				o := ir.CalleeObj(x)
				if o == nil || o.Name() != "Verify" || o.Pkg() == nil || o.Pkg().Path() != "github.com/ontio/ontology-crypto/signature" {
					return false
				}
				a := x.Common().Args
				if ir.Strip(a[0]) != ssa.Value(pubP) {
					return false
				}
				// data = hash[:] with hash = msg.Block.<which>.Hash()
				sl, ok := a[1].(*ssa.Slice)
				if !ok {
					return false
				}
				al, ok := sl.X.(*ssa.Alloc)
				if !ok {
					return false
				}
				h := calleeNamed(ir.SingleStore(al), "Hash")
				if h == nil || !isFieldNamed(h.Common().Args[0], which) {
					return false
				}
				// sig = Deserialize(<which>.Header.SigData[0])
				d, di := ir.CallOf(a[2])
				if d == nil || di != 0 || ir.CalleeObj(d) == nil || ir.CalleeObj(d).Name() != "Deserialize" {
					return false
				}
				ld, ok := ir.Strip(d.Common().Args[0]).(*ssa.UnOp)
				if !ok {
					return false
				}
				ia, ok := ld.X.(*ssa.IndexAddr)
				if !ok {
					return false
				}
				k, okk := ir.ConstInt(ia.Index)
				hb, f, okf := fieldLoad(ia.X)
				if !okk || k != 0 || !okf || f != "SigData" {
					return false
				}
				bb, f2, ok2 := fieldLoad(hb)
				return ok2 && f2 == "Header" && isFieldNamed(bb, which)
			}, true)
		}
		eng.Dominates(c, "C44.proposal-signature", fn, eng.NamedGuard{Name: "signature.Verify(pub, Block.Hash(), sig(Block.Header.SigData[0])) == true", G: verifyOf("Block")}, succ, "nil return", nil)
		emptyNil := ir.Guard(func(cd ir.Cond) (bool, bool) {
			x, neq, ok := ir.NilCmp(cd.V)
			if !ok || !isFieldNamed(x, "EmptyBlock") {
				return false, false
			}
			return true, !neq
		})
		eng.Dominates(c, "C44.proposal-signature", fn, eng.NamedGuard{Name: "EmptyBlock == nil ∨ signature.Verify(pub, EmptyBlock.Hash(), sig(EmptyBlock.Header.SigData[0])) == true", G: ir.Or(emptyNil, verifyOf("EmptyBlock"))}, succ, "nil return", nil)
	}

	// ---- vbft Block codec
	{
		ser := c.Fn(pkVbft, "Block.Serialize")
		des := c.Fn(pkVbft, "Block.Deserialize")
		if ser != nil && des != nil {
			// writer: payload.WriteVarBytes(sink.Bytes()) where sink got blk.Block.Serialization; second under EmptyBlock != nil
			var wr []string
			for _, ci := range ir.Calls(ser, func(ci ssa.CallInstruction) bool {
				o := ir.CalleeObj(ci)
				return o != nil && o.Name() == "Serialization"
			}) {
				_, f, _ := fieldLoad(ci.Common().Args[0])
				wr = append(wr, f)
			}
			var rd []string
			for _, b := range des.Blocks {
				for _, in := range b.Instrs {
					st, ok := in.(*ssa.Store)
					if !ok {
						continue
					}
					if fa, ok := st.Addr.(*ssa.FieldAddr); ok && fa.X == ssa.Value(des.Params[0]) {
						rd = append(rd, fieldNameOf(fa))
					}
				}
			}
			// reads: in Deserialize or in a same-package helper it hands its source to
			nvb := 0
			desHosts, releaseDes := hostsWithHelpers(des)
			for _, h := range desHosts {
				nvb += len(ir.Calls(h, func(ci ssa.CallInstruction) bool {
					o := ir.CalleeObj(ci)
					return o != nil && o.Name() == "NextVarBytes"
				}))
			}
			releaseDes()
			nwb := len(ir.Calls(ser, func(ci ssa.CallInstruction) bool {
				o := ir.CalleeObj(ci)
				return o != nil && o.Name() == "WriteVarBytes"
			}))
			c.Decide(strings.Join(wr, ",") == "Block,EmptyBlock" && nvb == 2 && nwb == 2 && strings.Join(rd, ",") == "Block,EmptyBlock,Info", "C44.block-codec", ser,
				"vbft Block: writer emits varbytes(Block) then varbytes(EmptyBlock); reader takes them in that order and sets Block, EmptyBlock, Info", c.P.Rel(ser.Pos()),
				sprintf("writes %v (%d varbytes), reads %d varbytes, sets %v", wr, nwb, nvb, rd))
			// the optional second part is written only when EmptyBlock != nil and read only when bytes remain
			emptyWrites := ir.Calls(ser, func(ci ssa.CallInstruction) bool {
				o := ir.CalleeObj(ci)
				if o == nil || o.Name() != "Serialization" {
					return false
				}
				_, f, _ := fieldLoad(ci.Common().Args[0])
				return f == "EmptyBlock"
			})
			eng.Dominates(c, "C44.block-codec", ser, eng.NamedGuard{Name: "EmptyBlock != nil", G: func(cd ir.Cond) (bool, bool) {
				x, neq, ok := ir.NilCmp(cd.V)
				if !ok || !isFieldNamed(x, "EmptyBlock") {
					return false, false
				}
				return true, neq
			}}, ir.CallSinks(emptyWrites, "EmptyBlock.Serialization"), "encoding of the empty block", nil)
		}
	}
}

func jsonUnsafe(t types.Type, d int) string {
	if d > 6 {
		return ""
	}
	switch x := t.Underlying().(type) {
	case *types.Signature:
		return "func type cannot be JSON-encoded"
	case *types.Chan:
		return "chan type cannot be JSON-encoded"
	case *types.Basic:
		if x.Info()&types.IsComplex != 0 {
			return "complex type cannot be JSON-encoded"
		}
	case *types.Interface:
		if _, isNamed := t.(*types.Named); !isNamed || x.NumMethods() == 0 {
			return "interface value does not decode to its original dynamic type"
		}
	case *types.Pointer:
		return jsonUnsafe(x.Elem(), d+1)
	case *types.Slice:
		return jsonUnsafe(x.Elem(), d+1)
	case *types.Map:
		if b, ok := x.Key().Underlying().(*types.Basic); !ok || b.Info()&(types.IsInteger|types.IsString) == 0 {
			return "map key type is not a string or integer"
		}
		return jsonUnsafe(x.Elem(), d+1)
	}
	return ""
}

func storedIntoField(v ssa.Value, field string) bool {
	if v.Referrers() == nil {
		return false
	}
	for _, r := range *v.Referrers() {
		switch x := r.(type) {
		case *ssa.Extract:
			if x.Index == 0 && storedIntoField(x, field) {
				return true
			}
		case *ssa.Store:
			if fa, ok := x.Addr.(*ssa.FieldAddr); ok && fieldNameOf(fa) == field && x.Val == v {
				return true
			}
		}
	}
	return false
}

// methodOf returns the method named name of type t, or nil.
func methodOf(prog *ssa.Program, t types.Type, pkg *types.Package, name string) *ssa.Function {
	sel := prog.MethodSets.MethodSet(t).Lookup(pkg, name)
	if sel == nil {
		return nil
	}
	return prog.MethodValue(sel)
}
