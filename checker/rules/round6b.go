package rules

import (
	"go/token"

	"golang.org/x/tools/go/ssa"

	"polyverif/core"
	"polyverif/eng"
	"polyverif/ir"
)

// checkRecoverAfterLoad (C12): recoverStore compares the block store's height with the state store's; the
// block store's height it sees is the in-memory one, which loadCurrentBlock fills.  Start-up therefore
// loads the current block before it recovers — otherwise the replay loop sees height 0 and replays nothing.
func checkRecoverAfterLoad(c *core.Ctx) {
	fn := c.Fn(pkLedger, "LedgerStoreImp.init")
	if fn == nil {
		return
	}
	precedes(c, "C12.recover-after-load", fn, "loadCurrentBlock", methodCall("loadCurrentBlock"), "recoverStore", methodCall("recoverStore"), nil)
	// and recovery does read the loaded height (if it reads the stored one itself the order would not matter)
	if rs := c.Fn(pkLedger, "LedgerStoreImp.recoverStore"); rs != nil {
		n := len(ir.CallsThrough(rs, methodCall("GetCurrentBlockHeight"), 1))
		c.Note(sprintf("recoverStore reads the in-memory block height at %d site(s)", n))
	}
}

// checkCalleeListsFresh (C15): NativeService.Invoke parks the caller's events / cross-chain records and
// gives the callee EMPTY lists of its own; what it gives must not be a re-slice of the parked list (a
// zero-length view of the same backing array: the callee's first append overwrites the caller's first entry).
func checkCalleeListsFresh(c *core.Ctx) {
	fn := c.Fn("native", "NativeService.Invoke")
	if fn == nil {
		return
	}
	n := 0
	for _, fld := range []string{"notifications", "crossHashes"} {
		for _, in := range fieldStores(fn, nil, fld) {
			st := in.(*ssa.Store)
			n++
			bad := ""
			v := ir.Strip(st.Val)
			if sl, ok := v.(*ssa.Slice); ok {
				// a slice of a fresh array (composite literal / make) is fine; a slice of an existing list is a view of it
				switch x := ir.Strip(sl.X).(type) {
				case *ssa.Alloc:
				default:
					_ = x
					bad = "the list handed to the callee is a re-slice of an existing list (" + short(sl.X.String()) + "): it shares the caller's backing array"
				}
			}
			c.Decide(bad == "", "C15.callee-lists-fresh", fn, "the "+fld+" list is replaced by a fresh list, an append result or the parked list — never by a view of another list", c.P.Rel(st.Pos()), bad)
		}
	}
	c.Floor("stores into the event / cross-record lists of NativeService.Invoke", n, 4)
}

// checkRegisteredOnlyAfterQuorum (C21): the import gate asks GetSideChain; the record it reads is written by
// PutSideChain, and in the two approval methods that write happens only after CheckConsensusSigns answered
// true — a chain does not count as registered from the first approval on.
func checkRegisteredOnlyAfterQuorum(c *core.Ctx) {
	psc := eng.Obj(c, pkSCM, "PutSideChain")
	ccs := eng.Obj(c, pkNM, "CheckConsensusSigns")
	if psc == nil || ccs == nil {
		return
	}
	n := 0
	for _, name := range []string{"ApproveRegisterSideChain", "ApproveUpdateSideChain"} {
		fn := c.Fn(pkSCM, name)
		if fn == nil {
			continue
		}
		puts := ir.CallsThrough(fn, func(ci ssa.CallInstruction) bool { return ir.CalleeIs(ci, psc) }, 1)
		n += len(puts)
		eng.Dominates(c, "C21.registered-only-after-quorum", fn, eng.NamedGuard{Name: "CheckConsensusSigns == true", G: ir.BoolIs(ir.CallTo(ccs), true)}, ir.CallSinks(puts, "PutSideChain"), "PutSideChain", nil)
	}
	c.Floor("registry writes in the side-chain approvals", n, 2)
}

// checkApprovalNamesTheRequest (C32): an approval is counted under a key derived from the id the approver
// named in THIS call.  Where the key input of CheckConsensusSigns is GetUint64Bytes(x), x is a field of the
// call's own parameter object (the local `params` filled from the transaction input) — not a field of a
// stored record, which may be equal for different requests (all chains of one router share `Router`) and
// would pool their approvals.
func checkApprovalNamesTheRequest(c *core.Ctx) {
	ccsFn := c.Fn(pkNM, "CheckConsensusSigns")
	if ccsFn == nil {
		return
	}
	n := 0
	forEachEffectiveSite(c, ccsFn, func(caller *ssa.Function, site ssa.CallInstruction, args []ssa.Value) {
		if len(args) < 3 {
			return
		}
		cl, _ := ir.CallOf(args[2])
		if cl == nil || ir.CalleeObj(cl) == nil || ir.CalleeObj(cl).Name() != "GetUint64Bytes" || len(cl.Common().Args) != 1 {
			return
		}
		n++
		x := ir.Strip(cl.Common().Args[0])
		ok := false
		what := short(x.String())
		if ld, isLd := x.(*ssa.UnOp); isLd {
			if fa, isFA := ld.X.(*ssa.FieldAddr); isFA {
				base := ir.Strip(fa.X)
				if al, isAl := base.(*ssa.Alloc); isAl && al.Heap {
					ok = true
				}
				what = "field " + fieldNameOf(fa) + " of " + short(base.String())
			}
		}
		c.Decide(ok, "C32.approval-names-the-request", caller, "approvals are keyed by an id taken from the approver's own parameters", c.P.Rel(site.Pos()),
			"the key input is "+what+": a value read from stored state can coincide for different requests, whose approvals are then pooled")
	})
	c.Floor("CheckConsensusSigns sites keyed by a 64-bit id", n, 6)
}

// checkDecoderRestoresField: the decoder of a stored record puts the value it reads back into the named
// field on every successful path (the "fired already" flag of a vote record: a decoder that reads the byte
// and drops it makes every later vote fire the approval again).
func checkDecoderRestoresField(c *core.Ctx, rule, pkg, typ, field, read string) {
	fn := c.Fn(pkg, typ+".Deserialization")
	if fn == nil {
		return
	}
	var stores []ssa.Instruction
	for _, in := range fieldStores(fn, nil, field) {
		st := in.(*ssa.Store)
		if cl, idx := ir.CallOf(st.Val); cl != nil && idx == 0 && ir.CalleeObj(cl) != nil && ir.CalleeObj(cl).Name() == read {
			if fa, ok := st.Addr.(*ssa.FieldAddr); ok && len(fn.Params) > 0 && ir.Strip(fa.X) == ssa.Value(fn.Params[0]) {
				stores = append(stores, st)
			}
		}
	}
	r := ir.NewReach(fn)
	for _, st := range stores {
		r.Barrier[st] = true
	}
	r.Run(nil)
	leak := ""
	for _, s := range ir.SuccessSinks(fn) {
		if r.SinkReachable(s) {
			leak = "a successful decode at " + c.P.Rel(s.Instr.Pos()) + " leaves " + field + " at its zero value"
		}
	}
	c.Decide(len(stores) > 0 && leak == "", rule, fn, typ+"."+field+" is restored from the "+read+" result on every successful decode", c.P.Rel(fn.Pos()), leak)
}

// checkBnbMiddleAgrees (C26): SimpleBnbSearch walks the sorted set from both ends towards the middle and
// must stop there; "am I past / before the middle" is asked twice and both questions use the same middle.
// With two different middles the walk steps onto the middle element a second time on sets of even size and
// the same output is selected (and its value added) repeatedly.
func checkBnbMiddleAgrees(c *core.Ctx) {
	fn := c.Fn(pkBtc, "CoinSelector.SimpleBnbSearch")
	if fn == nil {
		return
	}
	isDepth := func(v ssa.Value) bool { p, ok := ir.Strip(v).(*ssa.Parameter); return ok && p.Name() == "depth" }
	isLen := func(v ssa.Value) bool {
		cl, _ := ir.CallOf(v)
		return cl != nil && ir.CalleeObj(cl) != nil && ir.CalleeObj(cl).Name() == "Len"
	}
	var trees []*eng.Expr
	var where []string
	hosts, releaseHosts := hostsWithHelpers(fn)
	defer releaseHosts()
	var conds []ir.Cond
	for _, h := range hosts {
		conds = append(conds, ir.Conds(h)...)
	}
	for _, cd := range conds {
		b, ok := cd.V.(*ssa.BinOp)
		if !ok {
			continue
		}
		var other ssa.Value
		switch {
		case isDepth(b.X):
			other = b.Y
		case isDepth(b.Y):
			other = b.X
		default:
			continue
		}
		if _, isK := ir.ConstInt(other); isK {
			continue
		}
		e, err := eng.ExtractExpr(other, isLen)
		if err != nil {
			continue
		}
		trees = append(trees, e)
		where = append(where, c.P.Rel(b.Pos()))
	}
	c.Floor("comparisons of depth with the middle of the set in SimpleBnbSearch", len(trees), 2)
	for i := 1; i < len(trees); i++ {
		ok, why := eng.EqualForAll(trees[i], trees[0], 0)
		c.Decide(ok, "C26.distinct-inputs", fn, "both tests of the walk against the middle of the set use the same middle", where[i], sprintf("%s vs %s at %s: %s", trees[i], trees[0], where[0], why))
	}
}

// checkEthashSizeStep (C28): the Ethash cache / dataset size is the largest value below the linear bound
// whose number of rows (size / rowBytes) is prime; the search steps down TWO rows at a time (the spec's
// `size -= 2*HASH_BYTES` resp. `2*MIX_BYTES`).  The step must therefore be twice the row width the
// primality test divides by — another step skips candidates and yields a size no other client computes.
func checkEthashSizeStep(c *core.Ctx) {
	n := 0
	for _, name := range []string{"calcCacheSize", "calcDatasetSize"} {
		fn := c.Fn(pkEthHS, name)
		if fn == nil {
			continue
		}
		var step, row int64 = -1, -1
		for _, b := range fn.Blocks {
			for _, in := range b.Instrs {
				bo, ok := in.(*ssa.BinOp)
				if !ok {
					continue
				}
				k, isK := ir.ConstInt(bo.Y)
				if !isK {
					continue
				}
				if _, isPhi := bo.X.(*ssa.Phi); !isPhi {
					continue
				}
				switch bo.Op.String() {
				case "-":
					step = k
				case "/":
					row = k
				}
			}
		}
		if step < 0 || row < 0 {
			c.Broken("C28.ethash-sizes", fn, "prime search loop (size / row prime; size -= step)", c.P.Rel(fn.Pos()), "not recognised")
			continue
		}
		n++
		c.Decide(step == 2*row, "C28.ethash-sizes", fn, "the prime search steps down by two rows (step = 2 × the row width of the primality test)", c.P.Rel(fn.Pos()), sprintf("step %d, row width %d", step, row))
	}
	c.Floor("Ethash size searches", n, 2)
}

// checkInTurnModulus (C29): a PoSA signer is in turn when number mod (size of the validator set in effect)
// equals its position in THAT set.  The modulus and the list that is scanned for the signer's position are
// therefore the same set's validators (after an epoch block the previous set stays in effect for half its
// size: the newest set's size gives the wrong slot whenever the sizes differ).
func checkInTurnModulus(c *core.Ctx, pkg string, fn *ssa.Function) {
	var modBase ssa.Value
	var modPos string
	for _, b := range fn.Blocks {
		for _, in := range b.Instrs {
			bo, ok := in.(*ssa.BinOp)
			if !ok || bo.Op.String() != "%" {
				continue
			}
			ln, _ := ir.CallOf(bo.Y)
			if ln == nil {
				continue
			}
			if bi, isB := ln.Common().Value.(*ssa.Builtin); !isB || bi.Name() != "len" {
				continue
			}
			base, f, okf := fieldLoad(ln.Common().Args[0])
			if !okf || f != "Validators" {
				continue
			}
			// the in-turn slot (block number mod n), not the modulus inside an error message
			if calleeNamed(bo.X, "Uint64") == nil {
				if cv, isCv := bo.X.(*ssa.Convert); !isCv || calleeNamed(cv.X, "Uint64") == nil {
					continue
				}
			}
			modBase, modPos = base, c.P.Rel(bo.Pos())
		}
	}
	if modBase == nil {
		return // this client computes the slot elsewhere (snapshot.inturn): other rules
	}
	host, loops, release := sliceLoopsVia(fn, func(v ssa.Value) bool { _, f, ok := fieldLoad(v); return ok && f == "Validators" })
	defer release()
	if len(loops) != 1 {
		c.Note(sprintf("C29.in-turn-modulus: %s: %d loops over a Validators list — not decided", pkg, len(loops)))
		return
	}
	_ = host
	var lbase ssa.Value
	if cmp, ok := loops[0].Cond.Cond.(*ssa.BinOp); ok {
		for _, opnd := range []ssa.Value{cmp.X, cmp.Y} {
			if ln, _ := ir.CallOf(opnd); ln != nil {
				if bi, isB := ln.Common().Value.(*ssa.Builtin); isB && bi.Name() == "len" {
					lbase, _, _ = fieldLoad(ln.Common().Args[0])
				}
			}
		}
	}
	c.Decide(lbase != nil && sameValue(lbase, modBase), "C29.in-turn-modulus", fn, "the in-turn slot is taken modulo the size of the validator list that is scanned for the signer", modPos,
		"slot = number mod len("+short(modBase.String())+".Validators) but the signer is looked up in another list")
}

// checkStaleVerdictNotRecorded (C37): a stateful validator's answer taken at a height below the pool's
// current height is not recorded — it is asked again.  In handleRsp every write of the pending entry's
// result list / answered-flags is dominated by the pass edge of the staleness test rsp.Height <
// server.getHeight() (the edge on which the answer is NOT stale); a verdict recorded first counts towards
// "all validators answered" while the re-validation is still outstanding.
func checkStaleVerdictNotRecorded(c *core.Ctx) {
	fn := c.Fn("txnpool/proc", "txPoolWorker.handleRsp")
	if fn == nil {
		return
	}
	var sinks []ir.Sink
	for _, fld := range []string{"flag", "ret"} {
		for _, st := range fieldStores(fn, nil, fld) {
			sinks = append(sinks, ir.Sink{Instr: st, Note: "pending." + fld + " = …"})
		}
	}
	c.Floor("writes of the pending entry's verdicts in handleRsp", len(sinks), 2)
	isRspHeight := func(v ssa.Value) bool { return isFieldNamed(v, "Height") && rootedIn(v, "rsp", 6) }
	isPoolHeight := func(v ssa.Value) bool { return calleeNamed(v, "getHeight") != nil }
	stale := relGuard("rsp.Height >= server.getHeight() (or the validator is stateless)", isRspHeight, isPoolHeight, token.GEQ)
	// the staleness test only concerns stateful validators: `STATEFUL_MASK & (1<<rsp.Type) != 0 && rsp.Height < getHeight()`;
	// the answer passes when either conjunct fails
	stateless := eng.NamedGuard{Name: "validator is not stateful", G: func(cd ir.Cond) (bool, bool) {
		b, ok := cd.V.(*ssa.BinOp)
		if !ok || (b.Op != token.NEQ && b.Op != token.EQL) {
			return false, false
		}
		k, isK := ir.ConstInt(b.Y)
		and, isAnd := ir.Strip(b.X).(*ssa.BinOp)
		if !isK || k != 0 || !isAnd || and.Op != token.AND {
			return false, false
		}
		// mask & (1 << rsp.Type) with the mask a constant (STATEFUL_MASK), not the entry's own flag field
		if _, isMask := ir.ConstInt(and.X); !isMask {
			if _, isMask2 := ir.ConstInt(and.Y); !isMask2 {
				return false, false
			}
		}
		return true, b.Op == token.EQL
	}}
	eng.Dominates(c, "C37.stale-verdict-not-recorded", fn, eng.NamedGuard{Name: "validator not stateful ∨ rsp.Height >= server.getHeight()", G: ir.Or(stale.G, stateless.G)}, sinks, "recording the verdict", nil)
}

// checkMetadataExportUnconditional (C43): the metadata an account is exported with mirrors the stored
// record field by field for EVERY key scheme — each field of the AccountMetadata that getAccountMetadata
// fills is filled on every path to its return (a curve name exported only for ECDSA keys makes an SM2
// account import with an empty curve, which the key library silently reads as secp256k1).
func checkMetadataExportUnconditional(c *core.Ctx) {
	fn := c.Fn(pkAccount, "ClientImpl.getAccountMetadata")
	if fn == nil {
		return
	}
	byField := map[string][]ssa.Instruction{}
	for _, b := range fn.Blocks {
		for _, in := range b.Instrs {
			st, ok := in.(*ssa.Store)
			if !ok {
				continue
			}
			fa, ok := st.Addr.(*ssa.FieldAddr)
			if !ok {
				continue
			}
			if al, isAl := ir.Strip(fa.X).(*ssa.Alloc); !isAl || !al.Heap {
				continue
			}
			byField[fieldNameOf(fa)] = append(byField[fieldNameOf(fa)], st)
		}
	}
	c.Floor("fields filled by getAccountMetadata", len(byField), 8)
	for _, f := range ir.SortedKeys(byField) {
		r := ir.NewReach(fn)
		for _, st := range byField[f] {
			r.Barrier[st] = true
		}
		r.Run(nil)
		leak := false
		for _, b := range fn.Blocks {
			if ret, ok := b.Instrs[len(b.Instrs)-1].(*ssa.Return); ok && r.Instr(ret) {
				leak = true
			}
		}
		c.Decide(!leak, "C43.export-mirrors-record", fn, "metadata field "+f+" is filled on every path (for every key scheme)", c.P.Rel(byField[f][0].Pos()), "")
	}
}
