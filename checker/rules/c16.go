package rules

import (
	"go/types"
	"sort"
	"strings"

	"golang.org/x/tools/go/ssa"

	"polyverif/core"
	"polyverif/eng"
	"polyverif/ir"
)

// C16 — block execution is deterministic.

func init() {
	core.Register(&core.Check{
		ID: "C16", Level: "other", Title: "Block execution is deterministic",
		Explain: "Reachability of forbidden effects over the module call graph (VTA over CHA plus a callback rule for function values): roots are LedgerStoreImp.executeBlock, every handler registered with NativeService.Register and every method of every ChainHandler / HeaderSyncHandler implementation; sinks are wall-clock reads (time.Now/Since/Until/After/Tick/NewTimer/NewTicker), math/rand package functions and unseeded generators, crypto/rand, os.Getenv/Hostname/Getpid, runtime.NumCPU/NumGoroutine, go statements and multi-way selects; the shortest call path is printed for every hit. Map-order sensitivity: every range over a map in the reachable set is classified by the effects of its body — order-insensitive forms are: writes into a map/set, delete, commutative accumulation, idempotent flag set, early failure return, collect→sort, min/max selection with a strict tie-free comparison, membership search; anything else whose effects escape the loop is a violation. Boundary: common/log and the event publisher are excluded (output only). NOT decided: nondeterminism inside dependency code beyond the sink table.",
		Run:     runC16,
	})
}

type sinkSpec struct {
	pkg   string
	names []string
	what  string
}

var c16Sinks = []sinkSpec{
	{"time", []string{"Now", "Since", "Until", "After", "Tick", "NewTimer", "NewTicker", "AfterFunc"}, "wall clock"},
	{"math/rand", []string{"Int", "Intn", "Int31", "Int31n", "Int63", "Int63n", "Uint32", "Uint64", "Float32", "Float64", "Perm", "Shuffle", "Read", "Seed", "ExpFloat64", "NormFloat64"}, "global pseudo-random source"},
	{"crypto/rand", []string{"Read", "Int", "Prime"}, "cryptographic random source"},
	{"os", []string{"Getenv", "Hostname", "Getpid", "Getwd", "LookupEnv", "Environ"}, "process environment"},
	{"runtime", []string{"NumCPU", "NumGoroutine", "GOMAXPROCS"}, "scheduler state"},
}

// excluded packages (frozen, with reason)
var c16Exclude = map[string]string{
	ir.Mod + "/common/log": "logging output only; does not feed state, digest or events",
	ir.Mod + "/events":     "actor event publication after execution; not part of the execution result",
}

func c16Roots(c *core.Ctx) []*ssa.Function {
	var roots []*ssa.Function
	if f := c.Fn(pkLedger, "LedgerStoreImp.executeBlock"); f != nil {
		roots = append(roots, f)
	}
	hs := Handlers(c)
	c.Floor("registered native handlers", len(hs), 39)
	for _, h := range hs {
		roots = append(roots, h.Fn)
	}
	n := 0
	for _, im := range [][2]string{{pkCCMCom, "ChainHandler"}, {pkHSCom, "HeaderSyncHandler"}} {
		o, err := c.P.Obj(im[0], im[1])
		if err != nil {
			c.Broken("anchor", "", im[0]+"."+im[1], "", err.Error())
			continue
		}
		iface := o.Type().Underlying().(*types.Interface)
		for i := 0; i < iface.NumMethods(); i++ {
			for _, f := range c.P.Implementations(iface.Method(i)) {
				roots = append(roots, f)
				n++
			}
		}
	}
	c.Floor("router method implementations", n, 80)
	return roots
}

func runC16(c *core.Ctx) {
	checkSharedBigIntsNotMutated(c, "C16.shared-values-immutable", "native/...")
	roots := c16Roots(c)
	cg := c.P.CG()
	stop := func(f *ssa.Function) bool {
		if f.Pkg == nil {
			return false
		}
		_, ex := c16Exclude[f.Pkg.Pkg.Path()]
		return ex
	}
	reach := cg.Reachable(roots, stop)
	var fns []*ssa.Function
	for f := range reach {
		if len(f.Blocks) > 0 && !stop(f) {
			fns = append(fns, f)
		}
	}
	sort.Slice(fns, func(i, j int) bool { return fns[i].String() < fns[j].String() })
	c.Floor("functions reachable from block execution", len(fns), 1000)
	c.Note("roots %d, reachable module functions with bodies %d", len(roots), len(fns))

	hits := 0
	for _, f := range fns {
		c.Touch(f)
		for _, b := range f.Blocks {
			for _, in := range b.Instrs {
				switch x := in.(type) {
				case *ssa.Go:
					hits++
					c.Violate("C16.no-goroutine", f, "go statement", c.P.Rel(x.Pos()), "goroutine started on a path from block execution: "+strings.Join(ir.PathTo(reach, f), " → "))
				case *ssa.Select:
					if len(x.States) > 1 {
						hits++
						c.Violate("C16.no-select", f, "multi-way select", c.P.Rel(x.Pos()), strings.Join(ir.PathTo(reach, f), " → "))
					}
				case ssa.CallInstruction:
					for _, s := range c16Sinks {
						if ir.IsPkgFunc(x, s.pkg, s.names...) {
							hits++
							o := ir.CalleeObj(x)
							c.Violate("C16.no-"+strings.ReplaceAll(s.what, " ", "-"), f, s.pkg+"."+o.Name(), c.P.Rel(x.Pos()),
								s.what+" consulted on a path from block execution: "+strings.Join(ir.PathTo(reach, f), " → "))
						}
					}
					// the header chain a node has downloaded runs ahead of block execution and is not part
					// of the prior state: reading it makes the result depend on sync progress
					if o := ir.CalleeObj(x); o != nil && (o.Name() == "GetCurrentHeaderHeight" || o.Name() == "GetCurrentHeaderHash") && o.Pkg() != nil && strings.HasPrefix(o.Pkg().Path(), ir.Mod+"/core/") {
						hits++
						c.Violate("C16.no-sync-progress", f, "ledger."+o.Name(), c.P.Rel(x.Pos()),
							"header-sync progress of this node consulted on a path from block execution: "+strings.Join(ir.PathTo(reach, f), " → "))
					}
					// rand.New(rand.NewSource(x)) with non-constant seed
					if ir.IsPkgFunc(x, "math/rand", "NewSource") {
						if _, ok := ir.ConstInt(x.Common().Args[0]); !ok {
							hits++
							c.Violate("C16.no-global-pseudo-random-source", f, "rand.NewSource(non-constant)", c.P.Rel(x.Pos()), strings.Join(ir.PathTo(reach, f), " → "))
						} else {
							c.Hold("C16.seeded-generator", f, "rand.NewSource(constant)", c.P.Rel(x.Pos()), "PRNG seeded with a constant: deterministic")
						}
					}
				}
			}
		}
	}
	c.Hold("C16.effect-scan", "", sprintf("scanned %d reachable functions against %d sink families", len(fns), len(c16Sinks)+2), "", sprintf("%d hits", hits))

	// hidden process state: package-level variables mutated on a path from
	// block execution carry information from one execution to the next
	nGlobalWrites := 0
	for _, f := range fns {
		if f.Name() == "init" || strings.HasPrefix(f.Name(), "init#") {
			continue
		}
		for _, b := range f.Blocks {
			for _, in := range b.Instrs {
				var g *ssa.Global
				switch x := in.(type) {
				case *ssa.Store:
					g = globalRoot(x.Addr, 6)
				case *ssa.MapUpdate:
					g = globalRoot(x.Map, 6)
				case ssa.CallInstruction:
					if bi, ok := x.Common().Value.(*ssa.Builtin); ok && bi.Name() == "delete" {
						g = globalRoot(x.Common().Args[0], 6)
					}
				}
				if g == nil || g.Pkg == nil || !strings.HasPrefix(g.Pkg.Pkg.Path(), ir.Mod) {
					continue
				}
				nGlobalWrites++
				c.Violate("C16.no-hidden-process-state", f, "write to package variable "+short(g.Pkg.Pkg.Path())+"."+g.Name(), c.P.Rel(in.Pos()),
					"a package-level variable is mutated on a path from block execution, so a later execution can observe state left by an earlier one: "+strings.Join(ir.PathTo(reach, f), " → "))
			}
		}
	}
	// aliasing: a package-level map / slice / channel handed to anything but a
	// read (lookup, range, len, index) may be mutated through the alias
	nAlias := 0
	for _, f := range fns {
		if f.Name() == "init" || strings.HasPrefix(f.Name(), "init#") {
			continue
		}
		for _, b := range f.Blocks {
			for _, in := range b.Instrs {
				ld, ok := in.(*ssa.UnOp)
				if !ok {
					continue
				}
				g, ok := ld.X.(*ssa.Global)
				if !ok || g.Pkg == nil || !strings.HasPrefix(g.Pkg.Pkg.Path(), ir.Mod) {
					continue
				}
				switch ld.Type().Underlying().(type) {
				case *types.Map, *types.Chan:
				default:
					continue
				}
				for _, ref := range *ld.Referrers() {
					okUse := false
					switch u := ref.(type) {
					case *ssa.Lookup, *ssa.Range:
						okUse = true
					case *ssa.Call:
						if bi, isB := u.Common().Value.(*ssa.Builtin); isB && (bi.Name() == "len") {
							okUse = true
						}
					case *ssa.DebugRef:
						okUse = true
					case *ssa.MapUpdate:
						okUse = u.Map != ssa.Value(ld) // already reported as a write above when it is the map operand
						if !okUse {
							okUse = true
						}
					}
					if !okUse {
						nAlias++
						c.Violate("C16.no-hidden-process-state", f, "package-level "+ld.Type().Underlying().String()[:3]+" "+short(g.Pkg.Pkg.Path())+"."+g.Name()+" escapes a read-only use", c.P.Rel(ref.Pos()),
							"the shared object can be mutated through the alias and then observed by a later execution: "+strings.Join(ir.PathTo(reach, f), " → "))
					}
				}
			}
		}
	}
	c.Hold("C16.no-hidden-process-state", "", sprintf("scanned %d reachable functions for writes to / aliases of module package variables", len(fns)), "", sprintf("%d writes, %d aliases", nGlobalWrites, nAlias))

	// map-order sensitivity
	eng.MOCtx.Effectful = storageWriters(c)
	eng.MOCtx.Callees = cg.Callees
	nRanges := 0
	callSites := func(f *ssa.Function) []ssa.CallInstruction {
		var out []ssa.CallInstruction
		for _, e := range cg.In[f] {
			if e.Site != nil {
				out = append(out, e.Site)
			}
		}
		return out
	}
	for _, f := range fns {
		for _, lp := range eng.FindMapLoops(f, nil) {
			nRanges++
			verdict, why := eng.ClassifyMapLoop(f, lp)
			if verdict == eng.OrderSensitive && eng.SingletonMap(lp.Range.X, callSites, 4) {
				verdict, why = eng.OrderInsensitive, "order-insensitive: the map provably holds at most one entry (single MapUpdate outside loops at every allocation site reaching this parameter)"
			}
			construct := "range over " + mapDesc(lp.Range.X)
			switch verdict {
			case eng.OrderInsensitive:
				c.Hold("C16.map-order", f, construct, c.P.Rel(lp.Range.Pos()), why)
			case eng.OrderSensitive:
				c.Violate("C16.map-order", f, construct, c.P.Rel(lp.Range.Pos()), why+"; reached via "+strings.Join(ir.PathTo(reach, f), " → "))
			default:
				c.Broken("C16.map-order", f, construct, c.P.Rel(lp.Range.Pos()), why)
			}
		}
	}
	c.Floor("map ranges reachable from block execution", nRanges, 25)
}

// globalRoot: the package-level variable an address / map value is rooted in.
func globalRoot(v ssa.Value, depth int) *ssa.Global {
	for i := 0; i < depth && v != nil; i++ {
		switch x := v.(type) {
		case *ssa.Global:
			return x
		case *ssa.UnOp:
			v = x.X
		case *ssa.FieldAddr:
			v = x.X
		case *ssa.IndexAddr:
			v = x.X
		case *ssa.Field:
			v = x.X
		case *ssa.Lookup:
			v = x.X
		case *ssa.Extract:
			v = x.Tuple
		case *ssa.ChangeType:
			v = x.X
		default:
			return nil
		}
	}
	return nil
}

func mapDesc(v ssa.Value) string {
	if _, f, ok := fieldLoad(v); ok {
		return "field " + f
	}
	v = ir.Strip(v)
	switch x := v.(type) {
	case *ssa.Parameter:
		return "parameter " + x.Name()
	case *ssa.MakeMap:
		return "local map"
	case *ssa.Call:
		if o := ir.CalleeObj(x); o != nil {
			return "result of " + o.Name()
		}
	case *ssa.Extract:
		if cl, ok := x.Tuple.(*ssa.Call); ok {
			if o := ir.CalleeObj(cl); o != nil {
				return "result of " + o.Name()
			}
		}
	}
	return v.Type().String()
}
