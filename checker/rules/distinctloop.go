package rules

import (
	"go/types"
	"strings"

	"golang.org/x/tools/go/ssa"

	"polyverif/core"
	"polyverif/eng"
	"polyverif/ir"
)

// distinctMemberLoop decides the "distinct tracked signers" idiom shared by
// LedgerStoreImp.verifyHeader, ont.VerifyCrossChainMsg and ont.verifyHeader:
//
//	for each key in KEYS { id := PubkeyID(key); require id ∈ PEERS; require id not seen; seen[id] = … }
//
// The loop may stand in fn itself or in a module helper fn calls with KEYS as an
// argument (the helper's parameters are bound to the call's arguments while it
// is analysed, so isKeys / isPeerMap recognise them).  Decided:
//   - every iteration passes the membership test and the not-yet-seen test and
//     records the key (the not-seen test may be `!seen[id]` on a bool map whose
//     recorded value is true, or the presence form `_, dup := seen[id]` with any
//     recorded value);
//   - every sink (the success returns of fn) is reached only after the loop ran
//     to its normal exit — through the helper's results when the loop is there.
//
// Returns false when no host loop was found (caller reports BROKEN).
func distinctMemberLoop(c *core.Ctx, rule string, fn *ssa.Function, isKeys, isPeerMap func(ssa.Value) bool, pid *types.Func, sinks []ir.Sink, sinkDesc string) bool {
	host := fn
	loops := eng.FindSliceLoops(fn, isKeys)
	var hostCall *ssa.Call
	if len(loops) == 0 {
		for _, b := range fn.Blocks {
			for _, in := range b.Instrs {
				cl, ok := in.(*ssa.Call)
				if !ok {
					continue
				}
				h := cl.Common().StaticCallee()
				if h == nil || h == fn || len(h.Blocks) == 0 || h.Pkg == nil || h.Pkg.Pkg == nil || !strings.HasPrefix(h.Pkg.Pkg.Path(), ir.Mod) {
					continue
				}
				hasKeys := false
				for _, a := range cl.Common().Args {
					if isKeys(a) {
						hasKeys = true
					}
				}
				if !hasKeys && h.Pkg != fn.Pkg {
					continue // the keys themselves, or (same package) the object they are a field of, are handed over
				}
				unbind := ir.BindParams(h, cl.Common().Args)
				ls := eng.FindSliceLoops(h, isKeys)
				if len(ls) == 1 && hostCall == nil {
					host, loops, hostCall = h, ls, cl
					defer unbind()
					continue
				}
				unbind()
			}
		}
	}
	if len(loops) != 1 {
		return false
	}
	lp := loops[0]
	desc := "range signer keys"
	if hostCall != nil {
		desc = "range signer keys (in helper " + host.Name() + ")"
	}
	member := eng.NamedGuard{Name: "PeerMap[PubkeyID(key)] present", G: func(cd ir.Cond) (bool, bool) {
		ex, ok := cd.V.(*ssa.Extract)
		if !ok || ex.Index != 1 {
			return false, false
		}
		lk, ok := ex.Tuple.(*ssa.Lookup)
		if !ok || !isPeerMap(lk.X) || !isCallTo(lk.Index, pid) {
			return false, false
		}
		return true, true
	}}
	isUsedMap := func(v ssa.Value) bool { _, ok := ir.Strip(v).(*ssa.MakeMap); return ok }
	presence := false
	unused := eng.NamedGuard{Name: "!usedPubKey[PubkeyID(key)]", G: func(cd ir.Cond) (bool, bool) {
		if ex, isEx := cd.V.(*ssa.Extract); isEx && ex.Index == 1 {
			if lk, isLk := ex.Tuple.(*ssa.Lookup); isLk && lk.CommaOk && isUsedMap(lk.X) && isCallTo(lk.Index, pid) {
				presence = true
				return true, false
			}
			return false, false
		}
		lk, ok := cd.V.(*ssa.Lookup)
		if !ok || lk.CommaOk || !isUsedMap(lk.X) || !isCallTo(lk.Index, pid) {
			return false, false
		}
		return true, false
	}}
	eng.IterationMustPass(c, rule, host, lp.Header, lp.Body, desc, member)
	eng.IterationMustPass(c, rule, host, lp.Header, lp.Body, desc, unused)
	eng.IterationMustExec(c, rule, host, lp.Header, lp.Body, desc, "each iteration records the key as used", func(in ssa.Instruction) bool {
		mu, ok := in.(*ssa.MapUpdate)
		if !ok || !isUsedMap(mu.Map) || !isCallTo(mu.Key, pid) {
			return false
		}
		if presence {
			return true
		}
		k, isk := ir.ConstBool(mu.Value)
		return isk && k
	})
	// the used-set lives across iterations: it is allocated before the loop, not inside it (a set
	// re-created per key never sees a repeat)
	{
		var sets []*ssa.MakeMap
		for _, b := range host.Blocks {
			for _, in := range b.Instrs {
				if mu, ok := in.(*ssa.MapUpdate); ok && isCallTo(mu.Key, pid) {
					if mk, isMk := ir.Strip(mu.Map).(*ssa.MakeMap); isMk {
						sets = append(sets, mk)
					}
				}
			}
		}
		r := ir.NewReach(host)
		r.RunFromBlock(lp.Body)
		okOutside := len(sets) > 0
		for _, mk := range sets {
			if r.Instr(mk) {
				okOutside = false
			}
		}
		c.Decide(okOutside, rule, host, "the set of keys already seen is created once, before the loop over the keys", c.P.Rel(lp.Cond.Pos()), "")
	}
	// the sinks are reached only after the loop's normal exit
	bodyIdx := indexOfSucc(lp.Header, lp.Body)
	if hostCall == nil {
		ex := ir.Edge{From: lp.Header, Idx: 1 - bodyIdx}
		r := ir.NewReach(fn).CutEdges([]ir.Edge{ex}).Run(nil)
		okOrder := true
		for _, s := range sinks {
			if r.SinkReachable(s) {
				okOrder = false
			}
		}
		c.Decide(okOrder, rule, fn, sinkDesc+" only after the membership/distinctness loop ran over all keys", c.P.Rel(lp.Cond.Pos()), "")
		return true
	}
	exit := eng.NamedGuard{Name: "the membership/distinctness loop of " + host.Name() + " ran over all keys", G: func(cd ir.Cond) (bool, bool) {
		if cd.If != lp.Cond {
			return false, false
		}
		return true, cd.TrueIdx() != bodyIdx
	}}
	eng.Dominates(c, rule, fn, exit, sinks, sinkDesc, nil)
	return true
}
