package rules

import (
	"go/token"
	"strings"

	"golang.org/x/tools/go/ssa"

	"polyverif/core"
	"polyverif/eng"
	"polyverif/ir"
)

// C30 — Tendermint-family light clients need a two-thirds power quorum.

func init() {
	core.Register(&core.Check{
		ID: "C30", Level: "other", Title: "Tendermint-family light clients need a two-thirds power quorum",
		Technique: "sibling template: guard dominance + quasi-linear normal form of the power threshold + loop-iteration rules",
		Explain:   "Sibling template over VerifyCosmosHeader of cosmos, okex and polygon/heimdall: the nil return is dominated by (a) equality of the trusted info.NextValidatorsHash with the hash of the submitted validator set (cosmos: new or legacy hash form), (b) equality of the header's ValidatorsHash with that hash, (c) commit height == header height, (d) commit block hash == header hash, (e) Commit.ValidateBasic err==nil, (f) validator-set size == number of commit entries, and (g) the fail edge of tallied <= T(total) where T is extracted as a tree over total voting power and proved ≡ ⌊2·total/3⌋ for all totals (so acceptance needs strictly more than two thirds); in the tally loop every entry that is not absent passes PubKey.VerifyBytes (or the function fails) and the tally grows only under VerifyBytes==true and BlockID equality, by that validator's VotingPower. SyncBlockHeader of the three routers: the tracked (NextValidatorsHash, Height) are overwritten only after the fail edge of info.Height >= header.Height (strictly higher) and VerifyCosmosHeader err==nil for that header, and the stored record is that info. Deposits (cosmos, okex MakeDepositProposal): an accepting return is dominated by header height == params.Height, VerifyCosmosHeader err==nil and ProofRuntime.VerifyValue err==nil on the header's AppHash, and no VerifyAbsence call exists on an accepting path; the accepted message is decoded from the proven value. NOT decided: signature cryptography and Merkle proof operators (tendermint / ics23 dependencies).",
		Run:       runC30,
	})
}

type tmSpec struct {
	pkg     string
	handler string // type implementing SyncBlockHeader
}

func runC30(c *core.Ctx) {
	checkIcs23RunVerifiesWhatWasAsked(c, "C30.ics23-existence")
	accessorPairs(c, "C30.accessor-keys", 2, "native/service/header_sync/cosmos", "native/service/header_sync/okex")
	specs := []tmSpec{
		{"native/service/header_sync/cosmos", "CosmosHandler"},
		{"native/service/header_sync/okex", "Handler"},
		{"native/service/header_sync/polygon", "HeimdallHandler"},
	}
	for _, sp := range specs {
		checkVerifyCosmosHeader(c, sp)
		checkTmSync(c, sp)
	}
	for _, d := range []struct{ pkg, typ, hs string }{
		{"native/service/cross_chain_manager/cosmos", "CosmosHandler", "native/service/header_sync/cosmos"},
		{"native/service/cross_chain_manager/okex", "OKHandler", "native/service/header_sync/okex"},
	} {
		checkTmDeposit(c, d.pkg, d.typ, d.hs)
	}
}

// bytesEqual: bytes.Equal(a, b), or bytes.Compare(a, b) (which ir.BoolIs accepts in the forms == 0 / != 0).
func bytesEqual(cl *ssa.Call) bool {
	return ir.IsPkgFunc(cl, "bytes", "Equal") || ir.IsPkgFunc(cl, "bytes", "Compare")
}

func calleeNamed(v ssa.Value, names ...string) *ssa.Call {
	cl, _ := ir.CallOf(v)
	if cl == nil {
		return nil
	}
	o := ir.CalleeObj(cl)
	if o == nil {
		return nil
	}
	for _, n := range names {
		if o.Name() == n {
			return cl
		}
	}
	return nil
}

func checkVerifyCosmosHeader(c *core.Ctx, sp tmSpec) {
	fn := c.Fn(sp.pkg, "VerifyCosmosHeader")
	if fn == nil {
		return
	}
	succ := ir.SuccessSinks(fn)
	isValsetHash := func(v ssa.Value) bool {
		return calleeNamed(v, "HashCosmosValSet", "Hash") != nil
	}
	eqGuard := func(name string, l func(ssa.Value) bool, r func(ssa.Value) bool) eng.NamedGuard {
		return eng.NamedGuard{Name: name, G: ir.BoolIs(func(cl *ssa.Call) bool {
			if !bytesEqual(cl) {
				return false
			}
			a := cl.Common().Args
			return (l(a[0]) && r(a[1])) || (l(a[1]) && r(a[0]))
		}, true)}
	}
	fieldOf := func(field, root string) func(ssa.Value) bool {
		return func(v ssa.Value) bool {
			_, f, ok := fieldLoad(ir.Strip(v))
			return ok && f == field && rootedIn(v, root, 10)
		}
	}
	eng.Dominates(c, "C30.next-valset-hash", fn, eqGuard("info.NextValidatorsHash == hash(valset)", fieldOf("NextValidatorsHash", "info"), isValsetHash), succ, "nil return", nil)
	eng.Dominates(c, "C30.header-valset-hash", fn, eqGuard("Header.ValidatorsHash == hash(valset)", fieldOf("ValidatorsHash", "myHeader"), isValsetHash), succ, "nil return", nil)
	eng.Dominates(c, "C30.commit-block-hash", fn, eqGuard("Commit.BlockID.Hash == hash(header)", fieldOf("Hash", "myHeader"), func(v ssa.Value) bool {
		return calleeNamed(v, "HashCosmosHeader", "Hash") != nil
	}), succ, "nil return", nil)
	eng.Dominates(c, "C30.commit-height", fn, cmpGuard("Commit height == Header.Height", func(b *ssa.BinOp) (bool, bool) {
		if b.Op != token.EQL && b.Op != token.NEQ {
			return false, false
		}
		ch := func(v ssa.Value) bool { return calleeNamed(v, "GetHeight", "Height") != nil }
		hh := func(v ssa.Value) bool { return isFieldNamed(v, "Height") && rootedIn(v, "myHeader", 10) }
		if (ch(b.X) && hh(b.Y)) || (ch(b.Y) && hh(b.X)) {
			return true, b.Op == token.EQL
		}
		return false, false
	}), succ, "nil return", nil)
	eng.Dominates(c, "C30.commit-basic", fn, eng.NamedGuard{Name: "Commit.ValidateBasic() err==nil", G: ir.ErrNil(func(cl *ssa.Call) bool {
		o := ir.CalleeObj(cl)
		return o != nil && o.Name() == "ValidateBasic"
	})}, succ, "nil return", nil)
	eng.Dominates(c, "C30.size-equality", fn, cmpGuard("valset.Size() == number of commit entries", func(b *ssa.BinOp) (bool, bool) {
		if b.Op != token.EQL && b.Op != token.NEQ {
			return false, false
		}
		sz := func(v ssa.Value) bool { return calleeNamed(v, "Size") != nil }
		if sz(b.X) || sz(b.Y) {
			return true, b.Op == token.EQL
		}
		return false, false
	}), succ, "nil return", nil)

	// threshold
	var thr *ssa.BinOp
	var thrSite cmpSite
	sites, release := cmpSites(fn)
	defer release()
	for _, st := range sites {
		if b := st.B; b.Op == token.LEQ || b.Op == token.GTR {
			if p, _, rel := phiVia(ir.Resolve(b.X), st.Host); p != nil {
				rel()
				thr, thrSite = b, st
			}
		}
	}
	if thr == nil {
		c.Broken("C30.power-threshold", fn, "tallied <= T(total) test", c.P.Rel(fn.Pos()), "not found")
		return
	}
	isTotal := func(v ssa.Value) bool { return calleeNamed(v, "TotalVotingPower") != nil }
	tree, err := eng.ExtractExpr(thr.Y, isTotal)
	if err != nil {
		c.Broken("C30.power-threshold", fn, "threshold tree", c.P.Rel(thr.Pos()), err.Error())
		return
	}
	ok, why := eng.EqualForAll(tree, eng.Div(eng.Mul(eng.N(), eng.K(2)), 3), 0)
	c.Decide(ok, "C30.power-threshold", fn, "accepted iff tallied power > ⌊2·total/3⌋", c.P.Rel(thr.Pos()), why)
	eng.Dominates(c, "C30.power-threshold", fn, siteGuard("tallied > ⌊2·total/3⌋", thrSite, thr.Op == token.GTR), succ, "nil return", nil)

	// tally loop (in fn, or in the helper that returns the tally)
	tally, tfn, releaseTally := phiVia(ir.Resolve(thr.X), thrSite.Host)
	defer releaseTally()
	if tfn != fn {
		c.Attribute(tfn, fn)
	}
	var incs []ir.Sink
	for _, e := range eng.PhiLeaves(nil, tally) {
		if b, ok := e.(*ssa.BinOp); ok && b.Op == token.ADD {
			incs = append(incs, ir.Sink{Instr: b, Note: "tally += power"})
			c.Decide(isFieldNamed(b.Y, "VotingPower") || isFieldNamed(b.X, "VotingPower"), "C30.tally", tfn, "the tally grows by a validator's VotingPower", c.P.Rel(b.Pos()), "")
		}
	}
	if len(incs) != 1 {
		c.Broken("C30.tally", tfn, "tally increment", c.P.Rel(thr.Pos()), sprintf("%d increments", len(incs)))
		return
	}
	hdr := tally.Block()
	var body *ssa.BasicBlock
	if ifi, ok := hdr.Instrs[len(hdr.Instrs)-1].(*ssa.If); ok {
		_ = ifi
		body = hdr.Succs[0]
	}
	if body == nil {
		c.Broken("C30.tally", tfn, "tally loop", c.P.Rel(thr.Pos()), "loop header not recognised")
		return
	}
	verified := eng.NamedGuard{Name: "val.PubKey.VerifyBytes(signBytes, sig) == true", G: ir.BoolIs(func(cl *ssa.Call) bool {
		o := ir.CalleeObj(cl)
		return o != nil && o.Name() == "VerifyBytes"
	}, true)}
	sameBlock := eng.NamedGuard{Name: "Commit.BlockID.Equals(vote block id)", G: ir.BoolIs(func(cl *ssa.Call) bool {
		o := ir.CalleeObj(cl)
		return o != nil && o.Name() == "Equals" && strings.Contains(o.FullName(), "BlockID")
	}, true)}
	opt := &eng.Opt{StartBlock: body}
	eng.Dominates(c, "C30.tally", tfn, verified, incs, "tally += power (per iteration)", opt)
	eng.Dominates(c, "C30.tally", tfn, sameBlock, incs, "tally += power (per iteration)", opt)
	// every non-absent entry is signature-checked: an iteration completes only via the absent edge or VerifyBytes true
	absent := func(cd ir.Cond) (bool, bool) {
		if cl := calleeNamed(cd.V, "Absent"); cl != nil {
			return true, true
		}
		if x, neq, ok := ir.NilCmp(cd.V); ok && !ir.IsErrorType(x.Type()) {
			// heimdall: commitSig == nil → continue
			return true, !neq
		}
		return false, false
	}
	eng.IterationMustPass(c, "C30.tally", tfn, hdr, body, "range commit entries", eng.NamedGuard{Name: "entry absent ∨ signature verified", G: ir.Or(absent, verified.G)})
	checkOneValidatorPerSlot(c, tfn, incs[0].Instr.(*ssa.BinOp), hdr)
}

func checkTmSync(c *core.Ctx, sp tmSpec) {
	fn := c.Fn(sp.pkg, sp.handler+".SyncBlockHeader")
	vch := eng.Obj(c, sp.pkg, "VerifyCosmosHeader")
	put := eng.Obj(c, sp.pkg, "PutEpochSwitchInfo")
	get := eng.Obj(c, sp.pkg, "GetEpochSwitchInfo")
	if fn == nil || vch == nil || put == nil || get == nil {
		return
	}
	// stores into the tracked info
	var stores []ir.Sink
	findStores := func(host *ssa.Function) {
		for _, b := range host.Blocks {
			for _, in := range b.Instrs {
				if st, ok := in.(*ssa.Store); ok {
					if fa, isFA := st.Addr.(*ssa.FieldAddr); isFA && isCallTo(fa.X, get) {
						switch fieldNameOf(fa) {
						case "NextValidatorsHash", "Height", "BlockHash":
							stores = append(stores, ir.Sink{Instr: st, Note: "info." + fieldNameOf(fa) + " = …"})
						}
					}
				}
			}
		}
	}
	findStores(fn)
	perHeaderHelper := false
	if len(stores) == 0 {
		// the per-header step (verify, compare, update) may stand in a same-package helper that is handed the
		// tracked info; its parameters are bound to the call and the obligations are decided there
		for _, ci := range ir.Calls(fn, nil) {
			h := ci.Common().StaticCallee()
			if h == nil || h == fn || h.Pkg != fn.Pkg || len(h.Blocks) == 0 {
				continue
			}
			hasInfo := false
			for _, a := range ci.Common().Args {
				if isCallTo(a, get) {
					hasInfo = true
				}
			}
			if !hasInfo {
				continue
			}
			unbind := ir.BindParams(h, ci.Common().Args)
			findStores(h)
			if len(stores) > 0 {
				defer unbind()
				c.Attribute(h, fn)
				// the record is stored by the caller after the batch
				for _, p := range ir.CallsTo(fn, put) {
					c.Decide(isCallTo(p.Common().Args[2], get), "C30.epoch-advance", fn, "the record stored is the updated tracked info", c.P.Rel(p.Pos()), "")
				}
				fn, perHeaderHelper = h, true
				break
			}
			unbind()
		}
	}
	c.Floor("updates of the tracked epoch info in "+sp.pkg, len(stores), 2)
	if len(stores) == 0 {
		return
	}
	eng.Dominates(c, "C30.epoch-advance", fn, eng.ErrNilOf("VerifyCosmosHeader", vch), stores, "update of tracked validator hash / height", nil)
	eng.Dominates(c, "C30.epoch-advance", fn, cmpGuard("header height > tracked height", func(b *ssa.BinOp) (bool, bool) {
		tr := func(v ssa.Value) bool { base, f, ok := fieldLoad(v); return ok && f == "Height" && isCallTo(base, get) }
		hd := func(v ssa.Value) bool { return isFieldNamed(v, "Height") && !tr(v) }
		switch b.Op {
		case token.GEQ:
			if tr(b.X) && hd(b.Y) {
				return true, false
			}
		case token.LSS:
			if tr(b.X) && hd(b.Y) {
				return true, true
			}
		case token.GTR:
			if hd(b.X) && tr(b.Y) {
				return true, true
			}
		case token.LEQ:
			if hd(b.X) && tr(b.Y) {
				return true, false
			}
		}
		return false, false
	}), stores, "update of tracked validator hash / height", nil)
	// the tracked height that is compared is the CURRENT one: within a batch the update of info.Height is
	// followed, on the way to the next header's comparison, by a fresh read of it (a copy taken before the
	// loop lets a lower header through after a higher one was accepted in the same call)
	{
		tr := func(v ssa.Value) bool { base, f, ok := fieldLoad(v); return ok && f == "Height" && isCallTo(base, get) }
		var loads []ssa.Instruction
		for _, cd := range ir.Conds(fn) {
			b, ok := cd.V.(*ssa.BinOp)
			if !ok {
				continue
			}
			for _, op := range []ssa.Value{b.X, b.Y} {
				if tr(op) && isFieldNamed(otherOperand(b, op), "Height") {
					if in, isIn := ir.Strip(op).(ssa.Instruction); isIn {
						loads = append(loads, in)
					}
				}
			}
		}
		okFresh := len(loads) > 0
		why := sprintf("%d comparison(s) of the tracked height", len(loads))
		if perHeaderHelper && okFresh {
			// one call of the helper handles one header and reads info.Height through the pointer it was
			// handed: every header is compared with the height as left by the call before it
			c.Hold("C30.epoch-advance", fn, "each header of a batch is compared with the tracked height as updated by the headers before it", c.P.Rel(fn.Pos()), "read per call through the tracked info pointer")
			stores = stores[:len(stores):len(stores)]
			goto afterFresh
		}
		for _, s := range stores {
			st := s.Instr.(*ssa.Store)
			if fa, isFA := st.Addr.(*ssa.FieldAddr); !isFA || fieldNameOf(fa) != "Height" {
				continue
			}
			r := ir.NewReach(fn).Run(st)
			for _, l := range loads {
				if !r.Instr(l) {
					okFresh = false
					why = "the tracked height compared at " + c.P.Rel(l.Pos()) + " is read once before the loop and never again after info.Height is advanced"
				}
			}
		}
		c.Decide(okFresh, "C30.epoch-advance", fn, "each header of a batch is compared with the tracked height as updated by the headers before it", c.P.Rel(fn.Pos()), why)
	afterFresh:
	}
	// the verified header is checked against that same info
	for _, v := range ir.CallsTo(fn, vch) {
		c.Decide(isCallTo(v.Common().Args[1], get), "C30.epoch-advance", fn, "VerifyCosmosHeader is given the tracked info", c.P.Rel(v.Pos()), "")
	}
	for _, p := range ir.CallsTo(fn, put) {
		c.Decide(isCallTo(p.Common().Args[2], get), "C30.epoch-advance", fn, "the record stored is the updated tracked info", c.P.Rel(p.Pos()), "")
	}
}

func checkTmDeposit(c *core.Ctx, pkg, typ, hs string) {
	fn := c.Fn(pkg, typ+".MakeDepositProposal")
	vch := eng.Obj(c, hs, "VerifyCosmosHeader")
	if fn == nil || vch == nil {
		return
	}
	sinks := nonNilParamSuccess(fn)
	eng.Dominates(c, "C30.deposit", fn, eng.ErrNilOf("VerifyCosmosHeader", vch), sinks, "accepting return", nil)
	eng.Dominates(c, "C30.deposit", fn, cmpGuard("header height == params.Height", func(b *ssa.BinOp) (bool, bool) {
		if b.Op != token.EQL && b.Op != token.NEQ {
			return false, false
		}
		hh := func(v ssa.Value) bool { return isFieldNamed(v, "Height") }
		ph := func(v ssa.Value) bool {
			cv, ok := v.(*ssa.Convert)
			return ok && isFieldNamed(cv.X, "Height")
		}
		if (hh(b.X) && ph(b.Y)) || (hh(b.Y) && ph(b.X)) {
			return true, b.Op == token.EQL
		}
		return false, false
	}), sinks, "accepting return", nil)
	var vv *ssa.Call
	existence := eng.NamedGuard{Name: "ProofRuntime.VerifyValue(proof, header.AppHash, keypath, value) err==nil", G: ir.ErrNil(func(cl *ssa.Call) bool {
		o := ir.CalleeObj(cl)
		if o == nil || o.Name() != "VerifyValue" {
			return false
		}
		a := cl.Common().Args
		if len(a) < 5 || !isFieldNamed(a[2], "AppHash") {
			return false
		}
		vv = cl
		return true
	})}
	eng.Dominates(c, "C30.existence-proof", fn, existence, sinks, "accepting return", nil)
	// no absence proof anywhere on an accepting path
	nAbs := len(ir.Calls(fn, func(ci ssa.CallInstruction) bool {
		o := ir.CalleeObj(ci)
		return o != nil && o.Name() == "VerifyAbsence"
	}))
	c.Decide(nAbs == 0, "C30.existence-proof", fn, "no VerifyAbsence call in the deposit path", c.P.Rel(fn.Pos()), sprintf("%d calls", nAbs))
	// the accepted message is decoded from the proven value
	if vv != nil {
		// the proof may be verified in a helper handed the proof value: its parameters stand for the call's arguments
		defer bindHelperOf(fn, vv)()
		proven := vv.Common().Args[4]
		// okex proves keccak256(value) (EVM storage slot): the decoded bytes are the pre-image
		if k := calleeNamed(proven, "Keccak256"); k != nil {
			if els := eng.VariadicElems(k.Common().Args[0]); len(els) == 1 {
				proven = els[0]
			}
		}
		okSrc := false
		for _, ci := range ir.Calls(fn, func(ci ssa.CallInstruction) bool {
			o := ir.CalleeObj(ci)
			return o != nil && o.Name() == "NewZeroCopySource"
		}) {
			if sameValue(ci.Common().Args[0], proven) {
				okSrc = true
			}
		}
		c.Decide(okSrc, "C30.existence-proof", fn, "the accepted message is decoded from the proven value", c.P.Rel(vv.Pos()), "")
	}
}

func otherOperand(b *ssa.BinOp, op ssa.Value) ssa.Value {
	if b.X == op {
		return b.Y
	}
	return b.X
}
