package rules

import (
	"strings"

	"golang.org/x/tools/go/ssa"

	"polyverif/eng"
	"polyverif/ir"
)

// A cmpSite is a comparison that decides a branch of fn: either the condition
// of one of fn's own ifs, or the boolean a small module helper returns when fn
// branches on that helper's result (`if !hasQuorum(tallied, total) {…}` with
// `func hasQuorum(a, b int64) bool { return a > b*2/3 }`).  For helper sites the
// helper's parameters stay bound to the call's arguments until the release
// function is called, so ir.Strip / ir.Resolve on an operand yields the
// caller's value.
type cmpSite struct {
	B    *ssa.BinOp
	Host *ssa.Function // fn, or the helper
	Call *ssa.Call     // the helper call in fn (nil for fn's own conditions)
}

func cmpSites(fn *ssa.Function) ([]cmpSite, func()) {
	var out []cmpSite
	var unbinds []func()
	seenH := map[*ssa.Function]bool{}
	dup := map[*ssa.BinOp]bool{}
	add := func(host *ssa.Function, call *ssa.Call) {
		for _, cd := range ir.Conds(host) {
			if b, ok := cd.V.(*ssa.BinOp); ok && !dup[b] {
				dup[b] = true
				out = append(out, cmpSite{b, host, call})
			}
		}
	}
	add(fn, nil)
	for _, b := range fn.Blocks {
		for _, in := range b.Instrs {
			cl, ok := in.(*ssa.Call)
			if !ok {
				continue
			}
			h := cl.Common().StaticCallee()
			if h == nil || h == fn || seenH[h] || len(h.Blocks) == 0 || len(h.Blocks) > 12 || h.Pkg == nil || h.Pkg.Pkg == nil || !strings.HasPrefix(h.Pkg.Pkg.Path(), ir.Mod) {
				continue
			}
			res := h.Signature.Results()
			hasBool := false
			for i := 0; i < res.Len(); i++ {
				if res.At(i).Type().String() == "bool" {
					hasBool = true
				}
			}
			if !hasBool {
				continue
			}
			seenH[h] = true
			unbinds = append(unbinds, ir.BindParams(h, cl.Common().Args))
			add(h, cl)
			for _, hb := range h.Blocks {
				ret, isRet := hb.Instrs[len(hb.Instrs)-1].(*ssa.Return)
				if !isRet {
					continue
				}
				for _, r := range ret.Results {
					vals := []ssa.Value{r}
					if phi, isPhi := r.(*ssa.Phi); isPhi { // a || b, a && b
						vals = phi.Edges
					}
					for _, v := range vals {
						for {
							u, isU := v.(*ssa.UnOp)
							if !isU || u.Op.String() != "!" {
								break
							}
							v = u.X
						}
						if bo, isB := v.(*ssa.BinOp); isB && !dup[bo] {
							dup[bo] = true
							out = append(out, cmpSite{bo, h, cl})
						}
					}
				}
			}
		}
	}
	return out, func() {
		for _, u := range unbinds {
			u()
		}
	}
}

// siteGuard: the guard "comparison s.B has the given truth value" — matched by
// value identity, so the dominance engines find it as fn's own condition or, via
// helper lifting, as the boolean the helper returns.
func siteGuard(name string, s cmpSite, passWhenTrue bool) eng.NamedGuard {
	return eng.NamedGuard{Name: name, G: func(cd ir.Cond) (bool, bool) {
		if cd.V == ssa.Value(s.B) {
			return true, passWhenTrue
		}
		return false, false
	}}
}
