package rules

import (
	"golang.org/x/tools/go/ssa"

	"polyverif/ir"
)

// replayRead describes how recoverStore obtains the block of one height:
// directly (blockStore.GetBlock(blockStore.GetBlockHash(i))) or through a
// same-package helper that does exactly that for its height parameter.
type replayRead struct {
	site    ssa.CallInstruction // the instruction in recoverStore that starts one iteration's read
	height  ssa.Value           // the height expression, in recoverStore's terms
	isBlock func(v ssa.Value) bool
}

func findReplayRead(rs *ssa.Function) *replayRead {
	isGBH := storeCall("blockStore", "GetBlockHash")
	isGB := storeCall("blockStore", "GetBlock")
	blockOf := func(hashCall *ssa.Call) func(v ssa.Value) bool {
		return func(v ssa.Value) bool {
			cl, idx := ir.CallOf(v)
			if cl == nil || idx != 0 || !isGB(cl) {
				return false
			}
			h, hi := ir.CallOf(cl.Common().Args[1])
			return h != nil && hi == 0 && h == hashCall
		}
	}
	if gbh := ir.Calls(rs, isGBH); len(gbh) == 1 {
		hc := gbh[0].(*ssa.Call)
		return &replayRead{site: gbh[0], height: hc.Common().Args[1], isBlock: blockOf(hc)}
	}
	for _, ci := range ir.Calls(rs, nil) {
		cl, isCall := ci.(*ssa.Call)
		h := ci.Common().StaticCallee()
		if !isCall || h == nil || h == rs || h.Pkg != rs.Pkg || len(h.Blocks) == 0 {
			continue
		}
		inner := ir.Calls(h, isGBH)
		if len(inner) != 1 {
			continue
		}
		hc := inner[0].(*ssa.Call)
		p, isP := hc.Common().Args[1].(*ssa.Parameter)
		if !isP {
			continue
		}
		var height ssa.Value
		for i, hp := range h.Params {
			if hp == p && i < len(cl.Common().Args) {
				height = cl.Common().Args[i]
			}
		}
		if height == nil {
			continue
		}
		// every non-nil first result of the helper is the block fetched for that hash
		okRet := false
		for _, b := range h.Blocks {
			if len(b.Instrs) == 0 {
				continue
			}
			if ret, isRet := b.Instrs[len(b.Instrs)-1].(*ssa.Return); isRet && len(ret.Results) >= 1 {
				if ir.IsNilConst(ret.Results[0]) {
					continue
				}
				if !blockOf(hc)(ret.Results[0]) {
					okRet = false
					break
				}
				okRet = true
			}
		}
		if !okRet {
			continue
		}
		return &replayRead{site: ci, height: height, isBlock: func(v ssa.Value) bool {
			c2, idx := ir.CallOf(v)
			return c2 == cl && idx == 0
		}}
	}
	return nil
}
