package rules

import (
	"go/token"
	"golang.org/x/tools/go/ssa"

	"polyverif/core"
	"polyverif/ir"
)

// C39 (continued) — the address a multi-key signature entry speaks for is the
// hash of the program (keys, DECLARED threshold M).  The validator and
// Transaction.GetSignatureAddresses (used by CheckWitness and the pool whenever
// SignedAddr is not yet filled, i.e. for every freshly decoded transaction) must
// attribute the same address: both derive it from the entry's own PubKeys and its
// own M field — never from the number of signature blobs the entry happens to
// carry (the validator checks only the first M of them).
func checkAddressFromDeclaredThreshold(c *core.Ctx) {
	const rule = "C39.address-from-declared-threshold"
	n := 0
	for _, spec := range []struct{ pkg, fn string }{
		{pkTypes, "Transaction.GetSignatureAddresses"},
		{"core/validation", "checkTransactionSignatures"},
	} {
		fn := c.Fn(spec.pkg, spec.fn)
		if fn == nil {
			continue
		}
		// in the function or in a same-package helper it hands the entry to
		hosts, releaseHosts := hostsWithHelpers(fn)
		var derivs []ssa.CallInstruction
		for _, host := range hosts {
			derivs = append(derivs, ir.Calls(host, func(ci ssa.CallInstruction) bool {
				o := ir.CalleeObj(ci)
				return o != nil && (o.Name() == "EncodeMultiPubKeyProgramInto" || o.Name() == "AddressFromMultiPubKeys")
			})...)
		}
		defer releaseHosts()
		for _, ci := range derivs {
			a := ci.Common().Args
			keys, m := a[len(a)-2], a[len(a)-1]
			n++
			kb, kf, okK := fieldLoad(ir.Strip(keys))
			mb, mf, okM := fieldLoad(ir.Strip(m))
			ok := okK && okM && kf == "PubKeys" && mf == "M" && (ir.Strip(kb) == ir.Strip(mb) || sameValue(kb, mb) || sameAccessPath(kb, mb) || copiedFrom(kb) == copiedFrom(mb) || sameElementAddr(kb, mb))
			why := ""
			if !ok {
				why = "the threshold the address is derived from is not the entry's declared M (" + ir.Strip(m).String() + "): an entry with spare signature blobs is attributed another account's address"
			}
			c.Decide(ok, rule, fn, "address of a multi-key entry = program(entry.PubKeys, entry.M)", c.P.Rel(ci.Pos()), why)
		}
	}
	c.Floor("multi-key address derivations (validator + GetSignatureAddresses)", n, 2)
}

// copiedFrom: the local variable a by-value copy was taken from — a helper's spill of a struct parameter
// whose argument is the load of the caller's local resolves to that local (one object, two names).
func copiedFrom(v ssa.Value) ssa.Value {
	for i := 0; i < 4; i++ {
		v = ir.Strip(v)
		al, ok := v.(*ssa.Alloc)
		if !ok {
			return v
		}
		st := ir.SingleStore(al)
		if st == nil {
			return v
		}
		if ld, isLd := st.(*ssa.UnOp); isLd && ld.Op == token.MUL {
			v = ld.X // a local copy of an element: the element's address names the object
			continue
		}
		p, isP := st.(*ssa.Parameter)
		if !isP {
			return v
		}
		ld, isLd := ir.Strip(p).(*ssa.UnOp)
		if !isLd {
			return v
		}
		v = ld.X
	}
	return v
}

// sameElementAddr: two addresses of the same slice element (`s[i].A` and `s[i].B` read in one iteration):
// the same base slice and the same index value.
func sameElementAddr(a, b ssa.Value) bool {
	ia, ok1 := ir.Strip(a).(*ssa.IndexAddr)
	ib, ok2 := ir.Strip(b).(*ssa.IndexAddr)
	if !ok1 || !ok2 {
		return false
	}
	return (ia.X == ib.X || sameValue(ia.X, ib.X)) && (ia.Index == ib.Index || sameValue(ia.Index, ib.Index)) && ia.Block() == ib.Block()
}
