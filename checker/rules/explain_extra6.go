package rules

import "polyverif/core"

// Clauses added in the sixth round of seeded changes (DESIGN 11.7, "Round 6").
func init() {
	add := core.AddExplain
	eof := "eof-not-lost: ZeroCopySource moves to the end of the buffer when a read does not fit, so after one end-of-input answer every later read of >= 1 byte answers eof too; for every fixed-size read R of a decoder, assuming R answered eof (later eof tests and later sub-decoder error tests go the failing way), no success return is reachable. Exempt: a source over a constant-length local buffer; in error-returning decoders a terminal read whose answer is discarded with the blank identifier or branched on (an optional trailing field by construction)."
	add("C01", eof+" For the composite readers of common (which answer (value, eof) themselves) a return is a success unless it hands back the eof answer of R or of a later read.")
	add("C02", eof+" bounded-alloc: an upper bound tested on a SIGNED conversion of a 64-bit wire count is not a bound (2^63.. converts to a negative number).")
	add("C04", eof)
	add("C05", eof+" limits: a re-slice to a 32-bit wire count is accepted only after a loop counted to that same count ran to its end, the bound being the count or the count clamped down to a constant.")
	add("C07", "every (flag, sibling) element MerkleProve reads is folded by HashChildren before the next element is read or the value is returned (an element with an unknown flag is not skipped).")
	add("C08", "file offsets of the node store are computed in 64 bits (no 32-bit product feeds ReadAt / WriteAt / Seek).")
	add("C10", "discard-leaves-nothing: LevelDBStore.NewBatch installs a fresh batch on every path.")
	add("C11", "values-order-free: no encoder of contract state leaks Go's map iteration order into the bytes written (the C04/C16 map-emission rule, decided here for the digest).")
	add("C12", "recover-after-load: LedgerStoreImp.init loads the current block before it runs recoverStore.")
	add("C13", "tip-durable-first: submitBlock commits the block store, then the event store, then the state store, each after the previous commit succeeded (the C12 rule, decided here for the block-root check after a fault).")
	add("C15", "callee-lists-fresh: NativeService.Invoke never hands the callee a re-slice of the caller's parked event / cross-record list.")
	add("C17", "id-from-own-counter: where a governance function reads a counter with get<X> and stores value+1 with put<Y>, X = Y.")
	add("C18", "multisig-internals (as C14/C39): VerifyMultiSignature counts m distinct keys; the used-key mask is allocated once.")
	add("C21", "registered-only-after-quorum: PutSideChain in the two approvals is dominated by CheckConsensusSigns == true.")
	add("C22", "failed-import-leaves-nothing: the per-transaction cache is reset before every transaction (the C15 rule).")
	add("C24", "tracked-set-of-that-height: FindKeyHeight answers only a key height strictly below the queried height (shared with C31).")
	add("C25", "once: the decoders of SigInfo / VoteInfo restore Status from the byte they read on every successful path.")
	add("C26", "distinct-inputs: both tests of SimpleBnbSearch against the middle of the sorted set use the same middle (trees over Len() equal for all sizes).")
	add("C28", "ethash-sizes: the prime search of calcCacheSize / calcDatasetSize steps down by exactly two rows (step = 2 × the row width the primality test divides by).")
	add("C29", "in-turn-modulus: the in-turn slot is number mod len(V) for the same validator list V that is scanned for the signer.")
	add("C32", "approval-names-the-request: where the approval key input is GetUint64Bytes(x), x is a field of the call's own parameter object.")
	add("C37", "stale-verdict-not-recorded: in handleRsp every write of the pending entry's verdict list / answered flags is dominated by 'validator not stateful or rsp.Height >= server.getHeight()'.")
	add("C41", "getCommitConsensus installs a fresh signer set per proposer (from one installation the next is not reachable without a new make).")
	add("C42", "the vote-counting rules of CheckVotes / CheckSigns (C25.count, C25.threshold, C25.once) are decided here too: a threshold bounds a count of distinct validators.")
	add("C43", "export-mirrors-record: every field getAccountMetadata fills is filled on every path (for every key scheme).")
}
