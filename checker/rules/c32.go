package rules

import (
	"go/constant"
	"go/token"
	"sort"
	"strings"

	"golang.org/x/tools/go/ssa"

	"polyverif/core"
	"polyverif/eng"
	"polyverif/ir"
)

// C32 — governance approvals need two thirds of distinct current validators.

func init() {
	core.Register(&core.Check{
		ID: "C32", Level: "other", Title: "Governance approvals need two thirds of distinct current validators",
		Explain: "node_manager.CheckConsensusSigns: the sign set is keyed by sha256(method‖input) (value flow from the two parameters into sha256.Sum256 and on to getConsensusSigns / putConsensusSigns / deleteConsensusSigns); the approver recorded is the address parameter (set semantics: a map keyed by address, so one address counts once); the counting loop ranges over the current view's peer pool and increments num only for entries with Status==ConsensusStatus whose address DERIVED FROM THE PEER PUBLIC KEY (AddressFromPubKey(DeserializePublicKey(hex(key)))) is in the sign set, and sum for every ConsensusStatus entry; the threshold expression is extracted as a tree over N=sum and proved ≡ ⌈2N/3⌉ for all N≥0; return true is dominated by num >= T and preceded by deleteConsensusSigns(key), the other success return by putConsensusSigns(key, set). Call sites (enumerated from the call graph): method is a string constant, the constants are pairwise distinct and prefix-free (so method‖input is unambiguous), input derives from the decoded parameter object, and the address passed is the same params.Address value that ValidateOwner checked (dominance of that check is C18). NOT decided: the history statement 'exactly at the approval that reaches the threshold' (follows from set semantics + monotone count).",
		Run:     runC32,
	})
}

func runC32(c *core.Ctx) {
	checkSignsStayCleared(c, "C32.cleared-stays-cleared")
	checkApprovalNamesTheRequest(c)
	fn := c.Fn(pkNM, "CheckConsensusSigns")
	getCS := eng.Obj(c, pkNM, "getConsensusSigns")
	putCS := eng.Obj(c, pkNM, "putConsensusSigns")
	delCS := eng.Obj(c, pkNM, "deleteConsensusSigns")
	afp := eng.Obj(c, pkTypes, "AddressFromPubKey")
	if fn == nil || getCS == nil || putCS == nil || delCS == nil || afp == nil {
		return
	}
	param := func(name string) func(ssa.Value) bool {
		return func(v ssa.Value) bool { p, ok := ir.Strip(v).(*ssa.Parameter); return ok && p.Name() == name }
	}
	// 1. key = sha256.Sum256(append([]byte(method), input...))
	var keyCall *ssa.Call
	for _, ci := range ir.Calls(fn, func(ci ssa.CallInstruction) bool { return ir.IsPkgFunc(ci, "crypto/sha256", "Sum256") }) {
		keyCall, _ = ci.(*ssa.Call)
	}
	okKey := false
	shaOf := func(sum *ssa.Call) bool {
		if ap, ok := ir.Strip(sum.Common().Args[0]).(*ssa.Call); ok {
			if b, isB := ap.Common().Value.(*ssa.Builtin); isB && b.Name() == "append" {
				return param("method")(ap.Common().Args[0]) && param("input")(ap.Common().Args[1])
			}
		}
		return false
	}
	if keyCall != nil {
		okKey = shaOf(keyCall)
	} else {
		// the key may be computed by a same-package helper handed (method, input)
		for _, ci := range ir.Calls(fn, nil) {
			cl, isCall := ci.(*ssa.Call)
			if !isCall || cl.Common().StaticCallee() == nil || cl.Common().StaticCallee().Pkg != fn.Pkg {
				continue
			}
			via, release := valueVia(cl)
			if sum, isSum := ir.Strip(via).(*ssa.Call); isSum && via != ssa.Value(cl) && ir.IsPkgFunc(sum, "crypto/sha256", "Sum256") && shaOf(sum) {
				keyCall, okKey = cl, true
				c.Attribute(cl.Common().StaticCallee(), fn)
			}
			release()
		}
	}
	pos := fn.Pos()
	if keyCall != nil {
		pos = keyCall.Pos()
	}
	c.Decide(okKey, "C32.key", fn, "key = sha256(method ‖ input)", c.P.Rel(pos), "")
	isKey := func(v ssa.Value) bool {
		v = ir.Strip(v)
		return keyCall != nil && (v == ssa.Value(keyCall) || func() bool { cl, _ := ir.CallOf(v); return cl == keyCall }())
	}
	for _, o := range []struct {
		name string
		obj  interface{}
	}{{"getConsensusSigns", getCS}, {"putConsensusSigns", putCS}, {"deleteConsensusSigns", delCS}} {
		calls := ir.Calls(fn, func(ci ssa.CallInstruction) bool {
			ob := ir.CalleeObj(ci)
			return ob != nil && ob.Name() == o.name
		})
		okAll := len(calls) >= 1
		for _, cl := range calls {
			if !isKey(cl.Common().Args[1]) {
				okAll = false
			}
		}
		c.Decide(okAll, "C32.key", fn, o.name+" is called with that key", c.P.Rel(fn.Pos()), sprintf("%d call(s)", len(calls)))
	}
	// 2. the approver recorded is the address parameter, in the set read from storage
	recorded := false
	for _, b := range fn.Blocks {
		for _, in := range b.Instrs {
			if mu, ok := in.(*ssa.MapUpdate); ok && param("address")(mu.Key) && isFieldNamed(mu.Map, "SignsMap") {
				base, _, _ := fieldLoad(mu.Map)
				if isCallTo(base, getCS) {
					recorded = true
				}
			}
		}
	}
	c.Decide(recorded, "C32.recorded-approver", fn, "SignsMap[address] = true on the set returned by getConsensusSigns(key)", c.P.Rel(fn.Pos()), "")

	// 3. the threshold comparison num >= T(sum)
	var thr *ssa.BinOp
	var thrSite cmpSite
	sites, releaseSites := cmpSites(fn)
	defer releaseSites()
	// a counter is a loop-carried value of fn, or — when the counting loop lives in a module helper that
	// returns the counters — the value the helper's one counting return gives for that result
	leafPhi := func(v ssa.Value) (*ssa.Phi, *ssa.Function, *ssa.Call) {
		v = ir.Resolve(v)
		if p, ok := v.(*ssa.Phi); ok {
			return p, fn, nil
		}
		ex, ok := v.(*ssa.Extract)
		if !ok {
			return nil, nil, nil
		}
		cl, ok := ex.Tuple.(*ssa.Call)
		if !ok {
			return nil, nil, nil
		}
		h := cl.Common().StaticCallee()
		if h == nil || !ir.InModule(h) || len(h.Blocks) == 0 {
			return nil, nil, nil
		}
		var phi *ssa.Phi
		n := 0
		for _, b := range h.Blocks {
			ret, isRet := b.Instrs[len(b.Instrs)-1].(*ssa.Return)
			if !isRet || ex.Index >= len(ret.Results) {
				continue
			}
			switch r := ret.Results[ex.Index].(type) {
			case *ssa.Phi:
				phi = r
				n++
			case *ssa.Const: // the zero returned beside an error
			default:
				n += 2
			}
		}
		if n != 1 {
			return nil, nil, nil
		}
		return phi, h, cl
	}
	isPhiLeaf := func(v ssa.Value) bool { p, _, _ := leafPhi(v); return p != nil }
	for _, st := range sites {
		if b := st.B; b.Op == token.GEQ || b.Op == token.LSS {
			if isPhiLeaf(b.X) {
				if _, err := eng.ExtractExpr(b.Y, isPhiLeaf); err == nil {
					thr, thrSite = b, st
				}
			}
		}
	}
	if thr == nil {
		c.Broken("C32.threshold", fn, "num >= T(sum) comparison", c.P.Rel(fn.Pos()), "not found")
		return
	}
	numPhi, cfn, countCall := leafPhi(thr.X)
	var sumPhi *ssa.Phi
	tree, err := eng.ExtractExpr(thr.Y, func(v ssa.Value) bool {
		if p, h, _ := leafPhi(v); p != nil && p != numPhi && h == cfn {
			sumPhi = p
			return true
		}
		return false
	})
	if err != nil || sumPhi == nil {
		c.Broken("C32.threshold", fn, "threshold tree", c.P.Rel(thr.Pos()), sprintf("%v", err))
		return
	}
	want := eng.FormulaCeil2N3()
	if thr.Op == token.LSS { // num < T : reject
		ok, why := eng.EqualForAll(tree, want, 0)
		c.Decide(ok, "C32.threshold", fn, "accept iff num >= ⌈2·sum/3⌉", c.P.Rel(thr.Pos()), why)
	} else {
		ok, why := eng.EqualForAll(tree, want, 0)
		c.Decide(ok, "C32.threshold", fn, "accept iff num >= ⌈2·sum/3⌉", c.P.Rel(thr.Pos()), why)
	}
	thrGuard := siteGuard("num >= ⌈2·sum/3⌉", thrSite, thr.Op == token.GEQ)
	trueRets := ir.BoolReturnSinks(fn, 0, true)
	eng.Dominates(c, "C32.threshold", fn, thrGuard, trueRets, "return true", nil)
	eng.MustPassCall(c, "C32.sign-set-reset", fn, "deleteConsensusSigns(key)", eng.CallPred(delCS), trueRets, "return true", nil)
	// the false/nil return stores the updated set
	var falseOK []ir.Sink
	for _, s := range ir.BoolReturnSinks(fn, 0, false) {
		ret := s.Instr.(*ssa.Return)
		if ir.ClassifyErr(fn, ret.Results[1], ret.Block()) != ir.RetFail {
			falseOK = append(falseOK, s)
		}
	}
	if len(falseOK) > 0 {
		eng.MustPassCall(c, "C32.sign-set-stored", fn, "putConsensusSigns(key, set)", eng.CallPred(putCS), falseOK, "return (false, nil)", nil)
	}

	// 4. counting loop (in cfn, or in the helper that returns the counters)
	if cfn != fn {
		unbindCount := ir.BindParams(cfn, countCall.Common().Args)
		defer unbindCount()
		c.Attribute(cfn, fn)
	}
	loops := eng.FindMapLoops(cfn, func(v ssa.Value) bool { return isFieldNamed(v, "PeerPoolMap") })
	if len(loops) != 1 {
		c.Broken("C32.count", cfn, "range over PeerPoolMap", c.P.Rel(cfn.Pos()), sprintf("%d loops", len(loops)))
		return
	}
	lp := loops[0]
	// pool provenance: GetPeerPoolMap(native, GetView(native))
	gppm := eng.Obj(c, pkNM, "GetPeerPoolMap")
	gv := eng.Obj(c, pkNM, "GetView")
	base, _, _ := fieldLoad(lp.Range.X)
	okPool := false
	if cl, idx := ir.CallOf(base); cl != nil && idx == 0 && ir.CalleeIs(cl, gppm) {
		okPool = isCallTo(cl.Common().Args[1], gv)
	}
	c.Decide(okPool, "C32.count", cfn, "counted pool = GetPeerPoolMap(native, GetView(native)) (the current view)", c.P.Rel(lp.Range.Pos()), "")

	consensusStatus, _ := c.P.Const(pkNM, "ConsensusStatus")
	statusGuard := eng.NamedGuard{Name: "v.Status == ConsensusStatus", G: func(cd ir.Cond) (bool, bool) {
		b, ok := cd.V.(*ssa.BinOp)
		if !ok || (b.Op != token.EQL && b.Op != token.NEQ) || !isFieldNamed(b.X, "Status") {
			return false, false
		}
		k, okk := ir.Strip(b.Y).(*ssa.Const)
		if !okk || consensusStatus == nil || !constant.Compare(k.Value, token.EQL, consensusStatus) {
			return false, false
		}
		return true, b.Op == token.EQL
	}}
	memberGuard := eng.NamedGuard{Name: "SignsMap[AddressFromPubKey(key(peer))] present", G: func(cd ir.Cond) (bool, bool) {
		ex, ok := cd.V.(*ssa.Extract)
		if !ok || ex.Index != 1 {
			return false, false
		}
		lk, ok := ex.Tuple.(*ssa.Lookup)
		if !ok || !isFieldNamed(lk.X, "SignsMap") {
			return false, false
		}
		// key = AddressFromPubKey(DeserializePublicKey(hex.DecodeString(iteration key))), inline or via a helper
		if !derivedPeerAddr(afp, lp.Next)(lk.Index) {
			return false, false
		}
		return true, true
	}}
	incOf := func(phi *ssa.Phi) []ir.Sink {
		var out []ir.Sink
		for _, b := range cfn.Blocks {
			for _, in := range b.Instrs {
				if bo, ok := in.(*ssa.BinOp); ok && bo.Op == token.ADD && (bo.X == ssa.Value(phi) || bo.Y == ssa.Value(phi)) {
					out = append(out, ir.Sink{Instr: bo, Note: "increment"})
				}
			}
		}
		return out
	}
	numInc, sumInc := incOf(numPhi), incOf(sumPhi)
	c.Decide(len(numInc) == 1 && len(sumInc) == 1, "C32.count", cfn, "num and sum are each incremented at exactly one place", c.P.Rel(lp.Range.Pos()), sprintf("%d/%d", len(numInc), len(sumInc)))
	for _, s := range append(append([]ir.Sink{}, numInc...), sumInc...) {
		bo := s.Instr.(*ssa.BinOp)
		k, okk := ir.ConstInt(bo.Y)
		c.Decide(okk && k == 1, "C32.count", cfn, "increment is +1", c.P.Rel(bo.Pos()), "")
	}
	opt := &eng.Opt{StartBlock: lp.Body}
	eng.Dominates(c, "C32.count", cfn, statusGuard, numInc, "num++ (per iteration)", opt)
	eng.Dominates(c, "C32.count", cfn, memberGuard, numInc, "num++ (per iteration)", opt)
	eng.Dominates(c, "C32.count", cfn, statusGuard, sumInc, "sum++ (per iteration)", opt)
	// sum counts every consensus peer: from the status-pass edge the sum increment is unavoidable before the next iteration
	{
		notCons := ir.PassEdges(cfn, func(cd ir.Cond) (bool, bool) {
			ok, passTrue := statusGuard.G(cd)
			return ok, !passTrue
		})
		r := ir.NewReach(cfn).CutEdges(notCons)
		for _, s := range sumInc {
			r.Barrier[s.Instr] = true
		}
		r.RunFromBlock(lp.Body)
		c.Decide(!r.BlockEntered(lp.Header) && len(notCons) > 0, "C32.count", cfn, "every ConsensusStatus entry is counted in sum (N = all current consensus validators)", c.P.Rel(lp.Range.Pos()),
			"from the Status==ConsensusStatus edge every path to the next iteration executes sum++ (failing returns excepted)")
	}

	// 5. call sites
	cg := c.P.CG()
	vo := eng.Obj(c, pkUtils, "ValidateOwner")
	var methods []string
	nSites := 0
	// call sites, looking through private forwarding helpers
	forEachEffectiveSite(c, fn, func(caller *ssa.Function, site ssa.CallInstruction, a []ssa.Value) {
		nSites++
		c.Touch(caller)
		k, ok := ir.Strip(a[1]).(*ssa.Const)
		if !ok || k.Value == nil || k.Value.Kind() != constant.String {
			c.Violate("C32.call-site", caller, "method argument is a string constant", c.P.Rel(site.Pos()), "")
			return
		}
		m := constant.StringVal(k.Value)
		methods = append(methods, m+"@"+ir.FuncName(caller))
		// address argument = params.Address, the value ValidateOwner checked
		okAddr := false
		for _, v := range ir.CallsTo(caller, vo) {
			if sameValue(v.Common().Args[1], a[3]) {
				okAddr = true
			}
		}
		c.Decide(okAddr && isFieldNamed(a[3], "Address"), "C32.call-site", caller, "approver = the params.Address that ValidateOwner checked", c.P.Rel(site.Pos()), "method "+m)
		// input derives from the decoded parameter object
		okIn := derivesFromAlloc(a[2], 8)
		c.Decide(okIn, "C32.call-site", caller, "input derives from the decoded request parameter", c.P.Rel(site.Pos()), "method "+m)
	})
	_ = cg
	c.Floor("CheckConsensusSigns call sites", nSites, 10)
	checkVoteOnlyForWitnessedApprover(c, "C32.witnessed-approver", nil)
	sort.Strings(methods)
	seen := map[string]string{}
	okDistinct, okPrefix := true, true
	detail := ""
	for _, mm := range methods {
		p := strings.SplitN(mm, "@", 2)
		if prev, dup := seen[p[0]]; dup {
			okDistinct = false
			detail += sprintf("%q used by %s and %s; ", p[0], prev, p[1])
		}
		seen[p[0]] = p[1]
	}
	for a := range seen {
		for b := range seen {
			if a != b && strings.HasPrefix(b, a) {
				okPrefix = false
				detail += sprintf("%q is a prefix of %q; ", a, b)
			}
		}
	}
	c.Decide(okDistinct, "C32.call-site", "native/service/governance", "method constants are pairwise distinct per action", "", detail+strings.Join(ir.SortedKeys(seen), ","))
	c.Decide(okPrefix, "C32.call-site", "native/service/governance", "method constants are prefix-free (method‖input unambiguous)", "", detail)
}

// derivesFromAlloc: v is computed from loads of fields of a locally allocated object.
func derivesFromAlloc(v ssa.Value, depth int) bool {
	if depth == 0 || v == nil {
		return false
	}
	switch x := v.(type) {
	case *ssa.Alloc:
		return true
	case *ssa.Parameter:
		if r := ir.Resolve(x); r != ssa.Value(x) {
			return derivesFromAlloc(r, depth-1) // a forwarding helper's parameter
		}
	case *ssa.UnOp:
		return derivesFromAlloc(x.X, depth-1)
	case *ssa.FieldAddr:
		return derivesFromAlloc(x.X, depth-1)
	case *ssa.Convert:
		return derivesFromAlloc(x.X, depth-1)
	case *ssa.Call:
		for _, a := range x.Common().Args {
			if derivesFromAlloc(a, depth-1) {
				return true
			}
		}
	case *ssa.Phi:
		for _, e := range x.Edges {
			if derivesFromAlloc(e, depth-1) {
				return true
			}
		}
	case *ssa.Slice:
		return derivesFromAlloc(x.X, depth-1)
	case *ssa.IndexAddr:
		return derivesFromAlloc(x.X, depth-1)
	case *ssa.Extract:
		return derivesFromAlloc(x.Tuple, depth-1)
	case *ssa.Next:
		return derivesFromAlloc(x.Iter, depth-1)
	case *ssa.Range:
		return derivesFromAlloc(x.X, depth-1)
	}
	return false
}
