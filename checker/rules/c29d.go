package rules

import (
	"go/token"
	"go/types"

	"golang.org/x/tools/go/ssa"

	"polyverif/core"
	"polyverif/eng"
	"polyverif/ir"
)

// C29 (continued) — "the canonical chain always follows the highest total
// difficulty": when a heavier header arrives addHeader re-points the canonical
// index in three steps.  Each step is a necessary condition of the index being
// exactly the heaviest branch afterwards:
//
//	(a) every assignment above the new head is deleted: the deletion loop starts
//	    at Number+1, goes up by one, and leaves (other than by an error return)
//	    only when the lookup at the current height finds nothing;
//	(b) stale assignments below are overwritten: the loop starts at
//	    (Number−1, ParentHash), steps to (height−1, stored header's ParentHash),
//	    writes (height, hash) and leaves only when the stored hash at that
//	    height already equals the branch's hash;
//	(c) the new head is written at its own number, and the height pointer is set
//	    to that number.
//
// A bounded deletion loop (i < old canonical height) or a walk that stops on
// another condition leaves entries of a losing fork in the index.
func checkPosaRepoint(c *core.Ctx, pkg string) {
	const rule = "C29.repoint"
	fn := c.Fn(pkg, "addHeader")
	del := eng.Obj(c, pkg, "deleteCanonicalHash")
	gch := eng.Obj(c, pkg, "GetCanonicalHeader")
	gcHash := eng.Obj(c, pkg, "getCanonicalHash")
	pch := eng.Obj(c, pkg, "putCanonicalHash")
	pcHeight := eng.Obj(c, pkg, "putCanonicalHeight")
	gh := eng.Obj(c, pkg, "getHeader")
	if fn == nil || del == nil || gch == nil || gcHash == nil || pch == nil || pcHeight == nil || gh == nil {
		return
	}
	header := paramByName(fn, "header")
	if header == nil {
		c.Broken(rule, fn, "parameter header", c.P.Rel(fn.Pos()), "not found")
		return
	}
	// number(v): v == header.Number.Uint64() + k
	number := func(v ssa.Value) (int64, bool) {
		k := int64(0)
		if b, ok := v.(*ssa.BinOp); ok && (b.Op == token.ADD || b.Op == token.SUB) {
			if kk, isK := ir.ConstInt(b.Y); isK {
				if b.Op == token.SUB {
					kk = -kk
				}
				k, v = kk, b.X
			}
		}
		cl, _ := ir.CallOf(v)
		if cl == nil || ir.CalleeObj(cl) == nil || ir.CalleeObj(cl).Name() != "Uint64" || len(cl.Common().Args) != 1 {
			return 0, false
		}
		base, f, ok := fieldLoad(cl.Common().Args[0])
		return k, ok && f == "Number" && ir.Strip(base) == ssa.Value(header)
	}
	lastArg := func(ci ssa.CallInstruction, fromEnd int) ssa.Value {
		a := ci.Common().Args
		return a[len(a)-1-fromEnd]
	}
	// counter φ[entry: start, back: φ+step]
	counter := func(v ssa.Value, step int64) (ssa.Value, bool) {
		phi, ok := v.(*ssa.Phi)
		if !ok || len(phi.Edges) != 2 {
			return nil, false
		}
		for i, e := range phi.Edges {
			b, isB := e.(*ssa.BinOp)
			if !isB || b.X != ssa.Value(phi) {
				continue
			}
			k, isK := ir.ConstInt(b.Y)
			if !isK {
				continue
			}
			if (b.Op == token.ADD && k == step) || (b.Op == token.SUB && k == -step) {
				return phi.Edges[1-i], true
			}
		}
		return nil, false
	}
	type exitKind int
	const (
		exitOther exitKind = iota
		exitError
	)
	// classify the exit edges of the cycle through blk
	exits := func(blk *ssa.BasicBlock, accept func(e ir.Edge, cond ssa.Value, loop map[*ssa.BasicBlock]bool) bool) (inLoop bool, bad []ir.Edge) {
		loop := cycleOf(blk)
		if len(loop) == 0 {
			return false, nil
		}
		for b := range loop {
			for i, s := range b.Succs {
				if loop[s] {
					continue
				}
				e := ir.Edge{From: b, Idx: i}
				ifi, isIf := b.Instrs[len(b.Instrs)-1].(*ssa.If)
				if !isIf {
					bad = append(bad, e)
					continue
				}
				// error exit: the non-nil edge of an error test
				if x, neq, ok := ir.NilCmp(ifi.Cond); ok && ir.IsErrorType(x.Type()) {
					nonNil := 1
					if neq {
						nonNil = 0
					}
					if i == nonNil {
						continue
					}
				}
				if accept(e, ifi.Cond, loop) {
					continue
				}
				bad = append(bad, e)
			}
		}
		return true, bad
	}

	// (a) deletion loop
	dels := ir.CallsTo(fn, del)
	if len(dels) == 0 {
		// the deletion loop may stand in a same-package helper addHeader calls (its parameters are bound to
		// the call's arguments, so `number+1` is still recognised as header.Number+1)
		for _, ci := range ir.Calls(fn, func(ci ssa.CallInstruction) bool {
			h := ci.Common().StaticCallee()
			return h != nil && h != fn && h.Pkg == fn.Pkg && len(h.Blocks) > 0 && len(ir.CallsTo(h, del)) > 0
		}) {
			h := ci.Common().StaticCallee()
			unbind := ir.BindParams(h, ci.Common().Args)
			defer unbind()
			c.Attribute(h, fn)
			dels = ir.CallsTo(h, del)
			break
		}
	}
	c.Floor("deleteCanonicalHash calls in "+pkg+".addHeader", len(dels), 1)
	for _, d := range dels {
		pos := c.P.Rel(d.Pos())
		i := lastArg(d, 0)
		start, okC := counter(i, 1)
		k, okN := int64(0), false
		if okC {
			k, okN = number(start)
		}
		c.Decide(okC && okN && k == 1, rule, fn, "deletion runs over heights Number+1, Number+2, … (one by one)", pos, "")
		in, bad := exits(d.Block(), func(e ir.Edge, cond ssa.Value, loop map[*ssa.BasicBlock]bool) bool {
			x, neq, ok := ir.NilCmp(cond)
			if !ok {
				return false
			}
			cl, idx := ir.CallOf(x)
			if cl == nil || idx != 0 || !ir.CalleeIs(cl, gch) || !loop[cl.Block()] || lastArg(cl, 0) != i {
				return false
			}
			nilIdx := 0
			if neq {
				nilIdx = 1
			}
			return e.Idx == nilIdx
		})
		if !in {
			c.Violate(rule, fn, "deletion of assignments above the new head is a loop", pos, "deleteCanonicalHash is not inside a loop: at most one stale assignment is removed")
			continue
		}
		why := ""
		if len(bad) > 0 {
			why = sprintf("the loop can also be left at %s on a condition other than 'no assignment at this height' (or an error): assignments of the losing fork above that point stay in the index", c.P.Rel(branchPos(bad[0].From)))
		}
		c.Decide(len(bad) == 0, rule, fn, "the deletion loop ends only at the first height without an assignment", pos, why)
	}

	// (b) overwrite walk and (c) the new head
	var walkPuts, headPuts []ssa.CallInstruction
	for _, p := range ir.CallsTo(fn, pch) {
		if len(cycleOf(p.Block())) > 0 {
			walkPuts = append(walkPuts, p)
		} else {
			headPuts = append(headPuts, p)
		}
	}
	c.Decide(len(walkPuts) == 1 && len(headPuts) == 1, rule, fn, "one putCanonicalHash inside the overwrite walk and one for the new head", c.P.Rel(fn.Pos()), sprintf("%d in a loop, %d outside", len(walkPuts), len(headPuts)))
	for _, p := range walkPuts {
		pos := c.P.Rel(p.Pos())
		h, hash := lastArg(p, 1), lastArg(p, 0)
		start, okC := counter(h, -1)
		k, okN := int64(0), false
		if okC {
			k, okN = number(start)
		}
		c.Decide(okC && okN && k == -1, rule, fn, "the walk overwrites heights Number−1, Number−2, … (one by one)", pos, "")
		// hash φ[entry: header.ParentHash, back: getHeader(φ)#0.Header.ParentHash]
		okHash := false
		if phi, isPhi := hash.(*ssa.Phi); isPhi && len(phi.Edges) == 2 {
			entry, back := false, false
			for _, e := range phi.Edges {
				base, f, ok := fieldLoad(e)
				if !ok || f != "ParentHash" {
					continue
				}
				if ir.Strip(base) == ssa.Value(header) {
					entry = true
					continue
				}
				// base = (getHeader(φ)#0).….Header (possibly through embedded value structs)
				root, viaHeader := base, false
				for d := 0; d < 8; d++ {
					if fa, isFA := root.(*ssa.FieldAddr); isFA {
						if fieldNameOf(fa) == "Header" {
							viaHeader = true
						}
						root = fa.X
						continue
					}
					if ld, isLd := root.(*ssa.UnOp); isLd && ld.Op == token.MUL {
						root = ld.X
						continue
					}
					break
				}
				if viaHeader {
					if cl, idx := ir.CallOf(root); cl != nil && idx == 0 && ir.CalleeIs(cl, gh) {
						for _, a := range cl.Common().Args {
							if a == ssa.Value(phi) {
								back = true
							}
						}
					}
				}
			}
			okHash = entry && back
		}
		c.Decide(okHash, rule, fn, "the walk follows the new branch: hash starts at header.ParentHash and steps to the stored header's ParentHash", pos, "")
		_, bad := exits(p.Block(), func(e ir.Edge, cond ssa.Value, loop map[*ssa.BasicBlock]bool) bool {
			b, ok := cond.(*ssa.BinOp)
			if !ok || (b.Op != token.EQL && b.Op != token.NEQ) {
				return false
			}
			stored := func(v ssa.Value) bool {
				cl, idx := ir.CallOf(v)
				return cl != nil && idx == 0 && ir.CalleeIs(cl, gcHash) && loop[cl.Block()] && lastArg(cl, 0) == h
			}
			if !((stored(b.X) && b.Y == hash) || (stored(b.Y) && b.X == hash)) {
				return false
			}
			eqIdx := 0
			if b.Op == token.NEQ {
				eqIdx = 1
			}
			return e.Idx == eqIdx
		})
		why := ""
		if len(bad) > 0 {
			why = sprintf("the walk can also stop at %s before the stored hash equals the branch's hash", c.P.Rel(branchPos(bad[0].From)))
		}
		c.Decide(len(bad) == 0, rule, fn, "the overwrite walk ends only where the index already agrees with the new branch", pos, why)
	}
	for _, p := range headPuts {
		k, okN := number(lastArg(p, 1))
		hc, _ := ir.CallOf(lastArg(p, 0))
		okH := hc != nil && ir.CalleeObj(hc) != nil && ir.CalleeObj(hc).Name() == "Hash" && len(hc.Common().Args) == 1 && ir.Strip(hc.Common().Args[0]) == ssa.Value(header)
		c.Decide(okN && k == 0 && okH, rule, fn, "the new head is assigned at (header.Number, header.Hash())", c.P.Rel(p.Pos()), "")
	}
	hts := ir.CallsTo(fn, pcHeight)
	c.Decide(len(hts) == 1, rule, fn, "one putCanonicalHeight call", c.P.Rel(fn.Pos()), sprintf("%d", len(hts)))
	for _, p := range hts {
		k, okN := number(lastArg(p, 0))
		c.Decide(okN && k == 0, rule, fn, "the canonical height pointer becomes header.Number", c.P.Rel(p.Pos()), "")
	}
}

// cycleOf returns the blocks on a CFG cycle through b (b's strongly connected
// component), or nil when b is not in a loop.
func cycleOf(b *ssa.BasicBlock) map[*ssa.BasicBlock]bool {
	fwd := map[*ssa.BasicBlock]bool{}
	var walk func(x *ssa.BasicBlock, seen map[*ssa.BasicBlock]bool, next func(*ssa.BasicBlock) []*ssa.BasicBlock)
	walk = func(x *ssa.BasicBlock, seen map[*ssa.BasicBlock]bool, next func(*ssa.BasicBlock) []*ssa.BasicBlock) {
		for _, s := range next(x) {
			if !seen[s] {
				seen[s] = true
				walk(s, seen, next)
			}
		}
	}
	walk(b, fwd, func(x *ssa.BasicBlock) []*ssa.BasicBlock { return x.Succs })
	if !fwd[b] {
		return nil
	}
	bwd := map[*ssa.BasicBlock]bool{}
	walk(b, bwd, func(x *ssa.BasicBlock) []*ssa.BasicBlock { return x.Preds })
	out := map[*ssa.BasicBlock]bool{}
	for x := range fwd {
		if bwd[x] {
			out[x] = true
		}
	}
	return out
}

// branchPos: a source position for the branch ending block b.
func branchPos(b *ssa.BasicBlock) token.Pos {
	if ifi, ok := b.Instrs[len(b.Instrs)-1].(*ssa.If); ok {
		if p := ifi.Cond.Pos(); p.IsValid() {
			return p
		}
	}
	for i := len(b.Instrs) - 1; i >= 0; i-- {
		if p := b.Instrs[i].Pos(); p.IsValid() {
			return p
		}
	}
	return token.NoPos
}

var _ = types.Typ
