package rules

import (
	"go/token"
	"go/types"
	"sort"
	"strings"

	"golang.org/x/tools/go/ssa"

	"polyverif/core"
	"polyverif/eng"
	"polyverif/ir"
)

// C41 — VBFT round decisions count distinct participants.

func init() {
	core.Register(&core.Check{
		ID: "C41", Level: "other", Title: "VBFT round decisions count distinct participants",
		Technique: "guard dominance and scan-completion in the de-duplicating insert, one-increment-site-per-pass over counters keyed by participant, threshold operands, value lineage of the decided proposer",
		Explain:   "Decided on the SSA of consensus/vbft. (Insert) addBlockEndorsementLocked: every extension EndorseSigs[endorser] = append(existing, eSig) happens only after the scan 'an existing entry is ForEmpty' ran to its end — and from the hit edge of that scan, which tests ForEmpty alone, no write is reachable (a participant that voted empty is frozen: at most one empty entry) — and, when the new entry is not for empty, after the scan 'an existing entry names the same proposer' ran to its end with no write reachable from its hit edge (at most one entry per proposer); every other write installs a fresh one-element list and happens only for a first entry or a commitment. (Counting) endorseDone, endorseFailed, commitDone iterate the map EndorseSigs keyed by participant; within one pass over a participant's entries each counter has a single increment site — no second site of the same counter is reachable from the first without starting the next participant — so with the insert invariants an entry counts once. (Thresholds) endorseDone answers true only on emptyCount > C or endorseCount[p] > C; commitDone's decided proposer is either getCommitConsensus's non-sentinel answer or an EndorsedProposer assigned under endorseCnt[p] > N-1-C; getCommitConsensus answers a proposer only on len(signers[p])+1 >= N-(N-1)/3 where signers[p] is a set keyed by committer/endorser ids (distinct by construction; formula itself: C42). (Seal) addSignaturesToBlockLocked adds the proposer's signature once, then per participant at most one signature (the append is followed by leaving the inner scan before the next entry), only for entries matching (proposer, forEmpty) and endorser != proposer, key and signature appended pairwise. NOT decided: message-sequence semantics (what a Byzantine schedule can make the pool contain beyond these invariants).",
		Run:       runC41,
	})
}

// counterName: the source variable a +1 flows into (phi comment), or the map incremented.
func counterOfAdd(b *ssa.BinOp) string {
	seen := map[ssa.Value]bool{}
	var walk func(v ssa.Value, d int) string
	walk = func(v ssa.Value, d int) string {
		if d > 6 || seen[v] || v.Referrers() == nil {
			return ""
		}
		seen[v] = true
		for _, r := range *v.Referrers() {
			if p, ok := r.(*ssa.Phi); ok {
				if p.Comment != "" {
					return p.Comment
				}
				if s := walk(p, d+1); s != "" {
					return s
				}
			}
		}
		return ""
	}
	return walk(b, 0)
}

type incSite struct {
	counter string
	at      ssa.Instruction
}

func incrementSites(fn *ssa.Function) []incSite {
	var out []incSite
	for _, b := range fn.Blocks {
		for _, in := range b.Instrs {
			switch x := in.(type) {
			case *ssa.BinOp:
				if x.Op != token.ADD {
					continue
				}
				if k, ok := ir.ConstInt(x.Y); !ok || k != 1 {
					continue
				}
				if _, isPhi := x.X.(*ssa.Phi); !isPhi {
					continue
				}
				if n := counterOfAdd(x); n != "" && n != "rangeindex" && n != "i" && n != "j" {
					out = append(out, incSite{n, x})
				}
			case *ssa.MapUpdate:
				add, ok := x.Value.(*ssa.BinOp)
				if !ok || add.Op != token.ADD {
					continue
				}
				if k, okk := ir.ConstInt(add.Y); !okk || k != 1 {
					continue
				}
				if lk, isLk := add.X.(*ssa.Lookup); isLk && lk.X == x.Map {
					out = append(out, incSite{"map " + x.Map.Name(), x})
				}
			}
		}
	}
	return out
}

func resultValueAt(ret *ssa.Return, idx int) ssa.Value {
	v := ret.Results[idx]
	ld, ok := v.(*ssa.UnOp)
	if !ok {
		return v
	}
	al, ok := ld.X.(*ssa.Alloc)
	if !ok {
		return v
	}
	var last ssa.Value
	for _, in := range ret.Block().Instrs {
		if st, ok := in.(*ssa.Store); ok && st.Addr == ssa.Value(al) {
			last = st.Val
		}
	}
	if last != nil {
		return last
	}
	return v
}

func runC41(c *core.Ctx) {
	checkOneCommitPerCommitter(c)
	// ---------- insert
	if fn := c.Fn(pkVbft, "BlockPool.addBlockEndorsementLocked"); fn != nil {
		var endorserP, sigP, commitP *ssa.Parameter
		for _, p := range fn.Params {
			switch p.Name() {
			case "endorser":
				endorserP = p
			case "eSig":
				sigP = p
			case "commitment":
				commitP = p
			}
		}
		if endorserP == nil || sigP == nil || commitP == nil {
			c.Broken("C41.insert", fn, "parameters endorser, eSig, commitment", c.P.Rel(fn.Pos()), "not found")
		} else {
			var existing ssa.Value
			var lookup *ssa.Lookup
			for _, b := range fn.Blocks {
				for _, in := range b.Instrs {
					if lk, ok := in.(*ssa.Lookup); ok && lk.CommaOk && ir.Strip(lk.Index) == ssa.Value(endorserP) {
						if _, f, okf := fieldLoad(lk.X); okf && f == "EndorseSigs" {
							lookup = lk
						}
					}
				}
			}
			if lookup != nil && lookup.Referrers() != nil {
				for _, r := range *lookup.Referrers() {
					if ex, ok := r.(*ssa.Extract); ok && ex.Index == 0 {
						existing = ex
					}
				}
			}
			var updates []*ssa.MapUpdate
			for _, b := range fn.Blocks {
				for _, in := range b.Instrs {
					if mu, ok := in.(*ssa.MapUpdate); ok {
						if _, f, okf := fieldLoad(mu.Map); okf && f == "EndorseSigs" {
							updates = append(updates, mu)
						}
					}
				}
			}
			c.Floor("writes to EndorseSigs in addBlockEndorsementLocked", len(updates), 2)
			if existing == nil {
				c.Broken("C41.insert", fn, "existing := EndorseSigs[endorser]", c.P.Rel(fn.Pos()), "lookup not found")
			} else {
				loops := eng.FindSliceLoops(fn, func(v ssa.Value) bool { return v == existing })
				// a scan over the participant's existing entries: a loop in the function, or a same-package
				// predicate helper handed the list that answers true on the first hit and false at the end
				type scan struct {
					kind  string
					hitTo *ssa.BasicBlock // block of fn entered on a hit
					head  *ssa.BasicBlock // loop header in fn (nil for helper scans)
					exit  ir.Guard        // passes when the scan completed without a hit
					pos   token.Pos
				}
				isElemOf := func(list func(ssa.Value) bool) func(ssa.Value) bool {
					return func(v ssa.Value) bool {
						ld, ok := ir.Strip(v).(*ssa.UnOp)
						if !ok {
							return false
						}
						ia, ok := ld.X.(*ssa.IndexAddr)
						return ok && list(ia.X)
					}
				}
				isExisting := func(v ssa.Value) bool { return v == existing || ir.Resolve(v) == existing }
				kindOf := func(cond ssa.Value) string {
					isElem := isElemOf(isExisting)
					if isFieldOf("ForEmpty", isElem)(cond) {
						return "empty-scan"
					}
					if b, ok := cond.(*ssa.BinOp); ok && b.Op == token.EQL {
						ofParam := func(v ssa.Value) bool {
							return isFieldOf("EndorsedProposer", func(x ssa.Value) bool { return ir.Strip(x) == ssa.Value(sigP) })(ir.Resolve(v))
						}
						ofElem := isFieldOf("EndorsedProposer", isElem)
						if (ofElem(b.X) && ofParam(b.Y)) || (ofElem(b.Y) && ofParam(b.X)) {
							return "dup-scan"
						}
					}
					return "other"
				}
				var scans []scan
				for _, lp := range loops {
					iff, ok := lp.Body.Instrs[len(lp.Body.Instrs)-1].(*ssa.If)
					if !ok {
						continue
					}
					lpc := lp
					scans = append(scans, scan{kindOf(iff.Cond), lp.Body.Succs[0], lp.Header,
						func(cd ir.Cond) (bool, bool) { return cd.If == lpc.Cond, false }, lp.Cond.Pos()})
				}
				for _, cd := range ir.Conds(fn) {
					cl, isCl := cd.V.(*ssa.Call)
					if !isCl {
						continue
					}
					h := cl.Common().StaticCallee()
					if h == nil || h.Pkg != fn.Pkg || len(h.Blocks) == 0 || h.Signature.Results().Len() != 1 || len(cl.Common().Args) == 0 || !isExisting(cl.Common().Args[0]) {
						continue
					}
					unbind := ir.BindParams(h, cl.Common().Args)
					hl := eng.FindSliceLoops(h, isExisting)
					kind := "other"
					okShape := false
					if len(hl) == 1 {
						if iff, ok := hl[0].Body.Instrs[len(hl[0].Body.Instrs)-1].(*ssa.If); ok {
							kind = kindOf(iff.Cond)
							// a hit answers true (and stops), the end of the scan answers false
							r := ir.NewReach(h)
							r.RunFromBlock(hl[0].Body.Succs[0])
							okShape = !r.BlockEntered(hl[0].Header)
							for _, fs := range ir.BoolReturnSinks(h, 0, false) {
								if r.SinkReachable(fs) {
									okShape = false
								}
							}
							lpc := hl[0]
							r2 := ir.NewReach(h).CutEdges([]ir.Edge{{From: lpc.Header, Idx: 1 - indexOfSucc(lpc.Header, lpc.Body)}}).Run(nil)
							for _, fs := range ir.BoolReturnSinks(h, 0, false) {
								if r2.SinkReachable(fs) {
									okShape = false // "false" without having scanned the whole list
								}
							}
						}
					}
					unbind()
					if kind == "other" {
						continue
					}
					c.Touch(h)
					c.Decide(okShape, "C41.insert", fn, kind+" helper "+h.Name()+": true exactly on a hit, false only after the whole list was scanned", c.P.Rel(cl.Pos()), "")
					call := cl
					scans = append(scans, scan{kind, cd.If.Block().Succs[cd.TrueIdx()], nil,
						func(c2 ir.Cond) (bool, bool) { return c2.V == ssa.Value(call), false }, cl.Pos()})
				}
				nEmpty, nDup := 0, 0
				for _, sc := range scans {
					switch sc.kind {
					case "empty-scan":
						nEmpty++
					case "dup-scan":
						nDup++
					default:
						continue
					}
					// from the hit edge no write is reachable
					r := ir.NewReach(fn)
					r.RunFromBlock(sc.hitTo)
					clean := sc.head == nil || !r.BlockEntered(sc.head)
					for _, u := range updates {
						if r.Instr(u) {
							clean = false
						}
					}
					what := "an existing empty vote freezes the participant: no write and no further scanning from the hit"
					if sc.kind == "dup-scan" {
						what = "an existing vote for the same proposer suppresses the new one: no write from the hit"
					}
					c.Decide(clean, "C41.insert", fn, sc.kind+": "+what, c.P.Rel(sc.pos), "")
				}
				c.Decide(nEmpty == 1 && nDup == 1, "C41.insert", fn, "one scan for an earlier empty vote (testing ForEmpty alone) and one scan for the same proposer", c.P.Rel(fn.Pos()), sprintf("%d empty-scan(s), %d dup-scan(s), %d loop(s) over the existing entries", nEmpty, nDup, len(loops)))
				exitOf := func(kind string) ir.Guard {
					return func(cd ir.Cond) (bool, bool) {
						for _, sc := range scans {
							if sc.kind == kind {
								if ok, pt := sc.exit(cd); ok {
									return ok, pt
								}
							}
						}
						return false, false
					}
				}
				paramEmpty := ir.Guard(func(cd ir.Cond) (bool, bool) {
					if isFieldOf("ForEmpty", func(v ssa.Value) bool { return ir.Strip(v) == ssa.Value(sigP) })(cd.V) {
						return true, true
					}
					return false, false
				})
				for _, u := range updates {
					okKey := ir.Strip(u.Key) == ssa.Value(endorserP)
					c.Decide(okKey, "C41.insert", fn, "the list written is the endorser's own", c.P.Rel(u.Pos()), "")
					one := []ir.Sink{{Instr: u, Note: "write to EndorseSigs"}}
					if ap, ok := u.Value.(*ssa.Call); ok {
						if bi, isB := ap.Common().Value.(*ssa.Builtin); isB && bi.Name() == "append" && ap.Common().Args[0] == existing {
							el := eng.VariadicElems(ap.Common().Args[1])
							c.Decide(len(el) == 1 && ir.Strip(el[0]) == ssa.Value(sigP), "C41.insert", fn, "extension appends exactly the new entry", c.P.Rel(u.Pos()), "")
							eng.Dominates(c, "C41.insert", fn, eng.NamedGuard{Name: "empty-vote scan completed without a hit", G: exitOf("empty-scan")}, one, "extension of the endorser's list", nil)
							eng.Dominates(c, "C41.insert", fn, eng.NamedGuard{Name: "new entry is for empty ∨ same-proposer scan completed without a hit", G: ir.Or(paramEmpty, exitOf("dup-scan"))}, one, "extension of the endorser's list", nil)
							continue
						}
					}
					// fresh one-element list
					okFresh := false
					if sl, ok := u.Value.(*ssa.Slice); ok {
						if al, isAl := sl.X.(*ssa.Alloc); isAl && strings.Contains(al.Type().String(), "[1]") {
							okFresh = true
						}
					}
					c.Decide(okFresh, "C41.insert", fn, "any other write installs a fresh one-element list", c.P.Rel(u.Pos()), "")
					eng.Dominates(c, "C41.insert", fn, eng.NamedGuard{Name: "no list yet ∨ commitment", G: ir.Or(
						func(cd ir.Cond) (bool, bool) {
							ex, ok := cd.V.(*ssa.Extract)
							if ok && ex.Tuple == ssa.Value(lookup) && ex.Index == 1 {
								return true, false
							}
							return false, false
						},
						func(cd ir.Cond) (bool, bool) {
							if ir.Strip(cd.V) == ssa.Value(commitP) {
								return true, true
							}
							return false, false
						})}, one, "replacement of the endorser's list", nil)
				}
			}
		}
	}

	// ---------- counting
	isSigs := func(v ssa.Value) bool { _, f, ok := fieldLoad(ir.Strip(v)); return ok && f == "EndorseSigs" }
	for _, name := range []string{"BlockPool.endorseDone", "BlockPool.endorseFailed", "BlockPool.commitDone"} {
		fn := c.Fn(pkVbft, name)
		if fn == nil {
			continue
		}
		outer := eng.FindMapLoops(fn, isSigs)
		top := fn
		if len(outer) == 0 {
			// the pass may stand in a same-package helper handed the map
			hosts, releaseHosts := hostsWithHelpers(fn)
			for _, h := range hosts[1:] {
				if ls := eng.FindMapLoops(h, isSigs); len(ls) == 1 && len(outer) == 0 {
					outer, fn = ls, h
					c.Attribute(h, top)
				}
			}
			releaseHosts()
		}
		if len(outer) != 1 {
			c.Broken("C41.count", top, "one pass over EndorseSigs (keyed by participant)", c.P.Rel(top.Pos()), sprintf("%d loops", len(outer)))
			continue
		}
		lp := outer[0]
		sites := incrementSites(fn)
		by := map[string][]incSite{}
		for _, s := range sites {
			if lp.Header.Dominates(s.at.Block()) {
				by[s.counter] = append(by[s.counter], s)
			}
		}
		var names []string
		for n := range by {
			names = append(names, n)
		}
		sort.Strings(names)
		c.Floor("counters incremented in "+name, len(names), 2)
		for _, n := range names {
			ss := by[n]
			bad := ""
			for _, a := range ss {
				r := ir.NewReach(fn)
				r.Barrier[lp.Next] = true
				r.Run(a.at)
				for _, b := range ss {
					if b.at != a.at && r.Instr(b.at) {
						bad = sprintf("after the increment at %s the increment at %s is reachable within the same participant's pass", c.P.Rel(a.at.Pos()), c.P.Rel(b.at.Pos()))
					}
				}
			}
			c.Decide(bad == "", "C41.count", fn, "counter "+n+": one increment site per pass over a participant's entries", c.P.Rel(ss[0].at.Pos()), sprintf("%d site(s) %s", len(ss), bad))
		}
		// one entry, one vote: within the handling of a single entry (no loop header crossed) the
		// increment of one counter is never followed by the increment of another — an empty-block vote
		// is not also a vote for the proposal it names
		{
			var heads []ssa.Instruction
			for _, b := range fn.Blocks {
				for _, p := range b.Preds {
					if b.Dominates(p) && len(b.Instrs) > 0 {
						heads = append(heads, b.Instrs[len(b.Instrs)-1])
					}
				}
			}
			bad := ""
			for _, n1 := range names {
				for _, a := range by[n1] {
					r := ir.NewReach(fn)
					for _, h := range heads {
						r.Barrier[h] = true
					}
					r.Barrier[lp.Next] = true
					r.Run(a.at)
					for _, n2 := range names {
						if n2 == n1 {
							continue
						}
						for _, b := range by[n2] {
							if r.Instr(b.at) {
								bad = sprintf("after counting the entry for %s (%s) the same entry is also counted for %s (%s)", n1, c.P.Rel(a.at.Pos()), n2, c.P.Rel(b.at.Pos()))
							}
						}
					}
				}
			}
			c.Decide(bad == "", "C41.count", fn, "an entry is counted for one counter only (empty-block votes and proposal votes are exclusive)", c.P.Rel(lp.Range.Pos()), bad)
		}
	}

	// ---------- thresholds
	if fn := c.Fn(pkVbft, "BlockPool.endorseDone"); fn != nil {
		var cP *ssa.Parameter
		for _, p := range fn.Params {
			if p.Name() == "C" {
				cP = p
			}
		}
		trueS := ir.BoolReturnSinks(fn, 2, true)
		c.Floor("endorseDone true answers", len(trueS), 1)
		isCnt := func(v ssa.Value) bool {
			v = ir.Strip(v)
			if b, ok := v.(*ssa.BinOp); ok && b.Op == token.ADD {
				if counterOfAdd(b) != "" {
					return true
				}
				// `n := m[k] + 1; m[k] = n`: the incremented count of a map counter, stored back into that map
				if lk, isLk := ir.Strip(b.X).(*ssa.Lookup); isLk && b.Referrers() != nil {
					if k, okk := ir.ConstInt(b.Y); okk && k == 1 {
						for _, r := range *b.Referrers() {
							if mu, isMu := r.(*ssa.MapUpdate); isMu && mu.Map == lk.X && mu.Value == ssa.Value(b) {
								return true
							}
						}
					}
				}
				return false
			}
			if _, ok := v.(*ssa.Lookup); ok {
				return true
			}
			_, isPhi := v.(*ssa.Phi)
			return isPhi
		}
		isCp := func(v ssa.Value) bool { return cP != nil && ir.Strip(v) == ssa.Value(cP) }
		eng.Dominates(c, "C41.threshold", fn, relGuard("a vote count > C", isCnt, isCp, token.GTR), trueS, "endorsed answer", nil)
	}
	if fn := c.Fn(pkVbft, "BlockPool.commitDone"); fn != nil {
		gcc := c.Fn(pkVbft, "getCommitConsensus")
		var nP, cP *ssa.Parameter
		for _, p := range fn.Params {
			switch p.Name() {
			case "N":
				nP = p
			case "C":
				cP = p
			}
		}
		isQuorum := func(v ssa.Value) bool {
			s1, ok := ir.Strip(v).(*ssa.BinOp)
			if !ok || s1.Op != token.SUB || ir.Strip(s1.Y) != ssa.Value(cP) {
				return false
			}
			s2, ok := ir.Strip(s1.X).(*ssa.BinOp)
			if !ok || s2.Op != token.SUB || ir.Strip(s2.X) != ssa.Value(nP) {
				return false
			}
			k, okk := ir.ConstInt(s2.Y)
			return okk && k == 1
		}
		trueS := ir.BoolReturnSinks(fn, 2, true)
		c.Floor("commitDone true answers", len(trueS), 1)
		for _, s := range trueS {
			ret, ok := s.Instr.(*ssa.Return)
			if !ok || ret.Block() == fn.Recover {
				continue // the recover block re-returns the named results after a panic
			}
			pv := resultValueAt(ret, 0)
			var decide func(host *ssa.Function, v ssa.Value, depth int)
			decide = func(host *ssa.Function, v ssa.Value, depth int) {
				for _, l := range eng.PhiLeaves(nil, v) {
					if k, okk := ir.ConstInt(l); okk && k == 4294967295 {
						continue // sentinel: the answer is taken only when proposer != MaxUint32
					}
					if pp, isP := l.(*ssa.Parameter); isP && ir.Strip(pp) != ssa.Value(pp) {
						decide(host, ir.Strip(pp), depth) // a helper handed the caller's current answer
						continue
					}
					if cl, idx := ir.CallOf(l); cl != nil && idx == 0 && gcc != nil && cl.Common().StaticCallee() == gcc {
						c.Hold("C41.threshold", fn, "decided proposer may be getCommitConsensus's answer", c.P.Rel(cl.Pos()), "")
						continue
					}
					// a same-package helper that scans the endorsements and answers the proposer
					if cl, idx := ir.CallOf(l); cl != nil && depth < 2 {
						if h := cl.Common().StaticCallee(); h != nil && h.Pkg == fn.Pkg && h != gcc && len(h.Blocks) > 0 {
							if idx < 0 {
								idx = 0
							}
							undo := ir.BindParams(h, cl.Common().Args)
							c.Attribute(h, fn)
							for _, b := range h.Blocks {
								if r2, isRet := b.Instrs[len(b.Instrs)-1].(*ssa.Return); isRet && idx < len(r2.Results) {
									decide(h, r2.Results[idx], depth+1)
								}
							}
							undo()
							continue
						}
					}
					li, isI := l.(ssa.Instruction)
					if !isI || !isFieldOf("EndorsedProposer", nil)(l) {
						c.Violate("C41.threshold", fn, "decided proposer comes from the commit-message quorum or an endorsement count", c.P.Rel(ret.Pos()), "unexpected source "+l.Name())
						continue
					}
					eng.Dominates(c, "C41.threshold", host, relGuard("endorseCnt[p] > N-1-C", func(v ssa.Value) bool { _, ok := ir.Strip(v).(*ssa.Lookup); return ok }, isQuorum, token.GTR),
						[]ir.Sink{{Instr: li, Note: "proposer := sig.EndorsedProposer"}}, "proposer decided from endorsements", nil)
				}
			}
			decide(fn, pv, 0)
			// and the answer is given only when proposer != sentinel
			eng.Dominates(c, "C41.threshold", fn, relGuard("proposer != MaxUint32", func(v ssa.Value) bool { return v == pv }, isConstInt(4294967295), token.NEQ), []ir.Sink{s}, "committed answer", nil)
		}
	}
	if fn := c.Fn(pkVbft, "getCommitConsensus"); fn != nil {
		var sinks []ir.Sink
		for _, b := range fn.Blocks {
			for _, in := range b.Instrs {
				if r, ok := in.(*ssa.Return); ok {
					if k, okk := ir.ConstInt(r.Results[0]); okk && k == 4294967295 {
						continue
					}
					sinks = append(sinks, ir.Sink{Instr: r, Note: "proposer answered"})
				}
			}
		}
		c.Floor("getCommitConsensus proposer answers", len(sinks), 1)
		var signers ssa.Value
		isLenPlus1 := func(v ssa.Value) bool {
			add, ok := ir.Strip(v).(*ssa.BinOp)
			if !ok || add.Op != token.ADD {
				return false
			}
			if k, okk := ir.ConstInt(add.Y); !okk || k != 1 {
				return false
			}
			cl, ok := ir.Strip(add.X).(*ssa.Call)
			if !ok {
				return false
			}
			bi, ok := cl.Common().Value.(*ssa.Builtin)
			if !ok || bi.Name() != "len" {
				return false
			}
			outer := innerSetOf(cl.Common().Args[0], 0)
			if outer == nil {
				return false
			}
			signers = outer
			return true
		}
		eng.Dominates(c, "C41.threshold", fn, relGuard("len(signers[p]) + 1 >= threshold(N)", isLenPlus1, func(v ssa.Value) bool { return true }, token.GEQ), sinks, "proposer answered", nil)
		// keys of the inner sets are participant ids
		okKeys, nKeys := true, 0
		for _, b := range fn.Blocks {
			for _, in := range b.Instrs {
				mu, ok := in.(*ssa.MapUpdate)
				if !ok {
					continue
				}
				if signers == nil || innerSetOf(mu.Map, 0) != signers {
					continue
				}
				nKeys++
				if isFieldOf("Committer", nil)(mu.Key) {
					continue
				}
				if ex, isEx := ir.Strip(mu.Key).(*ssa.Extract); isEx && ex.Index == 1 {
					if nx, isNx := ex.Tuple.(*ssa.Next); isNx {
						if rg, isRg := nx.Iter.(*ssa.Range); isRg && isFieldOf("EndorsersSig", nil)(rg.X) {
							continue
						}
					}
				}
				okKeys = false
			}
		}
		c.Decide(okKeys && nKeys >= 2, "C41.threshold", fn, "the signer set of a proposal is keyed by committer / endorser id (distinct participants)", c.P.Rel(fn.Pos()), sprintf("%d insertion(s)", nKeys))
		// each proposal has a signer set of its own: the set stored for a proposer is created for that store —
		// from one such store the next one is not reachable without creating a new set (one set shared by all
		// proposers would count the union of the signers of conflicting proposals)
		okOwn, nSets := true, 0
		ownHosts, releaseOwn := hostsWithHelpers(fn)
		defer releaseOwn()
		var ownBlocks []*ssa.BasicBlock
		for _, h := range ownHosts {
			ownBlocks = append(ownBlocks, h.Blocks...)
		}
		for _, b := range ownBlocks {
			for _, in := range b.Instrs {
				mu, ok := in.(*ssa.MapUpdate)
				if !ok || signers == nil || ir.Strip(mu.Map) != signers {
					continue
				}
				if _, isMap := mu.Value.Type().Underlying().(*types.Map); !isMap {
					continue
				}
				nSets++
				mk, isMk := ir.Strip(mu.Value).(*ssa.MakeMap)
				if !isMk {
					okOwn = false
					continue
				}
				r := ir.NewReach(mu.Parent())
				r.Barrier[mk] = true
				r.Run(mu)
				if r.Instr(mu) {
					okOwn = false
				}
			}
		}
		c.Decide(okOwn && nSets >= 1, "C41.threshold", fn, "every proposal gets a signer set of its own (a fresh set per proposer)", c.P.Rel(fn.Pos()), sprintf("%d set installation(s)", nSets))
	}

	// ---------- seal
	if fn := c.Fn(pkVbft, "BlockPool.addSignaturesToBlockLocked"); fn != nil {
		outer := eng.FindMapLoops(fn, isSigs)
		if len(outer) != 1 {
			c.Broken("C41.seal", fn, "one pass over EndorseSigs", c.P.Rel(fn.Pos()), sprintf("%d loops", len(outer)))
			return
		}
		lp := outer[0]
		var inLoop, before []*ssa.Call
		for _, b := range fn.Blocks {
			for _, in := range b.Instrs {
				cl, ok := in.(*ssa.Call)
				if !ok {
					continue
				}
				bi, ok := cl.Common().Value.(*ssa.Builtin)
				if !ok || bi.Name() != "append" {
					continue
				}
				if lp.Header.Dominates(b) && b != lp.Exit && !lp.Exit.Dominates(b) {
					inLoop = append(inLoop, cl)
				} else if !lp.Exit.Dominates(b) {
					before = append(before, cl)
				}
			}
		}
		c.Floor("signature appends inside the pass over participants", len(inLoop), 2)
		var forEmptyP *ssa.Parameter
		for _, p := range fn.Params {
			if p.Name() == "forEmpty" {
				forEmptyP = p
			}
		}
		endorserKey := func(v ssa.Value) bool {
			ex, ok := ir.Strip(v).(*ssa.Extract)
			return ok && ex.Index == 1 && ex.Tuple == ssa.Value(lp.Next)
		}
		isProposer := func(v ssa.Value) bool { return calleeNamed(v, "getProposer") != nil }
		opt := &eng.Opt{StartBlock: lp.Body}
		var sinks []ir.Sink
		for _, a := range inLoop {
			sinks = append(sinks, ir.Sink{Instr: a, Note: "signature append"})
		}
		eng.Dominates(c, "C41.seal", fn, relGuard("sig.EndorsedProposer == proposer", isFieldOf("EndorsedProposer", nil), isProposer, token.EQL), sinks, "signature append (per participant)", opt)
		eng.Dominates(c, "C41.seal", fn, relGuard("sig.ForEmpty == forEmpty", isFieldOf("ForEmpty", nil), func(v ssa.Value) bool { return forEmptyP != nil && ir.Strip(v) == ssa.Value(forEmptyP) }, token.EQL), sinks, "signature append (per participant)", opt)
		eng.Dominates(c, "C41.seal", fn, relGuard("endorser != proposer", endorserKey, isProposer, token.NEQ), sinks, "signature append (per participant)", opt)
		// at most one per participant
		okOnce := true
		for _, a := range inLoop {
			r := ir.NewReach(fn)
			r.Barrier[lp.Next] = true
			r.Run(a)
			for _, b := range inLoop {
				if r.Instr(b) && b.Block() != a.Block() {
					okOnce = false
				}
				if b == a && r.Instr(a) {
					okOnce = false
				}
			}
		}
		c.Decide(okOnce, "C41.seal", fn, "after a participant's signature is added the scan of its entries is left (one signature per participant)", c.P.Rel(lp.Next.Pos()), "")
		// pairwise
		blocks := map[*ssa.BasicBlock]int{}
		for _, a := range inLoop {
			blocks[a.Block()]++
		}
		okPair := true
		for _, n := range blocks {
			if n != 2 {
				okPair = false
			}
		}
		c.Decide(okPair, "C41.seal", fn, "public key and signature are appended pairwise", c.P.Rel(lp.Next.Pos()), sprintf("%v", len(blocks)))
		// proposer's own signature: exactly one pair on every path before the pass
		blocks = map[*ssa.BasicBlock]int{}
		for _, a := range before {
			blocks[a.Block()]++
		}
		okProp := len(blocks) >= 1
		var bl []*ssa.BasicBlock
		for b, n := range blocks {
			if n != 2 {
				okProp = false
			}
			bl = append(bl, b)
		}
		for _, x := range bl {
			r := ir.NewReach(fn)
			r.RunFromBlock(x)
			for _, y := range bl {
				if x != y && r.BlockEntered(y) {
					okProp = false
				}
			}
		}
		c.Decide(okProp, "C41.seal", fn, "the proposer's signature is added exactly once (mutually exclusive branches)", c.P.Rel(fn.Pos()), sprintf("%d branch(es)", len(bl)))
	}
}

// innerSetOf: v is an element of a map of maps (the per-proposal signer set) —
// `outer[k]`, the value of `s, ok := outer[k]`, a fresh map that is stored into
// outer, or a phi of those.  Returns the outer map (nil if v is not such a value).
func innerSetOf(v ssa.Value, depth int) ssa.Value {
	if depth > 4 || v == nil {
		return nil
	}
	isMapOfMaps := func(x ssa.Value) bool {
		m, ok := x.Type().Underlying().(*types.Map)
		if !ok {
			return false
		}
		_, inner := m.Elem().Underlying().(*types.Map)
		return inner
	}
	switch x := v.(type) {
	case *ssa.Lookup:
		if !x.CommaOk && isMapOfMaps(x.X) {
			return x.X
		}
	case *ssa.Extract:
		if lk, ok := x.Tuple.(*ssa.Lookup); ok && x.Index == 0 && lk.CommaOk && isMapOfMaps(lk.X) {
			return lk.X
		}
	case *ssa.MakeMap:
		if x.Referrers() != nil {
			for _, r := range *x.Referrers() {
				if mu, ok := r.(*ssa.MapUpdate); ok && mu.Value == ssa.Value(x) && isMapOfMaps(mu.Map) {
					return mu.Map
				}
			}
		}
	case *ssa.Call:
		// a module helper that looks the set up (creating it on first use) and hands it back
		via, release := valueVia(x)
		defer release()
		if via == ssa.Value(x) {
			return nil
		}
		o := innerSetOf(via, depth+1)
		if pp, isP := o.(*ssa.Parameter); isP {
			o = ir.Strip(pp) // the outer map is the caller's
		}
		return o
	case *ssa.Phi:
		var outer ssa.Value
		for _, e := range x.Edges {
			o := innerSetOf(e, depth+1)
			if o == nil || (outer != nil && o != outer) {
				return nil
			}
			outer = o
		}
		return outer
	}
	return nil
}
