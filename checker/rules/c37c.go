package rules

import (
	"golang.org/x/tools/go/ssa"

	"polyverif/core"
	"polyverif/eng"
	"polyverif/ir"
)

// C37 (continued) — "transactions handed to consensus are verified at or after
// the requested height" on the verify-block path.  The worker drops a stateful
// answer older than server.getHeight(); so before verifyBlock hands any
// transaction to a worker the server height has been set to THIS request's
// height (setHeight(req.Height)) — not to what the previous request left in
// pendingBlock.height.
func checkVerifyBlockSetsRequestHeight(c *core.Ctx) {
	const rule = "C37.verify-height"
	fn := c.Fn(pkTxPool, "TXPoolServer.verifyBlock")
	sh := eng.Obj(c, pkTxPool, "TXPoolServer.setHeight")
	if fn == nil || sh == nil {
		return
	}
	reqP := paramByName(fn, "req")
	isReqHeight := func(v ssa.Value) bool {
		b, f, ok := fieldLoad(v)
		return ok && f == "Height" && reqP != nil && ir.Strip(b) == ssa.Value(reqP)
	}
	calls := ir.CallsTo(fn, sh)
	c.Floor("setHeight calls in verifyBlock", len(calls), 1)
	for _, ci := range calls {
		c.Decide(isReqHeight(ci.Common().Args[1]), rule, fn, "the height installed for the workers is the request's height", c.P.Rel(ci.Pos()),
			"setHeight is given "+short(ci.Common().Args[1].String())+": stale stateful answers for this block are measured against another height")
	}
	var sinks []ir.Sink
	for _, ci := range ir.Calls(fn, func(ci ssa.CallInstruction) bool {
		o := ir.CalleeObj(ci)
		return o != nil && (o.Name() == "assignTxToWorker" || o.Name() == "reVerifyStateful")
	}) {
		sinks = append(sinks, ir.Sink{Instr: ci, Note: "transaction handed to a worker"})
	}
	c.Floor("hand-overs to workers in verifyBlock", len(sinks), 2)
	if len(sinks) > 0 {
		eng.MustPassCall(c, rule, fn, "setHeight(req.Height)", func(ci ssa.CallInstruction) bool {
			return ir.CalleeIs(ci, sh) && isReqHeight(ci.Common().Args[1])
		}, sinks, "transaction handed to a worker", nil)
	}
}
