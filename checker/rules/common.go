// Package rules holds one file per property: the rule instances (frozen
// tables and templates) evaluated by the engines.
package rules

import (
	"fmt"
	"go/constant"
	"go/types"
	"sort"
	"strings"

	"golang.org/x/tools/go/ssa"

	"polyverif/core"
	"polyverif/eng"
	"polyverif/ir"
)

const (
	pkNative   = "native"
	pkUtils    = "native/service/utils"
	pkStorage  = "native/storage"
	pkCCM      = "native/service/cross_chain_manager"
	pkCCMCom   = "native/service/cross_chain_manager/common"
	pkHS       = "native/service/header_sync"
	pkHSCom    = "native/service/header_sync/common"
	pkNM       = "native/service/governance/node_manager"
	pkSCM      = "native/service/governance/side_chain_manager"
	pkRM       = "native/service/governance/relayer_manager"
	pkNeo3SM   = "native/service/governance/neo3_state_manager"
	pkSigM     = "native/service/governance/signature_manager"
	pkLedger   = "core/store/ledgerstore"
	pkOverlay  = "core/store/overlaydb"
	pkCommon   = "common"
	pkTypes    = "core/types"
	pkSig      = "core/signature"
	pkMerkle   = "merkle"
	pkVote     = "native/service/cross_chain_manager/consensus_vote"
	pkRipple   = "native/service/cross_chain_manager/ripple"
	pkBtc      = "native/service/cross_chain_manager/btc"
	pkTxPool   = "txnpool/proc"
	pkTxCommon = "txnpool/common"
	pkVbft     = "consensus/vbft"
)

// Handler is a native contract method registered with NativeService.Register.
type Handler struct {
	Method   string // the method-name constant's value
	Fn       *ssa.Function
	Contract string // registering function
	Site     ssa.CallInstruction
}

// Handlers enumerates every (*NativeService).Register call in the module.
func Handlers(c *core.Ctx) []Handler {
	reg := eng.Obj(c, pkNative, "NativeService.Register")
	if reg == nil {
		return nil
	}
	var out []Handler
	for _, pk := range c.P.Mod {
		if pk.SSA == nil {
			continue
		}
		for _, m := range pk.SSA.Members {
			fn, ok := m.(*ssa.Function)
			if !ok {
				continue
			}
			for _, call := range ir.CallsTo(fn, reg) {
				args := call.Common().Args
				if len(args) < 3 {
					continue
				}
				name := "?"
				if k, ok := ir.Strip(args[1]).(*ssa.Const); ok && k.Value != nil && k.Value.Kind() == constant.String {
					name = constant.StringVal(k.Value)
				}
				var h *ssa.Function
				switch x := ir.Strip(args[2]).(type) {
				case *ssa.Function:
					h = x
				case *ssa.MakeClosure:
					h, _ = x.Fn.(*ssa.Function)
				}
				if h == nil {
					c.Broken("anchor", fn, "Register("+name+")", c.P.Rel(call.Pos()), "handler argument is not a function constant")
					continue
				}
				out = append(out, Handler{Method: name, Fn: h, Contract: ir.FuncName(fn), Site: call})
			}
		}
	}
	sort.Slice(out, func(i, j int) bool {
		if out[i].Contract != out[j].Contract {
			return out[i].Contract < out[j].Contract
		}
		return out[i].Method < out[j].Method
	})
	return out
}

// storageWriters: functions that may transitively call CacheDB.Put / Delete.
func storageWriters(c *core.Ctx) map[*ssa.Function]bool {
	put := c.Fn(pkStorage, "CacheDB.Put")
	del := c.Fn(pkStorage, "CacheDB.Delete")
	if put == nil || del == nil {
		return nil
	}
	return c.P.CG().ReachesAny([]*ssa.Function{put, del})
}

// writeCalls lists the call sites in fn that may write contract storage.
func writeCalls(c *core.Ctx, fn *ssa.Function, writers map[*ssa.Function]bool) []ssa.CallInstruction {
	cg := c.P.CG()
	return ir.Calls(fn, func(ci ssa.CallInstruction) bool { return cg.SiteMayReach(ci, writers) })
}

func callDesc(ci ssa.CallInstruction) string {
	if o := ir.CalleeObj(ci); o != nil {
		return ir.ObjName(o)
	}
	return ci.Common().Value.String()
}

// fieldOf reports whether v is (a load of) field `field` of some struct
// reached from value base (through pointer derefs); returns the base.
func fieldLoad(v ssa.Value) (base ssa.Value, field string, ok bool) {
	v = ir.Strip(v)
	switch x := v.(type) {
	case *ssa.UnOp:
		if fa, ok := x.X.(*ssa.FieldAddr); ok {
			st := fa.X.Type().Underlying().(*types.Pointer).Elem().Underlying().(*types.Struct)
			return fa.X, st.Field(fa.Field).Name(), true
		}
	case *ssa.Field:
		st := x.X.Type().Underlying().(*types.Struct)
		return x.X, st.Field(x.Field).Name(), true
	}
	return nil, "", false
}

func short(s string) string { return strings.ReplaceAll(s, ir.Mod+"/", "") }

func sprintf(f string, a ...interface{}) string { return fmt.Sprintf(f, a...) }

// globalName: the name of the package-level variable v is loaded from ("" if none).
func globalName(v ssa.Value) string {
	u, ok := ir.Strip(v).(*ssa.UnOp)
	if !ok {
		return ""
	}
	g, ok := u.X.(*ssa.Global)
	if !ok {
		return ""
	}
	return g.Name()
}

// fieldNameOf returns the name of the field a FieldAddr selects.
func fieldNameOf(fa *ssa.FieldAddr) string {
	st, ok := fa.X.Type().Underlying().(*types.Pointer).Elem().Underlying().(*types.Struct)
	if !ok {
		return ""
	}
	return st.Field(fa.Field).Name()
}
