package rules

import (
	"go/token"
	"go/types"
	"sort"
	"strings"

	"golang.org/x/tools/go/ssa"

	"polyverif/core"
	"polyverif/eng"
	"polyverif/ir"
)

// C10 — layered state views agree with their backing store.
// C11 — block state-change digest depends only on the net write set.

const pkOverlayDB = "core/store/overlaydb"
const pkNatStorage = "native/storage"

func init() {
	core.Register(&core.Check{
		ID: "C10", Level: "other", Title: "Layered state views agree with their backing store",
		Technique: "sibling agreement of the tombstone convention (guard dominance in every layer-commit callback), three-valued decision sets of comparator tests, guard dominance for backend fall-through, constant/prefix agreement",
		Explain:   "Structural necessary conditions. (Tombstones) 'empty value = deleted' is applied identically wherever a layer is folded into the one below — CacheDB.Commit, OverlayDB.CommitTo and the ForEach callback of saveBlockToStateStore: the delete call is dominated by len(val)==0, the put call by its negation, both on the callback's own (key, val). (Reads) OverlayDB.Get and CacheDB.get consult the layer below only on the `unknown` edge of MemDB.Get, otherwise return the in-memory value (nil for a tombstone). (Scans) JoinIter.First/Next answer true only after len(value) != 0 (tombstones are skipped); in JoinIter.first/next the comparator result c = Compare(memKey, backKey) selects the in-memory entry exactly on c ∈ {-1,0} (newest layer wins on equal keys), marks FromBoth exactly on c == 0 and takes the backend entry exactly on c == 1 (three-valued decision sets intersected along the dominating tests). The in-memory range iterator treats Range.Limit as exclusive and Range.Start as inclusive (dbIter.fill rejects exactly on Compare(key, Limit) ∈ {0,1} and Compare(key, Start) ∈ {-1}), matching util.BytesPrefix and the LevelDB backend. (Prefix) CacheDB.Put/Get/Delete/NewIterator all use the constant ST_STORAGE, and Iter.Key strips exactly one byte. NOT decided: the join iterator's state machine over all histories, the skip list itself (C09).",
		Run:       runC10,
	})
	core.Register(&core.Check{
		ID: "C11", Level: "other", Title: "Block state-change digest depends only on the net write set",
		Technique: "effect reachability (no map iteration / goroutines under the digest), field coverage of the hashing callback, who-may-mutate on the MemDB buffers (append-only), record-consistency of overwrites, call ordering in executeBlock",
		Explain:   "Structural necessary conditions. (Order) ChangeHash, CommitTo and the write-set consumer traverse the overlay only through MemDB.ForEach (an ordered linked traversal); no function reachable from ChangeHash ranges over a Go map, starts a goroutine or selects. (Coverage) ChangeHash's callback feeds exactly key then val of each entry to the hasher. (Net effect) the overlay is mutated only through MemDB.Put (Delete = Put(key, nil)); MemDB.kvData is append-only — no element store, no copy() into it, only append and the Reset truncation — so a value once recorded is never patched in place; on overwrite Put records len(value) as the new value length on every path and re-points the entry at a freshly appended key‖value whenever the value is non-empty, so an entry's recorded value is exactly the last value written; the MemDB buffers are written only by Put, Reset and the constructor. (Same object) in executeBlock result.Hash = overlay.ChangeHash() and result.WriteSet = overlay.GetWriteSet() are taken from the same overlay, after the loop over the block's transactions completed. NOT decided: that ForEach yields ascending key order (skip-list invariant, C09).",
		Run:       runC11,
	})
}

// triSet: the subset of {-1,0,1} for which `v op k` holds.
func triSet(op token.Token, k int64) map[int]bool {
	out := map[int]bool{}
	for _, v := range []int{-1, 0, 1} {
		x := int64(v)
		var h bool
		switch op {
		case token.EQL:
			h = x == k
		case token.NEQ:
			h = x != k
		case token.LSS:
			h = x < k
		case token.LEQ:
			h = x <= k
		case token.GTR:
			h = x > k
		case token.GEQ:
			h = x >= k
		default:
			return nil
		}
		if h {
			out[v] = true
		}
	}
	return out
}

func triString(s map[int]bool) string {
	var xs []string
	for _, v := range []int{-1, 0, 1} {
		if s[v] {
			xs = append(xs, sprintf("%d", v))
		}
	}
	return "{" + strings.Join(xs, ",") + "}"
}

// triAt: the possible values of the comparator result cmpV at block blk, from the tests on cmpV that dominate blk.
func triAt(fn *ssa.Function, cmpV ssa.Value, blk *ssa.BasicBlock) map[int]bool {
	cur := map[int]bool{-1: true, 0: true, 1: true}
	for _, cd := range ir.Conds(fn) {
		b, ok := cd.V.(*ssa.BinOp)
		if !ok || b.X != cmpV {
			continue
		}
		k, okk := ir.ConstInt(b.Y)
		if !okk {
			continue
		}
		ts := triSet(b.Op, k)
		if ts == nil {
			continue
		}
		from := cd.If.Block()
		t, f := from.Succs[0], from.Succs[1]
		onT := len(t.Preds) == 1 && (t == blk || t.Dominates(blk))
		onF := len(f.Preds) == 1 && (f == blk || f.Dominates(blk))
		if onT == onF {
			continue
		}
		for v := range cur {
			if ts[v] != onT {
				delete(cur, v)
			}
		}
	}
	return cur
}

func tombstoneCallback(c *core.Ctx, rule string, fn *ssa.Function, delNames, putNames []string) {
	if fn == nil {
		return
	}
	if len(fn.Params) < 2 {
		c.Broken(rule, fn, "callback (key, val)", c.P.Rel(fn.Pos()), "unexpected signature")
		return
	}
	keyP, valP := fn.Params[len(fn.Params)-2], fn.Params[len(fn.Params)-1]
	isEmpty := relGuard("len(val) == 0", isLenOfParam(valP), isConstInt(0), token.EQL)
	notEmpty := relGuard("len(val) != 0", isLenOfParam(valP), isConstInt(0), token.NEQ)
	var dels, puts []ssa.CallInstruction
	for _, ci := range ir.Calls(fn, func(ci ssa.CallInstruction) bool { return true }) {
		o := ir.CalleeObj(ci)
		name := ""
		if o != nil {
			name = o.Name()
		} else if ci.Common().IsInvoke() {
			name = ci.Common().Method.Name()
		}
		for _, n := range delNames {
			if name == n {
				dels = append(dels, ci)
			}
		}
		for _, n := range putNames {
			if name == n {
				puts = append(puts, ci)
			}
		}
	}
	if len(dels) == 0 || len(puts) == 0 {
		c.Broken(rule, fn, "delete and put calls of the layer below", c.P.Rel(fn.Pos()), sprintf("%d delete(s), %d put(s)", len(dels), len(puts)))
		return
	}
	eng.Dominates(c, rule, fn, isEmpty, ir.CallSinks(dels, "delete in the layer below"), "delete in the layer below", nil)
	eng.Dominates(c, rule, fn, notEmpty, ir.CallSinks(puts, "put in the layer below"), "put in the layer below", nil)
	okArgs := true
	for _, ci := range append(append([]ssa.CallInstruction{}, dels...), puts...) {
		a := ci.Common().Args
		found := false
		for _, x := range a {
			if ir.Strip(x) == ssa.Value(keyP) {
				found = true
			}
		}
		okArgs = okArgs && found
	}
	for _, ci := range puts {
		found := false
		for _, x := range ci.Common().Args {
			if ir.Strip(x) == ssa.Value(valP) {
				found = true
			}
		}
		okArgs = okArgs && found
	}
	c.Decide(okArgs, rule, fn, "the entry's own key (and value) are forwarded", c.P.Rel(fn.Pos()), "")
}

// callbacksOf: the per-entry callbacks a function hands to ForEach — anonymous
// closures, or methods passed as method values (ir.WithClosures resolves both).
func callbacksOf(fn *ssa.Function) []*ssa.Function {
	out := callbacksIn(fn)
	if len(out) > 0 {
		return out
	}
	// the traversal (and its callback) may have been moved into a same-package helper fn calls
	for _, ci := range ir.Calls(fn, nil) {
		h := ci.Common().StaticCallee()
		if h == nil || h == fn || h.Pkg != fn.Pkg || len(h.Blocks) == 0 || len(h.Blocks) > 40 {
			continue
		}
		if cbs := callbacksIn(h); len(cbs) > 0 {
			return cbs
		}
	}
	return nil
}

func callbacksIn(fn *ssa.Function) []*ssa.Function {
	var out []*ssa.Function
	for _, f := range ir.WithClosures(fn) {
		if f == fn || f.Synthetic != "" {
			continue
		}
		n := len(f.Params)
		if n >= 2 && isByteSlice(f.Params[n-1].Type()) && isByteSlice(f.Params[n-2].Type()) {
			out = append(out, f)
		}
	}
	return out
}

func isByteSlice(t types.Type) bool {
	s, ok := t.Underlying().(*types.Slice)
	if !ok {
		return false
	}
	b, ok := s.Elem().Underlying().(*types.Basic)
	return ok && b.Kind() == types.Byte
}

func runC10(c *core.Ctx) {
	checkMemDBResetTotal(c, "C10.reset-discards")
	checkNewBatchDiscards(c, "C10.discard-leaves-nothing")
	// ---- tombstones
	for _, spec := range []struct {
		pkg, fn  string
		del, put []string
	}{
		{pkNatStorage, "CacheDB.Commit", []string{"Delete"}, []string{"Put"}},
		{pkOverlayDB, "OverlayDB.CommitTo", []string{"BatchDelete"}, []string{"BatchPut"}},
		{pkLedger, "LedgerStoreImp.saveBlockToStateStore", []string{"BatchDeleteRawKey"}, []string{"BatchPutRawKeyVal"}},
	} {
		fn := c.Fn(spec.pkg, spec.fn)
		if fn == nil {
			continue
		}
		cbs := callbacksOf(fn)
		for _, cb := range cbs {
			tombstoneCallback(c, "C10.tombstone", cb, spec.del, spec.put)
		}
		c.Floor("per-entry (key, val) callback in "+spec.fn, len(cbs), 1)
	}
	// ---- reads
	for _, spec := range []struct{ pkg, fn, below string }{{pkOverlayDB, "OverlayDB.Get", "store"}, {pkNatStorage, "CacheDB.get", "backend"}} {
		fn := c.Fn(spec.pkg, spec.fn)
		if fn == nil {
			continue
		}
		var mg *ssa.Call
		for _, ci := range ir.Calls(fn, func(ci ssa.CallInstruction) bool {
			o := ir.CalleeObj(ci)
			return o != nil && o.Name() == "Get" && recvNamedCI(ci, "MemDB")
		}) {
			mg, _ = ci.(*ssa.Call)
		}
		if mg == nil {
			c.Broken("C10.read", fn, "MemDB.Get", c.P.Rel(fn.Pos()), "not found")
			continue
		}
		var below []ssa.CallInstruction
		for _, ci := range ir.CallsThrough(fn, func(ci ssa.CallInstruction) bool {
			if ci == ssa.CallInstruction(mg) {
				return false
			}
			if ci.Common().IsInvoke() {
				return ci.Common().Method.Name() == "Get"
			}
			o := ir.CalleeObj(ci)
			return o != nil && o.Name() == "Get"
		}, 2) {
			below = append(below, ci)
		}
		c.Floor("reads of the layer below in "+spec.fn, len(below), 1)
		unknown := eng.NamedGuard{Name: "MemDB.Get reported unknown", G: func(cd ir.Cond) (bool, bool) {
			v := cd.V
			want := true
			if b, ok := v.(*ssa.BinOp); ok && (b.Op == token.EQL || b.Op == token.NEQ) {
				if k, okk := ir.ConstBool(b.Y); okk {
					v = b.X
					want = (b.Op == token.EQL) == k
				}
			}
			if u, ok := v.(*ssa.UnOp); ok && u.Op == token.NOT {
				v = u.X
				want = !want
			}
			ex, ok := ir.Strip(v).(*ssa.Extract)
			if ok && ex.Tuple == ssa.Value(mg) && ex.Index == 1 {
				return true, want
			}
			return false, false
		}}
		eng.Dominates(c, "C10.read", fn, unknown, ir.CallSinks(below, "read of the layer below"), "read of the layer below", nil)
	}
	// ---- scans: skip tombstones
	for _, n := range []string{"JoinIter.First", "JoinIter.Next"} {
		fn := c.Fn(pkOverlayDB, n)
		if fn == nil {
			continue
		}
		trueS := ir.BoolReturnSinks(fn, 0, true)
		c.Floor("true returns of "+n, len(trueS), 1)
		eng.Dominates(c, "C10.scan", fn, relGuard("len(iter.value) != 0", isLenOfField("value", nil), isConstInt(0), token.NEQ), trueS, "entry reported", nil)
	}
	// ---- scans: comparator decision sets
	for _, n := range []string{"JoinIter.first", "JoinIter.next"} {
		fn := c.Fn(pkOverlayDB, n)
		if fn == nil {
			continue
		}
		var cmp *ssa.Call
		for _, ci := range ir.Calls(fn, func(ci ssa.CallInstruction) bool {
			return ci.Common().IsInvoke() && ci.Common().Method.Name() == "Compare"
		}) {
			cmp, _ = ci.(*ssa.Call)
		}
		if cmp == nil {
			c.Broken("C10.scan", fn, "Compare(memKey, backKey)", c.P.Rel(fn.Pos()), "not found")
			continue
		}
		a := cmp.Common().Args
		fromIter := func(v ssa.Value, which string) bool {
			cl := calleeNamedInvoke(v, "Key")
			return cl != nil && isFieldNamed(cl.Common().Value, which)
		}
		c.Decide(fromIter(a[0], "memdb") && fromIter(a[1], "backend"), "C10.scan", fn, "c = Compare(memdb.Key(), backend.Key())", c.P.Rel(cmp.Pos()), "")
		origin := map[string]int64{}
		for _, k := range []string{"FromMem", "FromBack", "FromBoth"} {
			v, err := c.P.Const(pkOverlayDB, k)
			if err == nil {
				origin[k], _ = constInt64Val(v)
			}
		}
		region := cmp.Block()
		nChecked := 0
		for _, b := range fn.Blocks {
			if b != region && !region.Dominates(b) {
				continue
			}
			for _, in := range b.Instrs {
				st, ok := in.(*ssa.Store)
				if !ok {
					continue
				}
				fa, ok := st.Addr.(*ssa.FieldAddr)
				if !ok {
					continue
				}
				at := triAtFlow(fn, cmp, b)
				switch fieldNameOf(fa) {
				case "value":
					src := ""
					if cl := calleeNamedInvoke(st.Val, "Value"); cl != nil {
						if isFieldNamed(cl.Common().Value, "memdb") {
							src = "memdb"
						} else if isFieldNamed(cl.Common().Value, "backend") {
							src = "backend"
						}
					}
					nChecked++
					switch src {
					case "memdb":
						c.Decide(!at[1] && len(at) > 0, "C10.scan", fn, "the in-memory value is taken only on c ∈ {-1,0}", c.P.Rel(st.Pos()), "c ∈ "+triString(at))
					case "backend":
						c.Decide(!at[-1] && !at[0] && len(at) > 0, "C10.scan", fn, "the backend value is taken only on c == 1", c.P.Rel(st.Pos()), "c ∈ "+triString(at))
					default:
						c.Broken("C10.scan", fn, "value source in the comparison region", c.P.Rel(st.Pos()), "neither memdb.Value() nor backend.Value()")
					}
				case "keyOrigin":
					k, okk := ir.ConstInt(st.Val)
					if !okk {
						continue
					}
					nChecked++
					switch k {
					case origin["FromBoth"]:
						c.Decide(len(at) == 1 && at[0], "C10.scan", fn, "FromBoth exactly on c == 0", c.P.Rel(st.Pos()), "c ∈ "+triString(at))
					case origin["FromMem"]:
						c.Decide(len(at) == 1 && at[-1], "C10.scan", fn, "FromMem exactly on c == -1", c.P.Rel(st.Pos()), "c ∈ "+triString(at))
					case origin["FromBack"]:
						c.Decide(len(at) == 1 && at[1], "C10.scan", fn, "FromBack exactly on c == 1", c.P.Rel(st.Pos()), "c ∈ "+triString(at))
					}
				}
			}
		}
		c.Floor("decisions under the comparison in "+n, nChecked, 5)
	}
	// ---- range bounds of the in-memory iterator
	if fn := c.Fn(pkOverlayDB, "dbIter.fill"); fn != nil {
		for _, spec := range []struct {
			field string
			want  map[int]bool
			desc  string
		}{
			{"Limit", map[int]bool{0: true, 1: true}, "Range.Limit is exclusive: reject exactly on Compare(key, Limit) ∈ {0,1}"},
			{"Start", map[int]bool{-1: true}, "Range.Start is inclusive: reject exactly on Compare(key, Start) ∈ {-1}"},
		} {
			var cmp *ssa.Call
			for _, ci := range ir.Calls(fn, func(ci ssa.CallInstruction) bool {
				return ci.Common().IsInvoke() && ci.Common().Method.Name() == "Compare"
			}) {
				if isFieldNamed(ci.Common().Args[1], spec.field) && isFieldNamed(ci.Common().Args[0], "key") {
					cmp, _ = ci.(*ssa.Call)
				}
			}
			if cmp == nil || cmp.Referrers() == nil {
				c.Broken("C10.range-bounds", fn, "Compare(i.key, slice."+spec.field+")", c.P.Rel(fn.Pos()), "not found")
				continue
			}
			got := map[int]bool{}
			rejects := false
			n := 0
			for _, r := range *cmp.Referrers() {
				b, ok := r.(*ssa.BinOp)
				if !ok {
					continue
				}
				k, okk := ir.ConstInt(b.Y)
				if !okk {
					continue
				}
				n++
				got = triSet(b.Op, k)
				rejects = leadsToNodeReset(b)
			}
			same := n == 1 && len(got) == len(spec.want)
			for v := range spec.want {
				same = same && got[v]
			}
			c.Decide(same && rejects, "C10.range-bounds", fn, spec.desc, c.P.Rel(cmp.Pos()), sprintf("test true on %s, true edge resets the position: %v", triString(got), rejects))
		}
	}
	// ---- prefix
	if pk := c.P.Pkgs[ir.PkgPath(pkNatStorage)]; pk != nil {
		stv, err := c.P.Const("core/store/common", "ST_STORAGE")
		if err != nil {
			c.Broken("C10.prefix", pkNatStorage, "ST_STORAGE", "", err.Error())
		} else {
			k, _ := constInt64Val(stv)
			for _, spec := range []struct{ fn, inner string }{{"CacheDB.Put", "put"}, {"CacheDB.Get", "get"}, {"CacheDB.Delete", "delete"}} {
				fn := c.Fn(pkNatStorage, spec.fn)
				if fn == nil {
					continue
				}
				okP := false
				for _, ci := range ir.Calls(fn, func(ci ssa.CallInstruction) bool {
					f := ci.Common().StaticCallee()
					return f != nil && f.Name() == spec.inner
				}) {
					if v, okk := ir.ConstInt(ci.Common().Args[1]); okk && v == k {
						okP = true
					}
				}
				// the private worker inlined: the key is built here with the package's key builder
				for _, ci := range ir.Calls(fn, func(ci ssa.CallInstruction) bool {
					f := ci.Common().StaticCallee()
					return f != nil && f.Name() == "makePrefixedKey"
				}) {
					if a := ci.Common().Args; len(a) == 3 {
						if v, okk := ir.ConstInt(a[1]); okk && v == k {
							okP = true
						}
					}
				}
				c.Decide(okP, "C10.prefix", fn, spec.fn+" uses the ST_STORAGE prefix", c.P.Rel(fn.Pos()), "")
			}
			if fn := c.Fn(pkNatStorage, "CacheDB.NewIterator"); fn != nil {
				okP := false
				for _, b := range fn.Blocks {
					for _, in := range b.Instrs {
						if st, ok := in.(*ssa.Store); ok {
							if ia, isIa := st.Addr.(*ssa.IndexAddr); isIa {
								if i, oki := ir.ConstInt(ia.Index); oki && i == 0 {
									if v, okv := ir.ConstInt(st.Val); okv && v == k {
										okP = true
									}
								}
							}
						}
					}
				}
				// or through the package's own key builder: makePrefixedKey(dst, ST_STORAGE, key)
				for _, ci := range ir.Calls(fn, func(ci ssa.CallInstruction) bool {
					f := ci.Common().StaticCallee()
					return f != nil && f.Name() == "makePrefixedKey"
				}) {
					if a := ci.Common().Args; len(a) == 3 {
						if v, okk := ir.ConstInt(a[1]); okk && v == k {
							okP = true
						}
						// the iterators keep the start key by reference until First(): it must be a fresh
						// buffer, not the scratch key the next Get/Put overwrites
						c.Decide(ir.IsNilConst(a[0]), "C10.prefix", fn, "the scan's start key is a fresh buffer (not the shared scratch key)", c.P.Rel(ci.Pos()),
							"the start key aliases "+a[0].String()+": an access between NewIterator and First() changes the scanned range")
					}
				}
				c.Decide(okP, "C10.prefix", fn, "NewIterator scans under the ST_STORAGE prefix", c.P.Rel(fn.Pos()), "")
			}
			if fn := c.Fn(pkNatStorage, "Iter.Key"); fn != nil {
				okS := false
				for _, b := range fn.Blocks {
					for _, in := range b.Instrs {
						if sl, ok := in.(*ssa.Slice); ok && sl.High == nil {
							if lo, okl := ir.ConstInt(sl.Low); okl && lo == 1 {
								okS = true
							}
						}
					}
				}
				c.Decide(okS, "C10.prefix", fn, "Iter.Key strips exactly the one prefix byte", c.P.Rel(fn.Pos()), "")
			}
		}
	}
}

func leadsToNodeReset(b *ssa.BinOp) bool {
	// the comparison result (possibly through an && phi) controls an If whose true successor stores node = 0
	seen := map[ssa.Value]bool{}
	var walk func(v ssa.Value, d int) bool
	walk = func(v ssa.Value, d int) bool {
		if d > 4 || seen[v] || v.Referrers() == nil {
			return false
		}
		seen[v] = true
		for _, r := range *v.Referrers() {
			switch x := r.(type) {
			case *ssa.If:
				t := x.Block().Succs[0]
				for _, in := range t.Instrs {
					if st, ok := in.(*ssa.Store); ok {
						if fa, isFa := st.Addr.(*ssa.FieldAddr); isFa && fieldNameOf(fa) == "node" {
							if k, okk := ir.ConstInt(st.Val); okk && k == 0 {
								return true
							}
						}
					}
				}
			case *ssa.Phi:
				if walk(x, d+1) {
					return true
				}
			}
		}
		return false
	}
	return walk(b, 0)
}

func calleeNamedInvoke(v ssa.Value, name string) *ssa.Call {
	cl, _ := ir.CallOf(v)
	if cl == nil {
		return nil
	}
	if cl.Common().IsInvoke() && cl.Common().Method.Name() == name {
		return cl
	}
	return nil
}

func recvNamedCI(ci ssa.CallInstruction, name string) bool {
	cl, ok := ci.(*ssa.Call)
	return ok && recvNamed(cl, name)
}

func runC11(c *core.Ctx) {
	checkThreeWayTestsAlive(c, "C11.sort-comparators-alive", "native/...", "core/store/...", "core/types")
	checkStateValuesOrderFree(c, "C11.values-order-free")
	checkLayerMutatorsUnconditional(c)
	// a failed transaction contributes nothing to the digest: its cache is discarded before the next one runs
	checkResetBeforeTx(c, "C11.failed-tx-discarded")
	ch := c.Fn(pkOverlayDB, "OverlayDB.ChangeHash")
	fe := c.Fn(pkOverlayDB, "MemDB.ForEach")
	put := c.Fn(pkOverlayDB, "MemDB.Put")
	if ch == nil || fe == nil || put == nil {
		return
	}
	// ---- traversal only through ForEach
	for _, n := range []string{"OverlayDB.ChangeHash", "OverlayDB.CommitTo"} {
		fn := c.Fn(pkOverlayDB, n)
		if fn == nil {
			continue
		}
		calls := ir.Calls(fn, func(ci ssa.CallInstruction) bool { return ci.Common().StaticCallee() == fe })
		if len(calls) == 0 {
			// the traversal may sit in a private helper (`writeChangesTo(w)`)
			calls = ir.CallsThrough(fn, func(ci ssa.CallInstruction) bool { return ci.Common().StaticCallee() == fe }, 1)
		}
		okOnly := len(calls) == 1
		for _, b := range fn.Blocks {
			for _, in := range b.Instrs {
				if _, isR := in.(*ssa.Range); isR {
					okOnly = false
				}
			}
		}
		c.Decide(okOnly, "C11.order", fn, n+" traverses the overlay through MemDB.ForEach only", c.P.Rel(fn.Pos()), sprintf("%d ForEach call(s)", len(calls)))
	}
	{
		cg := c.P.CG()
		reach := cg.Reachable([]*ssa.Function{ch}, nil)
		var fns []*ssa.Function
		for f := range reach {
			if len(f.Blocks) > 0 {
				fns = append(fns, f)
			}
		}
		sort.Slice(fns, func(i, j int) bool { return fns[i].String() < fns[j].String() })
		var bad []string
		for _, f := range fns {
			c.Touch(f)
			for _, b := range f.Blocks {
				for _, in := range b.Instrs {
					switch x := in.(type) {
					case *ssa.Go:
						bad = append(bad, "go in "+ir.FuncName(f))
					case *ssa.Select:
						bad = append(bad, "select in "+ir.FuncName(f))
					case *ssa.Range:
						if strings.HasPrefix(x.X.Type().Underlying().String(), "map[") {
							bad = append(bad, "map range in "+ir.FuncName(f))
						}
					}
				}
			}
		}
		c.Decide(len(bad) == 0, "C11.order", ch, sprintf("no map iteration, goroutine or select in the %d functions reachable from ChangeHash", len(fns)), c.P.Rel(ch.Pos()), strings.Join(bad, "; "))
		c.Floor("functions reachable from ChangeHash", len(fns), 3)
	}
	// ---- coverage of the hashing callback
	var hashCb *ssa.Function
	if cbs := callbacksOf(ch); len(cbs) > 0 {
		hashCb = cbs[0]
	}
	if cb := hashCb; cb != nil {
		var seq []string
		for _, ci := range ir.Calls(cb, func(ci ssa.CallInstruction) bool {
			return ci.Common().IsInvoke() && ci.Common().Method.Name() == "Write"
		}) {
			a := ci.Common().Args[0]
			switch ir.Strip(a) {
			case ssa.Value(cb.Params[0]):
				seq = append(seq, "key")
			case ssa.Value(cb.Params[1]):
				seq = append(seq, "val")
			default:
				seq = append(seq, "?")
			}
		}
		c.Decide(strings.Join(seq, ",") == "key,val", "C11.coverage", cb, "the digest absorbs key then val of every entry, nothing else", c.P.Rel(cb.Pos()), strings.Join(seq, ","))
	} else {
		c.Broken("C11.coverage", ch, "hashing callback", c.P.Rel(ch.Pos()), "not found")
	}
	// ---- MemDB buffers: owners and append-only kvData
	owners := map[string]bool{"(*core/store/overlaydb.MemDB).Put": true, "(*core/store/overlaydb.MemDB).Reset": true, "core/store/overlaydb.NewMemDB": true}
	checkFieldWriters(c, "C11.net-effect", pkOverlayDB, "MemDB", "kvData", owners)
	checkFieldWriters(c, "C11.net-effect", pkOverlayDB, "MemDB", "nodeData", owners)
	if pk := c.P.Pkgs[ir.PkgPath(pkOverlayDB)]; pk != nil && pk.SSA != nil {
		var bad []string
		nApp := 0
		for _, f := range allFuncs(pk.SSA) {
			for _, b := range f.Blocks {
				for _, in := range b.Instrs {
					switch x := in.(type) {
					case *ssa.Store:
						if ia, ok := x.Addr.(*ssa.IndexAddr); ok && derivesFromField(ia.X, "kvData", 0) {
							bad = append(bad, "element store in "+ir.FuncName(f)+" @ "+c.P.Rel(x.Pos()))
						}
						if fa, ok := x.Addr.(*ssa.FieldAddr); ok && fieldNameOf(fa) == "kvData" {
							okv := false
							if cl, isC := x.Val.(*ssa.Call); isC {
								if bi, isB := cl.Common().Value.(*ssa.Builtin); isB && bi.Name() == "append" && derivesFromField(cl.Common().Args[0], "kvData", 0) {
									okv = true
									nApp++
								}
							}
							if sl, isS := x.Val.(*ssa.Slice); isS && f.Name() == "Reset" {
								if hi, okh := ir.ConstInt(sl.High); okh && hi == 0 {
									okv = true
								}
							}
							if _, isMk := x.Val.(*ssa.MakeSlice); isMk && f.Name() == "NewMemDB" {
								okv = true
							}
							if !okv {
								bad = append(bad, "kvData assigned something other than append(kvData, …) in "+ir.FuncName(f)+" @ "+c.P.Rel(x.Pos()))
							}
						}
					case *ssa.Call:
						if bi, ok := x.Common().Value.(*ssa.Builtin); ok && bi.Name() == "copy" && derivesFromField(x.Common().Args[0], "kvData", 0) {
							bad = append(bad, "copy() into kvData in "+ir.FuncName(f)+" @ "+c.P.Rel(x.Pos()))
						}
					}
				}
			}
		}
		c.Decide(len(bad) == 0 && nApp >= 4, "C11.net-effect", pkOverlayDB+".MemDB", "kvData is append-only (a recorded value is never patched in place)", "", sprintf("%d append site(s); %s", nApp, strings.Join(bad, "; ")))
	}
	// ---- Put: overwrite records the new length and re-points non-empty values
	{
		fn := put
		valP := paramByName(fn, "value")
		var fge *ssa.Call
		for _, ci := range ir.Calls(fn, func(ci ssa.CallInstruction) bool {
			f := ci.Common().StaticCallee()
			return f != nil && f.Name() == "findGE"
		}) {
			fge, _ = ci.(*ssa.Call)
		}
		if fge == nil || valP == nil {
			c.Broken("C11.net-effect", fn, "findGE call and value parameter", c.P.Rel(fn.Pos()), "not found")
		} else {
			// exact edge
			var exactEdge *ir.Edge
			for _, cd := range ir.Conds(fn) {
				if ex, ok := cd.V.(*ssa.Extract); ok && ex.Tuple == ssa.Value(fge) && ex.Index == 1 {
					exactEdge = &ir.Edge{From: cd.If.Block(), Idx: 0}
				}
			}
			if exactEdge == nil {
				c.Broken("C11.net-effect", fn, "`exact` test", c.P.Rel(fn.Pos()), "not found")
			} else {
				isLenStore := func(in ssa.Instruction) bool {
					st, ok := in.(*ssa.Store)
					if !ok || !isLenOfParam(valP)(st.Val) {
						return false
					}
					ia, ok := st.Addr.(*ssa.IndexAddr)
					if !ok || !derivesFromField(ia.X, "nodeData", 0) {
						return false
					}
					add, ok := ia.Index.(*ssa.BinOp)
					if !ok || add.Op != token.ADD {
						return false
					}
					k, okk := ir.ConstInt(add.Y)
					nv, err := c.P.Const(pkOverlayDB, "nVal")
					if err != nil || !okk {
						return false
					}
					want, _ := constInt64Val(nv)
					ex, okx := ir.Resolve(add.X).(*ssa.Extract)
					return k == want && okx && ex.Tuple == ssa.Value(fge) && ex.Index == 0
				}
				// the overwrite block may have been moved into a same-package helper called on the exact edge
				host, startB := fn, exactEdge.To()
				countIn := func(h *ssa.Function) int {
					k := 0
					for _, b := range h.Blocks {
						for _, in := range b.Instrs {
							if isLenStore(in) {
								k++
							}
						}
					}
					return k
				}
				if countIn(fn) == 0 {
					for _, b := range fn.Blocks {
						if !(b == exactEdge.To() || exactEdge.To().Dominates(b)) {
							continue
						}
						for _, in := range b.Instrs {
							cl, isCl := in.(*ssa.Call)
							if !isCl {
								continue
							}
							h := cl.Common().StaticCallee()
							if h == nil || h == fn || len(h.Blocks) == 0 || h.Pkg != fn.Pkg || host != fn {
								continue
							}
							unbind := ir.BindParams(h, cl.Common().Args)
							if countIn(h) > 0 {
								host, startB = h, h.Blocks[0]
								defer unbind()
								c.Attribute(h, fn)
							} else {
								unbind()
							}
						}
					}
				}
				r := ir.NewReach(host)
				n := 0
				for _, b := range host.Blocks {
					for _, in := range b.Instrs {
						if isLenStore(in) {
							r.Barrier[in] = true
							n++
						}
					}
				}
				if host == fn {
					r.RunFromBlock(startB)
				} else {
					r.Run(nil)
				}
				leak := false
				for _, b := range host.Blocks {
					if len(b.Instrs) == 0 {
						continue
					}
					if ret, ok := b.Instrs[len(b.Instrs)-1].(*ssa.Return); ok && r.Instr(ret) {
						leak = true
					}
				}
				c.Decide(!leak && n >= 1, "C11.net-effect", fn, "overwrite: every path records nodeData[node+nVal] = len(value)", c.P.Rel(fn.Pos()), sprintf("%d length store(s)", n))
				// non-empty value: offset re-pointed at a fresh append
				isOffStore := func(in ssa.Instruction) bool {
					st, ok := in.(*ssa.Store)
					if !ok {
						return false
					}
					ia, ok := st.Addr.(*ssa.IndexAddr)
					if !ok || !derivesFromField(ia.X, "nodeData", 0) {
						return false
					}
					ex, okx := ir.Resolve(ia.Index).(*ssa.Extract)
					if !okx || ex.Tuple != ssa.Value(fge) || ex.Index != 0 {
						return false
					}
					// value: len(p.kvData) taken before the appends
					cl, isC := st.Val.(*ssa.Call)
					if !isC {
						return false
					}
					bi, isB := cl.Common().Value.(*ssa.Builtin)
					return isB && bi.Name() == "len" && derivesFromField(cl.Common().Args[0], "kvData", 0)
				}
				r2 := ir.NewReach(host)
				pass := ir.PassEdges(host, relGuard("len(value) != 0", isLenOfParam(valP), isConstInt(0), token.NEQ).G)
				nOff := 0
				for _, b := range host.Blocks {
					for _, in := range b.Instrs {
						if isOffStore(in) {
							r2.Barrier[in] = true
							nOff++
						}
					}
				}
				okRe := len(pass) >= 1 && nOff >= 1
				for _, e := range pass {
					if host == fn && !(e.From == startB || startB.Dominates(e.From)) {
						continue
					}
					r2.RunFromBlock(e.To())
					for _, b := range host.Blocks {
						if len(b.Instrs) == 0 {
							continue
						}
						if ret, ok := b.Instrs[len(b.Instrs)-1].(*ssa.Return); ok && r2.Instr(ret) {
							okRe = false
						}
					}
				}
				c.Decide(okRe, "C11.net-effect", fn, "overwrite with a non-empty value re-points the entry at the freshly appended key‖value", c.P.Rel(fn.Pos()), sprintf("%d offset store(s)", nOff))
			}
		}
		// Delete = Put(key, nil)
		if del := c.Fn(pkOverlayDB, "MemDB.Delete"); del != nil {
			okD := false
			for _, ci := range ir.Calls(del, func(ci ssa.CallInstruction) bool { return ci.Common().StaticCallee() == put }) {
				if ir.IsNilConst(ci.Common().Args[2]) && ir.Strip(ci.Common().Args[1]) == ssa.Value(del.Params[1]) {
					okD = true
				}
			}
			c.Decide(okD, "C11.net-effect", del, "Delete(key) = Put(key, nil)", c.P.Rel(del.Pos()), "")
		}
	}
	// ---- executeBlock: same overlay, after the loop
	if fn := c.Fn(pkLedger, "LedgerStoreImp.executeBlock"); fn != nil {
		gws := c.Fn(pkOverlayDB, "OverlayDB.GetWriteSet")
		var hcall, wcall *ssa.Call
		for _, ci := range ir.Calls(fn, func(ci ssa.CallInstruction) bool { return ci.Common().StaticCallee() == ch }) {
			hcall, _ = ci.(*ssa.Call)
		}
		for _, ci := range ir.Calls(fn, func(ci ssa.CallInstruction) bool { return ci.Common().StaticCallee() == gws }) {
			wcall, _ = ci.(*ssa.Call)
		}
		if hcall == nil || wcall == nil {
			c.Broken("C11.same-object", fn, "ChangeHash and GetWriteSet calls", c.P.Rel(fn.Pos()), "not found")
		} else {
			c.Decide(ir.Strip(hcall.Common().Args[0]) == ir.Strip(wcall.Common().Args[0]), "C11.same-object", fn, "digest and write set come from the same overlay", c.P.Rel(hcall.Pos()), "")
			loops := eng.FindSliceLoops(fn, func(v ssa.Value) bool { return isFieldNamed(v, "Transactions") })
			c.Floor("loop over block.Transactions in executeBlock", len(loops), 1)
			for _, lp := range loops {
				eng.Dominates(c, "C11.same-object", fn, eng.NamedGuard{Name: "all transactions executed", G: func(cd ir.Cond) (bool, bool) { return cd.If == lp.Cond, false }},
					[]ir.Sink{{Instr: hcall, Note: "ChangeHash"}, {Instr: wcall, Note: "GetWriteSet"}}, "digest / write set taken", nil)
			}
			// stored into result.Hash / result.WriteSet
			okH, okW := false, false
			for _, b := range fn.Blocks {
				for _, in := range b.Instrs {
					if st, ok := in.(*ssa.Store); ok {
						if fa, isFa := st.Addr.(*ssa.FieldAddr); isFa {
							if fieldNameOf(fa) == "Hash" && st.Val == ssa.Value(hcall) {
								okH = true
							}
							if fieldNameOf(fa) == "WriteSet" && st.Val == ssa.Value(wcall) {
								okW = true
							}
						}
					}
				}
			}
			c.Decide(okH && okW, "C11.same-object", fn, "result.Hash = overlay.ChangeHash(), result.WriteSet = overlay.GetWriteSet()", c.P.Rel(hcall.Pos()), "")
		}
	}
}

// derivesFromField: v is (a slice of) a load of field `name`.
func derivesFromField(v ssa.Value, name string, d int) bool {
	if d > 4 || v == nil {
		return false
	}
	switch x := v.(type) {
	case *ssa.UnOp:
		if fa, ok := x.X.(*ssa.FieldAddr); ok {
			return fieldNameOf(fa) == name
		}
	case *ssa.Slice:
		return derivesFromField(x.X, name, d+1)
	case *ssa.Phi:
		for _, e := range x.Edges {
			if derivesFromField(e, name, d+1) {
				return true
			}
		}
	case *ssa.Call:
		if bi, ok := x.Common().Value.(*ssa.Builtin); ok && bi.Name() == "append" {
			return derivesFromField(x.Common().Args[0], name, d+1)
		}
	}
	return false
}
