package rules

import (
	"go/token"
	"go/types"
	"strings"

	"golang.org/x/tools/go/ssa"

	"polyverif/core"
	"polyverif/eng"
	"polyverif/ir"
)

// C19 — side-chain trust roots are installed at most once.

func init() {
	core.Register(&core.Check{
		ID: "C19", Level: "other", Title: "Side-chain trust roots are installed at most once",
		Explain: "Sibling template over every implementation of HeaderSyncHandler.SyncGenesisHeader (enumerated with types.Implements): (1) the key-shape summary gives the storage shapes the method writes (G) and the calls in it that read storage; an installed-check is a call whose read shape unifies with a shape in G (so the check observes a previous installation, for the same chain id where the id is traceable); (2) every storage-writing call AND every success return is dominated by the installed-check's not-installed edge (stored value nil / boolean false), i.e. when a root is already stored nothing is written and the call fails; (3) boolean wrappers (isGenesisStored) are proved one level down: they return false with a nil error only when the underlying read returned nil. Assumption for the Tendermint idiom (err==nil && info!=nil ⇒ reject): a stored record decodes without error. NOT decided: that the stored root is not mutated by later header syncing (C27–C31).",
		Run:     runC19,
	})
}

func runC19(c *core.Ctx) {
	mf := ifaceMethod(c, pkHSCom, "HeaderSyncHandler", "SyncGenesisHeader")
	if mf == nil {
		return
	}
	impls := c.P.Implementations(mf)
	c.Floor("SyncGenesisHeader implementations", len(impls), 21)
	writers := storageWriters(c)
	cget := eng.Obj(c, pkStorage, "CacheDB.Get")
	provedWrappers := map[*ssa.Function]bool{}
	for _, fn := range impls {
		sites, err := eng.KeySitesIn(c.P, fn, 4)
		if err != nil {
			c.Broken("C19.install-once", fn, "key sites", "", err.Error())
			continue
		}
		var puts []eng.KeySite
		for _, s := range sites {
			if s.Op == "Put" {
				puts = append(puts, s)
			}
		}
		if len(puts) == 0 {
			c.Broken("C19.install-once", fn, "written shapes", c.P.Rel(fn.Pos()), "no storage write found in SyncGenesisHeader")
			continue
		}
		// candidate installed-check calls
		checks := map[ssa.CallInstruction]eng.KeySite{}
		for _, s := range sites {
			if s.Op != "Get" || s.TopCall == nil {
				continue
			}
			for _, p := range puts {
				if !s.Shape.Unifies(p.Shape) {
					continue
				}
				same := true
				for j := range s.Shape {
					if j < len(p.Shape) && s.Shape[j].Val != nil && p.Shape[j].Val != nil && !sameValue(s.Shape[j].Val, p.Shape[j].Val) {
						same = false
					}
				}
				if same {
					checks[s.TopCall] = s
				}
			}
		}
		isCheck := func(cl *ssa.Call) bool { _, ok := checks[cl]; return ok }
		errWrappers := map[*ssa.Function]bool{}
		g := eng.NamedGuard{Name: "installed-check reports not-installed", G: func(cd ir.Cond) (bool, bool) {
			// nil test of a non-error result
			if x, neq, ok := ir.NilCmp(cd.V); ok {
				cl, _ := ir.CallOf(x)
				if cl != nil && isCheck(cl) {
					if ir.IsErrorType(x.Type()) {
						if w := cl.Common().StaticCallee(); w != nil && len(w.Blocks) > 0 && w.Signature.Results().Len() == 1 && readsOnly(c, w) {
							// a checker that answers with an error only: nil means "not installed yet"
							// (proved below: it returns nil only after an inner read returned nil)
							errWrappers[w] = true
							return true, !neq
						}
						// err != nil edge counts as not-installed exit (leads to an error return or absent record)
						return true, neq
					}
					return true, !neq
				}
				return false, false
			}
			// boolean result
			cl, _ := ir.CallOf(cd.V)
			if cl != nil && isCheck(cl) {
				if b, ok := cd.V.Type().Underlying().(*types.Basic); ok && b.Kind() == types.Bool {
					return true, false
				}
			}
			return false, false
		}}
		if len(checks) == 0 {
			c.Violate("C19.install-once", fn, "not-yet-installed guard ≺ storage writes", c.P.Rel(fn.Pos()),
				sprintf("no call in the method reads a storage shape it writes (%s …): nothing observes a previous installation, so a second SyncGenesisHeader overwrites the trust root", puts[0].Shape.String()))
			continue
		}
		// the marker the guard reads identifies the CHAIN, not the submitted data: a key that also
		// contains bytes of the header being installed (its hash, its height) is absent for any other
		// genesis, so a different trust root for an initialised chain would pass
		{
			okMarker := false
			var shapes []string
			for _, chk := range checks {
				shapes = append(shapes, chk.Shape.String())
				perChain := true
				nFix := 0
				for _, a := range chk.Shape {
					switch a.Kind {
					case eng.AContract, eng.ALit:
					case eng.AFix:
						nFix++
						// one 8-byte component: the chain id (when its source is visible it must be one)
						if a.N != 8 || (a.Val != nil && !isChainIDValue(a.Val)) {
							perChain = false
						}
					default:
						perChain = false
					}
				}
				if perChain && nFix <= 1 {
					okMarker = true
				}
			}
			c.Decide(okMarker, "C19.marker-per-chain", fn, "some installed-check reads a key made of constants and the chain id only", c.P.Rel(fn.Pos()), strings.Join(shapes, " | "))
		}
		ws := writeCalls(c, fn, writers)
		eng.Dominates(c, "C19.install-once", fn, g, ir.CallSinks(ws, "storage-writing call"), "storage writes", nil)
		eng.Dominates(c, "C19.second-attempt-fails", fn, g, ir.SuccessSinks(fn), "success return", nil)
		// the marker the guard reads must be written on every successful installation:
		// some Put of a shape the guard reads lies, at every level of its call chain,
		// on every path to that level's success return.
		markerOK, markerWhy := false, "no unconditional write of the guarded key"
		for _, chk := range checks {
			for _, p := range puts {
				if !p.Shape.Unifies(chk.Shape) {
					continue
				}
				if ok, why := chainUnconditional(p.Chain); ok {
					markerOK, markerWhy = true, "marker "+p.Shape.Canon()+" written on every success path"
				} else if !markerOK {
					markerWhy = "marker " + p.Shape.Canon() + ": " + why
				}
			}
		}
		c.Decide(markerOK, "C19.marker-always-written", fn, "the key the installed-check reads is written by every successful SyncGenesisHeader", c.P.Rel(fn.Pos()), markerWhy)
		// error-only wrappers
		for w := range errWrappers {
			if !provedWrappers[w] {
				provedWrappers[w] = true
				proveErrWrapper(c, w)
			}
		}
		// boolean wrappers
		for k := range checks {
			cl, ok := k.(*ssa.Call)
			if !ok {
				continue
			}
			w := cl.Common().StaticCallee()
			if w == nil || len(w.Blocks) == 0 || provedWrappers[w] || ir.CalleeIs(cl, cget) {
				continue
			}
			res := w.Signature.Results()
			if res.Len() == 0 {
				continue
			}
			if b, ok := res.At(0).Type().Underlying().(*types.Basic); !ok || b.Kind() != types.Bool {
				continue
			}
			provedWrappers[w] = true
			proveBoolWrapper(c, w)
		}
	}
}

// chainUnconditional: at every level of the call chain, the call lies on
// every path from the function entry to each of its success returns.
func chainUnconditional(chain []ssa.CallInstruction) (bool, string) {
	for _, call := range chain {
		f := call.Parent()
		for f.Parent() != nil { // closure: judge the enclosing function conservatively
			return false, "write happens inside a closure in " + ir.FuncName(f)
		}
		r := ir.NewReach(f)
		r.Barrier[call] = true
		r.Run(nil)
		sinks := ir.SuccessSinks(f)
		if f.Signature.Results().Len() == 0 {
			sinks = nil
			for _, b := range f.Blocks {
				if ret, ok := b.Instrs[len(b.Instrs)-1].(*ssa.Return); ok {
					sinks = append(sinks, ir.Sink{Instr: ret})
				}
			}
		}
		for _, s := range sinks {
			if r.SinkReachable(s) {
				return false, "in " + ir.FuncName(f) + " a success return is reachable without executing the write (line " + sprintf("%d", f.Prog.Fset.Position(call.Pos()).Line) + " is conditional)"
			}
		}
	}
	return true, ""
}

// proveBoolWrapper: w returns (false, nil-able error) only when an inner read returned nil.
func proveBoolWrapper(c *core.Ctx, w *ssa.Function) {
	var sinks []ir.Sink
	for _, s := range ir.BoolReturnSinks(w, 0, false) {
		ret := s.Instr.(*ssa.Return)
		last := ret.Results[len(ret.Results)-1]
		if ir.IsErrorType(last.Type()) {
			at := ret.Block()
			v := last
			if s.Via != nil {
				at = s.Via.From
				if phi, ok := last.(*ssa.Phi); ok {
					for i, p := range phi.Block().Preds {
						if p == s.Via.From {
							v = phi.Edges[i]
						}
					}
				}
			}
			if ir.ClassifyErr(w, v, at) == ir.RetFail {
				continue
			}
		}
		sinks = append(sinks, s)
	}
	if len(sinks) == 0 {
		c.Hold("C19.wrapper", w, "returns false only with an error", c.P.Rel(w.Pos()), "")
		return
	}
	_ = token.EQL
	eng.Dominates(c, "C19.wrapper", w, innerReadNil(c, w, true), sinks, "return (false, nil)", nil)
}

// innerReadNil: the guard "a storage read inside w returned nil".  For a wrapper that
// swallows the read's error (errAlso) a failed read counts as "nothing installed" too, as it
// does when the same test is written inline in SyncGenesisHeader.
func innerReadNil(c *core.Ctx, w *ssa.Function, errAlso bool) eng.NamedGuard {
	return eng.NamedGuard{Name: "inner read returned nil", G: func(cd ir.Cond) (bool, bool) {
		x, neq, ok := ir.NilCmp(cd.V)
		if !ok {
			return false, false
		}
		isErr := ir.IsErrorType(x.Type())
		if isErr && !errAlso {
			return false, false
		}
		cl, _ := ir.CallOf(x)
		if cl == nil {
			return false, false
		}
		// the inner call must itself read storage
		sites, err := eng.KeySitesIn(c.P, w, 3)
		if err != nil {
			return false, false
		}
		for _, s := range sites {
			if s.Op == "Get" && s.TopCall == ssa.CallInstruction(cl) {
				if isErr {
					return true, neq
				}
				return true, !neq
			}
		}
		return false, false
	}}
}

// proveErrWrapper: w (single error result) returns nil only when an inner read returned nil.
func proveErrWrapper(c *core.Ctx, w *ssa.Function) {
	sinks := ir.SuccessSinks(w)
	if len(sinks) == 0 {
		c.Broken("C19.wrapper", w, "nil returns of the installed-check", c.P.Rel(w.Pos()), "none")
		return
	}
	eng.Dominates(c, "C19.wrapper", w, innerReadNil(c, w, false), sinks, "return nil (not installed)", nil)
}

// readsOnly: w (with its callees, depth 3) reads storage and never writes it.
func readsOnly(c *core.Ctx, w *ssa.Function) bool {
	sites, err := eng.KeySitesIn(c.P, w, 3)
	if err != nil {
		return false
	}
	gets := 0
	for _, s := range sites {
		switch s.Op {
		case "Get":
			gets++
		case "Put", "Delete":
			return false
		}
	}
	return gets > 0
}

// isChainIDValue: v is a chain-id parameter / local (named chainID, chainId …) or a field of that name.
func isChainIDValue(v ssa.Value) bool {
	v = ir.Strip(v)
	if p, ok := v.(*ssa.Parameter); ok {
		n := strings.ToLower(p.Name())
		return n == "chainid" || n == "chain_id"
	}
	_, f, ok := fieldLoad(v)
	return ok && strings.ToLower(f) == "chainid"
}
