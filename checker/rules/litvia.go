package rules

import (
	"strings"

	"golang.org/x/tools/go/ssa"

	"polyverif/ir"
)

// literalOf finds the composite literal (heap/stack Alloc) v denotes: v itself,
// or — when v is the result of a module helper that builds and returns one
// literal on every return — that literal inside the helper, with the helper's
// parameters bound to the call's arguments until the returned release function
// is called.
func literalOf(v ssa.Value) (*ssa.Alloc, func()) {
	nop := func() {}
	if al, ok := ir.Strip(v).(*ssa.Alloc); ok {
		return al, nop
	}
	cl, idx := ir.CallOf(v)
	if cl == nil {
		return nil, nop
	}
	h := cl.Common().StaticCallee()
	if h == nil || len(h.Blocks) == 0 || h.Pkg == nil || h.Pkg.Pkg == nil || !strings.HasPrefix(h.Pkg.Pkg.Path(), ir.Mod) {
		return nil, nop
	}
	if idx < 0 {
		idx = 0
	}
	var lit *ssa.Alloc
	for _, b := range h.Blocks {
		ret, ok := b.Instrs[len(b.Instrs)-1].(*ssa.Return)
		if !ok || idx >= len(ret.Results) {
			continue
		}
		al, isAl := ir.Strip(ret.Results[idx]).(*ssa.Alloc)
		if !isAl || (lit != nil && lit != al) {
			return nil, nop
		}
		lit = al
	}
	if lit == nil {
		return nil, nop
	}
	return lit, ir.BindParams(h, cl.Common().Args)
}

// phiVia: the loop-carried counter v denotes — a phi, or the phi a module helper
// returns on its single return (`num := countActivePeers(pool)`); in the latter
// case the helper is the host function and its parameters stay bound until the
// release function is called.
func phiVia(v ssa.Value, fn *ssa.Function) (*ssa.Phi, *ssa.Function, func()) {
	nop := func() {}
	if p, ok := v.(*ssa.Phi); ok {
		if p.Parent() != nil {
			return p, p.Parent(), nop // a bound helper parameter may resolve to the caller's phi
		}
		return p, fn, nop
	}
	cl, idx := ir.CallOf(v)
	if cl == nil {
		return nil, nil, nop
	}
	h := cl.Common().StaticCallee()
	if h == nil || h == fn || len(h.Blocks) == 0 || h.Pkg == nil || h.Pkg.Pkg == nil || !strings.HasPrefix(h.Pkg.Pkg.Path(), ir.Mod) {
		return nil, nil, nop
	}
	if idx < 0 {
		idx = 0
	}
	var phi *ssa.Phi
	n := 0
	for _, b := range h.Blocks {
		ret, ok := b.Instrs[len(b.Instrs)-1].(*ssa.Return)
		if !ok || idx >= len(ret.Results) {
			continue
		}
		if _, isK := ret.Results[idx].(*ssa.Const); isK && len(ret.Results) > 1 {
			continue // the zero returned beside an error
		}
		n++
		phi, _ = ret.Results[idx].(*ssa.Phi)
	}
	if n != 1 || phi == nil {
		return nil, nil, nop
	}
	return phi, h, ir.BindParams(h, cl.Common().Args)
}

// bindHelperOf: when instruction `in` lives in a module helper that fn calls
// (not in fn itself), bind that helper's parameters to the arguments of fn's
// call so value predicates written for fn recognise the helper's parameters.
func bindHelperOf(fn *ssa.Function, in ssa.Instruction) func() {
	h := in.Parent()
	if h == nil || h == fn {
		return func() {}
	}
	for _, b := range fn.Blocks {
		for _, i2 := range b.Instrs {
			if cl, ok := i2.(*ssa.Call); ok && cl.Common().StaticCallee() == h {
				return ir.BindParams(h, cl.Common().Args)
			}
		}
	}
	return func() {}
}

// valueVia: when v is a result of a module helper with a single return, the
// expression the helper returns for that result (parameters bound to the call's
// arguments until release is called); v itself otherwise.
func valueVia(v ssa.Value) (ssa.Value, func()) {
	nop := func() {}
	cl, idx := ir.CallOf(v)
	if cl == nil {
		return v, nop
	}
	h := cl.Common().StaticCallee()
	if h == nil || len(h.Blocks) == 0 || h.Pkg == nil || h.Pkg.Pkg == nil || !strings.HasPrefix(h.Pkg.Pkg.Path(), ir.Mod) {
		return v, nop
	}
	if idx < 0 {
		idx = 0
	}
	var res ssa.Value
	n := 0
	for _, b := range h.Blocks {
		ret, ok := b.Instrs[len(b.Instrs)-1].(*ssa.Return)
		if !ok || idx >= len(ret.Results) {
			continue
		}
		if k, isK := ret.Results[idx].(*ssa.Const); isK && k.IsNil() && len(ret.Results) > 1 {
			continue // `return nil, err`
		}
		if last := ret.Results[len(ret.Results)-1]; len(ret.Results) > 1 && idx != len(ret.Results)-1 && last.Type().String() == "error" {
			if k, isK := last.(*ssa.Const); !isK || !k.IsNil() {
				continue // `return zero, err`: the value is not used by a caller that checks err
			}
		}
		if res != nil && res == ret.Results[idx] {
			continue
		}
		n++
		res = ret.Results[idx]
	}
	if n != 1 || res == nil {
		return v, nop
	}
	return res, ir.BindParams(h, cl.Common().Args)
}

// callIn: the call instruction of fn that invokes the function containing `in`
// (nil when `in` is in fn itself or fn does not call that function directly).
func callIn(fn *ssa.Function, in ssa.Instruction) *ssa.Call {
	h := in.Parent()
	if h == nil || h == fn {
		return nil
	}
	for _, b := range fn.Blocks {
		for _, i2 := range b.Instrs {
			if cl, ok := i2.(*ssa.Call); ok && cl.Common().StaticCallee() == h {
				return cl
			}
		}
	}
	return nil
}

// hostsWithHelpers returns fn and the small module helpers fn calls directly,
// with every helper's parameters bound to the arguments of fn's call until the
// release function is called — for rules that inspect the stores that build a
// returned object, wherever the literal is written.
func hostsWithHelpers(fn *ssa.Function) ([]*ssa.Function, func()) {
	hosts := []*ssa.Function{fn}
	var unbinds []func()
	seen := map[*ssa.Function]bool{fn: true}
	for _, b := range fn.Blocks {
		for _, in := range b.Instrs {
			cl, ok := in.(*ssa.Call)
			if !ok {
				continue
			}
			h := cl.Common().StaticCallee()
			if h == nil || seen[h] || len(h.Blocks) == 0 || len(h.Blocks) > 40 || h.Pkg == nil || h.Pkg.Pkg == nil || h.Pkg != fn.Pkg {
				continue
			}
			seen[h] = true
			hosts = append(hosts, h)
			unbinds = append(unbinds, ir.BindParams(h, cl.Common().Args))
		}
	}
	return hosts, func() {
		for _, u := range unbinds {
			u()
		}
	}
}

// callInFn: the (first) call instruction of fn whose static callee is h.
func callInFn(fn, h *ssa.Function) *ssa.Call {
	for _, b := range fn.Blocks {
		for _, in := range b.Instrs {
			if cl, ok := in.(*ssa.Call); ok && cl.Common().StaticCallee() == h {
				return cl
			}
		}
	}
	return nil
}
