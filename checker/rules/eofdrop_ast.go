package rules

import (
	"go/ast"

	"golang.org/x/tools/go/ssa"

	"polyverif/eng"
	"polyverif/ir"
)

// blankEof: in the source, the last result of this call is assigned to the blank identifier
// (`x, _ := source.NextVarBytes()`): the author discards the end-of-input answer on purpose.
// (In SSA a blank and a variable nobody reads look the same.)
func blankEof(fn *ssa.Function, cl *ssa.Call) bool {
	root := fn.Syntax()
	for p := fn; root == nil && p.Parent() != nil; p = p.Parent() {
		root = p.Parent().Syntax()
	}
	if root == nil {
		return false
	}
	found := false
	ast.Inspect(root, func(n ast.Node) bool {
		as, ok := n.(*ast.AssignStmt)
		if !ok || len(as.Rhs) != 1 || len(as.Lhs) < 2 {
			return true
		}
		ce, ok := as.Rhs[0].(*ast.CallExpr)
		if !ok || ce.Lparen != cl.Pos() {
			return true
		}
		if id, isId := as.Lhs[len(as.Lhs)-1].(*ast.Ident); isId && id.Name == "_" {
			found = true
		}
		return false
	})
	return found
}

// eofHelperFails: the sink is a return whose error result is computed by a module helper from an
// end-of-input answer that is assumed true; the helper, evaluated abstractly with that argument true (the
// others unknown), answers a non-nil error.
func eofHelperFails(s ir.Sink, isAssumedEof func(ssa.Value) bool) bool {
	ret, ok := s.Instr.(*ssa.Return)
	if !ok || len(ret.Results) == 0 {
		return false
	}
	v := ret.Results[len(ret.Results)-1]
	if s.Via != nil {
		if phi, isPhi := v.(*ssa.Phi); isPhi && phi.Block() == ret.Block() {
			for i, p := range ret.Block().Preds {
				if p == s.Via.From {
					v = phi.Edges[i]
				}
			}
		}
	}
	cl, _ := ir.CallOf(v)
	if cl == nil {
		return false
	}
	h := cl.Common().StaticCallee()
	if h == nil || !ir.InModule(h) || len(h.Blocks) == 0 {
		return false
	}
	args := make([]eng.AVal, len(cl.Common().Args))
	any := false
	for i, a := range cl.Common().Args {
		if isAssumedEof(a) {
			args[i] = eng.ABoolV(true)
			any = true
		}
	}
	if !any {
		return false
	}
	res, okE := eng.AEval(h, args, eng.AEvalOpts{})
	return okE && len(res) > 0 && res[len(res)-1].K == eng.ANonNil
}
