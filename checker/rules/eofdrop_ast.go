package rules

import (
	"go/ast"

	"golang.org/x/tools/go/ssa"
)

// blankEof: in the source, the last result of this call is assigned to the blank identifier
// (`x, _ := source.NextVarBytes()`): the author discards the end-of-input answer on purpose.
// (In SSA a blank and a variable nobody reads look the same.)
func blankEof(fn *ssa.Function, cl *ssa.Call) bool {
	root := fn.Syntax()
	for p := fn; root == nil && p.Parent() != nil; p = p.Parent() {
		root = p.Parent().Syntax()
	}
	if root == nil {
		return false
	}
	found := false
	ast.Inspect(root, func(n ast.Node) bool {
		as, ok := n.(*ast.AssignStmt)
		if !ok || len(as.Rhs) != 1 || len(as.Lhs) < 2 {
			return true
		}
		ce, ok := as.Rhs[0].(*ast.CallExpr)
		if !ok || ce.Lparen != cl.Pos() {
			return true
		}
		if id, isId := as.Lhs[len(as.Lhs)-1].(*ast.Ident); isId && id.Name == "_" {
			found = true
		}
		return false
	})
	return found
}
