package rules

import (
	"go/types"
	"strings"

	"golang.org/x/tools/go/ssa"

	"polyverif/core"
	"polyverif/eng"
	"polyverif/ir"
)

// C43 — wallet accounts round-trip and are password-protected.

const pkAccount = "account"
const pkSigsvrStore = "cmd/sigsvr/store"
const keypairPath = "github.com/ontio/ontology-crypto/keypair"

func init() {
	core.Register(&core.Check{
		ID: "C43", Level: "other", Title: "Wallet accounts round-trip and are password-protected",
		Technique: "parameter pairing over all call sites of the key-encryption API (resolved callees), guard dominance, value identity",
		Explain:   "Structural necessary condition for 'saved accounts reload': a key encrypted with scrypt parameters P decrypts only with P, so every encryption and decryption of a wallet account key must take the SAME parameter source — the wallet's own (ClientImpl: this.walletData.Scrypt; WalletData: this.Scrypt; sigsvr WalletStore: this.WalletScrypt). Rule: in every method of these three types, each call of keypair.EncryptWithCustomScrypt / DecryptWithCustomScrypt / ReencryptPrivateKey passes exactly that field as the (old) scrypt argument, and no default-parameter variant (EncryptPrivateKey / DecryptPrivateKey) is called from them (call sites enumerated by resolved callee; the count is asserted). WalletData.reencrypt: every nil return passes a store to this.Scrypt whose value is the new parameter (or GetScryptParameters() on the nil branch), after all accounts were re-encrypted; WalletData.Scrypt is written only by reencrypt and at construction. NewAccount / NewAccountData: the address bound into the ciphertext is ToBase58(AddressFromPubKey(pub)) of the key pair generated in the same call, and the account is returned only after encryption and storing succeeded; getAccount / GetAccountByAddress return an account only after DecryptWithCustomScrypt err==nil, with PrivateKey the decrypted key and PublicKey/Address derived from it; ChangePassword decrypts with the old and encrypts with the new password under the same wallet parameters and the same address. NOT decided: the cryptography (wrong-password rejection is a property of ontology-crypto's authenticated encryption), JSON persistence of the file store.",
		Run:       runC43,
	})
}

type c43Owner struct {
	pkg, typ string
	path     string // access path suffix of the wallet scrypt source relative to the receiver
}

var c43Owners = []c43Owner{
	{pkAccount, "ClientImpl", ".walletData.Scrypt"},
	{pkAccount, "WalletData", ".Scrypt"},
	{pkSigsvrStore, "WalletStore", ".WalletScrypt"},
}

// scrypt argument positions of the custom-parameter API
var c43Custom = map[string][]int{"EncryptWithCustomScrypt": {3}, "DecryptWithCustomScrypt": {2}, "ReencryptPrivateKey": {3}}
var c43Default = map[string]bool{"EncryptPrivateKey": true, "DecryptPrivateKey": true}

func recvTypeName(fn *ssa.Function) string {
	if fn.Signature.Recv() == nil {
		return ""
	}
	t := fn.Signature.Recv().Type()
	if p, ok := t.Underlying().(*types.Pointer); ok {
		t = p.Elem()
	}
	if n, ok := t.(*types.Named); ok {
		return n.Obj().Name()
	}
	return ""
}

func runC43(c *core.Ctx) {
	checkMetadataExportUnconditional(c)
	checkImportExportInverse(c)
	checkCloneDeepCopiesAccounts(c)
	nCalls := 0
	for _, ow := range c43Owners {
		pk := c.P.Pkgs[ir.PkgPath(ow.pkg)]
		if pk == nil || pk.SSA == nil {
			c.Broken("anchor", ow.pkg, "package", "", "not loaded")
			continue
		}
		for _, top := range allFuncs(pk.SSA) {
			root := top
			for root.Parent() != nil {
				root = root.Parent()
			}
			if recvTypeName(root) != ow.typ {
				continue
			}
			recv := root.Params[0].Name()
			for _, b := range top.Blocks {
				for _, in := range b.Instrs {
					ci, ok := in.(ssa.CallInstruction)
					if !ok {
						continue
					}
					o := ir.CalleeObj(ci)
					if o == nil || o.Pkg() == nil || o.Pkg().Path() != keypairPath {
						continue
					}
					if c43Default[o.Name()] {
						nCalls++
						c.Violate("C43.scrypt-pairing", top, "no default-parameter key encryption in a wallet method", c.P.Rel(ci.Pos()),
							"keypair."+o.Name()+" uses the library's default scrypt parameters, while the wallet decrypts with "+recv+ow.path)
						continue
					}
					idxs, isCustom := c43Custom[o.Name()]
					if !isCustom {
						continue
					}
					nCalls++
					for _, i := range idxs {
						p := eng.AccessPath(ci.Common().Args[i])
						want := recv + ow.path
						if top != root {
							want = "^" + want
						}
						c.Decide(p == want, "C43.scrypt-pairing", top, "keypair."+o.Name()+" takes the wallet's scrypt parameters", c.P.Rel(ci.Pos()), "argument "+p+", expected "+want)
					}
				}
			}
		}
	}
	c.Floor("wallet key encryption/decryption call sites", nCalls, 7)

	// WalletData.Scrypt writers and reencrypt
	checkFieldWriters(c, "C43.scrypt-owner", pkAccount, "WalletData", "Scrypt", map[string]bool{"(*account.WalletData).reencrypt": true})
	if fn := c.Fn(pkAccount, "WalletData.reencrypt"); fn != nil {
		succ := ir.SuccessSinks(fn)
		var stores []ssa.Instruction
		okVal := true
		for _, st := range storesToField(fn, fn.Params[0], "Scrypt") {
			stores = append(stores, st)
			v := ir.Strip(st.Val)
			if v == ssa.Value(fn.Params[2]) {
				continue
			}
			if cl := calleeNamed(v, "GetScryptParameters"); cl != nil {
				continue
			}
			okVal = false
		}
		c.Decide(okVal && len(stores) >= 1, "C43.reencrypt", fn, "this.Scrypt is set to the new parameters (or the library default when nil)", c.P.Rel(fn.Pos()), sprintf("%d store(s)", len(stores)))
		// nil return passes a store
		r := ir.NewReach(fn)
		for _, s := range stores {
			r.Barrier[s] = true
		}
		r.Run(nil)
		okAll := len(succ) > 0
		for _, s := range succ {
			if r.SinkReachable(s) {
				okAll = false
			}
		}
		c.Decide(okAll, "C43.reencrypt", fn, "every nil return follows the parameter switch", c.P.Rel(fn.Pos()), "")
		// new-parameter argument of Reencrypt is the param
		for _, ci := range ir.Calls(fn, func(ci ssa.CallInstruction) bool {
			o := ir.CalleeObj(ci)
			return o != nil && o.Name() == "ReencryptPrivateKey"
		}) {
			a := ci.Common().Args
			c.Decide(ir.Strip(a[4]) == ssa.Value(fn.Params[2]) && sameValue(a[1], a[2]), "C43.reencrypt", fn, "re-encryption targets the new parameters with the unchanged password", c.P.Rel(ci.Pos()), "")
		}
		// an error from any account aborts before the switch: the error edge never reaches a store
		pass := ir.PassEdges(fn, ir.ErrNil(func(x *ssa.Call) bool {
			o := ir.CalleeObj(x)
			return o != nil && o.Name() == "ReencryptPrivateKey"
		}))
		okAbort := len(pass) > 0
		for _, e := range pass {
			fail := ir.Edge{From: e.From, Idx: 1 - e.Idx}
			r2 := ir.NewReach(fn)
			r2.RunFromBlock(fail.To())
			for _, s := range stores {
				if r2.Instr(s) {
					okAbort = false
				}
			}
			for _, s := range succ {
				if r2.SinkReachable(s) {
					okAbort = false
				}
			}
		}
		c.Decide(okAbort, "C43.reencrypt", fn, "a failed re-encryption of any account aborts before the parameter switch (no partial switch)", c.P.Rel(fn.Pos()), sprintf("%d error test(s)", len(pass)))
		// the re-encrypted keys are installed only after every account succeeded: SetKeyPair not reachable inside the first loop
		for _, ci := range ir.Calls(fn, func(ci ssa.CallInstruction) bool { o := ir.CalleeObj(ci); return o != nil && o.Name() == "SetKeyPair" }) {
			okAfter := true
			for _, e := range pass {
				// from the SetKeyPair call, the Reencrypt test must not be reachable (installation happens after the loop)
				r3 := ir.NewReach(fn)
				r3.Run(ci)
				if r3.BlockEntered(e.From) {
					okAfter = false
				}
			}
			c.Decide(okAfter, "C43.reencrypt", fn, "new ciphertexts are installed only after all accounts were re-encrypted", c.P.Rel(ci.Pos()), "")
		}
	}

	// creation: address binding and success conditions
	for _, spec := range []struct{ pkg, fn string }{{pkAccount, "ClientImpl.NewAccount"}, {pkSigsvrStore, "WalletStore.NewAccountData"}} {
		fn := c.Fn(spec.pkg, spec.fn)
		if fn == nil {
			continue
		}
		succ := nonNilParamSuccess(fn)
		var enc *ssa.Call
		for _, ci := range ir.Calls(fn, func(ci ssa.CallInstruction) bool {
			o := ir.CalleeObj(ci)
			return o != nil && o.Name() == "EncryptWithCustomScrypt"
		}) {
			enc, _ = ci.(*ssa.Call)
		}
		if enc == nil {
			c.Broken("C43.create", fn, "EncryptWithCustomScrypt call", c.P.Rel(fn.Pos()), "not found")
			continue
		}
		a := enc.Common().Args
		gen, gi := ir.CallOf(a[0])
		okKey := gen != nil && gi == 0 && ir.CalleeObj(gen) != nil && ir.CalleeObj(gen).Name() == "GenerateKeyPair"
		okAddr := false
		if b58 := calleeNamed(a[1], "ToBase58"); b58 != nil {
			var recv ssa.Value = b58.Common().Args[0]
			if al, ok := recv.(*ssa.Alloc); ok {
				recv = ir.SingleStore(al)
			}
			if af := calleeNamed(recv, "AddressFromPubKey"); af != nil {
				g2, i2 := ir.CallOf(af.Common().Args[0])
				okAddr = g2 == gen && i2 == 1
			}
		}
		c.Decide(okKey && okAddr, "C43.create", fn, "the ciphertext binds ToBase58(AddressFromPubKey(pub)) of the key pair generated in this call", c.P.Rel(enc.Pos()), sprintf("key %v address %v", okKey, okAddr))
		eng.Dominates(c, "C43.create", fn, eng.NamedGuard{Name: "EncryptWithCustomScrypt err==nil", G: ir.ErrNil(func(x *ssa.Call) bool { return x == enc })}, succ, "account returned", nil)
		eng.Dominates(c, "C43.create", fn, eng.NamedGuard{Name: "GenerateKeyPair err==nil", G: ir.ErrNil(func(x *ssa.Call) bool { return x == gen })}, succ, "account returned", nil)
		// the protected key stored is the encryption result
		okSet := false
		for _, ci := range ir.Calls(fn, func(ci ssa.CallInstruction) bool { o := ir.CalleeObj(ci); return o != nil && o.Name() == "SetKeyPair" }) {
			e2, i2 := ir.CallOf(ci.Common().Args[1])
			if e2 == enc && i2 == 0 {
				okSet = true
			}
		}
		c.Decide(okSet, "C43.create", fn, "the stored protected key is the result of that encryption", c.P.Rel(enc.Pos()), "")
		if strings.HasSuffix(spec.fn, "NewAccount") {
			if aad := eng.Obj(c, pkAccount, "ClientImpl.addAccountData"); aad != nil {
				eng.Dominates(c, "C43.create", fn, eng.ErrNilOf("addAccountData (saved)", aad), succ, "account returned", nil)
			}
		}
	}

	// loading
	for _, spec := range []struct{ pkg, fn string }{{pkAccount, "ClientImpl.getAccount"}, {pkSigsvrStore, "WalletStore.GetAccountByAddress"}} {
		fn := c.Fn(spec.pkg, spec.fn)
		if fn == nil {
			continue
		}
		succ := nonNilParamSuccess(fn)
		var dec *ssa.Call
		for _, ci := range ir.Calls(fn, func(ci ssa.CallInstruction) bool {
			o := ir.CalleeObj(ci)
			return o != nil && o.Name() == "DecryptWithCustomScrypt"
		}) {
			dec, _ = ci.(*ssa.Call)
		}
		if dec == nil {
			// a same-package helper that merely forwards the decryption's two results stands for it
			for _, ci := range ir.CallsThrough(fn, func(ci ssa.CallInstruction) bool {
				o := ir.CalleeObj(ci)
				return o != nil && o.Name() == "DecryptWithCustomScrypt"
			}, 1) {
				cl, isCl := ci.(*ssa.Call)
				if !isCl {
					continue
				}
				h := cl.Common().StaticCallee()
				if h == nil || h.Pkg != fn.Pkg || h.Signature.Results().Len() != 2 {
					continue
				}
				forwards := true
				for _, hb := range h.Blocks {
					ret, isRet := hb.Instrs[len(hb.Instrs)-1].(*ssa.Return)
					if !isRet {
						continue
					}
					d0, i0 := ir.CallOf(ret.Results[0])
					d1, i1 := ir.CallOf(ret.Results[1])
					if d0 == nil || d0 != d1 || i0 != 0 || i1 != 1 || ir.CalleeObj(d0) == nil || ir.CalleeObj(d0).Name() != "DecryptWithCustomScrypt" {
						forwards = false
					}
				}
				if forwards {
					dec = cl
				}
			}
		}
		if dec == nil {
			c.Broken("C43.load", fn, "DecryptWithCustomScrypt call", c.P.Rel(fn.Pos()), "not found")
			continue
		}
		eng.Dominates(c, "C43.load", fn, eng.NamedGuard{Name: "DecryptWithCustomScrypt err==nil", G: ir.ErrNil(func(x *ssa.Call) bool { return x == dec })}, succ, "account returned", nil)
		// fields of the returned Account
		okPriv, okPub, okAddr := false, false, false
		hosts, releaseHosts := hostsWithHelpers(fn) // the literal may be assembled by a small same-package helper
		var blocks []*ssa.BasicBlock
		for _, h := range hosts {
			blocks = append(blocks, h.Blocks...)
		}
		for _, b := range blocks {
			for _, in := range b.Instrs {
				st, ok := in.(*ssa.Store)
				if !ok {
					continue
				}
				fa, ok := st.Addr.(*ssa.FieldAddr)
				if !ok {
					continue
				}
				switch fieldNameOf(fa) {
				case "PrivateKey":
					d, i := ir.CallOf(st.Val)
					okPriv = d == dec && i == 0
				case "PublicKey":
					if p := calleeNamed(st.Val, "Public"); p != nil {
						pv := p.Common().Value
						if !p.Common().IsInvoke() && len(p.Common().Args) > 0 {
							pv = p.Common().Args[0]
						}
						d, i := ir.CallOf(pv)
						okPub = d == dec && i == 0
					}
				case "Address":
					if af := calleeNamed(st.Val, "AddressFromPubKey"); af != nil {
						if p := calleeNamed(af.Common().Args[0], "Public"); p != nil {
							okAddr = true
						}
					}
				}
			}
		}
		releaseHosts()
		c.Decide(okPriv && okPub && okAddr, "C43.load", fn, "the account returned carries the decrypted key, its public key and the address derived from it", c.P.Rel(dec.Pos()), sprintf("private %v public %v address %v", okPriv, okPub, okAddr))
	}

	// ChangePassword
	if fn := c.Fn(pkAccount, "ClientImpl.ChangePassword"); fn != nil {
		var dec, enc *ssa.Call
		pairHost := fn
		findPair := func(host *ssa.Function) {
			for _, ci := range ir.Calls(host, func(ci ssa.CallInstruction) bool {
				o := ir.CalleeObj(ci)
				return o != nil && o.Pkg() != nil && o.Pkg().Path() == keypairPath
			}) {
				switch ir.CalleeObj(ci).Name() {
				case "DecryptWithCustomScrypt":
					dec, _ = ci.(*ssa.Call)
				case "EncryptWithCustomScrypt":
					enc, _ = ci.(*ssa.Call)
				}
			}
		}
		findPair(fn)
		if dec == nil && enc == nil {
			// the decrypt / re-encrypt pair may stand in a same-package helper (its parameters bound to the call)
			for _, ci := range ir.Calls(fn, nil) {
				h := ci.Common().StaticCallee()
				if h == nil || h == fn || h.Pkg != fn.Pkg || len(h.Blocks) == 0 {
					continue
				}
				findPair(h)
				if dec != nil && enc != nil {
					pairHost = h
					defer ir.BindParams(h, ci.Common().Args)()
					c.Attribute(h, fn)
					break
				}
				dec, enc = nil, nil
			}
		}
		if dec == nil || enc == nil {
			c.Broken("C43.change-password", fn, "decrypt/encrypt pair", c.P.Rel(fn.Pos()), "not found")
		} else {
			d, i := ir.CallOf(enc.Common().Args[0])
			okFlow := d == dec && i == 0
			okPw := ir.Strip(dec.Common().Args[1]) == ssa.Value(fn.Params[2]) && ir.Strip(enc.Common().Args[2]) == ssa.Value(fn.Params[3])
			okAddr := ir.Strip(enc.Common().Args[1]) == ssa.Value(fn.Params[1])
			c.Decide(okFlow && okPw && okAddr, "C43.change-password", fn, "re-encrypts the key decrypted with the old password under the new one, same address", c.P.Rel(enc.Pos()), sprintf("flow %v passwords %v address %v", okFlow, okPw, okAddr))
			eng.Dominates(c, "C43.change-password", pairHost, eng.NamedGuard{Name: "DecryptWithCustomScrypt(old password) err==nil", G: ir.ErrNil(func(x *ssa.Call) bool { return x == dec })}, []ir.Sink{{Instr: enc, Note: "re-encryption"}}, "re-encryption", nil)
			var installs []ssa.CallInstruction
			for _, ci := range ir.Calls(fn, func(ci ssa.CallInstruction) bool { o := ir.CalleeObj(ci); return o != nil && o.Name() == "SetKeyPair" }) {
				arg := ci.Common().Args[1]
				if pairHost != fn {
					via, release := valueVia(arg)
					release()
					arg = via
				}
				if e2, i2 := ir.CallOf(arg); e2 == enc && i2 == 0 {
					installs = append(installs, ci)
				}
			}
			c.Floor("SetKeyPair(new ciphertext) in ChangePassword", len(installs), 1)
			checkRollbackIsACopy(c, fn, installs)
			eng.Dominates(c, "C43.change-password", fn, eng.NamedGuard{Name: "EncryptWithCustomScrypt err==nil", G: ir.ErrNil(func(x *ssa.Call) bool { return x == enc })}, ir.CallSinks(installs, "SetKeyPair(new)"), "installing the new ciphertext", nil)
		}
	}
}
