package rules

import (
	"go/constant"
	"go/types"

	"golang.org/x/tools/go/ssa"
)

// provablyNonEmpty: a []byte value whose length is a positive constant — a slice
// of a fixed-size array (x[:] with len(array) >= 1, composite literals included)
// or the conversion of a non-empty string constant.
func provablyNonEmpty(v ssa.Value) bool {
	switch x := v.(type) {
	case *ssa.Slice:
		if x.Low != nil || x.High != nil {
			return false
		}
		if p, ok := x.X.Type().Underlying().(*types.Pointer); ok {
			if arr, isArr := p.Elem().Underlying().(*types.Array); isArr {
				return arr.Len() >= 1
			}
		}
	case *ssa.Convert:
		if k, ok := x.X.(*ssa.Const); ok && k.Value != nil && k.Value.Kind() == constant.String {
			return len(constant.StringVal(k.Value)) > 0
		}
	}
	return false
}
