package rules

import (
	"go/token"

	"golang.org/x/tools/go/ssa"

	"polyverif/core"
	"polyverif/ir"
)

// C28 (continued) — guard/use agreement in the difficulty formulas.  Where the
// code tests  a.Cmp(b) >= 0  and, under that test, computes  Sub(a, b') , the
// guard exists to keep the difference non-negative: b' must be b.  In the
// ice-age ("bomb") term the fake block number is  parent.Number − (delay − 1)
// under  parent.Number >= delay − 1 ; subtracting the un-shifted delay instead
// moves every period boundary by one block, and the expected difficulty of the
// first block of each 100 000-block period is wrong (the genuine header is
// refused, a lower-difficulty one accepted).  Contradiction rule: one of the two
// uses of the constant must be wrong.
func checkCmpGuardsSub(c *core.Ctx, rule, pkg string) int {
	pk := c.P.Pkgs[ir.PkgPath(pkg)]
	if pk == nil || pk.SSA == nil {
		return 0
	}
	isBig := func(ci ssa.CallInstruction, name string) bool {
		o := ir.CalleeObj(ci)
		return o != nil && o.Pkg() != nil && o.Pkg().Path() == "math/big" && o.Name() == name
	}
	n := 0
	for _, fn := range allFuncs(pk.SSA) {
		for _, cd := range ir.Conds(fn) {
			b, ok := cd.V.(*ssa.BinOp)
			if !ok {
				continue
			}
			k, isK := ir.ConstInt(b.Y)
			if !isK || k != 0 {
				continue
			}
			cmp, isC := b.X.(*ssa.Call)
			if !isC || !isBig(cmp, "Cmp") {
				continue
			}
			var safeIdx int
			// only the non-strict form: a >= b is exactly "a − b does not go negative".  A strict
			// guard with another subtrahend (count > 1 … count − 2) is a different, legitimate idiom.
			switch b.Op {
			case token.GEQ: // a >= b on the true edge
				safeIdx = cd.TrueIdx()
			case token.LSS: // a < b: the safe side is the false edge
				safeIdx = cd.FalseIdx()
			default:
				continue
			}
			a, bb := cmp.Common().Args[0], cmp.Common().Args[1]
			safe := cd.If.Block().Succs[safeIdx]
			// subtractions a − x in the block the safe edge leads to (single-predecessor block: really guarded)
			if len(safe.Preds) != 1 {
				continue
			}
			for _, in := range safe.Instrs {
				sub, isS := in.(*ssa.Call)
				if !isS || !isBig(sub, "Sub") || len(sub.Common().Args) != 3 {
					continue
				}
				if !sameBig(sub.Common().Args[1], a) {
					continue
				}
				n++
				c.Touch(fn)
				c.Decide(sameBig(sub.Common().Args[2], bb), rule, fn, "Sub(a, b) under the guard a.Cmp(b) >= 0 subtracts the very b that was compared", c.P.Rel(sub.Pos()),
					"the value subtracted is not the value the guard compared against: the guard protects a different difference, and the result is off by the gap between the two")
			}
		}
	}
	return n
}

func sameBig(x, y ssa.Value) bool {
	if x == y {
		return true
	}
	// loads of the same package-level variable or captured variable
	lx, okx := x.(*ssa.UnOp)
	ly, oky := y.(*ssa.UnOp)
	if okx && oky && lx.Op == token.MUL && ly.Op == token.MUL {
		switch lx.X.(type) {
		case *ssa.Global, *ssa.FreeVar:
			if lx.X == ly.X {
				return true
			}
		}
	}
	return sameValue(x, y)
}
