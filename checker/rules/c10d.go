package rules

import (
	"go/token"

	"golang.org/x/tools/go/ssa"

	"polyverif/core"
	"polyverif/eng"
	"polyverif/ir"
)

// checkLayerReads — point reads through the layered caches.
//
// (visible) OverlayDB.Get and CacheDB.get consult the layer below ONLY on the
// `unknown` answer of their own MemDB: a tombstone (known, empty value) is an
// answer — "deleted" — and must not fall through to the older value below.
// This is what makes a successful transaction's committed delete visible to the
// later transactions of the same block (C15), and it is C10's read clause.
//
// (pure) a read never records anything: no function on the read side
// (OverlayDB.Get / NewIterator, CacheDB.Get / get / NewIterator, the iterators)
// calls MemDB.Put or MemDB.Delete, and those two are called only from the four
// frozen mutators.  A "negative lookup cache" that remembers a miss as a
// tombstone puts every looked-up absent key into the block's write set and
// digest (C11).
func checkLayerReads(c *core.Ctx, ruleVisible, rulePure string) {
	if ruleVisible != "" {
		for _, spec := range []struct{ pkg, fn string }{{pkOverlayDB, "OverlayDB.Get"}, {pkNatStorage, "CacheDB.get"}} {
			fn := c.Fn(spec.pkg, spec.fn)
			if fn == nil {
				continue
			}
			var mg *ssa.Call
			for _, ci := range ir.Calls(fn, func(ci ssa.CallInstruction) bool {
				o := ir.CalleeObj(ci)
				return o != nil && o.Name() == "Get" && recvNamedCI(ci, "MemDB")
			}) {
				mg, _ = ci.(*ssa.Call)
			}
			if mg == nil {
				c.Broken(ruleVisible, fn, "MemDB.Get", c.P.Rel(fn.Pos()), "not found")
				continue
			}
			var below []ssa.CallInstruction
			for _, ci := range ir.CallsThrough(fn, func(ci ssa.CallInstruction) bool {
				if ci == ssa.CallInstruction(mg) {
					return false
				}
				if ci.Common().IsInvoke() {
					return ci.Common().Method.Name() == "Get"
				}
				o := ir.CalleeObj(ci)
				return o != nil && o.Name() == "Get"
			}, 2) {
				below = append(below, ci)
			}
			c.Floor("reads of the layer below in "+spec.fn+" ("+ruleVisible+")", len(below), 1)
			unknown := eng.NamedGuard{Name: "MemDB.Get reported unknown", G: func(cd ir.Cond) (bool, bool) {
				v := cd.V
				want := true
				if b, ok := v.(*ssa.BinOp); ok && (b.Op == token.EQL || b.Op == token.NEQ) {
					if k, okk := ir.ConstBool(b.Y); okk {
						v = b.X
						want = (b.Op == token.EQL) == k
					}
				}
				if u, ok := v.(*ssa.UnOp); ok && u.Op == token.NOT {
					v = u.X
					want = !want
				}
				ex, ok := ir.Strip(v).(*ssa.Extract)
				if ok && ex.Tuple == ssa.Value(mg) && ex.Index == 1 {
					return true, want
				}
				return false, false
			}}
			eng.Dominates(c, ruleVisible, fn, unknown, ir.CallSinks(below, "read of the layer below"), "read of the layer below (a tombstone is an answer)", nil)
		}
	}
	if rulePure == "" {
		return
	}
	put := eng.Obj(c, pkOverlayDB, "MemDB.Put")
	del := eng.Obj(c, pkOverlayDB, "MemDB.Delete")
	if put == nil || del == nil {
		return
	}
	allowed := map[string]bool{
		"(*core/store/overlaydb.OverlayDB).Put":    true,
		"(*core/store/overlaydb.OverlayDB).Delete": true,
		"(*native/storage.CacheDB).put":            true,
		"(*native/storage.CacheDB).delete":         true,
		"(*native/storage.CacheDB).Put":            true, // the exported mutators themselves, when the private workers are inlined
		"(*native/storage.CacheDB).Delete":         true,
		"(*core/store/overlaydb.MemDB).Delete":     true, // Delete = Put(key, nil)
	}
	n := 0
	for _, m := range []string{"MemDB.Put", "MemDB.Delete"} {
		fn := c.Fn(pkOverlayDB, m)
		if fn == nil {
			continue
		}
		for _, caller := range c.P.EffectiveCallers(fn, func(y *ssa.Function) bool { return allowed[ir.FuncName(y)] }) {
			n++
			nm := ir.FuncName(caller)
			c.Decide(allowed[nm], rulePure, caller, "MemDB."+fn.Name()+" is called only from the layer mutators (a read records nothing)", c.P.Rel(caller.Pos()),
				nm+" records into the write buffer: if it is a read path, looked-up keys enter the block's write set and digest")
		}
	}
	c.Floor("callers of MemDB.Put / MemDB.Delete", n, 4)
	_ = put
	_ = del
}
