package rules

import (
	"go/token"

	"golang.org/x/tools/go/ssa"

	"polyverif/core"
	"polyverif/eng"
	"polyverif/ir"
)

// C36 — only registered relayers can submit transactions.

func init() {
	core.Register(&core.Check{
		ID: "C36", Level: "other", Title: "Only registered relayers can submit transactions",
		Explain: "Guard dominance in txnpool/proc: in TxActor.handleTransaction every call of assignTxToWorker is dominated by isValidSender err==nil (whatever the sender type: no path for P2P senders around the check); in isValidSender the nil return is dominated, under flag-phi feasibility, by 'relayer record non-empty for a signing address' (len(GetStorageItem(RelayerManagerContractAddress, RELAYER‖address)) > 0) or 'permittedAddrMap[address] true', the address being an element of txn.GetSignatureAddresses(), and a storage error other than not-found fails the check; the raw key RELAYER‖address has exactly the shape relayer_manager.putRelayer writes and ApproveRemoveRelayer deletes (ties an approved removal to later submissions); who-may-call: assignTxToWorker is called only from handleTransaction and the consensus block-verification path (frozen exception: transactions of a proposed block). NOT decided: freshness of the cached permitted-address map (refreshed at most once per minute by design).",
		Run:     runC36,
	})
}

func runC36(c *core.Ctx) {
	checkPermittedSetFromNodeKeys(c, "C36.permitted-from-node-keys")
	checkRelayerListLoops(c)
	accessorPairs(c, "C36.accessor-keys", 4, pkRM)
	checkVoteTagsDistinct(c, "C36.ledger-tag")
	ht := c.Fn(pkTxPool, "TxActor.handleTransaction")
	ivs := eng.Obj(c, pkTxPool, "TxActor.isValidSender")
	atw := eng.Obj(c, pkTxPool, "TXPoolServer.assignTxToWorker")
	if ht == nil || ivs == nil || atw == nil {
		return
	}
	calls := ir.CallsTo(ht, atw)
	c.Floor("assignTxToWorker calls in handleTransaction", len(calls), 1)
	g := eng.NamedGuard{Name: "isValidSender(txn) err==nil", G: ir.ErrNil(func(cl *ssa.Call) bool {
		if !ir.CalleeIs(cl, ivs) {
			return false
		}
		p, ok := ir.Strip(cl.Common().Args[1]).(*ssa.Parameter)
		return ok && p.Name() == "txn"
	})}
	eng.Dominates(c, "C36.sender-check≺admission", ht, g, ir.CallSinks(calls, "assignTxToWorker"), "assignTxToWorker", nil)
	for _, cl := range calls {
		p, ok := ir.Strip(cl.Common().Args[1]).(*ssa.Parameter)
		c.Decide(ok && p.Name() == "txn", "C36.sender-check≺admission", ht, "the transaction admitted is the one that was checked", c.P.Rel(cl.Pos()), "")
	}

	// isValidSender
	fn := c.Fn(pkTxPool, "TxActor.isValidSender")
	gsi := eng.Obj(c, "http/base/actor", "GetStorageItem")
	gsa := eng.Obj(c, pkTypes, "Transaction.GetSignatureAddresses")
	if fn == nil || gsi == nil || gsa == nil {
		return
	}
	// address provenance: element of GetSignatureAddresses()
	loops := eng.FindSliceLoops(fn, func(v ssa.Value) bool { return isCallTo(v, gsa) })
	if len(loops) != 1 {
		c.Broken("C36.admission-rule", fn, "loop over signature addresses", c.P.Rel(fn.Pos()), sprintf("%d loops", len(loops)))
		return
	}
	isAddr := func(v ssa.Value) bool { return derivesFromCall(v, gsa, 8) }
	var relayerCall *ssa.Call
	relayerGuard := relGuard("len(relayer record of a signing address) > 0", func(v ssa.Value) bool {
		ln, ok := ir.Strip(v).(*ssa.Call)
		if !ok {
			return false
		}
		if bi, isB := ln.Common().Value.(*ssa.Builtin); !isB || bi.Name() != "len" {
			return false
		}
		cl, idx := ir.CallOf(ln.Common().Args[0])
		if cl == nil || idx != 0 || !ir.CalleeIs(cl, gsi) {
			return false
		}
		relayerCall = cl
		return true
	}, isConstInt(0), token.GTR)
	permitted := eng.NamedGuard{Name: "permittedAddrMap[signing address] == true", G: func(cd ir.Cond) (bool, bool) {
		// the stored boolean: `val, ok := m[a]; val && ok` or plainly `m[a]` (false when absent)
		var lk *ssa.Lookup
		if ex, ok := cd.V.(*ssa.Extract); ok && ex.Index == 0 {
			lk, _ = ex.Tuple.(*ssa.Lookup)
		} else if l, ok := cd.V.(*ssa.Lookup); ok && !l.CommaOk {
			lk = l
		}
		if lk == nil || globalName(lk.X) != "permittedAddrMap" || !isAddr(lk.Index) {
			return false, false
		}
		return true, true
	}}
	eng.Dominates(c, "C36.admission-rule", fn, eng.NamedGuard{Name: relayerGuard.Name + " ∨ " + permitted.Name, G: ir.Or(relayerGuard.G, permitted.G)}, ir.SuccessSinks(fn), "nil return", nil)
	eng.Dominates(c, "C36.admission-rule", fn, eng.ErrNilOf("GetSignatureAddresses", gsa), ir.SuccessSinks(fn), "nil return", nil)
	if relayerCall == nil {
		c.Broken("C36.relayer-key", fn, "GetStorageItem(relayer key)", c.P.Rel(fn.Pos()), "call not found")
		return
	}
	defer bindHelperOf(fn, relayerCall)() // the read may sit in a per-address helper
	// contract + key shape
	okContract := globalName(relayerCall.Common().Args[0]) == "RelayerManagerContractAddress"
	c.Decide(okContract, "C36.relayer-key", fn, "record read from the relayer manager contract", c.P.Rel(relayerCall.Pos()), "")
	sh, err := eng.ShapeOf(c.P, relayerCall.Common().Args[1])
	if err != nil {
		c.Broken("C36.relayer-key", fn, "key shape", c.P.Rel(relayerCall.Pos()), err.Error())
		return
	}
	// compare with putRelayer's shape minus the contract atom
	pr := c.Fn(pkRM, "putRelayer")
	arr := c.Fn(pkRM, "ApproveRemoveRelayer")
	if pr == nil || arr == nil {
		return
	}
	ps, _ := eng.KeySitesIn(c.P, pr, 1)
	okShape := false
	var want eng.KeyShape
	for _, s := range ps {
		if s.Op == "Put" && len(s.Shape) >= 2 && s.Shape[0].Kind == eng.AContract && s.Shape[0].Lit == "RelayerManagerContractAddress" {
			want = s.Shape[1:]
			okShape = want.Unifies(sh) && want.Canon() == sh.Canon()
		}
	}
	c.Decide(okShape, "C36.relayer-key", fn, "key read = key putRelayer writes (RELAYER ‖ 20-byte address)", c.P.Rel(relayerCall.Pos()), sprintf("read %s, putRelayer writes %s", sh.String(), want.String()))
	// the address in the key is the loop's signing address
	okAddr := false
	if ap, ok := ir.Strip(relayerCall.Common().Args[1]).(*ssa.Call); ok {
		if bi, isB := ap.Common().Value.(*ssa.Builtin); isB && bi.Name() == "append" {
			okAddr = isAddr(ap.Common().Args[1])
		}
	}
	c.Decide(okAddr, "C36.relayer-key", fn, "the key's address is a signing address of the transaction", c.P.Rel(relayerCall.Pos()), "")
	// removal deletes that key
	ds, _ := eng.KeySitesIn(c.P, arr, 1)
	okDel := false
	for _, s := range ds {
		if s.Op == "Delete" && len(s.Shape) >= 2 && s.Shape[1:].Canon() == want.Canon() && s.Shape[0].Lit == "RelayerManagerContractAddress" {
			okDel = true
		}
	}
	c.Decide(okDel, "C36.relayer-key", arr, "an approved removal deletes the key the pool reads", c.P.Rel(arr.Pos()), "")
	// storage errors other than not-found fail the check
	eng.Dominates(c, "C36.admission-rule", fn, eng.NamedGuard{Name: "GetStorageItem err==nil ∨ err==ErrNotFound", G: func(cd ir.Cond) (bool, bool) {
		if x, neq, ok := ir.NilCmp(cd.V); ok {
			if cl, _ := ir.CallOf(x); cl != nil && ir.CalleeIs(cl, gsi) && ir.IsErrorType(x.Type()) {
				return true, !neq
			}
			return false, false
		}
		if b, ok := cd.V.(*ssa.BinOp); ok && (b.Op == token.NEQ || b.Op == token.EQL) {
			if cl, _ := ir.CallOf(b.X); cl != nil && ir.CalleeIs(cl, gsi) && globalName(b.Y) == "ErrNotFound" {
				return true, b.Op == token.EQL
			}
		}
		return false, false
	}}, ir.SuccessSinks(fn), "nil return", nil)

	// who may call assignTxToWorker
	cg := c.P.CG()
	atwFn := c.Fn(pkTxPool, "TXPoolServer.assignTxToWorker")
	allowed := map[string]string{
		"(*txnpool/proc.TxActor).handleTransaction":     "checked above",
		"(*txnpool/proc.TXPoolServer).verifyBlock":      "transactions of a block proposed by consensus (frozen exception)",
		"(*txnpool/proc.TXPoolServer).reVerifyStateful": "",
	}
	_ = cg
	for _, caller := range c.P.EffectiveCallers(atwFn, func(y *ssa.Function) bool { _, ok := allowed[ir.FuncName(y)]; return ok }) {
		_, ok := allowed[ir.FuncName(caller)]
		c.Decide(ok, "C36.who-may-admit", atwFn, "caller "+ir.FuncName(caller)+" is a known admission path", c.P.Rel(caller.Pos()), "")
	}
}
