package rules

import (
	"go/constant"
	"go/token"
	"go/types"
	"os"
	"strings"

	"golang.org/x/tools/go/ssa"

	"polyverif/core"
	"polyverif/eng"
	"polyverif/ir"
)

// C21 — imports are gated by the chain registry and blacklist.
// C22 — each accepted import commits exactly one outbound request.

func init() {
	core.Register(&core.Check{
		ID: "C21", Level: "other", Title: "Imports are gated by the chain registry and blacklist",
		Explain: "Guard dominance in ImportExTransfer: the call of the router's MakeDepositProposal is dominated by CheckIfChainBlacked(src) err==nil and ==false, GetSideChain(src) err==nil and !=nil, GetChainHandler err==nil, CheckRouterStartBlock err==nil (src = params.SourceChainID); every outbound write (entrance MakeTransaction, BTC and ripple MakeTransaction) is additionally dominated by CheckIfChainBlacked(dst)==false and GetSideChain(dst)!=nil with dst = txParam.ToChainID of the verified message. CheckIfChainBlacked fails closed (returns false only when the read succeeded and found nothing). PutBlackChain / RemoveBlackChain / CheckIfChainBlacked use one key shape; BlackChain reaches PutBlackChain and WhiteChain reaches RemoveBlackChain with params.ChainID before success. Same registry/start-block gate on the three header-sync entrances. 'No state change on rejection' relies on C15 (transaction atomicity).",
		Run:     runC21,
	})
	core.Register(&core.Check{
		ID: "C22", Level: "other", Title: "Each accepted import commits exactly one outbound request",
		Explain: "In entrance.MakeTransaction: exactly one PutRequest call and one PutMerkleVal call, neither inside a loop, both on every path to the nil return (PutRequest err==nil dominates PutMerkleVal), both receiving sink.Bytes() of the same sink with no sink write in between; the sink is written exactly once, by ToMerkleValue.Serialization of a literal whose TxHash = service.GetTx().Hash().ToArray(), FromChainID = the fromChainID parameter and MakeTxParam = the params parameter; PutRequest is keyed (REQUEST, Fix8(params.ToChainID), txHash). Who-may-call: PutMerkleVal is called only from MakeTransaction; NativeService.crossHashes is appended only in PutMerkleVal (and merged in Invoke). In ImportExTransfer the fromChainID argument is params.SourceChainID and the MakeTxParam argument is the MakeDepositProposal result. 'Failed imports commit nothing' relies on C15.",
		Run:     runC22,
	})
}

func argFieldIs(i int, field string) func(*ssa.Call) bool {
	return func(call *ssa.Call) bool {
		a := call.Common().Args
		if i >= len(a) {
			return false
		}
		_, f, ok := fieldLoad(a[i])
		return ok && f == field
	}
}

func and(ps ...func(*ssa.Call) bool) func(*ssa.Call) bool {
	return func(c *ssa.Call) bool {
		for _, p := range ps {
			if !p(c) {
				return false
			}
		}
		return true
	}
}

func runC21(c *core.Ctx) {
	checkBlacklistIdNotNarrowed(c, "C21.blacklist-id-64-bit")
	checkRegisteredOnlyAfterQuorum(c)
	checkQuitUnregisters(c, "C21.quit-unregisters")
	fn := c.Fn(pkCCM, "ImportExTransfer")
	cib := eng.Obj(c, pkCCMCom, "CheckIfChainBlacked")
	gsc := eng.Obj(c, pkSCM, "GetSideChain")
	gch := eng.Obj(c, pkCCM, "GetChainHandler")
	crs := eng.Obj(c, pkUtils, "CheckRouterStartBlock")
	mdp := ifaceMethod(c, pkCCMCom, "ChainHandler", "MakeDepositProposal")
	mt := eng.Obj(c, pkCCM, "MakeTransaction")
	btcMT := eng.Obj(c, pkBtc, "BTCHandler.MakeTransaction")
	ripMT := eng.Obj(c, pkRipple, "RippleHandler.MakeTransaction")
	if fn == nil || cib == nil || gsc == nil || gch == nil || crs == nil || mdp == nil || mt == nil || btcMT == nil || ripMT == nil {
		return
	}
	srcArg := argFieldIs(1, "SourceChainID")
	dstArg := argFieldIs(1, "ToChainID")
	// chainID := params.SourceChainID is a local: SSA gives the same load value, good.
	common := []eng.NamedGuard{
		{Name: "CheckIfChainBlacked(src) err==nil", G: ir.ErrNil(and(ir.CallTo(cib), srcArg))},
		{Name: "CheckIfChainBlacked(src)==false", G: ir.BoolIs(and(ir.CallTo(cib), srcArg), false)},
		{Name: "GetSideChain(src) err==nil", G: ir.ErrNil(and(ir.CallTo(gsc), srcArg))},
		{Name: "GetSideChain(src)!=nil", G: ir.NotNil(and(ir.CallTo(gsc), srcArg))},
		{Name: "GetChainHandler err==nil", G: ir.ErrNil(ir.CallTo(gch))},
		{Name: "CheckRouterStartBlock err==nil", G: ir.ErrNil(ir.CallTo(crs))},
	}
	dst := []eng.NamedGuard{
		{Name: "MakeDepositProposal err==nil", G: ir.ErrNil(ir.CallTo(mdp))},
		{Name: "CheckIfChainBlacked(dst) err==nil", G: ir.ErrNil(and(ir.CallTo(cib), dstArg))},
		{Name: "CheckIfChainBlacked(dst)==false", G: ir.BoolIs(and(ir.CallTo(cib), dstArg), false)},
		{Name: "GetSideChain(dst) err==nil", G: ir.ErrNil(and(ir.CallTo(gsc), dstArg))},
		{Name: "GetSideChain(dst)!=nil", G: ir.NotNil(and(ir.CallTo(gsc), dstArg))},
	}
	verify := ir.CallsTo(fn, mdp)
	c.Floor("MakeDepositProposal call in ImportExTransfer", len(verify), 1)
	for _, g := range common {
		eng.Dominates(c, "C21.src-gate≺verify", fn, g, ir.CallSinks(verify, "handler.MakeDepositProposal"), "handler.MakeDepositProposal", nil)
	}
	outs := ir.CallsTo(fn, mt, btcMT, ripMT)
	nOut := len(outs)
	if len(outs) == 0 {
		// the three target-chain makers may sit behind one private helper: the gates then dominate the helper's
		// call site, and the helper reaches all three makers
		outs = ir.CallsThrough(fn, func(ci ssa.CallInstruction) bool { return ir.CalleeIs(ci, mt, btcMT, ripMT) }, 1)
		for _, site := range outs {
			if h := site.Common().StaticCallee(); h != nil {
				nOut += len(ir.CallsTo(h, mt, btcMT, ripMT))
			}
		}
	}
	c.Floor("outbound MakeTransaction calls", nOut, 3)
	for _, g := range append(append([]eng.NamedGuard{}, common...), dst...) {
		eng.Dominates(c, "C21.gate≺outbound", fn, g, ir.CallSinks(outs, "MakeTransaction"), "outbound MakeTransaction (entrance/btc/ripple)", nil)
	}
	// dst must be the verified message's ToChainID: base of the field load is result 0 of mdp
	for _, call := range ir.Calls(fn, func(ci ssa.CallInstruction) bool {
		cl, ok := ci.(*ssa.Call)
		return ok && (ir.CalleeIs(cl, cib) || ir.CalleeIs(cl, gsc)) && dstArg(cl)
	}) {
		base, _, _ := fieldLoad(call.Common().Args[1])
		cl, idx := ir.CallOf(base)
		ok := cl != nil && idx == 0 && ir.CalleeIs(cl, mdp)
		c.Decide(ok, "C21.dst-is-verified-message", fn, callDesc(call)+"(txParam.ToChainID)", c.P.Rel(call.Pos()), "destination chain must come from the MakeDepositProposal result")
	}

	// fail closed
	if f := c.Fn(pkCCMCom, "CheckIfChainBlacked"); f != nil {
		get := eng.Obj(c, pkStorage, "CacheDB.Get")
		sinks := ir.BoolReturnSinks(f, 0, false)
		eng.Dominates(c, "C21.blacklist-fails-closed", f, eng.ErrNilOf("CacheDB.Get", get), sinks, "return false", nil)
		eng.Dominates(c, "C21.blacklist-fails-closed", f, eng.NamedGuard{Name: "stored value == nil", G: ir.IsNil(ir.CallTo(get))}, sinks, "return false", nil)
	}
	// one key shape
	var shapes []string
	for _, n := range []string{"PutBlackChain", "RemoveBlackChain", "CheckIfChainBlacked"} {
		f := c.Fn(pkCCMCom, n)
		if f == nil {
			continue
		}
		ks, err := eng.KeySitesIn(c.P, f, 1)
		if err != nil || len(ks) != 1 {
			c.Broken("C21.blacklist-key", f, "key shape", c.P.Rel(f.Pos()), sprintf("%d sites", len(ks)))
			continue
		}
		shapes = append(shapes, ks[0].Op+":"+ks[0].Shape.Canon())
		c.Decide(ks[0].Shape.Canon() == `@CrossChainManagerContractAddress+"BlackedChain"+Fix8` || (len(ks[0].Shape) == 3 && ks[0].Shape[2].Kind == eng.AFix && ks[0].Shape[2].N == 8),
			"C21.blacklist-key", f, "key = contract‖BLACKED_CHAIN‖Fix8(chain)", c.P.Rel(f.Pos()), ks[0].Shape.String())
	}
	if len(shapes) == 3 {
		strip := func(s string) string { return s[len(s)-len(s)+indexByte(s, ':')+1:] }
		ok := strip(shapes[0]) == strip(shapes[1]) && strip(shapes[1]) == strip(shapes[2])
		c.Decide(ok, "C21.blacklist-key", "native/service/cross_chain_manager/common", "Put/Remove/Check share one key shape", "", sprintf("%v", shapes))
	}
	// BlackChain / WhiteChain reach the right mutator with params.ChainID
	for _, p := range [][2]string{{"BlackChain", "PutBlackChain"}, {"WhiteChain", "RemoveBlackChain"}} {
		f := c.Fn(pkCCM, p[0])
		m := eng.Obj(c, pkCCMCom, p[1])
		if f == nil || m == nil {
			continue
		}
		pred := func(ci ssa.CallInstruction) bool {
			cl, ok := ci.(*ssa.Call)
			return ok && ir.CalleeIs(cl, m) && argFieldIs(1, "ChainID")(cl)
		}
		eng.MustPassCall(c, "C21.list-mutation", f, p[1]+"(params.ChainID)", pred, ir.SuccessSinks(f), "success return", nil)
	}

	if mainNet, err := c.P.Const("common/config", "NETWORK_ID_MAIN_NET"); err == nil {
		mn, _ := ir.ConstInt(ssa.NewConst(mainNet, types.Typ[types.Int]))
		checkStartBlockTable(c, mn)
	} else {
		c.Broken("anchor", "", "NETWORK_ID_MAIN_NET", "", err.Error())
	}

	// header-sync entrances
	hsGCH := eng.Obj(c, pkHS, "GetChainHandler")
	for _, n := range []string{"SyncGenesisHeader", "SyncBlockHeader", "SyncCrossChainMsg"} {
		f := c.Fn(pkHS, n)
		m := ifaceMethod(c, pkHSCom, "HeaderSyncHandler", n)
		if f == nil || m == nil || hsGCH == nil {
			continue
		}
		sinks := ir.CallSinks(ir.CallsTo(f, m), "handler."+n)
		chainArg := argFieldIs(1, "ChainID")
		for _, g := range []eng.NamedGuard{
			{Name: "GetSideChain(params.ChainID) err==nil", G: ir.ErrNil(and(ir.CallTo(gsc), chainArg))},
			{Name: "GetSideChain(params.ChainID)!=nil", G: ir.NotNil(and(ir.CallTo(gsc), chainArg))},
			{Name: "GetChainHandler err==nil", G: ir.ErrNil(ir.CallTo(hsGCH))},
			{Name: "CheckRouterStartBlock err==nil", G: ir.ErrNil(ir.CallTo(crs))},
		} {
			eng.Dominates(c, "C21.headersync-gate", f, g, sinks, "handler."+n, nil)
		}
	}
}

// derivesFromFieldLoad: v is computed (slice, convert, phi) from a load of field `field`.
func derivesFromFieldLoad(v ssa.Value, field string, depth int) bool {
	if depth == 0 || v == nil {
		return false
	}
	if u, ok := v.(*ssa.UnOp); ok {
		if fa, ok := u.X.(*ssa.FieldAddr); ok {
			st := fa.X.Type().Underlying().(*types.Pointer).Elem().Underlying().(*types.Struct)
			return st.Field(fa.Field).Name() == field
		}
		return false
	}
	switch x := v.(type) {
	case *ssa.Slice:
		return derivesFromFieldLoad(x.X, field, depth-1)
	case *ssa.Convert:
		return derivesFromFieldLoad(x.X, field, depth-1)
	case *ssa.ChangeType:
		return derivesFromFieldLoad(x.X, field, depth-1)
	case *ssa.Phi:
		for _, e := range x.Edges {
			if derivesFromFieldLoad(e, field, depth-1) {
				return true
			}
		}
	}
	return false
}

func indexByte(s string, b byte) int {
	for i := 0; i < len(s); i++ {
		if s[i] == b {
			return i
		}
	}
	return -1
}

func inLoop(in ssa.Instruction) bool {
	b := in.Block()
	// b is in a loop iff b is reachable from one of its successors
	seen := map[*ssa.BasicBlock]bool{}
	work := append([]*ssa.BasicBlock{}, b.Succs...)
	for len(work) > 0 {
		x := work[len(work)-1]
		work = work[:len(work)-1]
		if x == b {
			return true
		}
		if seen[x] {
			continue
		}
		seen[x] = true
		work = append(work, x.Succs...)
	}
	return false
}

func runC22(c *core.Ctx) {
	checkCrossStatesWrittenOnReplay(c, "C22.leaf-written-on-replay")
	// a rejected import leaves nothing behind only because the per-transaction cache is emptied before the next
	// transaction of the block runs (C15's rule, a necessary condition of "failed imports commit nothing")
	checkResetBeforeTx(c, "C22.failed-import-leaves-nothing")
	fn := c.Fn(pkCCM, "MakeTransaction")
	putReq := eng.Obj(c, pkCCM, "PutRequest")
	pmv := eng.Obj(c, pkNative, "NativeService.PutMerkleVal")
	sinkBytes := eng.Obj(c, pkCommon, "ZeroCopySink.Bytes")
	tmvSer := eng.Obj(c, pkCCMCom, "ToMerkleValue.Serialization")
	if fn == nil || putReq == nil || pmv == nil || sinkBytes == nil || tmvSer == nil {
		return
	}
	prs := ir.CallsTo(fn, putReq)
	pms := ir.CallsTo(fn, pmv)
	c.Decide(len(prs) == 1, "C22.exactly-one", fn, "one PutRequest call", c.P.Rel(fn.Pos()), sprintf("%d", len(prs)))
	c.Decide(len(pms) == 1, "C22.exactly-one", fn, "one PutMerkleVal call", c.P.Rel(fn.Pos()), sprintf("%d", len(pms)))
	if len(prs) != 1 || len(pms) != 1 {
		return
	}
	c.Decide(!inLoop(prs[0]) && !inLoop(pms[0]), "C22.exactly-one", fn, "neither call is inside a loop", c.P.Rel(prs[0].Pos()), "")
	succ := ir.SuccessSinks(fn)
	eng.MustPassCall(c, "C22.both-on-success", fn, "PutRequest", eng.CallPred(putReq), succ, "nil return", nil)
	eng.MustPassCall(c, "C22.both-on-success", fn, "PutMerkleVal", eng.CallPred(pmv), succ, "nil return", nil)
	eng.Dominates(c, "C22.request≺leaf", fn, eng.ErrNilOf("PutRequest", putReq), ir.CallSinks(pms, "PutMerkleVal"), "PutMerkleVal", nil)

	// same bytes: both args are sink.Bytes() of the same sink
	sinkOf := func(v ssa.Value) ssa.Value {
		cl, _ := ir.CallOf(v)
		if cl == nil || !ir.CalleeIs(cl, sinkBytes) {
			return nil
		}
		return ir.Strip(cl.Common().Args[0])
	}
	v1, v2 := prs[0].Common().Args[3], pms[0].Common().Args[1]
	host := fn
	if sameValue(v1, v2) && sinkOf(v1) == nil {
		// one byte slice handed to both; it may be produced by an encoding helper (`request := encode(mv)`)
		if via, release := valueVia(v1); via != v1 {
			defer release()
			if in, isI := via.(ssa.Instruction); isI && in.Parent() != nil {
				host = in.Parent()
				c.Attribute(host, fn)
			}
			v1, v2 = via, via
		}
	}
	s1 := sinkOf(v1)
	s2 := sinkOf(v2)
	c.Decide(s1 != nil && s1 == s2, "C22.same-bytes", fn, "PutRequest and PutMerkleVal receive Bytes() of the same sink", c.P.Rel(pms[0].Pos()), "")
	if s1 != nil {
		// the sink is written only by ToMerkleValue.Serialization (once)
		writes := 0
		var serCall ssa.CallInstruction
		for _, ci := range ir.Calls(host, nil) {
			for i, a := range ci.Common().Args {
				if ir.Strip(a) != s1 {
					continue
				}
				if ir.CalleeIs(ci, sinkBytes) {
					continue
				}
				writes++
				if ir.CalleeIs(ci, tmvSer) && i == 1 {
					serCall = ci
				}
			}
		}
		c.Decide(writes == 1 && serCall != nil, "C22.same-bytes", fn, "the sink is written exactly once, by ToMerkleValue.Serialization", c.P.Rel(fn.Pos()), sprintf("%d uses of the sink besides Bytes()", writes))
		if serCall != nil {
			checkMerkleValueLiteral(c, fn, serCall)
		}
	}
	// key: PutRequest(service, merkleValue.TxHash, params.ToChainID, bytes)
	a := prs[0].Common().Args
	b1, f1, ok1 := fieldLoad(a[1])
	_, f2, ok2 := fieldLoad(a[2])
	// the hash must be the RELAY transaction hash held in the ToMerkleValue being stored, not the message's source-side TxHash
	okRelay := ok1 && f1 == "TxHash" && typeNamed(b1, "ToMerkleValue")
	c.Decide(okRelay && ok2 && f2 == "ToChainID", "C22.key", fn, "PutRequest(txHash = merkleValue.TxHash (relay tx hash), chain = params.ToChainID)", c.P.Rel(prs[0].Pos()), f1+","+f2)
	// the key announced to relayers is built from the same two values
	for _, ci := range ir.Calls(fn, func(ci ssa.CallInstruction) bool { o := ir.CalleeObj(ci); return o != nil && o.Name() == "ConcatKey" }) {
		okAnn := false
		for _, e := range eng.VariadicElems(ci.Common().Args[len(ci.Common().Args)-1]) {
			if bb, ff, okk := fieldLoad(e); okk && ff == "TxHash" && typeNamed(bb, "ToMerkleValue") {
				okAnn = true
			}
		}
		c.Decide(okAnn, "C22.key", fn, "the request key announced in the makeProof event carries the relay tx hash", c.P.Rel(ci.Pos()), "")
	}
	if pf := c.Fn(pkCCM, "PutRequest"); pf != nil {
		ks, err := eng.KeySitesIn(c.P, pf, 2)
		if err != nil || len(ks) != 1 {
			c.Broken("C22.key", pf, "key shape", c.P.Rel(pf.Pos()), sprintf("%d sites", len(ks)))
		} else {
			sh := ks[0].Shape
			ok := ks[0].Op == "Put" && len(sh) == 4 && sh[0].Kind == eng.AContract && sh[1].Kind == eng.ALit && sh[2].Kind == eng.AFix && sh[2].N == 8 && sh[3].Kind == eng.ASlot && sh[3].N == 1
			c.Decide(ok, "C22.key", pf, "key = contract‖REQUEST‖Fix8(chainID)‖txHash", c.P.Rel(pf.Pos()), sh.String())
		}
	}
	// who may call PutMerkleVal
	cg := c.P.CG()
	if pmvFn := c.Fn(pkNative, "NativeService.PutMerkleVal"); pmvFn != nil {
		callers := c.P.EffectiveCallers(pmvFn, func(y *ssa.Function) bool { return y == fn })
		_ = cg
		ok := len(callers) == 1 && callers[0] == fn
		names := []string{}
		for _, x := range callers {
			names = append(names, ir.FuncName(x))
		}
		c.Decide(ok, "C22.who-may-call", pmvFn, "PutMerkleVal called only from entrance.MakeTransaction", c.P.Rel(pmvFn.Pos()), sprintf("callers: %v", names))
	}
	// crossHashes written only in PutMerkleVal / Invoke / constructor
	checkFieldWriters(c, "C22.who-may-write", pkNative, "NativeService", "crossHashes", map[string]bool{
		"(*native.NativeService).PutMerkleVal": true, "(*native.NativeService).Invoke": true,
	})
	// Invoke hands the callee FRESH lists: a reset that re-slices the saved list
	// (x = x[:0]) shares its backing array, so a nested call's leaf would
	// overwrite an earlier one
	if inv := c.Fn(pkNative, "NativeService.Invoke"); inv != nil {
		nsObj, _ := c.P.Obj(pkNative, "NativeService")
		for _, fld := range []string{"crossHashes", "notifications"} {
			n := 0
			for _, st := range fieldStores(inv, nsObj.Type(), fld) {
				val := st.(*ssa.Store).Val
				if cl, _ := ir.CallOf(val); cl != nil {
					if b, ok := cl.Common().Value.(*ssa.Builtin); ok && b.Name() == "append" {
						continue // the merge after a successful call
					}
				}
				n++
				aliased := derivesFromFieldLoad(val, fld, 6)
				c.Decide(!aliased, "C22.fresh-list", inv, "the callee's "+fld+" list is freshly allocated (no alias of the saved list)", c.P.Rel(st.Pos()),
					"the reset value must not be derived from the field's previous value")
			}
			c.Floor("reset stores of NativeService."+fld+" in Invoke", n, 1)
		}
	}
	// ImportExTransfer passes (txParam from mdp, params.SourceChainID)
	if ie := c.Fn(pkCCM, "ImportExTransfer"); ie != nil {
		mdp := ifaceMethod(c, pkCCMCom, "ChainHandler", "MakeDepositProposal")
		mt := eng.Obj(c, pkCCM, "MakeTransaction")
		for _, call := range ir.CallsTo(ie, mt) {
			a := call.Common().Args
			cl, idx := ir.CallOf(a[1])
			okP := cl != nil && idx == 0 && ir.CalleeIs(cl, mdp)
			_, f, okF := fieldLoad(a[2])
			c.Decide(okP && okF && f == "SourceChainID", "C22.entrance-args", ie, "MakeTransaction(native, verified txParam, params.SourceChainID)", c.P.Rel(call.Pos()), "")
		}
	}
	checkAcceptedImportHasOutbound(c)
}

// checkMerkleValueLiteral: the ToMerkleValue serialised has TxHash =
// service.GetTx().Hash().ToArray(), FromChainID = param fromChainID,
// MakeTxParam = param params.
func checkMerkleValueLiteral(c *core.Ctx, fn *ssa.Function, ser ssa.CallInstruction) {
	recv := ir.Strip(ser.Common().Args[0])
	al, ok := recv.(*ssa.Alloc)
	if !ok {
		c.Broken("C22.content", fn, "ToMerkleValue literal", c.P.Rel(ser.Pos()), "receiver is not a local literal")
		return
	}
	got := map[string]ssa.Value{}
	for _, ref := range *al.Referrers() {
		fa, ok := ref.(*ssa.FieldAddr)
		if !ok {
			continue
		}
		st := al.Type().Underlying().(*types.Pointer).Elem().Underlying().(*types.Struct)
		name := st.Field(fa.Field).Name()
		for _, r2 := range *fa.Referrers() {
			if s, ok := r2.(*ssa.Store); ok && s.Addr == fa {
				if _, dup := got[name]; dup {
					got[name+"#dup"] = s.Val
				}
				got[name] = s.Val
			}
		}
	}
	hashObj := eng.Obj(c, pkTypes, "Transaction.Hash")
	getTx := eng.Obj(c, pkNative, "NativeService.GetTx")
	okHash := false
	if v, ok := got["TxHash"]; ok {
		// ToArray() of Hash() of GetTx()
		if cl, _ := ir.CallOf(v); cl != nil && ir.CalleeObj(cl) != nil && ir.CalleeObj(cl).Name() == "ToArray" {
			// receiver: address of a local holding Hash() result
			rv := cl.Common().Args[0]
			if hashFromGetTx(rv, hashObj, getTx) {
				okHash = true
			}
		}
	}
	c.Decide(okHash, "C22.content", fn, "TxHash = service.GetTx().Hash().ToArray()", c.P.Rel(ser.Pos()), "")
	pv, _ := ir.Strip(got["FromChainID"]).(*ssa.Parameter)
	c.Decide(pv != nil && pv.Name() == "fromChainID", "C22.content", fn, "FromChainID = the fromChainID parameter", c.P.Rel(ser.Pos()), "")
	pp, _ := ir.Strip(got["MakeTxParam"]).(*ssa.Parameter)
	c.Decide(pp != nil && pp.Name() == "params", "C22.content", fn, "MakeTxParam = the params parameter", c.P.Rel(ser.Pos()), "")
	_, dup := got["TxHash#dup"]
	c.Decide(!dup && len(got) == 3, "C22.content", fn, "each field of the literal stored exactly once", c.P.Rel(ser.Pos()), sprintf("%d stores", len(got)))
}

func hashFromGetTx(v ssa.Value, hashObj, getTx *types.Func) bool {
	// v may be an Alloc (address-taken local) storing Hash() result, or the value itself
	v = ir.Strip(v)
	if al, ok := v.(*ssa.Alloc); ok {
		for _, ref := range *al.Referrers() {
			if s, ok := ref.(*ssa.Store); ok && s.Addr == al {
				return hashFromGetTx(s.Val, hashObj, getTx)
			}
		}
		return false
	}
	cl, _ := ir.CallOf(v)
	if cl == nil || !ir.CalleeIs(cl, hashObj) {
		return false
	}
	inner, _ := ir.CallOf(cl.Common().Args[0])
	return inner != nil && ir.CalleeIs(inner, getTx)
}

// checkFieldWriters: every store to field `field` of struct type pkg.typ in
// the module happens in one of the allowed functions (composite-literal
// initialisation in constructors excluded: stores into a fresh Alloc).
func checkFieldWriters(c *core.Ctx, rule, pkg, typ, field string, allowed map[string]bool) {
	tobj, err := c.P.Obj(pkg, typ)
	if err != nil {
		c.Broken("anchor", "", pkg+"."+typ, "", err.Error())
		return
	}
	st, ok := tobj.Type().Underlying().(*types.Struct)
	if !ok {
		c.Broken("anchor", "", pkg+"."+typ, "", "not a struct")
		return
	}
	idx := -1
	for i := 0; i < st.NumFields(); i++ {
		if st.Field(i).Name() == field {
			idx = i
		}
	}
	if idx < 0 {
		c.Broken("anchor", "", pkg+"."+typ+"."+field, "", "field not found")
		return
	}
	writers := map[string]string{}
	writerFn := map[string]*ssa.Function{}
	for _, pk := range c.P.Mod {
		if pk.SSA == nil {
			continue
		}
		for _, f := range allFuncs(pk.SSA) {
			for _, b := range f.Blocks {
				for _, in := range b.Instrs {
					fa, ok := in.(*ssa.FieldAddr)
					if !ok || fa.Field != idx {
						continue
					}
					pt, ok := fa.X.Type().Underlying().(*types.Pointer)
					if !ok || !types.Identical(pt.Elem(), tobj.Type()) {
						continue
					}
					for _, ref := range *fa.Referrers() {
						if s, ok := ref.(*ssa.Store); ok && s.Addr == fa {
							if _, fresh := fa.X.(*ssa.Alloc); fresh {
								continue
							}
							writers[ir.FuncName(f)] = c.P.Rel(s.Pos())
							writerFn[ir.FuncName(f)] = f
						}
					}
				}
			}
		}
	}
	bad := []string{}
	for w, pos := range writers {
		if allowed[w] {
			continue
		}
		// a private helper split from an owner: every effective user must be an owner
		if f := writerFn[w]; f != nil && f.Parent() == nil && !token.IsExported(f.Name()) {
			users := c.P.EffectiveCallers(f, func(y *ssa.Function) bool { return allowed[ir.FuncName(y)] })
			okAll := len(users) > 0
			for _, u := range users {
				if !allowed[ir.FuncName(u)] {
					okAll = false
				}
			}
			if okAll {
				continue
			}
		}
		bad = append(bad, w+"@"+pos)
	}
	c.Decide(len(bad) == 0, rule, pkg+"."+typ, "field "+field+" written only by the frozen owners", "", sprintf("writers %v; not allowed: %v", ir.SortedKeys(writers), bad))
}

// allFuncs lists every function of an SSA package including methods and closures.
func allFuncs(pkg *ssa.Package) []*ssa.Function {
	var out []*ssa.Function
	seen := map[*ssa.Function]bool{}
	add := func(f *ssa.Function) {
		for _, g := range ir.WithClosures(f) {
			if !seen[g] {
				seen[g] = true
				out = append(out, g)
			}
		}
	}
	for _, m := range pkg.Members {
		switch x := m.(type) {
		case *ssa.Function:
			add(x)
		case *ssa.Type:
			for _, t := range []types.Type{x.Type(), types.NewPointer(x.Type())} {
				ms := pkg.Prog.MethodSets.MethodSet(t)
				for i := 0; i < ms.Len(); i++ {
					if f := pkg.Prog.MethodValue(ms.At(i)); f != nil && f.Pkg == pkg && f.Synthetic == "" {
						add(f)
					}
				}
			}
		}
	}
	return out
}

// frozen router start blocks on main net: removing a router from this gate
// re-opens its history (hard-fork protection). More entries may be added.
var c21StartBlocks = map[string]int64{"HARMONY_ROUTER": 18823000, "HSC_ROUTER": 18823000, "BYTOM_ROUTER": 18823000}

// checkStartBlockTable extracts the decision table router -> start block of
// CheckRouterStartBlock under the main-net fact and compares it with the
// frozen minimum table; also checks the rejection test block < startBlock.
func checkStartBlockTable(c *core.Ctx, mn int64) {
	fn := c.Fn(pkUtils, "CheckRouterStartBlock")
	if fn == nil {
		return
	}
	// the gate compares the RELAY chain's height: every caller passes native.GetHeight() (the height of
	// the block being executed), never a height taken from the request (which the submitter chooses)
	{
		nSites := 0
		for _, e := range c.P.CG().In[fn] {
			if e.Site == nil || e.Site.Common().StaticCallee() != fn {
				continue
			}
			nSites++
			a := e.Site.Common().Args
			okH := false
			if cl, _ := ir.CallOf(a[1]); cl != nil && ir.CalleeObj(cl) != nil && ir.CalleeObj(cl).Name() == "GetHeight" && recvNamed(cl, "NativeService") {
				okH = true
			}
			c.Decide(okH, "C21.start-block-table", e.Caller, "the start-block gate is evaluated at the relay chain's current height (native.GetHeight())", c.P.Rel(e.Site.Pos()),
				"the height compared with the router's start block is "+short(a[1].String())+": a value the submitter controls opens the router before its activation")
		}
		c.Floor("CheckRouterStartBlock call sites", nSites, 1)
	}
	// decision by evaluation: whatever the table is written as (switch, if-chain, flag, helper returning the
	// start block), on main net every listed router is refused one block before its start block and at height 0
	if startBlockByEvaluation(c, fn, mn) {
		return
	}
	// tests `router == <global>`
	type rt struct {
		cd   ir.Cond
		name string
		eq   bool // written with ==
	}
	var tests []rt
	for _, cd := range ir.Conds(fn) {
		b, ok := cd.V.(*ssa.BinOp)
		if !ok || (b.Op.String() != "==" && b.Op.String() != "!=") {
			continue
		}
		if p, ok := ir.Strip(b.X).(*ssa.Parameter); ok && p.Name() == "router" {
			if gn := globalName(b.Y); gn != "" {
				tests = append(tests, rt{cd, gn, b.Op.String() == "=="})
			} else if k, ok := ir.Strip(b.Y).(*ssa.Const); ok {
				tests = append(tests, rt{cd, k.Value.String(), b.Op.String() == "=="})
			}
		}
	}
	// edges that contradict "router == name"
	routerFact := func(r *ir.Reach, name, val string) bool {
		found := false
		for _, t := range tests {
			isIt := t.name == name || (val != "" && t.name == val)
			if isIt {
				found = true
			}
			// the edge on which (router == t.name) has the wrong truth value
			wrongWhenCondTrue := isIt != t.eq
			if wrongWhenCondTrue {
				r.Cut[ir.Edge{From: t.cd.If.Block(), Idx: t.cd.TrueIdx()}] = true
			} else {
				r.Cut[ir.Edge{From: t.cd.If.Block(), Idx: t.cd.FalseIdx()}] = true
			}
		}
		return found
	}
	// the final comparison block < startBlock: find phi compared with parameter block
	var phi *ssa.Phi
	for _, cd := range ir.Conds(fn) {
		b, ok := cd.V.(*ssa.BinOp)
		if !ok || b.Op.String() != "<" {
			continue
		}
		if p, ok := ir.Strip(b.X).(*ssa.Parameter); ok && p.Name() == "block" {
			phi, _ = ir.Strip(b.Y).(*ssa.Phi)
		}
	}
	netCuts := eng.NetFactCuts(fn, mn)
	if phi == nil {
		// written without a start-block variable: `if block >= K { return nil }` under the router and
		// network tests.  Decided directly: for each listed router, on main net, no success return is
		// reachable without passing block >= K for a constant K at least the frozen start block.
		isBlock := func(v ssa.Value) bool { p, ok := ir.Strip(v).(*ssa.Parameter); return ok && p.Name() == "block" }
		any := false
		for _, name := range ir.SortedKeys(c21StartBlocks) {
			want := c21StartBlocks[name]
			val := ""
			if k, err := c.P.Const(pkUtils, name); err == nil {
				val = k.String()
			}
			g := relGuard("block >= start block", isBlock, func(v ssa.Value) bool { k, ok := ir.ConstInt(v); return ok && k >= want }, token.GEQ)
			pass := ir.PassEdges(fn, g.G)
			if len(pass) == 0 {
				continue
			}
			any = true
			r := ir.NewReach(fn).CutEdges(netCuts).CutEdges(pass)
			found := routerFact(r, name, val)
			r.Run(nil)
			leak := false
			for _, s := range ir.SuccessSinks(fn) {
				if r.SinkReachable(s) {
					leak = true
				}
			}
			c.Decide(found && !leak, "C21.start-block-table", fn, "router "+name+" gated until block "+sprintf("%d", want)+" on main net", c.P.Rel(fn.Pos()),
				sprintf("router test present=%v; constant form: success only after block >= K, K >= %d", found, want))
		}
		if !any {
			c.Broken("C21.start-block-table", fn, "block < startBlock test", c.P.Rel(fn.Pos()), "neither a start-block variable nor a constant start-block comparison found")
		}
		return
	}
	for _, name := range ir.SortedKeys(c21StartBlocks) {
		want := c21StartBlocks[name]
		// resolve the router constant's value to match tests written with constants
		val := ""
		if k, err := c.P.Const(pkUtils, name); err == nil {
			val = k.String()
		}
		r := ir.NewReach(fn).CutEdges(netCuts)
		found := routerFact(r, name, val)
		r.Run(nil)
		// which phi edges are reachable, and what values do they carry?
		minv := int64(-1)
		reach := 0
		var walk func(v ssa.Value, from *ssa.BasicBlock, d int)
		walk = func(v ssa.Value, from *ssa.BasicBlock, d int) {
			if p2, ok := v.(*ssa.Phi); ok && d < 8 {
				for i, e := range p2.Edges {
					pred := p2.Block().Preds[i]
					idx := 0
					for j, s := range pred.Succs {
						if s == p2.Block() {
							idx = j
						}
					}
					if r.EdgeReachable(ir.Edge{From: pred, Idx: idx}) {
						walk(e, pred, d+1)
					}
				}
				return
			}
			reach++
			k, ok := ir.ConstInt(v)
			if !ok {
				k = 0
			}
			if minv < 0 || k < minv {
				minv = k
			}
		}
		walk(phi, nil, 0)
		ok := found && reach > 0 && minv >= want
		c.Decide(ok, "C21.start-block-table", fn, "router "+name+" gated until block "+sprintf("%d", want)+" on main net", c.P.Rel(fn.Pos()),
			sprintf("router test present=%v; minimum start block over %d feasible definitions = %d", found, reach, minv))
	}
	// rejection: error return dominated... the nil return is dominated by NOT(startBlock>0 && block<startBlock):
	// decided as: cutting the false edge of `block < startBlock` and of `startBlock > 0` leaves no nil return reachable
	// from the true edge. Simpler necessary condition: the function has an error return reachable only via block<startBlock true edge.
	var rejectEdge *ir.Edge
	for _, cd := range ir.Conds(fn) {
		b, ok := cd.V.(*ssa.BinOp)
		if ok && b.Op.String() == "<" && ir.Strip(b.Y) == ssa.Value(phi) {
			rejectEdge = &ir.Edge{From: cd.If.Block(), Idx: cd.TrueIdx()}
		}
	}
	if rejectEdge != nil {
		r := ir.NewReach(fn)
		r.Run(rejectEdge.To().Instrs[0])
		leak := false
		for _, s := range ir.SuccessSinks(fn) {
			if r.SinkReachable(s) || s.Instr.Block() == rejectEdge.To() {
				leak = true
			}
		}
		c.Decide(!leak, "C21.start-block-table", fn, "block < startBlock ⇒ error", c.P.Rel(fn.Pos()), "")
	}
}

// startBlockByEvaluation decides the start-block table by abstract evaluation of CheckRouterStartBlock
// (eng.AEval: constant propagation over its SSA and the helpers it calls, nothing is executed) with the
// network id fixed to main net.  Returns false when the evaluation cannot follow the code (a branch on a
// value it does not model): the structural rule below then decides.
func startBlockByEvaluation(c *core.Ctx, fn *ssa.Function, mn int64) bool {
	if len(fn.Params) != 2 {
		return false
	}
	opts := eng.AEvalOpts{Load: func(path string) (eng.AVal, bool) {
		if strings.HasSuffix(path, ".NetworkId") {
			return eng.AIntV(mn), true
		}
		if !strings.Contains(path, ".") { // a package-level variable initialised with an integer and never re-assigned
			if v, ok := eng.GlobalInitInt(fn.Pkg, path); ok {
				return eng.AIntV(v), true
			}
		}
		return eng.AVal{}, false
	}}
	type row struct {
		name   string
		want   int64
		detail string
		ok     bool
	}
	var rows []row
	for _, name := range ir.SortedKeys(c21StartBlocks) {
		want := c21StartBlocks[name]
		var rv int64
		if k, err := c.P.Const(pkUtils, name); err == nil {
			x, exact := constant.Int64Val(constant.ToInt(k))
			if !exact {
				return false
			}
			rv = x
		} else if x, ok := eng.GlobalInitInt(fn.Pkg, name); ok {
			rv = x
		} else {
			return false
		}
		good := true
		detail := ""
		for _, h := range []int64{0, want - 1} {
			res, ok := eng.AEval(fn, []eng.AVal{eng.AIntV(rv), eng.AIntV(h)}, opts)
			if !ok || len(res) != 1 || (res[0].K != eng.ANil && res[0].K != eng.ANonNil) {
				if os.Getenv("PV_DEBUG") != "" {
					println("aeval failed", ok, len(res), rv, h)
				}
				return false
			}
			if res[0].K == eng.ANil {
				good = false
				detail = sprintf("evaluated at (router %d, height %d) on main net: accepted", rv, h)
			}
		}
		rows = append(rows, row{name, want, detail, good})
	}
	for _, r := range rows {
		c.Decide(r.ok, "C21.start-block-table", fn, "router "+r.name+" gated until block "+sprintf("%d", r.want)+" on main net", c.P.Rel(fn.Pos()), r.detail)
	}
	c.Note("C21.start-block-table decided by abstract evaluation of CheckRouterStartBlock at heights 0 and start-1 for each listed router (main net)")
	return true
}
