package rules

import (
	"polyverif/core"
	"polyverif/eng"
	"polyverif/ir"
)

// C22 (continued) — "accepted ⇒ one outbound request".  The native framework
// decides acceptance on the returned error alone, so every return of
// ImportExTransfer whose error may be nil and which carries a verified message
// (i.e. is not the "no message yet" return taken when MakeDepositProposal
// yields nil for a vote-routed chain) must have passed one of the three
// outbound MakeTransaction calls; a refusal written as `return FALSE, err`
// with err known nil on that path is an accepted import with no request.
func checkAcceptedImportHasOutbound(c *core.Ctx) {
	const rule = "C22.accepted⇒outbound"
	ie := c.Fn(pkCCM, "ImportExTransfer")
	mdp := ifaceMethod(c, pkCCMCom, "ChainHandler", "MakeDepositProposal")
	mt := eng.Obj(c, pkCCM, "MakeTransaction")
	btcMT := eng.Obj(c, pkBtc, "BTCHandler.MakeTransaction")
	ripMT := eng.Obj(c, pkRipple, "RippleHandler.MakeTransaction")
	if ie == nil || mdp == nil || mt == nil || btcMT == nil || ripMT == nil {
		return
	}
	noMsg := eng.NamedGuard{Name: "MakeDepositProposal returned no message", G: ir.IsNil(ir.CallTo(mdp))}
	var need []ir.Sink
	skipped := 0
	for _, s := range ir.SuccessSinks(ie) {
		if quietDominates(ie, noMsg, s) {
			skipped++
			continue
		}
		need = append(need, s)
	}
	c.Note(sprintf("ImportExTransfer: %d possibly-accepting return(s) carry a message, %d are the no-message-yet return", len(need), skipped))
	c.Floor("accepting returns of ImportExTransfer that carry a message", len(need), 1)
	eng.MustPassCall(c, rule, ie, "outbound MakeTransaction (entrance/btc/ripple)", eng.CallPred(mt, btcMT, ripMT), need, "return with a possibly-nil error", nil)
	for _, g := range []eng.NamedGuard{eng.ErrNilOf("MakeDepositProposal", mdp)} {
		eng.Dominates(c, rule, ie, g, need, "return with a possibly-nil error", nil)
	}
}
