package rules

import (
	"go/token"
	"go/types"
	"sort"
	"strings"

	"golang.org/x/tools/go/ssa"

	"polyverif/core"
	"polyverif/eng"
	"polyverif/ir"
)

// C40 — VBFT participant selection is well formed.

const pkVbftCfg = "consensus/vbft/config"

func init() {
	core.Register(&core.Check{
		ID: "C40", Level: "other", Title: "VBFT participant selection is well formed",
		Technique: "guard dominance inside the selection loop (start-relative), value lineage of the returned slice, argument identity across sibling calls, effect reachability for determinism",
		Explain:   "Decided on the SSA of consensus/vbft. buildParticipantConfig: the three sibling calls of calcParticipantPeers all take the SAME chain configuration — the chainCfg parameter that the size checks read (a selection computed from another configuration is neither drawn from the requested table nor reproducible by peers) — with the constant windows [0,P), [P,P+E), [P+E,P+E+Cm); a configuration is returned only after len(Proposers) >= C+1, len(Endorsers) >= 2C, len(Committers) >= 2C with C = chainCfg.C, Proposers truncated to C+1, Vrf = getParticipantSelectionSeed(block) tested non-nil. calcParticipantPeers: every element appended to the result is the value of calcParticipant(cfg.Vrf, chain.PosTable, uint32(i)); the append is dominated, within the iteration, by id != MaxUint32, by a miss in the already-selected set and (for endorser/committer windows) by a miss in the leading-proposer set, and is followed in the same block by recording id as selected (no duplicates); the leading-proposer set is filled from cfg.Proposers only; every returned slice is the empty literal or this append lineage (drawn from the table). calcParticipant: every non-sentinel result is dposTable[x % len(dposTable)] and is dominated by k < 512 (index into the 64-byte seed in range). Determinism: the functions reachable from the three selection functions and getParticipantSelectionSeed contain no wall-clock, random, environment or scheduler call, no go/select, and no range over a map (the two sets are membership-only). NOT decided: fairness of the draw, termination for adversarial tables, and that every node holds the same chain configuration (ledger state).",
		Run:       runC40,
	})
}

func runC40(c *core.Ctx) {
	checkProposersAlwaysInstalled(c, "C40.proposers-installed")
	checkRoleWindowPredicate(c)
	bp := c.Fn(pkVbft, "Server.buildParticipantConfig")
	cpp := c.Fn(pkVbft, "calcParticipantPeers")
	cp := c.Fn(pkVbft, "calcParticipant")
	seed := c.Fn(pkVbft, "getParticipantSelectionSeed")
	if bp == nil || cpp == nil || cp == nil || seed == nil {
		return
	}
	consts := map[string]int64{}
	for _, n := range []string{"MAX_PROPOSER_COUNT", "MAX_ENDORSER_COUNT", "MAX_COMMITTER_COUNT"} {
		v, err := c.P.Const(pkVbftCfg, n)
		if err != nil {
			c.Broken("anchor", bp, n, "", err.Error())
			return
		}
		k, _ := constInt64Val(v)
		consts[n] = k
	}
	P, E, Cm := consts["MAX_PROPOSER_COUNT"], consts["MAX_ENDORSER_COUNT"], consts["MAX_COMMITTER_COUNT"]

	// ---- buildParticipantConfig
	var chainP *ssa.Parameter
	for _, p := range bp.Params {
		if p.Name() == "chainCfg" {
			chainP = p
		}
	}
	if chainP == nil {
		c.Broken("C40.build", bp, "parameter chainCfg", c.P.Rel(bp.Pos()), "not found")
		return
	}
	isChain := func(v ssa.Value) bool { return ir.Strip(v) == ssa.Value(chainP) }
	calls := ir.Calls(bp, func(ci ssa.CallInstruction) bool { return ci.Common().StaticCallee() == cpp })
	c.Floor("calcParticipantPeers calls in buildParticipantConfig", len(calls), 3)
	wantWin := [][2]int64{{0, P}, {P, P + E}, {P + E, P + E + Cm}}
	roles := []string{"proposers", "endorsers", "committers"}
	var cfgAlloc ssa.Value
	for i, ci := range calls {
		a := ci.Common().Args
		role := sprintf("call #%d", i+1)
		if i < 3 {
			role = roles[i]
		}
		c.Decide(isChain(a[1]), "C40.build", bp, role+": selection uses the chainCfg argument", c.P.Rel(ci.Pos()), "configuration argument "+eng.AccessPath(a[1]))
		if i < 3 {
			s, ok1 := evalConstInt(a[2])
			e, ok2 := evalConstInt(a[3])
			c.Decide(ok1 && ok2 && s == wantWin[i][0] && e == wantWin[i][1], "C40.build", bp, role+sprintf(": window [%d,%d)", wantWin[i][0], wantWin[i][1]), c.P.Rel(ci.Pos()), sprintf("got [%d,%d) const %v/%v", s, e, ok1, ok2))
		}
		if cfgAlloc == nil {
			cfgAlloc = ir.Strip(a[0])
		} else {
			c.Decide(ir.Strip(a[0]) == cfgAlloc, "C40.build", bp, role+": same participant config object", c.P.Rel(ci.Pos()), "")
		}
	}
	succ := nonNilParamSuccess(bp)
	isC := isFieldOf("C", isChain)
	lenOfCall := func(k int) func(ssa.Value) bool {
		return func(v ssa.Value) bool {
			cl, ok := ir.Strip(v).(*ssa.Call)
			if !ok {
				return false
			}
			b, ok := cl.Common().Value.(*ssa.Builtin)
			if !ok || b.Name() != "len" || k >= len(calls) {
				return false
			}
			arg := ir.Strip(cl.Common().Args[0])
			if arg == ssa.Value(calls[k].(*ssa.Call)) {
				return true
			}
			// len(cfg.Endorsers) after cfg.Endorsers = call
			if base, f, okf := fieldLoad(arg); okf && ir.Strip(base) == cfgAlloc {
				for _, st := range fieldStoresOn(bp, cfgAlloc, f) {
					if ir.Strip(st.Val) == ssa.Value(calls[k].(*ssa.Call)) {
						return true
					}
				}
			}
			return false
		}
	}
	cPlus := func(k int64) func(ssa.Value) bool {
		return func(v ssa.Value) bool {
			b, ok := ir.Strip(v).(*ssa.BinOp)
			if !ok || b.Op != token.ADD || !isC(b.X) {
				return false
			}
			x, okk := ir.ConstInt(b.Y)
			return okk && x == k
		}
	}
	twoC := func(v ssa.Value) bool {
		b, ok := ir.Strip(v).(*ssa.BinOp)
		if !ok || b.Op != token.MUL {
			return false
		}
		if x, okk := ir.ConstInt(b.X); okk && x == 2 && isC(b.Y) {
			return true
		}
		x, okk := ir.ConstInt(b.Y)
		return okk && x == 2 && isC(b.X)
	}
	if len(calls) >= 3 {
		eng.Dominates(c, "C40.build", bp, relGuard("len(proposers) >= C+1", lenOfCall(0), cPlus(1), token.GEQ), succ, "configuration returned", nil)
		eng.Dominates(c, "C40.build", bp, relGuard("len(endorsers) >= 2C", lenOfCall(1), twoC, token.GEQ), succ, "configuration returned", nil)
		eng.Dominates(c, "C40.build", bp, relGuard("len(committers) >= 2C", lenOfCall(2), twoC, token.GEQ), succ, "configuration returned", nil)
		// stored fields
		check := func(field string, k int, pred func(v ssa.Value) bool, what string) {
			sts := fieldStoresOn(bp, cfgAlloc, field)
			ok := len(sts) >= 1
			for _, st := range sts {
				if !pred(st.Val) {
					ok = false
				}
			}
			c.Decide(ok, "C40.build", bp, "cfg."+field+" = "+what, c.P.Rel(bp.Pos()), sprintf("%d store(s)", len(sts)))
		}
		check("Proposers", 0, func(v ssa.Value) bool {
			sl, ok := v.(*ssa.Slice)
			return ok && sl.Low == nil && sl.High != nil && cPlus(1)(sl.High) && ir.Strip(sl.X) == ssa.Value(calls[0].(*ssa.Call))
		}, "proposers[:C+1]")
		check("Endorsers", 1, func(v ssa.Value) bool { return ir.Strip(v) == ssa.Value(calls[1].(*ssa.Call)) }, "the endorser selection")
		check("Committers", 2, func(v ssa.Value) bool { return ir.Strip(v) == ssa.Value(calls[2].(*ssa.Call)) }, "the committer selection")
		check("ChainConfig", -1, isChain, "chainCfg")
		check("Vrf", -1, func(v ssa.Value) bool {
			cl, _ := ir.CallOf(v)
			if cl != nil && cl.Common().StaticCallee() == seed {
				return true
			}
			// … or what a same-package helper answers, itself the seed of the block it was handed
			via, release := valueVia(v)
			defer release()
			vc, _ := ir.CallOf(ir.Strip(via))
			return via != v && vc != nil && vc.Common().StaticCallee() == seed
		}, "getParticipantSelectionSeed(block)")
	}
	eng.Dominates(c, "C40.build", bp, eng.NamedGuard{Name: "seed.IsNil() == false", G: ir.BoolIs(func(cl *ssa.Call) bool {
		o := ir.CalleeObj(cl)
		return o != nil && o.Name() == "IsNil"
	}, false)}, succ, "configuration returned", nil)

	// ---- calcParticipantPeers
	{
		fn := cpp
		cfgP, chP := fn.Params[0], fn.Params[1]
		var draw *ssa.Call
		for _, ci := range ir.Calls(fn, func(ci ssa.CallInstruction) bool { return ci.Common().StaticCallee() == cp }) {
			if draw != nil {
				c.Broken("C40.select", fn, "single calcParticipant draw per iteration", c.P.Rel(ci.Pos()), "several draws")
			}
			draw, _ = ci.(*ssa.Call)
		}
		if draw == nil {
			c.Broken("C40.select", fn, "calcParticipant call", c.P.Rel(fn.Pos()), "not found")
			return
		}
		a := draw.Common().Args
		okArgs := isFieldOf("Vrf", func(b ssa.Value) bool { return ir.Strip(b) == ssa.Value(cfgP) })(a[0]) &&
			isFieldOf("PosTable", func(b ssa.Value) bool { return ir.Strip(b) == ssa.Value(chP) })(a[1])
		_, isIdxPhi := ir.Strip(a[2]).(*ssa.Phi)
		c.Decide(okArgs && isIdxPhi, "C40.select", fn, "id = calcParticipant(cfg.Vrf, chain.PosTable, uint32(i))", c.P.Rel(draw.Pos()), "")
		// sets
		var selected, leading ssa.Value
		var appends []*ssa.Call
		for _, b := range fn.Blocks {
			for _, in := range b.Instrs {
				switch x := in.(type) {
				case *ssa.MapUpdate:
					if ir.Strip(x.Key) == ssa.Value(draw) {
						selected = x.Map
					} else {
						leading = x.Map
						// key must be an element of cfg.Proposers
						okLead := false
						if ld, ok := ir.Strip(x.Key).(*ssa.UnOp); ok {
							if ia, ok := ld.X.(*ssa.IndexAddr); ok {
								if bb, f, okf := fieldLoad(ia.X); okf && f == "Proposers" && ir.Strip(bb) == ssa.Value(cfgP) {
									okLead = true
								}
							}
						}
						c.Decide(okLead, "C40.select", fn, "the excluded set is filled from cfg.Proposers only", c.P.Rel(x.Pos()), "")
					}
				case *ssa.Call:
					if bi, ok := x.Common().Value.(*ssa.Builtin); ok && bi.Name() == "append" {
						appends = append(appends, x)
					}
				}
			}
		}
		c.Floor("appends to the selection", len(appends), 1)
		leadHost, leadMap := fn, leading
		if leading == nil {
			// the excluded set may be built by a same-package helper and handed back
			for _, b := range fn.Blocks {
				for _, in := range b.Instrs {
					cl, isCl := in.(*ssa.Call)
					if !isCl || leading != nil {
						continue
					}
					h := cl.Common().StaticCallee()
					if h == nil || h.Pkg != fn.Pkg || len(h.Blocks) == 0 {
						continue
					}
					if _, isMap := cl.Type().Underlying().(*types.Map); !isMap {
						continue
					}
					via, release := valueVia(cl)
					mk, isMk := via.(*ssa.MakeMap)
					if !isMk {
						release()
						continue
					}
					defer release()
					nFill := 0
					for _, hb := range h.Blocks {
						for _, hin := range hb.Instrs {
							x, isMu := hin.(*ssa.MapUpdate)
							if !isMu || x.Map != ssa.Value(mk) {
								continue
							}
							nFill++
							okLead := false
							if ld, ok := ir.Strip(x.Key).(*ssa.UnOp); ok {
								if ia, ok := ld.X.(*ssa.IndexAddr); ok {
									if bb, f, okf := fieldLoad(ia.X); okf && f == "Proposers" && ir.Strip(bb) == ssa.Value(cfgP) {
										okLead = true
									}
								}
							}
							c.Decide(okLead, "C40.select", fn, "the excluded set is filled from cfg.Proposers only", c.P.Rel(x.Pos()), "in helper "+h.Name())
						}
					}
					if nFill > 0 {
						leading, leadHost, leadMap = cl, h, mk
						c.Attribute(h, fn)
					}
				}
			}
		}
		if leading == nil {
			// … or created here and filled by a same-package helper it is handed to (`markLeading(set, cfg.Proposers, c)`)
			for _, ci := range ir.Calls(fn, nil) {
				h := ci.Common().StaticCallee()
				if h == nil || h == fn || h.Pkg != fn.Pkg || len(h.Blocks) == 0 || leading != nil {
					continue
				}
				for ai, a := range ci.Common().Args {
					mk, isMk := ir.Strip(a).(*ssa.MakeMap)
					if !isMk || ssa.Value(mk) == selected || ai >= len(h.Params) {
						continue
					}
					unbind := ir.BindParams(h, ci.Common().Args)
					nFill := 0
					for _, hb := range h.Blocks {
						for _, hin := range hb.Instrs {
							x, isMu := hin.(*ssa.MapUpdate)
							if !isMu || x.Map != ssa.Value(h.Params[ai]) {
								continue
							}
							nFill++
							okLead := false
							if ld, ok := ir.Strip(x.Key).(*ssa.UnOp); ok {
								if ia, ok := ld.X.(*ssa.IndexAddr); ok {
									if bb, f, okf := fieldLoad(ia.X); okf && f == "Proposers" && ir.Strip(bb) == ssa.Value(cfgP) {
										okLead = true
									}
								}
							}
							c.Decide(okLead, "C40.select", fn, "the excluded set is filled from cfg.Proposers only", c.P.Rel(x.Pos()), "in helper "+h.Name())
						}
					}
					if nFill > 0 {
						leading, leadHost, leadMap = mk, h, h.Params[ai]
						c.Attribute(h, fn)
						defer unbind()
					} else {
						unbind()
					}
				}
			}
		}
		if selected == nil || leading == nil {
			c.Broken("C40.select", fn, "already-selected set and leading-proposer set", c.P.Rel(fn.Pos()), "not found")
			return
		}
		checkLeadingProposerCount(c, leadHost, leadMap, chP)
		opt := &eng.Opt{Start: draw}
		// the set asked may be m itself, or the merge of m with a set created empty and never filled in fn
		// (the window that excludes nobody gets an empty set): absent from m's merge ⇐ absent from m
		neverFilled := func(v ssa.Value) bool {
			mk, isMk := v.(*ssa.MakeMap)
			if !isMk {
				return false
			}
			if refs := mk.Referrers(); refs != nil {
				for _, r := range *refs {
					switch r.(type) {
					case *ssa.Lookup, *ssa.Phi, *ssa.DebugRef:
					default:
						return false
					}
				}
			}
			return true
		}
		isSet := func(x, m ssa.Value) bool {
			if x == m {
				return true
			}
			ph, isPhi := x.(*ssa.Phi)
			if !isPhi {
				return false
			}
			hasM := false
			for _, e := range ph.Edges {
				switch {
				case e == m:
					hasM = true
				case neverFilled(e):
				default:
					return false
				}
			}
			return hasM
		}
		miss := func(m ssa.Value, name string) eng.NamedGuard {
			return eng.NamedGuard{Name: name, G: func(cd ir.Cond) (bool, bool) {
				// plain lookup `set[id]` of a set that only ever stores true: true means present
				if lk, isLk := cd.V.(*ssa.Lookup); isLk && !lk.CommaOk && isSet(lk.X, m) && ir.Strip(lk.Index) == ssa.Value(draw) && c40OnlyTrueStored(fn, m) {
					return true, false
				}
				ex, ok := cd.V.(*ssa.Extract)
				if !ok || ex.Index != 1 {
					return false, false
				}
				lk, ok := ex.Tuple.(*ssa.Lookup)
				if !ok || !isSet(lk.X, m) || ir.Strip(lk.Index) != ssa.Value(draw) {
					return false, false
				}
				return true, false
			}}
		}
		windowTest := func(cl *ssa.Call) bool {
			f := cl.Common().StaticCallee()
			return f != nil && f.Name() == "checkCalcEndorserOrCommitter" && ir.Strip(cl.Common().Args[0]) == ssa.Value(fn.Params[3])
		}
		for _, ap := range appends {
			el := eng.VariadicElems(ap.Common().Args[1])
			c.Decide(len(el) == 1 && ir.Strip(el[0]) == ssa.Value(draw), "C40.select", fn, "the element appended is the drawn id", c.P.Rel(ap.Pos()), "")
			one := []ir.Sink{{Instr: ap, Note: "append to the selection"}}
			eng.Dominates(c, "C40.select", fn, relGuard("id != MaxUint32", func(v ssa.Value) bool { return ir.Strip(v) == ssa.Value(draw) }, isConstInt(4294967295), token.NEQ), one, "append to the selection", opt)
			eng.Dominates(c, "C40.select", fn, miss(selected, "id not yet selected"), one, "append to the selection", opt)
			lead := miss(leading, "id not a leading proposer")
			eng.Dominates(c, "C40.select", fn, eng.NamedGuard{Name: "proposer window ∨ id not a leading proposer", G: ir.Or(ir.BoolIs(windowTest, false), lead.G)}, one, "append to the selection", opt)
			// recorded in the same block
			rec := false
			for _, in := range ap.Block().Instrs {
				if mu, ok := in.(*ssa.MapUpdate); ok && mu.Map == selected && ir.Strip(mu.Key) == ssa.Value(draw) {
					rec = true
				}
			}
			c.Decide(rec, "C40.select", fn, "the appended id is recorded as selected in the same block", c.P.Rel(ap.Pos()), "")
		}
		// returned values: empty literal or the append lineage
		okRet := true
		nRet := 0
		for _, b := range fn.Blocks {
			for _, in := range b.Instrs {
				r, ok := in.(*ssa.Return)
				if !ok {
					continue
				}
				nRet++
				for _, l := range eng.PhiLeaves(nil, r.Results[0]) {
					switch x := l.(type) {
					case *ssa.MakeSlice:
						if k, okk := ir.ConstInt(x.Len); !okk || k != 0 {
							okRet = false
						}
					case *ssa.Slice:
						if al, isAl := x.X.(*ssa.Alloc); !isAl || !strings.Contains(al.Type().String(), "[0]") {
							okRet = false
						}
					case *ssa.Call:
						isApp := false
						for _, ap := range appends {
							if x == ap {
								isApp = true
							}
						}
						if !isApp {
							okRet = false
						}
					default:
						okRet = false
					}
				}
			}
		}
		c.Decide(okRet && nRet >= 1, "C40.select", fn, "every returned slice is empty or built only by these appends", c.P.Rel(fn.Pos()), sprintf("%d return(s)", nRet))
		// the append's base is the peers lineage too
		for _, ap := range appends {
			okBase := true
			for _, l := range eng.PhiLeaves(nil, ap.Common().Args[0]) {
				switch x := l.(type) {
				case *ssa.MakeSlice:
				case *ssa.Slice:
					if al, isAl := x.X.(*ssa.Alloc); !isAl || !strings.Contains(al.Type().String(), "[0]") {
						okBase = false
					}
				case *ssa.Call:
					isApp := false
					for _, a2 := range appends {
						if x == a2 {
							isApp = true
						}
					}
					okBase = okBase && isApp
				default:
					okBase = false
				}
			}
			c.Decide(okBase, "C40.select", fn, "appends extend only the selection itself", c.P.Rel(ap.Pos()), "")
		}
	}

	// ---- calcParticipant
	{
		fn := cp
		tableP, kP := fn.Params[1], fn.Params[2]
		var sinks []ir.Sink
		okIdx := true
		for _, b := range fn.Blocks {
			for _, in := range b.Instrs {
				r, ok := in.(*ssa.Return)
				if !ok {
					continue
				}
				if k, okk := ir.ConstInt(r.Results[0]); okk && k == 4294967295 {
					continue
				}
				sinks = append(sinks, ir.Sink{Instr: r, Note: "table element returned"})
				ld, ok := ir.Strip(r.Results[0]).(*ssa.UnOp)
				if !ok {
					okIdx = false
					continue
				}
				ia, ok := ld.X.(*ssa.IndexAddr)
				if !ok || ir.Strip(ia.X) != ssa.Value(tableP) {
					okIdx = false
					continue
				}
				rem, ok := ir.Strip(ia.Index).(*ssa.BinOp)
				if !ok || rem.Op != token.REM {
					okIdx = false
					continue
				}
				if !eng.IsLenOf(func(v ssa.Value) bool { return ir.Strip(v) == ssa.Value(tableP) })(ir.Strip(rem.Y)) {
					okIdx = false
				}
			}
		}
		c.Decide(okIdx && len(sinks) >= 1, "C40.draw", fn, "every non-sentinel result is dposTable[x % len(dposTable)]", c.P.Rel(fn.Pos()), sprintf("%d return(s)", len(sinks)))
		if len(sinks) > 0 {
			eng.Dominates(c, "C40.draw", fn, relGuard("k < 512", func(v ssa.Value) bool { return ir.Strip(v) == ssa.Value(kP) }, isConstInt(512), token.LSS), sinks, "table element returned", nil)
		}
	}

	// ---- determinism
	{
		cg := c.P.CG()
		stop := func(f *ssa.Function) bool {
			if f.Pkg == nil {
				return false
			}
			_, ex := c16Exclude[f.Pkg.Pkg.Path()]
			return ex
		}
		reach := cg.Reachable([]*ssa.Function{cpp, cp, seed}, stop)
		var fns []*ssa.Function
		for f := range reach {
			if len(f.Blocks) > 0 && !stop(f) {
				fns = append(fns, f)
			}
		}
		sort.Slice(fns, func(i, j int) bool { return fns[i].String() < fns[j].String() })
		var bad []string
		for _, f := range fns {
			c.Touch(f)
			for _, b := range f.Blocks {
				for _, in := range b.Instrs {
					switch x := in.(type) {
					case *ssa.Go:
						bad = append(bad, "go statement in "+ir.FuncName(f))
					case *ssa.Select:
						bad = append(bad, "select in "+ir.FuncName(f))
					case *ssa.Range:
						if _, isMap := x.X.Type().Underlying().(*types.Map); isMap {
							bad = append(bad, "range over a map in "+ir.FuncName(f)+" @ "+c.P.Rel(x.Pos()))
						}
					case ssa.CallInstruction:
						for _, s := range c16Sinks {
							if ir.IsPkgFunc(x, s.pkg, s.names...) {
								bad = append(bad, s.what+" in "+ir.FuncName(f)+" @ "+c.P.Rel(x.Pos()))
							}
						}
					}
				}
			}
		}
		c.Decide(len(bad) == 0, "C40.deterministic", "selection functions", sprintf("no clock/random/environment/map-order dependence in the %d functions reachable from the selection", len(fns)), "", strings.Join(bad, "; "))
		c.Floor("functions reachable from the selection", len(fns), 4)
	}
}

// c40OnlyTrueStored: every update of the set m visible in fn (and in same-package helpers m is handed to)
// stores the constant true, so a plain lookup m[k] answers membership.
func c40OnlyTrueStored(fn *ssa.Function, m ssa.Value) bool {
	ok := true
	scan := func(f *ssa.Function, mv ssa.Value) {
		for _, b := range f.Blocks {
			for _, in := range b.Instrs {
				if mu, isMu := in.(*ssa.MapUpdate); isMu && mu.Map == mv {
					if k, isK := ir.ConstBool(mu.Value); !isK || !k {
						ok = false
					}
				}
			}
		}
	}
	scan(fn, m)
	for _, ci := range ir.Calls(fn, nil) {
		h := ci.Common().StaticCallee()
		if h == nil || h.Pkg != fn.Pkg || len(h.Blocks) == 0 {
			continue
		}
		for ai, a := range ci.Common().Args {
			if a == m && ai < len(h.Params) {
				scan(h, h.Params[ai])
			}
		}
	}
	return ok
}
