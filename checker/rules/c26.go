package rules

import (
	"go/token"
	"go/types"

	"golang.org/x/tools/go/ssa"

	"polyverif/core"
	"polyverif/eng"
	"polyverif/ir"
)

// C26 — BTC coin selection conserves UTXO value.

func init() {
	core.Register(&core.Check{
		ID: "C26", Level: "other", Title: "BTC coin selection conserves UTXO value",
		Technique: "paired-update analysis by path enumeration + call ordering + value flow",
		Explain:   "CoinSelector.SortedSearch: the loop-carried pair (selection, sum) is evaluated symbolically along EVERY path of one loop iteration (paths enumerated on the CFG): the multiset of elements appended / truncated / replaced in the selection must equal the multiset of element values added to / subtracted from sum (append u ↔ +u.Value, drop the just-appended element ↔ −u.Value, replace last ↔ −last.Value + u.Value); both returns hand back that same pair. SimpleBnbSearch: at each recursive call the selection argument and the sum argument change by the same element, and the values returned are the parameters or the recursive results. Select returns the results of the two searches unchanged. chooseUtxos: on the path to the success return the selected outputs are appended to the spent set and stored (putStxos), removed from the unspent list and stored (putUtxos), both under the same (chain, key), the total returned is the selector's second result, and an empty selection is an error. makeBtcTx: the change output's value is (selector's input total) − (the payment amount handed to the selector), the fee being taken proportionally from the payment outputs. NOT decided: search optimality, the minimum-change inequality itself, the fee model.",
		Run:       runC26,
	})
}

func runC26(c *core.Ctx) {
	checkSelectorBoundsFromConfig(c, "C26.bounds-from-config")
	checkBnbMiddleAgrees(c)
	checkCoinSelectorArithmetic(c)
	ss := c.Fn(pkBtc, "CoinSelector.SortedSearch")
	if ss != nil {
		// the two loop-carried phis: a []*Utxo and a uint64 that is returned with it
		var selPhi, sumPhi *ssa.Phi
		var header *ssa.BasicBlock
		for _, b := range ss.Blocks {
			ret, ok := b.Instrs[len(b.Instrs)-1].(*ssa.Return)
			if !ok || len(ret.Results) != 3 {
				continue
			}
			for _, l := range eng.PhiLeaves(nil, ret.Results[0]) {
				_ = l
			}
			if p, ok := ret.Results[0].(*ssa.Phi); ok {
				if q, ok2 := ret.Results[1].(*ssa.Phi); ok2 && p.Block() == q.Block() {
					selPhi, sumPhi, header = p, q, p.Block()
				}
			}
		}
		if selPhi == nil {
			c.Broken("C26.paired-update", ss, "loop-carried (selection, sum)", c.P.Rel(ss.Pos()), "not found")
		} else {
			res := eng.PairedLoop(ss, header, selPhi, sumPhi, "Value")
			c.Floor("iteration paths of SortedSearch", res.Paths, 2)
			if len(res.Mismatch) == 0 {
				c.Hold("C26.paired-update", ss, "selection and sum move in lock-step on every iteration path", c.P.Rel(header.Instrs[0].Pos()), sprintf("%d paths", res.Paths))
			}
			for _, m := range res.Mismatch {
				c.Violate("C26.paired-update", ss, "selection and sum move in lock-step on every iteration path", c.P.Rel(header.Instrs[0].Pos()), m)
			}
			// returns hand back that pair (or nil,0,0)
			okRet := true
			for _, b := range ss.Blocks {
				ret, ok := b.Instrs[len(b.Instrs)-1].(*ssa.Return)
				if !ok {
					continue
				}
				if ir.IsNilConst(ret.Results[0]) {
					if k, okk := ir.ConstInt(ret.Results[1]); !okk || k != 0 {
						okRet = false
					}
					continue
				}
				r0, r1 := ret.Results[0], ret.Results[1]
				pairOK := (r0 == ssa.Value(selPhi) && r1 == ssa.Value(sumPhi))
				if !pairOK {
					// inside the loop: (selection-lineage, sum value of the same path) — accept same-block phis only
					p0, a := r0.(*ssa.Phi)
					p1, bb := r1.(*ssa.Phi)
					pairOK = a && bb && p0.Block() == p1.Block()
				}
				if !pairOK {
					okRet = false
				}
			}
			c.Decide(okRet, "C26.paired-update", ss, "every return hands back the (selection, sum) pair of the same state, or (nil, 0, 0)", c.P.Rel(ss.Pos()), "")
		}
	}
	// SimpleBnbSearch recursion
	if bnb := c.Fn(pkBtc, "CoinSelector.SimpleBnbSearch"); bnb != nil {
		self := bnb.Object()
		n := 0
		for _, ci := range ir.Calls(bnb, nil) {
			f := ci.Common().StaticCallee()
			if f == nil || f.Object() != self {
				continue
			}
			n++
			a := ci.Common().Args // recv, depth, selection, sum
			selArg, sumArg := a[2], a[3]
			isSelParam := func(v ssa.Value) bool { p, ok := v.(*ssa.Parameter); return ok && p.Name() == "selection" }
			isSumParam := func(v ssa.Value) bool { p, ok := v.(*ssa.Parameter); return ok && p.Name() == "sum" }
			ok := false
			switch {
			case isSelParam(selArg) && isSumParam(sumArg):
				ok = true
			default:
				if ap, isCall := selArg.(*ssa.Call); isCall {
					if bi, isB := ap.Common().Value.(*ssa.Builtin); isB && bi.Name() == "append" && isSelParam(ap.Common().Args[0]) {
						els := eng.VariadicElems(ap.Common().Args[1])
						if add, isAdd := sumArg.(*ssa.BinOp); isAdd && add.Op == token.ADD && isSumParam(add.X) && len(els) == 1 {
							// add.Y = <elem>.Value where elem is the appended element
							if base, f, okf := fieldLoad(add.Y); okf && f == "Value" && sameValue(base, els[0]) {
								ok = true
							}
						}
					}
				}
			}
			c.Decide(ok, "C26.paired-update", bnb, "recursive call passes (selection, sum) changed by the same element", c.P.Rel(ci.Pos()), "")
		}
		c.Floor("recursive calls in SimpleBnbSearch", n, 2)
	}
	// Select returns the searches' results unchanged
	if sel := c.Fn(pkBtc, "CoinSelector.Select"); sel != nil {
		ok := true
		for _, b := range sel.Blocks {
			ret, isRet := b.Instrs[len(b.Instrs)-1].(*ssa.Return)
			if !isRet || ir.IsNilConst(ret.Results[0]) {
				continue
			}
			c0, i0 := ir.CallOf(ret.Results[0])
			c1, i1 := ir.CallOf(ret.Results[1])
			if c0 == nil || c0 != c1 || i0 != 0 || i1 != 1 {
				ok = false
			}
		}
		c.Decide(ok, "C26.paired-update", sel, "Select returns (result, sum) of one search call unchanged", c.P.Rel(sel.Pos()), "")
	}

	// chooseUtxos
	cu := c.Fn(pkBtc, "chooseUtxos")
	if cu == nil {
		return
	}
	selObj := eng.Obj(c, pkBtc, "CoinSelector.Select")
	pst := eng.Obj(c, pkBtc, "putStxos")
	put := eng.Obj(c, pkBtc, "putUtxos")
	gst := eng.Obj(c, pkBtc, "getStxos")
	gut := eng.Obj(c, pkBtc, "getUtxos")
	if selObj == nil || pst == nil || put == nil || gst == nil || gut == nil {
		return
	}
	succ := nonNilParamSuccess(cu)
	eng.MustPassCall(c, "C26.spent-recorded", cu, "putStxos", eng.CallPred(pst), succ, "success return", nil)
	eng.MustPassCall(c, "C26.unspent-removed", cu, "putUtxos", eng.CallPred(put), succ, "success return", nil)
	var selCall *ssa.Call
	for _, ci := range ir.CallsTo(cu, selObj) {
		selCall, _ = ci.(*ssa.Call)
	}
	if selCall == nil {
		c.Broken("C26.spent-recorded", cu, "Select call", c.P.Rel(cu.Pos()), "not found")
		return
	}
	isResult := func(v ssa.Value) bool { cl, idx := ir.CallOf(v); return cl == selCall && idx == 0 }
	// empty selection is an error
	eng.Dominates(c, "C26.spent-recorded", cu, eng.NamedGuard{Name: "selection non-empty", G: func(cd ir.Cond) (bool, bool) {
		if x, neq, ok := ir.NilCmp(cd.V); ok && isResult(x) {
			return true, neq
		}
		// len(result) != 0 in any of its integer forms (== 0, < 1, > 0, >= 1 …)
		return relGuard("len(selection) != 0", eng.IsLenOf(isResult), isConstInt(0), token.NEQ).G(cd)
	}}, succ, "success return", nil)
	// stxos.Utxos = append(stxos.Utxos, result...) then putStxos(stxos)
	okAppend := false
	for _, b := range cu.Blocks {
		for _, in := range b.Instrs {
			st, ok := in.(*ssa.Store)
			if !ok {
				continue
			}
			fa, isFA := st.Addr.(*ssa.FieldAddr)
			if !isFA || fieldNameOf(fa) != "Utxos" || !isCallTo(fa.X, gst) {
				continue
			}
			if ap, isCall := st.Val.(*ssa.Call); isCall {
				if bi, isB := ap.Common().Value.(*ssa.Builtin); isB && bi.Name() == "append" && isResult(ap.Common().Args[1]) {
					if base, f, okf := fieldLoad(ap.Common().Args[0]); okf && f == "Utxos" && isCallTo(base, gst) {
						okAppend = true
					}
				}
			}
		}
	}
	c.Decide(okAppend, "C26.spent-recorded", cu, "spent set := spent set ++ selected outputs", c.P.Rel(cu.Pos()), "")
	for _, p := range ir.CallsTo(cu, pst) {
		a := p.Common().Args
		c.Decide(isCallTo(a[3], gst), "C26.spent-recorded", cu, "putStxos stores the updated spent set", c.P.Rel(p.Pos()), "")
	}
	for _, p := range ir.CallsTo(cu, put) {
		a := p.Common().Args
		c.Decide(isCallTo(a[3], gut), "C26.unspent-removed", cu, "putUtxos stores the reduced unspent list", c.P.Rel(p.Pos()), "")
	}
	// same (chain, key) for get/put of both sets
	var keys []ssa.Value
	for _, ci := range ir.CallsTo(cu, pst, put, gst, gut) {
		a := ci.Common().Args
		keys = append(keys, a[1], a[2])
	}
	okKey := len(keys) >= 8
	for i := 2; i < len(keys); i += 2 {
		if !sameValue(keys[i], keys[0]) || !sameValue(keys[i+1], keys[1]) {
			okKey = false
		}
	}
	c.Decide(okKey, "C26.unspent-removed", cu, "unspent and spent sets are read and written under one (chain, redeem key)", c.P.Rel(cu.Pos()), "")
	// the removal loop removes elements matched against the selected outputs: the inner comparison involves the selected element's Op
	okRm := false
	// (the loop may live in chooseUtxos itself or in a same-package helper it calls)
	scan := []*ssa.Function{cu}
	for _, ci := range ir.Calls(cu, nil) {
		if h := ci.Common().StaticCallee(); h != nil && h != cu && h.Pkg == cu.Pkg && len(h.Blocks) > 0 {
			scan = append(scan, h)
		}
	}
	for _, f := range scan {
		for _, cd := range ir.Conds(f) {
			if b, ok := cd.V.(*ssa.BinOp); ok && (b.Op == token.NEQ || b.Op == token.EQL) {
				l, r := calleeNamed(b.X, "String"), calleeNamed(b.Y, "String")
				if l != nil && r != nil {
					okRm = true
				}
			}
		}
	}
	c.Decide(okRm, "C26.unspent-removed", cu, "outputs are removed by matching outpoints of the selected outputs", c.P.Rel(cu.Pos()), "")
	// totals returned are the selector's
	for _, s := range succ {
		ret := s.Instr.(*ssa.Return)
		cv, ok := ret.Results[1].(*ssa.Convert)
		okS := ok && func() bool { cl, idx := ir.CallOf(cv.X); return cl == selCall && idx == 1 }()
		c.Decide(okS && isResult(ret.Results[0]), "C26.total-is-selectors", cu, "returns the selected outputs and the selector's input total", c.P.Rel(ret.Pos()), "")
	}
	// makeBtcTx change = sum − amount − fee
	if mk := c.Fn(pkBtc, "makeBtcTx"); mk != nil {
		cuObj := eng.Obj(c, pkBtc, "chooseUtxos")
		found := false
		for _, b := range mk.Blocks {
			for _, in := range b.Instrs {
				sub, ok := in.(*ssa.BinOp)
				if !ok || sub.Op != token.SUB {
					continue
				}
				// out.Value = sum − amountSum (the fee is deducted proportionally from the payment outputs)
				isSum := func(v ssa.Value) bool {
					cl, idx := ir.CallOf(v)
					return cl != nil && idx == 1 && ir.CalleeIs(cl, cuObj)
				}
				if !isSum(sub.X) {
					continue
				}
				// amountSum: the value passed to chooseUtxos as the payment
				for _, cc := range ir.CallsTo(mk, cuObj) {
					if ir.Strip(cc.Common().Args[2]) == ir.Strip(sub.Y) {
						// and the difference is stored into the change output's Value
						for _, ref := range *sub.Referrers() {
							if st, isSt := ref.(*ssa.Store); isSt {
								if fa, isFA := st.Addr.(*ssa.FieldAddr); isFA && fieldNameOf(fa) == "Value" {
									found = true
								}
							}
						}
					}
				}
			}
		}
		c.Decide(found, "C26.change", mk, "change output = selector's input total − the payment amount given to the selector", c.P.Rel(mk.Pos()), "")
	}
	_ = types.Typ
}
