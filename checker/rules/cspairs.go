package rules

import (
	"go/types"
	"sort"
	"strings"

	"golang.org/x/tools/go/ssa"

	"polyverif/core"
	"polyverif/eng"
	"polyverif/ir"
)

// Codec pairing shared by C02, C04, C05: for every named type of the module
// that has both directions of a codec, the writer's and the reader's ordered
// lists of wire kinds must agree.

type codecPair struct {
	Type   *types.Named
	Pkg    string // module-relative package path
	Style  string // "zc" (ZeroCopySink/Source) or "io" (io.Writer/io.Reader)
	Writer *ssa.Function
	Reader *ssa.Function
}

func (p codecPair) Name() string { return p.Pkg + "." + p.Type.Obj().Name() + "/" + p.Style }

func codecPairs(c *core.Ctx) []codecPair {
	var out []codecPair
	for _, pk := range c.P.Mod {
		if pk.SSA == nil || pk.Types == nil {
			continue
		}
		sc := pk.Types.Scope()
		names := sc.Names()
		sort.Strings(names)
		for _, n := range names {
			tn, ok := sc.Lookup(n).(*types.TypeName)
			if !ok {
				continue
			}
			nt, ok := tn.Type().(*types.Named)
			if !ok {
				continue
			}
			if _, isIface := nt.Underlying().(*types.Interface); isIface {
				continue
			}
			pt := types.NewPointer(nt)
			rel := strings.TrimPrefix(pk.Types.Path(), ir.Mod+"/")
			for _, st := range [][3]string{{"zc", "Serialization", "Deserialization"}, {"io", "Serialize", "Deserialize"}} {
				w := declaredMethod(pk.SSA.Prog, nt, pk.Types, st[1])
				r := declaredMethod(pk.SSA.Prog, nt, pk.Types, st[2])
				_ = pt
				if w == nil || r == nil || len(w.Blocks) == 0 || len(r.Blocks) == 0 {
					continue // absent, or only promoted through embedding (checked on the embedded type)
				}
				out = append(out, codecPair{nt, rel, st[0], w, r})
			}
		}
	}
	return out
}

// declaredMethod: the method `name` declared on nt itself with a value or a pointer
// receiver (not a wrapper synthesised for the other receiver kind or for embedding).
func declaredMethod(prog *ssa.Program, nt *types.Named, pkg *types.Package, name string) *ssa.Function {
	for _, t := range []types.Type{nt, types.NewPointer(nt)} {
		if f := methodOf(prog, t, pkg, name); f != nil && f.Synthetic == "" {
			return f
		}
	}
	return nil
}

// codecException: pairs whose kind lists legitimately differ (frozen, one reason each).
var codecExceptions = map[string]string{}

// checkCodecPairs decides kind-list agreement for the pairs selected by `sel`.
func checkCodecPairs(c *core.Ctx, rule string, sel func(p codecPair) bool) int {
	n := 0
	for _, p := range codecPairs(c) {
		if !sel(p) {
			continue
		}
		n++
		w := eng.FlatCodec(p.Writer)
		r := eng.FlatCodec(p.Reader)
		wk, rk := eng.NormalizedKinds(w), eng.NormalizedKinds(r)
		ws, rs := strings.Join(wk, " "), strings.Join(rk, " ")
		c.Touch(p.Writer, p.Reader)
		if why, ok := codecExceptions[p.Name()]; ok {
			c.Hold(rule, p.Name(), "writer and reader perform the same ordered wire operations (frozen exception)", c.P.Rel(p.Writer.Pos()), why+": writer ["+ws+"] reader ["+rs+"]")
			continue
		}
		okKinds := ws == rs
		// fields where both sides resolve
		var fieldDiff []string
		if okKinds && len(wk) == len(w) && len(rk) == len(r) {
			for i := range w {
				if w[i].Field != "" && r[i].Field != "" && w[i].Field != r[i].Field {
					fieldDiff = append(fieldDiff, sprintf("#%d %s: writer %s, reader %s", i+1, w[i].Kind, w[i].Field, r[i].Field))
				}
			}
		}
		detail := "[" + ws + "]"
		if !okKinds {
			detail = "writer [" + ws + "]  reader [" + rs + "]"
		}
		if len(fieldDiff) > 0 {
			detail += " field mismatch: " + strings.Join(fieldDiff, "; ")
		}
		c.Decide(okKinds && len(fieldDiff) == 0, rule, p.Name(), "writer and reader perform the same ordered wire operations", c.P.Rel(p.Writer.Pos()), detail)
	}
	return n
}
