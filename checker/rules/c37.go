package rules

import (
	"go/token"
	"go/types"

	"golang.org/x/tools/go/ssa"

	"polyverif/core"
	"polyverif/eng"
	"polyverif/ir"
)

// C37 — transaction pool bookkeeping is consistent under concurrency.

const pkTxCom = "txnpool/common"
const pkTxProc = "txnpool/proc"

func init() {
	core.Register(&core.Check{
		ID: "C37", Level: "other", Title: "Transaction pool bookkeeping is consistent under concurrency",
		Technique: "lock discipline (per-object lockset over SSA with call-site transfer), key/value agreement of map writes, guard dominance and loop-exit reasoning",
		Explain:   "Structural necessary conditions decided on the SSA of txnpool/common and txnpool/proc. (LS) Frozen guard table — TXPool.txList by the embedded RWMutex; TXPoolServer.{allPendingTxs,height,gasPrice} by mu; pendingBlock.{sender,height,processedTxs,unProcessedTxs} by mu; registerValidators.{entries,state} and txStats.count by their embedded RWMutex: every read holds the mutex of the same object shared or exclusive, every write (field store, map insert, delete, element store) holds it exclusively, on every path; helpers are discharged at their call sites; freshly allocated objects are exempt. (Keys) every insertion txList[k] = e has k = e.Tx.Hash() and is dominated by the miss edge of a lookup of the same key under the same critical section (no two entries per hash); allPendingTxs likewise. (GetTxPool) an entry is appended to the returned list only on the compareTxHeight==true edge, the others go to the old list; the loop leaves as soon as num >= count with num incremented once per append, and count <= MaxTxInBlock when byCount. (Clean) CleanTransactionList/DelTxList/GetUnverifiedTxs delete only keys computed as Hash() of the given transactions (or of the Tx of an entry just read from the pool, whose key is that hash by the key rule). NOT decided: linearizability of interleavings; the capacity test (slots/MAX_LIMITATION) is a check-then-act outside one critical section and is not claimed.",
		Run:       runC37,
	})
}

var c37Guards = []eng.LSGuard{
	{Pkg: pkTxCom, Type: "TXPool", Mutex: "RWMutex", Fields: []string{"txList"}},
	{Pkg: pkTxProc, Type: "TXPoolServer", Mutex: "mu", Fields: []string{"allPendingTxs", "height", "gasPrice"}},
	{Pkg: pkTxProc, Type: "pendingBlock", Mutex: "mu", Fields: []string{"sender", "height", "processedTxs", "unProcessedTxs"}},
	{Pkg: pkTxProc, Type: "registerValidators", Mutex: "RWMutex", Fields: []string{"entries", "state"}},
	{Pkg: pkTxProc, Type: "txStats", Mutex: "RWMutex", Fields: []string{"count"}},
}

func runC37(c *core.Ctx) {
	checkStaleVerdictNotRecorded(c)
	checkVerifyBlockSetsRequestHeight(c)
	var fns []*ssa.Function
	for _, p := range []string{pkTxCom, pkTxProc} {
		pk := c.P.Pkgs[ir.PkgPath(p)]
		if pk == nil || pk.SSA == nil {
			c.Broken("anchor", p, "package", "", "not loaded")
			return
		}
		fns = append(fns, allFuncs(pk.SSA)...)
	}
	total := 0
	for _, g := range c37Guards {
		r := eng.LockDiscipline(c, "C37.lock", g, fns, 4)
		c.Note("lock table %s.%s: %d accesses (%d writes)", g.Type, g.Mutex, r.Accesses, r.Writes)
		total += r.Accesses
	}
	c.Floor("guarded accesses in txnpool", total, 40)
	checkCheckThenInsertAtomic(c)

	// ---- insertion keys
	for _, spec := range []struct {
		pkg, fn, field, via string
	}{
		{pkTxCom, "TXPool.AddTxList", "txList", "Tx"},
		{pkTxProc, "TXPoolServer.setPendingTx", "allPendingTxs", "tx"},
	} {
		fn := c.Fn(spec.pkg, spec.fn)
		if fn == nil {
			continue
		}
		n := 0
		for _, b := range fn.Blocks {
			for _, in := range b.Instrs {
				mu, ok := in.(*ssa.MapUpdate)
				if !ok {
					continue
				}
				if _, f, okf := fieldLoad(mu.Map); !okf || f != spec.field {
					continue
				}
				n++
				// key = Hash() of the transaction stored in the value
				h := calleeNamed(mu.Key, "Hash")
				okKey := false
				if h != nil {
					txv := ir.Strip(h.Common().Args[0])
					// value: entry whose .Tx is txv (AddTxList: param txEntry, key txEntry.Tx.Hash()) or a
					// fresh serverPendingTx{tx: txv}
					if base, f, okf := fieldLoad(txv); okf && f == spec.via && ir.Strip(base) == ir.Strip(mu.Value) {
						okKey = true
					}
					if al, isAl := ir.Strip(mu.Value).(*ssa.Alloc); isAl {
						if refs := al.Referrers(); refs != nil {
							for _, r := range *refs {
								fa, isFa := r.(*ssa.FieldAddr)
								if !isFa || fieldNameOf(fa) != spec.via || fa.Referrers() == nil {
									continue
								}
								for _, u := range *fa.Referrers() {
									if st, isSt := u.(*ssa.Store); isSt && ir.Strip(st.Val) == txv {
										okKey = true
									}
								}
							}
						}
					}
				}
				c.Decide(okKey, "C37.key", fn, spec.field+"[k] = e has k = e."+spec.via+".Hash()", c.P.Rel(mu.Pos()), "")
				// dominated by a lookup miss of the same key
				eng.Dominates(c, "C37.key", fn, eng.NamedGuard{Name: spec.field + "[k] lookup misses", G: func(cd ir.Cond) (bool, bool) {
					var lk *ssa.Lookup
					wantTrue := false
					switch x := cd.V.(type) {
					case *ssa.Extract:
						if l, ok := x.Tuple.(*ssa.Lookup); ok && x.Index == 1 {
							lk, wantTrue = l, false
						}
					case *ssa.BinOp:
						if y, neq, ok := ir.NilCmp(x); ok {
							if l, isL := y.(*ssa.Lookup); isL {
								lk, wantTrue = l, !neq
							}
						}
					}
					if lk == nil {
						return false, false
					}
					if _, f, okf := fieldLoad(lk.X); !okf || f != spec.field {
						return false, false
					}
					if !sameValue(lk.Index, mu.Key) && !sameHashCall(lk.Index, mu.Key) {
						return false, false
					}
					return true, wantTrue
				}}, []ir.Sink{{Instr: mu, Note: "insertion"}}, "insertion into "+spec.field, nil)
			}
		}
		c.Floor("insertions into "+spec.field+" in "+spec.fn, n, 1)
	}
	// who may insert
	checkMapWriters(c, "C37.writers", pkTxCom, "TXPool", "txList", map[string]string{
		"(*txnpool/common.TXPool).AddTxList": "insert", "(*txnpool/common.TXPool).CleanTransactionList": "delete", "(*txnpool/common.TXPool).DelTxList": "delete",
		"(*txnpool/common.TXPool).GetUnverifiedTxs": "delete", "(*txnpool/common.TXPool).Remain": "delete",
	})

	// ---- deletes use the hash of the given transaction
	for _, name := range []string{"TXPool.CleanTransactionList", "TXPool.DelTxList", "TXPool.GetUnverifiedTxs"} {
		fn := c.Fn(pkTxCom, name)
		if fn == nil {
			continue
		}
		n := 0
		for _, b := range fn.Blocks {
			for _, in := range b.Instrs {
				cl, ok := in.(*ssa.Call)
				if !ok {
					continue
				}
				bi, ok := cl.Common().Value.(*ssa.Builtin)
				if !ok || bi.Name() != "delete" {
					continue
				}
				n++
				h := calleeNamed(cl.Common().Args[1], "Hash")
				okK := false
				if h != nil {
					rv := ir.Strip(h.Common().Args[0])
					// the tx parameter or an element of the txs parameter
					if p, isP := rv.(*ssa.Parameter); isP && p == fn.Params[1] {
						okK = true
					}
					if u, isU := rv.(*ssa.UnOp); isU {
						if ia, isIa := u.X.(*ssa.IndexAddr); isIa && ir.Strip(ia.X) == ssa.Value(fn.Params[1]) {
							okK = true
						}
					}
					// or the Tx of an entry read from txList itself (its key is its Tx.Hash(), C37.key)
					if eb, f, okf := fieldLoad(rv); okf && f == "Tx" {
						e := ir.Strip(eb)
						if ex, isEx := e.(*ssa.Extract); isEx {
							e = ex.Tuple
						}
						if lk, isLk := e.(*ssa.Lookup); isLk {
							if _, lf, okl := fieldLoad(lk.X); okl && lf == "txList" {
								okK = true
							}
						}
					}
				}
				c.Decide(okK, "C37.delete", fn, "delete(txList, k) has k = Hash() of a transaction given by the caller", c.P.Rel(cl.Pos()), "")
				// and is dominated by the hit edge of a lookup of that key
			}
		}
		c.Floor("deletes in "+name, n, 1)
	}

	// ---- GetTxPool
	if fn := c.Fn(pkTxCom, "TXPool.GetTxPool"); fn != nil {
		cth := eng.Obj(c, pkTxCom, "TXPool.compareTxHeight")
		if cth != nil {
			// result #0 is the phi-carried slice built by append(txList, txEntry)
			var goodApp, oldApp []*ssa.Call
			for _, b := range fn.Blocks {
				for _, in := range b.Instrs {
					cl, ok := in.(*ssa.Call)
					if !ok {
						continue
					}
					bi, ok := cl.Common().Value.(*ssa.Builtin)
					if !ok || bi.Name() != "append" {
						continue
					}
					el := eng.VariadicElems(cl.Common().Args[1])
					if len(el) != 1 {
						continue
					}
					if _, f, okf := fieldLoad(el[0]); okf && f == "Tx" {
						oldApp = append(oldApp, cl)
					} else if retReaches(fn, cl, 0) {
						goodApp = append(goodApp, cl)
					}
				}
			}
			c.Floor("append to the returned list in GetTxPool", len(goodApp), 1)
			c.Floor("append to the old list in GetTxPool", len(oldApp), 1)
			var sg, so []ir.Sink
			for _, a := range goodApp {
				sg = append(sg, ir.Sink{Instr: a, Note: "append to result"})
			}
			for _, a := range oldApp {
				so = append(so, ir.Sink{Instr: a, Note: "append to old list"})
			}
			eng.Dominates(c, "C37.gettxpool", fn, eng.NamedGuard{Name: "compareTxHeight(entry, height) == true", G: ir.BoolIs(func(cl *ssa.Call) bool {
				return ir.CalleeIs(cl, cth) && ir.Strip(cl.Common().Args[2]) == ssa.Value(fn.Params[2])
			}, true)}, sg, "append to the list handed to consensus", nil)
			eng.Dominates(c, "C37.gettxpool", fn, eng.NamedGuard{Name: "compareTxHeight(entry, height) == false", G: ir.BoolIs(func(cl *ssa.Call) bool {
				return ir.CalleeIs(cl, cth) && ir.Strip(cl.Common().Args[2]) == ssa.Value(fn.Params[2])
			}, false)}, so, "append to the re-verify list", nil)
			// the element appended is the element tested
			for _, a := range goodApp {
				el := eng.VariadicElems(a.Common().Args[1])[0]
				okSame := false
				for _, ci := range ir.CallsTo(fn, cth) {
					if sameValue(ci.Common().Args[1], el) {
						okSame = true
					}
				}
				c.Decide(okSame, "C37.gettxpool", fn, "the entry appended is the entry whose height was compared", c.P.Rel(a.Pos()), "")
				// count bound: after the append, num+1 >= count leaves the loop
				okBound := false
				var detail string
				for _, cd := range ir.Conds(fn) {
					b, ok := cd.V.(*ssa.BinOp)
					if !ok || b.Op != token.GEQ {
						continue
					}
					// the number appended so far: a counter bumped with the append, or the length of the list
					// just appended to
					add, isAdd := b.X.(*ssa.BinOp)
					lenForm := false
					if ln, isLn := b.X.(*ssa.Call); isLn {
						if bi, isB := ln.Common().Value.(*ssa.Builtin); isB && bi.Name() == "len" && ln.Common().Args[0] == a.Value() {
							lenForm = true
						}
					}
					if !lenForm {
						if !isAdd || add.Op != token.ADD {
							continue
						}
						if k, okk := ir.ConstInt(add.Y); !okk || k != 1 {
							continue
						}
						if _, isPhi := add.X.(*ssa.Phi); !isPhi {
							continue
						}
					}
					// same block as (or dominated by) the append, and the true edge leaves the loop
					if cd.If.Block() != a.Block() {
						continue
					}
					r := ir.NewReach(fn)
					r.RunFromBlock(cd.If.Block().Succs[0])
					if !r.Instr(a) {
						okBound = true
						if lenForm {
							detail = "len(list) >= count exits"
							okBound = c37CountBound(fn, b.Y)
							if !okBound {
								detail = "count is not min(len(txList), MaxTxInBlock)-shaped"
							}
							continue
						}
						detail = "num+1 >= count exits; num phi " + add.X.Name()
						// num is incremented only here: the phi's non-initial edges are this add or the phi itself
						for _, e := range eng.PhiLeaves(nil, add.X) {
							if e == ssa.Value(add) {
								continue
							}
							if k, okk := ir.ConstInt(e); okk && k == 0 {
								continue
							}
							okBound = false
							detail = "num has another definition " + e.Name()
						}
						// count
						okBound = okBound && c37CountBound(fn, b.Y)
						if !c37CountBound(fn, b.Y) {
							detail = "count is not min(len(txList), MaxTxInBlock)-shaped"
						}
					}
				}
				c.Decide(okBound, "C37.gettxpool", fn, "the loop leaves once the number appended reaches count (count <= MaxTxInBlock when limited)", c.P.Rel(a.Pos()), detail)
			}
		}
		// compareTxHeight: false iff some stateful attr has Height < height
		if f := c.Fn(pkTxCom, "TXPool.compareTxHeight"); f != nil {
			trueS := ir.BoolReturnSinks(f, 0, true)
			loops := eng.FindSliceLoops(f, func(v ssa.Value) bool { _, fld, ok := fieldLoad(v); return ok && fld == "Attrs" })
			c.Floor("loop over Attrs in compareTxHeight", len(loops), 1)
			for _, lp := range loops {
				eng.Dominates(c, "C37.gettxpool", f, eng.NamedGuard{Name: "all Attrs scanned", G: func(cd ir.Cond) (bool, bool) { return cd.If == lp.Cond, false }}, trueS, "return true", nil)
			}
			// return false only under v.Type == Stateful && v.Height < height
			falseS := ir.BoolReturnSinks(f, 0, false)
			staleGuard := relGuard("attr.Height < height", func(v ssa.Value) bool { return isFieldNamed(v, "Height") }, func(v ssa.Value) bool { return ir.Strip(v) == ssa.Value(f.Params[2]) }, token.LSS)
			eng.Dominates(c, "C37.gettxpool", f, staleGuard, falseS, "return false", nil)
			// and every iteration with a stale stateful attr returns false: from the (Type==Stateful ∧ Height<height) edge the loop header is not re-entered
			for _, lp := range loops {
				okStale := false
				for _, cd := range ir.Conds(f) {
					matched, passTrue := staleGuard.G(cd)
					if !matched {
						continue
					}
					idx := cd.FalseIdx()
					if passTrue {
						idx = cd.TrueIdx()
					}
					r := ir.NewReach(f)
					r.RunFromBlock(cd.If.Block().Succs[idx])
					okStale = !r.BlockEntered(lp.Header)
					for _, s := range trueS {
						if r.SinkReachable(s) {
							okStale = false
						}
					}
				}
				c.Decide(okStale, "C37.gettxpool", f, "a stateful result older than the requested height makes compareTxHeight return false", c.P.Rel(lp.Cond.Pos()), "")
			}
		}
	}
}

// c37CountBound: v is count where count = int(MaxTxInBlock) unless (len(txList) < count || !byCount) → len(txList).
func c37CountBound(fn *ssa.Function, v ssa.Value) bool {
	// computed inline or by a helper handed the pool size
	if via, release := valueVia(v); via != v {
		defer release()
		v = via
	}
	leaves := eng.PhiLeaves(nil, v)
	if len(leaves) == 0 {
		return false
	}
	nCfg, nLen := 0, 0
	for _, l := range leaves {
		l = ir.Strip(l)
		if _, f, ok := fieldLoad(l); ok && f == "MaxTxInBlock" {
			nCfg++
			continue
		}
		if cl, ok := l.(*ssa.Call); ok {
			if bi, isB := cl.Common().Value.(*ssa.Builtin); isB && bi.Name() == "len" {
				if _, f, okf := fieldLoad(cl.Common().Args[0]); okf && f == "txList" {
					nLen++
					continue
				}
			}
		}
		return false
	}
	return nCfg >= 1 && nLen >= 1
}

// retReaches: call result flows (through phis/appends) into result #idx of a return.
func retReaches(fn *ssa.Function, v ssa.Value, idx int) bool {
	seen := map[ssa.Value]bool{}
	var walk func(x ssa.Value) bool
	walk = func(x ssa.Value) bool {
		if seen[x] {
			return false
		}
		seen[x] = true
		refs := x.Referrers()
		if refs == nil {
			return false
		}
		for _, r := range *refs {
			switch u := r.(type) {
			case *ssa.Return:
				if idx < len(u.Results) && u.Results[idx] == x {
					return true
				}
			case *ssa.Phi:
				if walk(u) {
					return true
				}
			case *ssa.Store:
				// named result cell
				if al, ok := u.Addr.(*ssa.Alloc); ok && u.Val == x {
					if lr := al.Referrers(); lr != nil {
						for _, l := range *lr {
							if ld, isLd := l.(*ssa.UnOp); isLd && walk(ld) {
								return true
							}
						}
					}
				}
			}
		}
		return false
	}
	return walk(v)
}

// sameHashCall: both are Hash() calls on the same receiver value.
func sameHashCall(a, b ssa.Value) bool {
	ha, hb := calleeNamed(a, "Hash"), calleeNamed(b, "Hash")
	if ha == nil || hb == nil {
		return false
	}
	return sameValue(ha.Common().Args[0], hb.Common().Args[0])
}

// checkMapWriters: functions that insert into / delete from the map field are the frozen owners.
func checkMapWriters(c *core.Ctx, rule, pkg, typ, field string, allowed map[string]string) {
	got := map[string]string{}
	for _, pk := range c.P.Mod {
		if pk.SSA == nil {
			continue
		}
		for _, f := range allFuncs(pk.SSA) {
			for _, b := range f.Blocks {
				for _, in := range b.Instrs {
					switch x := in.(type) {
					case *ssa.MapUpdate:
						if base, fl, ok := fieldLoad(x.Map); ok && fl == field && typeNamed(base, typ) {
							got[ir.FuncName(f)] = "insert"
						}
					case *ssa.Call:
						if bi, isB := x.Common().Value.(*ssa.Builtin); isB && bi.Name() == "delete" {
							if base, fl, ok := fieldLoad(x.Common().Args[0]); ok && fl == field && typeNamed(base, typ) {
								if got[ir.FuncName(f)] == "" {
									got[ir.FuncName(f)] = "delete"
								}
							}
						}
					}
				}
			}
		}
	}
	var bad []string
	for f, k := range got {
		if allowed[f] != k {
			bad = append(bad, f+":"+k)
		}
	}
	c.Decide(len(bad) == 0 && len(got) > 0, rule, pkg+"."+typ, "map "+field+" is inserted into / deleted from only by the frozen owners", "", sprintf("found %v; unexpected %v", got, bad))
}

func typeNamed(v ssa.Value, name string) bool {
	t := v.Type()
	for {
		if p, ok := t.Underlying().(*types.Pointer); ok {
			t = p.Elem()
			continue
		}
		break
	}
	n, ok := t.(*types.Named)
	return ok && n.Obj().Name() == name
}
