package rules

import (
	"strings"

	"golang.org/x/tools/go/ssa"

	"polyverif/core"
	"polyverif/eng"
	"polyverif/ir"
)

// C04 (continued) — count prefix vs. elements written.  The encoders of the
// scope write a collection as `len(X)` followed by one record per element; the
// decoder reads exactly that many records.  The pair only round-trips if no
// iteration of a collecting loop (keys := append(keys, k)) or of an emitting
// loop (sink.Write…(e)) can complete without collecting/emitting its element:
// a `continue` that filters entries makes the prefix larger than the number of
// records that follow, and the bytes just written cannot be decoded.
//
// Rule: in every encoder, every loop whose body contains a productive
// instruction (append, a Write*/Serialization/Serialize call) executes one on
// every path from the body back to the loop header.  Returns the number of
// loops examined.
func checkEncoderLoopsProductive(c *core.Ctx, rule string, encoders []*ssa.Function) int {
	productive := func(in ssa.Instruction) bool {
		ci, ok := in.(ssa.CallInstruction)
		if !ok {
			return false
		}
		if bi, isB := ci.Common().Value.(*ssa.Builtin); isB {
			return bi.Name() == "append"
		}
		name := ""
		if ci.Common().IsInvoke() {
			name = ci.Common().Method.Name()
		} else if o := ir.CalleeObj(ci); o != nil {
			name = o.Name()
		}
		return strings.HasPrefix(name, "Write") || name == "Serialization" || name == "Serialize" || name == "Put" || strings.HasPrefix(name, "Encode")
	}
	n := 0
	for _, fn := range encoders {
		if fn.Parent() != nil || len(fn.Blocks) == 0 {
			continue
		}
		type loop struct {
			header, body *ssa.BasicBlock
			desc         string
		}
		var loops []loop
		for i, lp := range eng.FindMapLoops(fn, nil) {
			loops = append(loops, loop{lp.Header, lp.Body, sprintf("map range #%d", i+1)})
		}
		for i, lp := range eng.FindSliceLoops(fn, func(ssa.Value) bool { return true }) {
			loops = append(loops, loop{lp.Header, lp.Body, sprintf("slice loop #%d", i+1)})
		}
		for _, lp := range loops {
			// region of this loop: blocks on a cycle through the body
			region := cycleOf(lp.body)
			if len(region) == 0 {
				region = map[*ssa.BasicBlock]bool{lp.body: true}
			}
			has := false
			for b := range region {
				for _, in := range b.Instrs {
					if productive(in) {
						has = true
					}
				}
			}
			if !has {
				continue
			}
			n++
			eng.IterationMustExec(c, rule, fn, lp.header, lp.body, lp.desc, "an append / Write… / Serialization of its element", productive)
		}
	}
	return n
}
