package rules

import (
	"go/token"
	"go/types"
	"strings"

	"golang.org/x/tools/go/ssa"

	"polyverif/core"
	"polyverif/eng"
	"polyverif/ir"
)

// C04 (continued) — count prefix vs. elements written.  The encoders of the
// scope write a collection as `len(X)` followed by one record per element; the
// decoder reads exactly that many records.  The pair only round-trips if no
// iteration of a collecting loop (keys := append(keys, k)) or of an emitting
// loop (sink.Write…(e)) can complete without collecting/emitting its element:
// a `continue` that filters entries makes the prefix larger than the number of
// records that follow, and the bytes just written cannot be decoded.
//
// Rule: in every encoder, every loop whose body contains a productive
// instruction (append, a Write*/Serialization/Serialize call) executes one on
// every path from the body back to the loop header.  Returns the number of
// loops examined.
func checkEncoderLoopsProductive(c *core.Ctx, rule string, encoders []*ssa.Function) int {
	productive := func(in ssa.Instruction) bool {
		ci, ok := in.(ssa.CallInstruction)
		if !ok {
			return false
		}
		if bi, isB := ci.Common().Value.(*ssa.Builtin); isB {
			return bi.Name() == "append"
		}
		name := ""
		if ci.Common().IsInvoke() {
			name = ci.Common().Method.Name()
		} else if o := ir.CalleeObj(ci); o != nil {
			name = o.Name()
		}
		return strings.HasPrefix(name, "Write") || name == "Serialization" || name == "Serialize" || name == "Put" || strings.HasPrefix(name, "Encode")
	}
	n := 0
	for _, fn := range encoders {
		if fn.Parent() != nil || len(fn.Blocks) == 0 {
			continue
		}
		type loop struct {
			header, body *ssa.BasicBlock
			desc         string
		}
		var loops []loop
		for i, lp := range eng.FindMapLoops(fn, nil) {
			loops = append(loops, loop{lp.Header, lp.Body, sprintf("map range #%d", i+1)})
		}
		for i, lp := range eng.FindSliceLoops(fn, func(ssa.Value) bool { return true }) {
			loops = append(loops, loop{lp.Header, lp.Body, sprintf("slice loop #%d", i+1)})
		}
		for _, lp := range loops {
			// region of this loop: blocks on a cycle through the body
			region := cycleOf(lp.body)
			if len(region) == 0 {
				region = map[*ssa.BasicBlock]bool{lp.body: true}
			}
			has := false
			for b := range region {
				for _, in := range b.Instrs {
					if productive(in) {
						has = true
					}
				}
			}
			if !has {
				continue
			}
			n++
			eng.IterationMustExec(c, rule, fn, lp.header, lp.body, lp.desc, "an append / Write… / Serialization of its element", productive)
		}
	}
	return n
}

// checkCountNamesCollection: a `Write…(len(Z))` count prefix that is followed by a
// loop over the elements of S must count S itself.  Decided only where both Z
// and S are slice-typed fields loaded from a struct (the copy/paste slip "count
// of the signatures written before the list of keys"); a count taken from a map
// whose sorted key list is then emitted is a different value by construction and
// is covered by the collecting-loop rule.  Returns the number of (count, loop)
// pairs compared.
func checkCountNamesCollection(c *core.Ctx, rule string, encoders []*ssa.Function) int {
	lenOf := func(v ssa.Value) ssa.Value {
		for d := 0; d < 4; d++ {
			if cv, ok := v.(*ssa.Convert); ok {
				v = cv.X
				continue
			}
			break
		}
		cl, ok := v.(*ssa.Call)
		if !ok {
			return nil
		}
		if bi, isB := cl.Common().Value.(*ssa.Builtin); !isB || bi.Name() != "len" {
			return nil
		}
		return cl.Common().Args[0]
	}
	n := 0
	for _, fn := range encoders {
		if fn.Parent() != nil || len(fn.Blocks) == 0 {
			continue
		}
		for _, cd := range ir.Conds(fn) {
			b, ok := cd.V.(*ssa.BinOp)
			if !ok || b.Op != token.LSS {
				continue
			}
			s := lenOf(b.Y)
			if s == nil {
				continue
			}
			if _, isSlice := s.Type().Underlying().(*types.Slice); !isSlice {
				continue
			}
			_, sField, okS := fieldLoad(s)
			if !okS {
				continue
			}
			hdr := cd.If.Block()
			// walk back from the loop's entry edge through unique predecessors
			var pre *ssa.BasicBlock
			for _, p := range hdr.Preds {
				if !reachesBlk(hdr.Succs[cd.TrueIdx()], p) {
					pre = p
				}
			}
			var count ssa.Value
			var site ssa.Instruction
			for hops := 0; pre != nil && hops < 4 && count == nil; hops++ {
				for i := len(pre.Instrs) - 1; i >= 0 && count == nil; i-- {
					ci, isC := pre.Instrs[i].(ssa.CallInstruction)
					if !isC {
						continue
					}
					name := ""
					if o := ir.CalleeObj(ci); o != nil {
						name = o.Name()
					}
					if !strings.HasPrefix(name, "Write") {
						continue
					}
					for _, a := range ci.Common().Args {
						if z := lenOf(a); z != nil {
							count, site = z, ci
						}
					}
					if count == nil {
						// another write in between: the loop is not directly preceded by a count
						pre = nil
						break
					}
				}
				if pre != nil && count == nil {
					if len(pre.Preds) == 1 {
						pre = pre.Preds[0]
					} else {
						pre = nil
					}
				}
			}
			if count == nil {
				continue
			}
			if _, isSlice := count.Type().Underlying().(*types.Slice); !isSlice {
				continue
			}
			_, zField, okZ := fieldLoad(count)
			if !okZ {
				continue
			}
			n++
			c.Decide(zField == sField && (sameValue(count, s) || sameAccessPath(count, s)), rule, fn, "the count written before the loop over ."+sField+" is len(."+sField+")", c.P.Rel(site.Pos()),
				"the prefix counts ."+zField+" but the elements that follow are those of ."+sField+": the decoder reads a different number of elements than were written")
		}
	}
	return n
}

func reachesBlk(from, to *ssa.BasicBlock) bool {
	seen := map[*ssa.BasicBlock]bool{}
	work := []*ssa.BasicBlock{from}
	for len(work) > 0 {
		b := work[len(work)-1]
		work = work[:len(work)-1]
		if b == to {
			return true
		}
		if seen[b] {
			continue
		}
		seen[b] = true
		work = append(work, b.Succs...)
	}
	return false
}

// sameAccessPath: two values are loads along the same chain of field selections
// from the same root (parameter, spilled receiver, allocation).
func sameAccessPath(a, b ssa.Value) bool {
	walk := func(v ssa.Value) (ssa.Value, string) {
		path := ""
		for d := 0; d < 12; d++ {
			switch x := v.(type) {
			case *ssa.UnOp:
				if x.Op != token.MUL {
					return v, path
				}
				v = x.X
				path = "*" + path
			case *ssa.FieldAddr:
				path = "." + fieldNameOf(x) + path
				v = x.X
			case *ssa.Field:
				st, _ := x.X.Type().Underlying().(*types.Struct)
				if st != nil {
					path = "." + st.Field(x.Field).Name() + path
				}
				v = x.X
			default:
				return v, path
			}
		}
		return v, path
	}
	ra, pa := walk(a)
	rb, pb := walk(b)
	return ra == rb && pa == pb && pa != ""
}
