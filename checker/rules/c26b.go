package rules

import (
	"go/token"

	"golang.org/x/tools/go/ssa"

	"polyverif/core"
	"polyverif/eng"
	"polyverif/ir"
)

// C26 (continued).
//
// (accept condition) "the total equals the payment or exceeds it by at least the
// minimum change" is written, everywhere a selection is accepted, as
// `S == target || S >= target+mc` on unsigned 64-bit values.  The algebraically
// equal `S-target >= mc` wraps when S < target and accepts a selection that does
// not even cover the payment.  Rule: in the coin selector every use of the
// minimum-change field is the addend of `target + mc`, and that sum is the
// right-hand side of a `>=` (or the mirrored `<=`/`<`/`>`) — never a bare
// operand of a comparison against a difference.
//
// (no aliasing append) a candidate selection built with
// append(sel[:i:j], u) must not write into sel's backing array, because sel's
// last element is read afterwards (the sum is corrected by its value): the
// capacity bound j must be the very length bound i, which forces append to copy.
func checkCoinSelectorArithmetic(c *core.Ctx) {
	pk := c.P.Pkgs[ir.PkgPath(pkBtc)]
	if pk == nil || pk.SSA == nil {
		c.Broken("anchor", pkBtc, "package", "", "not loaded")
		return
	}
	nMC, nApp := 0, 0
	for _, fn := range allFuncs(pk.SSA) {
		if recvTypeName(fn) != "CoinSelector" {
			continue
		}
		for _, b := range fn.Blocks {
			for _, in := range b.Instrs {
				switch x := in.(type) {
				case *ssa.UnOp:
					if x.Op != token.MUL {
						continue
					}
					fa, ok := x.X.(*ssa.FieldAddr)
					if !ok || fieldNameOf(fa) != "mc" || x.Referrers() == nil {
						continue
					}
					for _, r := range *x.Referrers() {
						if _, dbg := r.(*ssa.DebugRef); dbg {
							continue
						}
						nMC++
						ok := false
						why := "the minimum change is used outside the wrap-free form S >= target+mc"
						if add, isB := r.(*ssa.BinOp); isB && add.Op == token.ADD {
							other := add.X
							if other == ssa.Value(x) {
								other = add.Y
							}
							if isFieldNamed(other, "target") && add.Referrers() != nil {
								ok = true
								for _, rr := range *add.Referrers() {
									cmp, isC := rr.(*ssa.BinOp)
									if !isC {
										continue
									}
									switch cmp.Op {
									case token.GEQ, token.LSS:
										if cmp.Y != ssa.Value(add) {
											ok = false
										}
									case token.LEQ, token.GTR:
										if cmp.X != ssa.Value(add) {
											ok = false
										}
									default:
										ok = false
									}
									// the other side must not be a difference of unsigned values
									o := cmp.X
									if o == ssa.Value(add) {
										o = cmp.Y
									}
									if s, isS := o.(*ssa.BinOp); isS && s.Op == token.SUB && isFieldNamed(s.Y, "target") {
										ok = false
									}
								}
							}
						}
						if cmp, isB := r.(*ssa.BinOp); isB && cmp.Op != token.ADD {
							if s, isS := cmp.X.(*ssa.BinOp); isS && s.Op == token.SUB {
								why = "S-target >= mc on unsigned values wraps when S < target: a selection below the payment is accepted"
							}
						}
						c.Decide(ok, "C26.accept-condition", fn, "minimum change enters only as S >= target+mc", c.P.Rel(r.Pos()), why)
					}
				case *ssa.Call:
					bi, isB := x.Common().Value.(*ssa.Builtin)
					if !isB || bi.Name() != "append" {
						continue
					}
					sl, ok := x.Common().Args[0].(*ssa.Slice)
					if !ok || sl.High == nil {
						continue // appending to the whole slice is the ordinary growth idiom
					}
					if eng.VariadicElems(x.Common().Args[1]) == nil && sl.Max == nil {
						continue // append(s[:i], s[j:]...): the in-place deletion idiom, s is replaced by the result
					}
					nApp++
					c.Decide(sl.Max != nil && sameArith(sl.High, sl.Max, 0), "C26.no-aliasing-append", fn, "append(sel[:i:j], u) has j == i (append must copy, sel is read afterwards)", c.P.Rel(x.Pos()),
						"the capacity bound differs from the length bound: when len(sel) < cap(sel) the append overwrites sel's last element before the sum is corrected by its value")
				}
			}
		}
	}
	// (stored sets) putTxos is the one writer behind putUtxos / putStxos: it stores the list it is
	// given on EVERY call — also the empty list, which is how "the withdrawal drained this key"
	// is recorded.  Skipping the write for an empty list leaves the previous, non-empty unspent
	// set in place and the spent outputs are selected again.
	if pt := c.Fn(pkBtc, "putTxos"); pt != nil {
		var rets []ir.Sink
		for _, b := range pt.Blocks {
			if len(b.Instrs) > 0 {
				if r, ok := b.Instrs[len(b.Instrs)-1].(*ssa.Return); ok && b != pt.Recover {
					rets = append(rets, ir.Sink{Instr: r, Note: "return"})
				}
			}
		}
		puts := ir.Calls(pt, func(ci ssa.CallInstruction) bool {
			o := ir.CalleeObj(ci)
			return o != nil && o.Name() == "Put" && recvNamedCI(ci, "CacheDB")
		})
		c.Decide(len(puts) == 1, "C26.sets-always-stored", pt, "one CacheDB.Put in putTxos", c.P.Rel(pt.Pos()), sprintf("%d", len(puts)))
		if len(puts) == 1 && len(rets) > 0 {
			r := ir.NewReach(pt)
			r.Barrier[puts[0]] = true
			r.Run(nil)
			bad := ""
			for _, s := range rets {
				if r.SinkReachable(s) {
					bad = "a return of putTxos is reachable without the write; path " + r.Path(c.P, s.Instr)
				}
			}
			c.Decide(bad == "", "C26.sets-always-stored", pt, "putTxos stores the given list on every call (the empty list included)", c.P.Rel(puts[0].Pos()), bad)
		}
		for _, w := range []string{"putUtxos", "putStxos"} {
			if wf := c.Fn(pkBtc, w); wf != nil {
				calls := ir.Calls(wf, func(ci ssa.CallInstruction) bool { return ci.Common().StaticCallee() == pt })
				c.Decide(len(calls) == 1, "C26.sets-always-stored", wf, w+" delegates to putTxos", c.P.Rel(wf.Pos()), sprintf("%d calls", len(calls)))
			}
		}
	}
	c.Floor("uses of the minimum-change field in the coin selector", nMC, 1)
	c.Floor("capacity-limited appends in the coin selector", nApp, 1)
}

// sameArith: structural equality of two small integer expressions (no CSE in go/ssa).
func sameArith(a, b ssa.Value, d int) bool {
	if a == b {
		return true
	}
	if d > 6 {
		return false
	}
	if ka, ok := ir.ConstInt(a); ok {
		kb, okb := ir.ConstInt(b)
		return okb && ka == kb
	}
	switch x := a.(type) {
	case *ssa.BinOp:
		y, ok := b.(*ssa.BinOp)
		return ok && x.Op == y.Op && sameArith(x.X, y.X, d+1) && sameArith(x.Y, y.Y, d+1)
	case *ssa.Convert:
		y, ok := b.(*ssa.Convert)
		return ok && sameArith(x.X, y.X, d+1)
	case *ssa.Call:
		y, ok := b.(*ssa.Call)
		if !ok {
			return false
		}
		bx, okx := x.Common().Value.(*ssa.Builtin)
		by, oky := y.Common().Value.(*ssa.Builtin)
		if !okx || !oky || bx.Name() != by.Name() || len(x.Common().Args) != len(y.Common().Args) {
			return false
		}
		for i := range x.Common().Args {
			if !sameArith(x.Common().Args[i], y.Common().Args[i], d+1) {
				return false
			}
		}
		return true
	}
	return false
}
