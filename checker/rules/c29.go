package rules

import (
	"go/token"
	"go/types"

	"golang.org/x/tools/go/ssa"

	"polyverif/core"
	"polyverif/eng"
	"polyverif/ir"
)

// C29 — PoSA light clients accept only valid validator seals.

func init() {
	core.Register(&core.Check{
		ID: "C29", Level: "other", Title: "PoSA light clients accept only valid validator seals",
		Technique: "sibling template: guard dominance, flag definitions, start-relative dominance inside the validator loop",
		Explain:   "Sibling template over the seven proof-of-staked-authority routers (bsc, heco, hsc, pixiechain, bytom share one template; msc and polygon-bor a reduced one). In SyncBlockHeader the addHeader call is dominated by: header not yet stored (isHeaderExist(header.Hash()) err==nil, false), parent stored (isHeaderExist(header.ParentHash) true), the seal/field verification (verifySignature resp. verifyHeader) err==nil; for the five template routers additionally getPrevHeightAndValidators err==nil, the recent-signer alternative {lastSeenHeight <= 0, number > lastSeenHeight+limit}, and the `valid` flag, whose only true-definition lies inside the loop over the in-effect validator list under the equality of the list element with the signer recovered by verifySignature; from that equality edge every path back to the loop passes the in-turn (Cmp(diffInTurn)==0 under indexInTurn==idx) or out-of-turn (Cmp(diffNoTurn)==0) difficulty comparison. In each verifySeal the nil-error return is dominated by ecrecover err==nil. In each addHeader: parent lookup err==nil, the stored total difficulty is Add(header.Difficulty, parent.DifficultySum), and every canonical-index mutation (putCanonicalHash / putCanonicalHeight / deleteCanonicalHash) is dominated by externTd.Cmp(localTd) > 0 (strictly greater) with localTd the canonical head's sum. NOT decided: correctness of the epoch lookup getPrevHeightAndValidators (walk over stored epochs) and of the fixed-format field checks' constants.",
		Run:       runC29,
	})
}

var c29Full = []string{"bsc", "heco", "hsc", "pixiechain", "bytom"}
var c29Reduced = []string{"msc"}

func runC29(c *core.Ctx) {
	accessorPairs(c, "C29.accessor-keys", 16, "native/service/header_sync/bsc", "native/service/header_sync/heco", "native/service/header_sync/hsc", "native/service/header_sync/msc",
		"native/service/header_sync/pixiechain", "native/service/header_sync/bytom", "native/service/header_sync/polygon")
	for _, p := range c29Full {
		checkPosaSync(c, "native/service/header_sync/"+p, "Handler", true)
	}
	for _, p := range c29Reduced {
		checkPosaSync(c, "native/service/header_sync/"+p, "Handler", false)
	}
	checkPosaSync(c, "native/service/header_sync/polygon", "BorHandler", false)
	for _, p := range append(append([]string{}, c29Full...), append(c29Reduced, "polygon")...) {
		checkPosaRepoint(c, "native/service/header_sync/"+p)
	}
	checkSpanMembership(c)
}

func pkgFuncObj(c *core.Ctx, pkg, name string) *types.Func {
	o, err := c.P.FuncObj(pkg, name)
	if err != nil {
		return nil
	}
	return o
}

func checkPosaSync(c *core.Ctx, pkg, typ string, full bool) {
	fn := c.Fn(pkg, typ+".SyncBlockHeader")
	ihe := eng.Obj(c, pkg, "isHeaderExist")
	ah := eng.Obj(c, pkg, "addHeader")
	if fn == nil || ihe == nil || ah == nil {
		return
	}
	adds := ir.CallSinks(ir.CallsTo(fn, ah), "addHeader")
	c.Floor("addHeader in "+pkg+".SyncBlockHeader", len(adds), 1)
	isOwnHash := func(v ssa.Value) bool {
		var hv ssa.Value = v
		if al, ok := ir.Strip(v).(*ssa.Alloc); ok {
			hv = ir.SingleStore(al)
		}
		return calleeNamed(hv, "Hash") != nil
	}
	isParentHash := func(v ssa.Value) bool { return isFieldNamed(v, "ParentHash") }
	eng.Dominates(c, "C29.not-known", fn, eng.NamedGuard{Name: "isHeaderExist(header.Hash()) == false", G: ir.BoolIs(func(cl *ssa.Call) bool {
		return ir.CalleeIs(cl, ihe) && isOwnHash(cl.Common().Args[1])
	}, false)}, adds, "addHeader", nil)
	eng.Dominates(c, "C29.parent-stored", fn, eng.NamedGuard{Name: "isHeaderExist(header.ParentHash) == true", G: ir.BoolIs(func(cl *ssa.Call) bool {
		return ir.CalleeIs(cl, ihe) && isParentHash(cl.Common().Args[1])
	}, true)}, adds, "addHeader", nil)
	eng.Dominates(c, "C29.parent-stored", fn, eng.ErrNilOf("isHeaderExist", ihe), adds, "addHeader", nil)
	vs := pkgFuncObj(c, pkg, "verifySignature")
	if vs == nil {
		vs = pkgFuncObj(c, pkg, "verifyHeader")
	}
	if vs == nil {
		c.Broken("C29.seal", fn, "verifySignature/verifyHeader", c.P.Rel(fn.Pos()), "not found")
		return
	}
	eng.Dominates(c, "C29.seal", fn, eng.ErrNilOf(vs.Name(), vs), adds, "addHeader", nil)

	if full {
		gp := eng.Obj(c, pkg, "getPrevHeightAndValidators")
		if gp != nil {
			eng.Dominates(c, "C29.epoch", fn, eng.ErrNilOf("getPrevHeightAndValidators", gp), adds, "addHeader", nil)
			// recent signer
			lastSeen := func(v ssa.Value) bool { cl, idx := ir.CallOf(v); return cl != nil && idx == 2 && ir.CalleeIs(cl, gp) }
			eng.Dominates(c, "C29.recent-signer", fn, eng.NamedGuard{Name: "lastSeenHeight <= 0 ∨ number > lastSeenHeight + limit", G: func(cd ir.Cond) (bool, bool) {
				b, ok := cd.V.(*ssa.BinOp)
				if !ok {
					return false, false
				}
				if b.Op == token.GTR && lastSeen(b.X) {
					if k, okk := ir.ConstInt(b.Y); okk && k == 0 {
						return true, false
					}
				}
				if b.Op == token.LEQ && lastSeen(b.X) { // the same test written from the other side
					if k, okk := ir.ConstInt(b.Y); okk && k == 0 {
						return true, true
					}
				}
				if b.Op == token.LEQ {
					if add, isAdd := b.Y.(*ssa.BinOp); isAdd && add.Op == token.ADD && lastSeen(add.X) {
						return true, false
					}
				}
				return false, false
			}}, adds, "addHeader", nil)
			gpc := func(v ssa.Value) (int, bool) {
				cl, idx := ir.CallOf(v)
				return idx, cl != nil && ir.CalleeIs(cl, gp)
			}
			checkPosaScanDepth(c, pkg, fn, gpc)
			checkPosaEpochWindow(c, fn, gpc)
			checkInTurnModulus(c, pkg, fn)
		}
		// valid flag
		var flagIf *ssa.If
		for _, cd := range ir.Conds(fn) {
			if p, ok := cd.V.(*ssa.Phi); ok {
				all := true
				leaves := eng.PhiLeaves(nil, p)
				for _, l := range leaves {
					if _, isK := ir.ConstBool(l); !isK {
						all = false
					}
				}
				if all && len(leaves) >= 2 {
					flagIf = cd.If
				}
			}
		}
		outer := fn
		if flagIf == nil {
			// the membership loop may sit in a same-package helper answering (found bool, err error):
			// the helper's answer must be true before addHeader, and the flag rules are decided in it
			for _, ci := range ir.Calls(fn, nil) {
				cl, isCl := ci.(*ssa.Call)
				if !isCl {
					continue
				}
				h := cl.Common().StaticCallee()
				if h == nil || h.Pkg != fn.Pkg || len(h.Blocks) < 3 || h.Signature.Results().Len() == 0 {
					continue
				}
				if bt, isB := h.Signature.Results().At(0).Type().Underlying().(*types.Basic); !isB || bt.Kind() != types.Bool {
					continue
				}
				passesSigner := false
				for _, a := range cl.Common().Args {
					if sc, idx := ir.CallOf(a); sc != nil && idx == 0 && ir.CalleeIs(sc, vs) {
						passesSigner = true
					}
				}
				if !passesSigner {
					continue
				}
				// its boolean answer is the found-flag
				var flagPhi *ssa.Phi
				for _, hb := range h.Blocks {
					if ret, isRet := hb.Instrs[len(hb.Instrs)-1].(*ssa.Return); isRet {
						if p, isP := ret.Results[0].(*ssa.Phi); isP {
							flagPhi = p
						}
					}
				}
				if flagPhi == nil {
					continue
				}
				eng.Dominates(c, "C29.signer-in-set", fn, eng.NamedGuard{Name: "valid", G: ir.BoolIs(func(x *ssa.Call) bool { return x == cl }, true)}, adds, "addHeader", nil)
				defer ir.BindParams(h, cl.Common().Args)()
				c.Attribute(h, fn)
				fn = h
				break
			}
			if fn == outer {
				c.Broken("C29.signer-in-set", fn, "valid flag test", c.P.Rel(fn.Pos()), "not found")
				return
			}
		} else {
			eng.Dominates(c, "C29.signer-in-set", fn, eng.NamedGuard{Name: "valid", G: func(cd ir.Cond) (bool, bool) {
				if cd.If == flagIf {
					return true, !cd.Neg || true
				}
				return false, false
			}}, adds, "addHeader", nil)
		}
		// the loop and the equality
		loops := eng.FindSliceLoops(fn, func(v ssa.Value) bool { return isFieldNamed(v, "Validators") })
		var lp *eng.SliceLoop
		for i := range loops {
			if true {
				lp = &loops[i]
			}
		}
		if lp == nil {
			c.Broken("C29.signer-in-set", fn, "loop over the validator list", c.P.Rel(fn.Pos()), "not found")
			return
		}
		eqSigner := eng.NamedGuard{Name: "validator == recovered signer", G: func(cd ir.Cond) (bool, bool) {
			b, ok := cd.V.(*ssa.BinOp)
			if !ok || (b.Op != token.EQL && b.Op != token.NEQ) {
				return false, false
			}
			isSigner := func(v ssa.Value) bool { cl, idx := ir.CallOf(v); return cl != nil && idx == 0 && ir.CalleeIs(cl, vs) }
			if isSigner(b.X) || isSigner(b.Y) {
				return true, b.Op == token.EQL
			}
			return false, false
		}}
		var trueDefs []ir.Sink
		for _, blk := range fn.Blocks {
			for _, in := range blk.Instrs {
				p, ok := in.(*ssa.Phi)
				if !ok {
					continue
				}
				if bt, isB := p.Type().Underlying().(*types.Basic); !isB || bt.Kind() != types.Bool {
					continue
				}
				for i, e := range p.Edges {
					if k, isK := ir.ConstBool(e); isK && k {
						pred := blk.Preds[i]
						trueDefs = append(trueDefs, ir.Sink{Instr: p, Via: &ir.Edge{From: pred, Idx: indexOfSucc(pred, blk)}, Note: "valid = true"})
					}
				}
			}
		}
		if len(trueDefs) == 0 {
			c.Broken("C29.signer-in-set", fn, "valid = true definition", c.P.Rel(fn.Pos()), "not found")
		} else {
			eng.Dominates(c, "C29.signer-in-set", fn, eqSigner, trueDefs, "valid = true (per iteration)", &eng.Opt{StartBlock: lp.Body})
		}
		// difficulty: from the equality edge back to the header a Cmp==0 edge is passed
		diffOK := eng.NamedGuard{Name: "Difficulty.Cmp(diffInTurn | diffNoTurn) == 0", G: func(cd ir.Cond) (bool, bool) {
			b, ok := cd.V.(*ssa.BinOp)
			if !ok || (b.Op != token.NEQ && b.Op != token.EQL) {
				return false, false
			}
			cmp := calleeNamed(b.X, "Cmp")
			if cmp == nil || !isFieldNamed(cmp.Common().Args[0], "Difficulty") {
				return false, false
			}
			// the in-turn / out-of-turn constant, written in each branch or selected into one operand
			for _, l := range eng.PhiLeaves(nil, cmp.Common().Args[1]) {
				if g := globalName(l); g != "diffInTurn" && g != "diffNoTurn" {
					return false, false
				}
			}
			return true, b.Op == token.EQL
		}}
		eqEdges := ir.PassEdges(fn, eqSigner.G)
		okDiff := len(eqEdges) > 0
		for _, e := range eqEdges {
			r := ir.NewReach(fn).CutEdges(ir.PassEdges(fn, diffOK.G))
			r.RunFromBlock(e.To())
			if r.BlockEntered(lp.Header) || r.BlockEntered(lp.Exit) {
				okDiff = false
			}
		}
		c.Decide(okDiff, "C29.difficulty-in-turn", fn, "after the signer matches, the header's difficulty is compared with the in-turn / out-of-turn value before the loop continues", c.P.Rel(lp.Cond.Pos()), "")
		// in-turn value is used exactly under indexInTurn == idx
		okTurn := false
		for _, cd := range ir.Conds(fn) {
			if b, ok := cd.V.(*ssa.BinOp); ok && b.Op == token.EQL {
				if _, isRem := ir.Strip(b.X).(*ssa.BinOp); isRem {
					tgt := cd.If.Block().Succs[cd.TrueIdx()]
					for _, in := range tgt.Instrs {
						if cl, isCall := in.(*ssa.Call); isCall && ir.CalleeObj(cl) != nil && ir.CalleeObj(cl).Name() == "Cmp" && globalName(cl.Common().Args[1]) == "diffInTurn" {
							okTurn = true
						}
					}
					// or: the expected value is selected — diffInTurn flows into the compared operand exactly
					// from the branch taken when the indices are equal
					for _, blk := range fn.Blocks {
						for _, in := range blk.Instrs {
							p, isP := in.(*ssa.Phi)
							if !isP {
								continue
							}
							nIn, okSel := 0, true
							for i, e := range p.Edges {
								if globalName(e) != "diffInTurn" {
									continue
								}
								nIn++
								pred := blk.Preds[i]
								if !(pred == tgt || tgt.Dominates(pred)) {
									okSel = false
								}
							}
							if nIn > 0 && okSel {
								okTurn = true
							}
						}
					}
				}
			}
		}
		c.Decide(okTurn, "C29.difficulty-in-turn", fn, "diffInTurn is required exactly when number % len(validators) == index of the signer", c.P.Rel(lp.Cond.Pos()), "")
	}

	// verifySeal
	if vfn, err := c.P.Func(pkg, "verifySeal"); err == nil {
		c.Touch(vfn)
		// test hook: `if mockSigner != (Address{}) { return mockSigner, nil }` — infeasible in the
		// node because the package variable is assigned nowhere outside _test files (checked)
		var cuts []ir.Edge
		for _, cd := range ir.Conds(vfn) {
			hook := ""
			idx := cd.TrueIdx()
			if b, ok := cd.V.(*ssa.BinOp); ok && (b.Op == token.NEQ || b.Op == token.EQL) {
				// mockSigner compared with the zero address (either operand order; the zero value is a load of a zeroed local)
				for _, v := range []ssa.Value{b.X, b.Y} {
					if u, isU := v.(*ssa.UnOp); isU {
						if g, isG := u.X.(*ssa.Global); isG && g.Name() == "mockSigner" {
							hook = "mockSigner"
						}
					}
				}
				if b.Op == token.EQL {
					idx = cd.FalseIdx()
				}
			}
			if u, ok := cd.V.(*ssa.UnOp); ok {
				if g, isG := u.X.(*ssa.Global); isG && len(g.Name()) > 8 && g.Name()[:8] == "TestFlag" {
					hook = g.Name()
				}
			}
			if hook == "" {
				continue
			}
			cuts = append(cuts, ir.Edge{From: cd.If.Block(), Idx: idx})
			c.Decide(!globalAssigned(c, pkg, hook), "C29.seal", vfn, "test hook "+hook+" is never assigned in non-test code", c.P.Rel(cd.If.Pos()), "")
		}
		eng.Dominates(c, "C29.seal", vfn, eng.NamedGuard{Name: "ecrecover err==nil", G: ir.ErrNil(func(cl *ssa.Call) bool {
			o := ir.CalleeObj(cl)
			return o != nil && o.Name() == "ecrecover"
		})}, ir.SuccessSinks(vfn), "nil-error return", &eng.Opt{Cuts: cuts, Fact: "mockSigner is the zero address"})
	} else {
		c.Broken("C29.seal", pkg, "verifySeal", "", err.Error())
	}

	// addHeader
	afn := c.Fn(pkg, "addHeader")
	gh := eng.Obj(c, pkg, "getHeader")
	gch := eng.Obj(c, pkg, "GetCanonicalHeader")
	phs := eng.Obj(c, pkg, "putHeaderWithSum")
	if afn == nil || gh == nil || gch == nil || phs == nil {
		return
	}
	var parentCall *ssa.Call
	for _, ci := range ir.CallsTo(afn, gh) {
		if isFieldNamed(ci.Common().Args[1], "ParentHash") {
			parentCall, _ = ci.(*ssa.Call)
		}
	}
	if parentCall == nil {
		c.Broken("C29.total-difficulty", afn, "getHeader(header.ParentHash)", c.P.Rel(afn.Pos()), "not found")
		return
	}
	puts := ir.CallSinks(ir.CallsTo(afn, phs), "putHeaderWithSum")
	eng.Dominates(c, "C29.total-difficulty", afn, eng.NamedGuard{Name: "getHeader(parent) err==nil", G: ir.ErrNil(func(cl *ssa.Call) bool { return cl == parentCall })}, puts, "putHeaderWithSum", nil)
	// externTd = Add(header.Difficulty, parent.DifficultySum)
	var extern ssa.Value
	for _, ci := range ir.Calls(afn, nil) {
		if add := calleeNamed(valueOfCall(ci), "Add"); add != nil {
			a := add.Common().Args
			p := func(v ssa.Value) bool {
				base, f, ok := fieldLoad(v)
				if !ok || f != "DifficultySum" {
					return false
				}
				cl, idx := ir.CallOf(base)
				return cl == parentCall && idx == 0
			}
			if (isFieldNamed(a[1], "Difficulty") && p(a[2])) || (isFieldNamed(a[2], "Difficulty") && p(a[1])) {
				extern = add
			}
		}
	}
	c.Decide(extern != nil, "C29.total-difficulty", afn, "externTd = Add(header.Difficulty, parent.DifficultySum)", c.P.Rel(afn.Pos()), "")
	if extern == nil {
		return
	}
	// stored record carries externTd
	okStored := false
	for _, b := range afn.Blocks {
		for _, in := range b.Instrs {
			if st, ok := in.(*ssa.Store); ok {
				if fa, isFA := st.Addr.(*ssa.FieldAddr); isFA && fieldNameOf(fa) == "DifficultySum" && ir.Strip(st.Val) == ir.Strip(extern) {
					okStored = true
				}
			}
		}
	}
	c.Decide(okStored, "C29.total-difficulty", afn, "the stored header record carries externTd as its total difficulty", c.P.Rel(afn.Pos()), "")
	// canonical mutations under strict comparison
	var muts []ir.Sink
	for _, ci := range ir.Calls(afn, nil) {
		if o := ir.CalleeObj(ci); o != nil && (o.Name() == "putCanonicalHash" || o.Name() == "putCanonicalHeight" || o.Name() == "deleteCanonicalHash") {
			muts = append(muts, ir.Sink{Instr: ci, Note: o.Name()})
		}
	}
	c.Floor("canonical-index mutations in "+pkg+".addHeader", len(muts), 3)
	eng.Dominates(c, "C29.heaviest-chain", afn, cmpGuard("externTd.Cmp(localTd) > 0", func(b *ssa.BinOp) (bool, bool) {
		cmp := calleeNamed(b.X, "Cmp")
		if cmp == nil {
			return false, false
		}
		k, okk := ir.ConstInt(b.Y)
		if !okk || ir.Strip(cmp.Common().Args[0]) != ir.Strip(extern) {
			return false, false
		}
		// localTd = canonical header's DifficultySum
		base, f, ok := fieldLoad(cmp.Common().Args[1])
		if !ok || f != "DifficultySum" || !isCallTo(base, gch) {
			return false, false
		}
		// Cmp answers -1, 0 or +1: any test that holds exactly for +1 (`> 0`, `>= 1`, `== 1`) passes on its
		// true edge, any that holds exactly for {-1, 0} (`<= 0`, `< 1`, `!= 1`) on its false edge
		set := triSet(b.Op, k)
		if set == nil {
			return false, false
		}
		if len(set) == 1 && set[1] {
			return true, true
		}
		if len(set) == 2 && set[-1] && set[0] {
			return true, false
		}
		return false, false
	}), muts, "canonical-index mutation", nil)
}

// globalAssigned: some function of the package (other than the variable's own
// initialiser) stores to the package-level variable `name`.
func globalAssigned(c *core.Ctx, pkg, name string) bool {
	pk := c.P.Pkgs[ir.PkgPath(pkg)]
	if pk == nil || pk.SSA == nil {
		return true
	}
	g, ok := pk.SSA.Members[name].(*ssa.Global)
	if !ok {
		return true
	}
	for _, f := range allFuncs(pk.SSA) {
		for _, b := range f.Blocks {
			for _, in := range b.Instrs {
				if st, ok := in.(*ssa.Store); ok && globalRoot(st.Addr, 6) == g {
					if f.Name() == "init" {
						if k, isK := st.Val.(*ssa.Const); isK && k.Value == nil {
							continue
						}
					}
					return true
				}
			}
		}
	}
	return false
}

func valueOfCall(ci ssa.CallInstruction) ssa.Value {
	if v, ok := ci.(ssa.Value); ok {
		return v
	}
	return nil
}

func flagPhiBlock(ifi *ssa.If) *ssa.BasicBlock {
	if p, ok := ifi.Cond.(*ssa.Phi); ok {
		return p.Block()
	}
	return nil
}
