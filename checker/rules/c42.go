package rules

import (
	"go/token"
	"sort"
	"strings"

	"golang.org/x/tools/go/ssa"

	"polyverif/core"
	"polyverif/eng"
	"polyverif/ir"
)

// C42 — quorum thresholds guarantee intersection.  Level: proof.

func init() {
	core.Register(&core.Check{
		ID: "C42", Level: "proof", Title: "Quorum thresholds guarantee intersection",
		Technique: "expression-tree extraction from SSA + quasi-linear normal forms decided for all N",
		Explain:   "Proof obligations, each discharged for ALL N by quasi-linear normal forms (an integer tree over one variable built from + − ×const ÷const is f(N+P)=f(N)+s with P the product of its divisors once every division numerator is non-negative; equality / positivity for all N >= n0 is decided on finitely many residues of the EXTRACTED tree — the program is not run): (A) every threshold expression of the node — enumerated as every integer division by 3 or 7 inside the anchored packages (ledger store, node_manager, consensus_vote, signature_manager, vbft, the Ontology/NEO-N3/Tendermint light clients), climbed to its maximal arithmetic tree over a single count — equals the formula the property assigns to its site: N−⌊(N−1)/3⌋ (block acceptance, vbft commit, NEO-N3 state validators), N−⌊6N/7⌋ (legacy), ⌈2N/3⌉ (governance, votes, signatures), ⌊2N/3⌋ (+1 by strict comparison: Tendermint power); a division site the table does not list makes the check BROKEN; (B) with f=⌊(N−1)/3⌋: 2(N−f)−N > f and 2⌈2N/3⌉−N > f for all N>=1, and the mixed case (N−f)+⌈2N/3⌉−N > f, so any two accepting sets share more than f validators. Assumption: no integer overflow (N is a len or a count, < 2^31; Tendermint power < 2^62/2).",
		Run:       runC42,
	})
}

type thrSite struct {
	fn      string // function name (module-relative)
	formula string
	n0      int64
}

// frozen table: function → allowed formulas for the division trees found in it
var c42Table = map[string][]string{
	"(*core/store/ledgerstore.LedgerStoreImp).verifyHeader":        {"N-(N-1)/3", "N-6N/7"},
	"native/service/governance/node_manager.CheckConsensusSigns":   {"ceil(2N/3)"},
	"native/service/cross_chain_manager/consensus_vote.CheckVotes": {"ceil(2N/3)"},
	"native/service/governance/signature_manager.CheckSigns":       {"ceil(2N/3)"},
	"consensus/vbft.getCommitConsensus":                            {"N-(N-1)/3"},
	"native/service/header_sync/cosmos.VerifyCosmosHeader":         {"floor(2N/3)"},
	"native/service/header_sync/okex.VerifyCosmosHeader":           {"floor(2N/3)"},
	"native/service/header_sync/polygon.VerifyCosmosHeader":        {"floor(2N/3)"},
	"native/service/header_sync/neo3.VerifyCrossChainMsgSig":       {"N-(N-1)/3"},
	"native/service/header_sync/neo3legacy.VerifyCrossChainMsgSig": {"N-(N-1)/3"},
	"consensus/vbft/config.GenesisChainConfig":                     {"floor(N/3)"},
}

// division sites that are not thresholds (frozen, with reason)
var c42NotThreshold = map[string]string{
	"(*consensus/vbft.EventTimer).getEventTimeout": "timeout scaling",
}

var c42Formulas = map[string]*eng.Expr{
	"N-(N-1)/3":   eng.FormulaNminusF(),
	"N-6N/7":      eng.FormulaLegacy(),
	"ceil(2N/3)":  eng.FormulaCeil2N3(),
	"floor(2N/3)": eng.Div(eng.Mul(eng.N(), eng.K(2)), 3),
	"floor(N/3)":  eng.Div(eng.N(), 3),
}

var c42Pkgs = []string{
	"core/store/ledgerstore", "native/service/governance/node_manager", "native/service/governance/signature_manager",
	"native/service/governance/side_chain_manager", "native/service/governance/relayer_manager", "native/service/governance/neo3_state_manager",
	"native/service/cross_chain_manager/consensus_vote", "consensus/vbft", "consensus/vbft/config",
	"native/service/header_sync/ont", "native/service/header_sync/cosmos", "native/service/header_sync/okex", "native/service/header_sync/polygon",
	"native/service/header_sync/neo3", "native/service/header_sync/neo3legacy", "native/service/header_sync/neo", "core/signature", "core/validation",
}

func runC42(c *core.Ctx) {
	// a threshold bounds a count of DISTINCT validators: the counting rules of the two vote tallies (C25) are
	// necessary conditions of the quorum-intersection claim too and are decided here under their C25 names
	for _, sp := range []voteSpec{{pkVote, "CheckVotes", "VoteInfo", "getVoteInfo", "putVoteInfo"}, {pkSigM, "CheckSigns", "SigInfo", "getSigInfo", "putSigInfo"}} {
		checkVoteFunc(c, sp)
	}
	nSites := 0
	seenFn := map[string]bool{}
	leafKinds := map[string]int{}
	for _, p := range c42Pkgs {
		pk := c.P.Pkgs[ir.PkgPath(p)]
		if pk == nil || pk.SSA == nil {
			c.Broken("anchor", p, "package", "", "not loaded")
			continue
		}
		fns := allFuncs(pk.SSA)
		sort.Slice(fns, func(i, j int) bool { return fns[i].String() < fns[j].String() })
		for _, fn := range fns {
			roots := map[ssa.Value]bool{}
			for _, b := range fn.Blocks {
				for _, in := range b.Instrs {
					q, ok := in.(*ssa.BinOp)
					if !ok || q.Op != token.QUO {
						continue
					}
					k, okk := ir.ConstInt(q.Y)
					if !okk || (k != 3 && k != 7) {
						continue
					}
					roots[climb(q)] = true
				}
			}
			if len(roots) == 0 {
				continue
			}
			name := ir.FuncName(fn)
			if why, skip := c42NotThreshold[name]; skip {
				c.Hold("C42.site-classified", fn, "division by 3/7 is not a threshold: "+why, c.P.Rel(fn.Pos()), "")
				continue
			}
			allowed, listed := c42Table[name]
			var helperUsers []*ssa.Function
			if !listed {
				// a private helper whose every user is a listed quorum function computes that function's threshold
				isListed := func(x *ssa.Function) bool { _, l := c42Table[ir.FuncName(x)]; return l }
				users := c.P.EffectiveCallers(fn, isListed)
				all := len(users) > 0 && fn.Parent() == nil && !token.IsExported(fn.Name())
				for _, u := range users {
					if !isListed(u) {
						all = false
					}
				}
				if all {
					for _, u := range users {
						allowed = append(allowed, c42Table[ir.FuncName(u)]...)
						seenFn[ir.FuncName(u)] = true
						helperUsers = append(helperUsers, u)
					}
					listed = true
				}
			}
			if !listed {
				// float or big-number arithmetic? only integer BinOps are enumerated, so this is a new threshold site
				c.Broken("C42.site-classified", fn, "threshold site listed in the table", c.P.Rel(fn.Pos()), "a division by 3 or 7 appears in a function the threshold table does not list: classify it")
				continue
			}
			seenFn[name] = true
			c.Touch(fn)
			for root := range roots {
				nSites++
				if ri, isI := root.(ssa.Instruction); isI && len(helperUsers) > 0 {
					// a formula shared through a helper counts once per call that can reach it
					pairs := 0
					for _, u := range helperUsers {
						for _, ci := range ir.Calls(u, func(ci ssa.CallInstruction) bool { return ci.Common().StaticCallee() == fn }) {
							unbind := ir.BindParams(fn, ci.Common().Args)
							if eng.ReachUnderBoundConsts(fn).Instr(ri) {
								pairs++
							}
							unbind()
						}
					}
					if pairs > 1 {
						nSites += pairs - 1
					}
				}
				var leaf ssa.Value
				multi := false
				tree, err := eng.ExtractExpr(root, func(v ssa.Value) bool {
					switch v.(type) {
					case *ssa.BinOp, *ssa.Const, *ssa.Convert, *ssa.ChangeType:
						return false
					}
					if leaf == nil {
						leaf = v
						return true
					}
					if sameCount(leaf, v) {
						return true
					}
					multi = true
					return true
				})
				rootInstr, _ := root.(ssa.Instruction)
				pos := c.P.Rel(root.(ssa.Instruction).Pos())
				if err != nil || multi {
					c.Broken("C42.threshold-formula", fn, "threshold tree over a single count", pos, sprintf("err=%v multi=%v", err, multi))
					continue
				}
				matched := ""
				var why string
				for _, f := range allowed {
					n0 := int64(0)
					if strings.Contains(f, "N-1") {
						n0 = 1
					}
					if ok, w := eng.EqualForAll(tree, c42Formulas[f], n0); ok {
						matched, why = f, w
						break
					} else {
						why = w
					}
				}
				c.Decide(matched != "", "C42.threshold-formula", fn, "threshold "+tree.String()+" ≡ one of "+strings.Join(allowed, " | "), pos, why)
				// which count is N?  (block acceptance: the validator set in force, not what the header lists)
				for _, lv := range c42LeafValues(c, fn, leaf, helperUsers, rootInstr) {
					switch {
					case eng.IsLenOf(func(v ssa.Value) bool { p, ok := ir.Strip(v).(*ssa.Parameter); return ok && p.Name() == "vbftPeerInfo" })(lv):
						leafKinds[name+"|peers"]++
					case eng.IsLenOf(func(v ssa.Value) bool { return isFieldNamed(v, "Bookkeepers") })(lv):
						leafKinds[name+"|listed"]++
					}
				}
				for _, u := range helperUsers {
					for _, lv := range c42LeafValues(c, fn, leaf, helperUsers, rootInstr) {
						switch {
						case eng.IsLenOf(func(v ssa.Value) bool { p, ok := ir.Strip(v).(*ssa.Parameter); return ok && p.Name() == "vbftPeerInfo" })(lv):
							leafKinds[ir.FuncName(u)+"|peers"]++
						case eng.IsLenOf(func(v ssa.Value) bool { return isFieldNamed(v, "Bookkeepers") })(lv):
							leafKinds[ir.FuncName(u)+"|listed"]++
						}
					}
				}
			}
		}
	}
	for name := range c42Table {
		if !seenFn[name] {
			// the function is known to decide a quorum; if its comparison is still there but the
			// bound is no longer a formula over the validator count alone, the threshold was changed
			if why := c42ThresholdReplaced(c, name); why != "" {
				c.Violate("C42.threshold-formula", name, "threshold ≡ one of "+strings.Join(c42Table[name], " | "), "", why)
				continue
			}
			c.Broken("C42.site-classified", name, "table entry still has a threshold", "", "no division by 3/7 found in this function any more: update the table")
		}
	}
	c.Floor("threshold division sites", nSites, 13)
	// verifyHeader: the two vbft formulas range over the validator set in force (len(vbftPeerInfo));
	// only the non-vbft arm may count the keys the header lists
	{
		vh := "(*core/store/ledgerstore.LedgerStoreImp).verifyHeader"
		np, nl := leafKinds[vh+"|peers"], leafKinds[vh+"|listed"]
		c.Decide(np >= 2 && nl <= 1, "C42.threshold-operand", vh, "block-acceptance thresholds are computed over N = len(validators in force)", "",
			sprintf("%d threshold(s) over len(vbftPeerInfo), %d over len(header.Bookkeepers): a quorum sized by what the sender lists can be met by a minority", np, nl))
	}
	checkCommitDoneQuorum(c, "C42.commitdone-quorum")

	// (B) intersection
	f := eng.Div(eng.Sub(eng.N(), eng.K(1)), 3)
	blockThr := eng.Sub(eng.N(), f)
	govThr := eng.FormulaCeil2N3()
	for _, ob := range []struct {
		name string
		h    *eng.Expr
	}{
		{"two block-acceptance quorums share more than f validators: 2(N−f)−N−f > 0", eng.Sub(eng.Sub(eng.Mul(eng.K(2), blockThr), eng.N()), f)},
		{"two governance quorums share more than f validators: 2⌈2N/3⌉−N−f > 0", eng.Sub(eng.Sub(eng.Mul(eng.K(2), govThr), eng.N()), f)},
		{"a block quorum and a governance quorum share more than f validators: (N−f)+⌈2N/3⌉−N−f > 0", eng.Sub(eng.Sub(eng.Add(blockThr, govThr), eng.N()), f)},
		{"the block threshold never exceeds N: N−(N−f) >= 0, i.e. f+1 > 0", eng.Add(f, eng.K(1))},
		{"the governance threshold never exceeds N: N−⌈2N/3⌉+1 > 0", eng.Add(eng.Sub(eng.N(), govThr), eng.K(1))},
	} {
		ok, why := eng.PositiveForAll(ob.h, 1)
		c.Decide(ok, "C42.intersection", "formula", ob.name, "", why)
	}
}

// climb returns the maximal arithmetic expression containing v.
func climb(v ssa.Value) ssa.Value {
	for i := 0; i < 16; i++ {
		refs := v.Referrers()
		if refs == nil {
			return v
		}
		var up ssa.Value
		n := 0
		for _, r := range *refs {
			switch x := r.(type) {
			case *ssa.BinOp:
				switch x.Op {
				case token.ADD, token.SUB, token.MUL, token.QUO:
					up = x
					n++
				}
			case *ssa.Convert:
				up = x
				n++
			case *ssa.DebugRef:
			}
		}
		if n != 1 {
			return v
		}
		v = up
	}
	return v
}

// sameCount: two leaves denote the same count (the same SSA value, or len of the same value).
func sameCount(a, b ssa.Value) bool {
	if a == b || ir.Strip(a) == ir.Strip(b) {
		return true
	}
	ca, ok1 := a.(*ssa.Call)
	cb, ok2 := b.(*ssa.Call)
	if ok1 && ok2 {
		ba, isA := ca.Common().Value.(*ssa.Builtin)
		bb, isB := cb.Common().Value.(*ssa.Builtin)
		if isA && isB && ba.Name() == "len" && bb.Name() == "len" {
			return sameValue(ca.Common().Args[0], cb.Common().Args[0])
		}
		// two calls of the same pure getter on the same receiver (valset.TotalVotingPower())
		if !isA && !isB && ir.CalleeObj(ca) != nil && ir.CalleeObj(ca) == ir.CalleeObj(cb) && len(ca.Common().Args) == len(cb.Common().Args) {
			for i := range ca.Common().Args {
				if !sameValue(ca.Common().Args[i], cb.Common().Args[i]) {
					return false
				}
			}
			return true
		}
	}
	return false
}

// c42LeafValues: the count a threshold tree ranges over — the leaf itself, or,
// when the tree sits in a private helper and the leaf is its parameter, the
// arguments the listed users pass for it.
func c42LeafValues(c *core.Ctx, fn *ssa.Function, leaf ssa.Value, users []*ssa.Function, site ssa.Instruction) []ssa.Value {
	if leaf == nil {
		return nil
	}
	p, isP := ir.Strip(leaf).(*ssa.Parameter)
	if !isP || len(users) == 0 || p.Parent() != fn {
		return []ssa.Value{leaf}
	}
	idx := -1
	for i, q := range fn.Params {
		if q == p {
			idx = i
		}
	}
	var out []ssa.Value
	for _, u := range users {
		for _, ci := range ir.Calls(u, func(ci ssa.CallInstruction) bool { return ci.Common().StaticCallee() == fn }) {
			if a := ci.Common().Args; idx >= 0 && idx < len(a) {
				// a call that fixes a boolean parameter selects some of the helper's formulas only
				if site != nil {
					unbind := ir.BindParams(fn, a)
					feasible := eng.ReachUnderBoundConsts(fn).Instr(site)
					unbind()
					if !feasible {
						continue
					}
				}
				out = append(out, a[idx])
			}
		}
	}
	return out
}
