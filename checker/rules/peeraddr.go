package rules

import (
	"go/types"
	"strings"

	"golang.org/x/tools/go/ssa"

	"polyverif/ir"
)

// derivedPeerAddr recognises the address derived from the key of the peer-pool
// entry under iteration: AddressFromPubKey(DeserializePublicKey(hex.DecodeString(key)))
// with key = the iteration's map key (Extract #1 of `next`).  The chain may be
// written inline, go through an address-taken local, or be computed by a module
// helper handed the key: every error-free return of the helper must then be that
// chain over its (bound) parameter.
func derivedPeerAddr(afp *types.Func, next ssa.Value) func(ssa.Value) bool {
	var chain func(v ssa.Value, depth int) bool
	chain = func(v ssa.Value, depth int) bool {
		cl, idx := ir.CallOf(v)
		if cl == nil {
			// through an address-taken local
			if al, ok := ir.Strip(v).(*ssa.Alloc); ok {
				if sv := ir.SingleStore(al); sv != nil {
					cl, idx = ir.CallOf(sv)
				}
			}
		}
		if cl == nil {
			return false
		}
		if !ir.CalleeIs(cl, afp) {
			h := cl.Common().StaticCallee()
			if depth > 2 || h == nil || len(h.Blocks) == 0 || h.Pkg == nil || h.Pkg.Pkg == nil || !strings.HasPrefix(h.Pkg.Pkg.Path(), ir.Mod) {
				return false
			}
			if idx < 0 {
				idx = 0
			}
			defer ir.BindParams(h, cl.Common().Args)()
			n := 0
			for _, b := range h.Blocks {
				ret, isRet := b.Instrs[len(b.Instrs)-1].(*ssa.Return)
				if !isRet || idx >= len(ret.Results) {
					continue
				}
				if last := ret.Results[len(ret.Results)-1]; len(ret.Results) > 1 && last.Type().String() == "error" {
					if k, isK := last.(*ssa.Const); !isK || !k.IsNil() {
						continue // error return: the caller must not use the address (err==nil rules)
					}
				}
				if !chain(ret.Results[idx], depth+1) {
					return false
				}
				n++
			}
			return n > 0
		}
		pk, _ := ir.CallOf(cl.Common().Args[0])
		if pk == nil || ir.CalleeObj(pk) == nil || ir.CalleeObj(pk).Name() != "DeserializePublicKey" {
			return false
		}
		hx, _ := ir.CallOf(pk.Common().Args[0])
		if hx == nil || !ir.IsPkgFunc(hx, "encoding/hex", "DecodeString") {
			return false
		}
		ex, ok := ir.Strip(hx.Common().Args[0]).(*ssa.Extract)
		return ok && ex.Tuple == next && ex.Index == 1
	}
	return func(v ssa.Value) bool { return chain(v, 0) }
}
