package rules

import (
	"go/token"

	"golang.org/x/tools/go/ssa"

	"polyverif/core"
	"polyverif/eng"
	"polyverif/ir"
)

// C27 (continued) — RestructChain re-points the canonical index of the PoW
// client.  It walks the new branch back towards the fork point keeping a header
// variable and a height variable; the final loop rewrites the index from that
// height upward.  The index stays keyed by header number only if the height
// variable tracks the header variable: "height == header.Number" is an inductive
// invariant of the walk.  It is decided here by induction over the φ-nodes:
//
//	base   H(p, p.Number.Uint64())                      p a parameter
//	       H(GetHeaderByHeight(_, h, _)#0, h)           a header fetched AT h
//	step   H(parent(X), Y−1)  if H(X, Y)                parent(X) = GetHeaderByHash(X.ParentHash)#0
//	                                                    (a stored header has Number = parent.Number+1, C27.linked)
//	φ      H(φ(x1..xn), φ(y1..yn)) if H(xi, yi) for every edge (same block; coinductive)
//
// Obligations: the height the final loop starts from tracks the header whose hash
// is pushed last; the final loop pops the stack downward while the height goes up
// by one; every fetch-by-height that replaces the old-branch cursor uses the
// cursor's own height.
func checkRestructHeights(c *core.Ctx) {
	const rule = "C27.restruct-height"
	fn := c.Fn(pkEthHS, "RestructChain")
	if fn == nil {
		return
	}
	byHash := eng.Obj(c, pkEthHS, "GetHeaderByHash")
	byHeight := eng.Obj(c, pkEthHS, "GetHeaderByHeight")
	ah := eng.Obj(c, pkEthHS, "appendHeader2Main")
	if byHash == nil || byHeight == nil || ah == nil {
		c.Broken(rule, fn, "GetHeaderByHash / GetHeaderByHeight / appendHeader2Main", "", "not found")
		return
	}
	// parentOf(v) = X when v is GetHeaderByHash(_, X.ParentHash.Bytes(), _)#0
	parentOf := func(v ssa.Value) ssa.Value {
		ex, ok := v.(*ssa.Extract)
		if !ok || ex.Index != 0 {
			return nil
		}
		cl, ok := ex.Tuple.(*ssa.Call)
		if !ok || !ir.CalleeIs(cl, byHash) || len(cl.Common().Args) < 2 {
			return nil
		}
		b, _ := ir.CallOf(cl.Common().Args[1])
		if b == nil || ir.CalleeObj(b) == nil || ir.CalleeObj(b).Name() != "Bytes" || len(b.Common().Args) != 1 {
			return nil
		}
		ld, ok := b.Common().Args[0].(*ssa.UnOp)
		if !ok || ld.Op != token.MUL {
			return nil
		}
		fa, ok := ld.X.(*ssa.FieldAddr)
		if !ok || fieldNameOf(fa) != "ParentHash" {
			return nil
		}
		return fa.X
	}
	isNumberOf := func(h, hd ssa.Value) bool {
		cl, _ := ir.CallOf(h)
		if cl == nil || ir.CalleeObj(cl) == nil || ir.CalleeObj(cl).Name() != "Uint64" || len(cl.Common().Args) != 1 {
			return false
		}
		ld, ok := cl.Common().Args[0].(*ssa.UnOp)
		if !ok || ld.Op != token.MUL {
			return false
		}
		fa, ok := ld.X.(*ssa.FieldAddr)
		return ok && fieldNameOf(fa) == "Number" && fa.X == hd
	}
	minusOne := func(v ssa.Value) ssa.Value {
		b, ok := v.(*ssa.BinOp)
		if !ok || b.Op != token.SUB {
			return nil
		}
		if k, isK := ir.ConstInt(b.Y); !isK || k != 1 {
			return nil
		}
		return b.X
	}
	type pair [2]ssa.Value
	var tracks func(hd, h ssa.Value, assume map[pair]bool, d int) bool
	tracks = func(hd, h ssa.Value, assume map[pair]bool, d int) bool {
		if d > 24 {
			return false
		}
		if assume[pair{hd, h}] {
			return true
		}
		if _, isP := hd.(*ssa.Parameter); isP && isNumberOf(h, hd) {
			return true
		}
		if ex, ok := hd.(*ssa.Extract); ok && ex.Index == 0 {
			if cl, isC := ex.Tuple.(*ssa.Call); isC && ir.CalleeIs(cl, byHeight) && len(cl.Common().Args) >= 2 && cl.Common().Args[1] == h {
				return true
			}
		}
		if x := parentOf(hd); x != nil {
			if y := minusOne(h); y != nil {
				return tracks(x, y, assume, d+1)
			}
			return false
		}
		hp, hdPhi := hd.(*ssa.Phi)
		qp, hPhi := h.(*ssa.Phi)
		switch {
		case hdPhi && hPhi && hp.Block() == qp.Block():
			assume[pair{hd, h}] = true
			for i := range hp.Edges {
				if !tracks(hp.Edges[i], qp.Edges[i], assume, d+1) {
					delete(assume, pair{hd, h})
					return false
				}
			}
			return true
		case hdPhi:
			// the height is not re-assigned where the header is: every incoming header must have this height
			assume[pair{hd, h}] = true
			for _, e := range hp.Edges {
				if !tracks(e, h, assume, d+1) {
					delete(assume, pair{hd, h})
					return false
				}
			}
			return true
		case hPhi:
			assume[pair{hd, h}] = true
			for _, e := range qp.Edges {
				if !tracks(hd, e, assume, d+1) {
					delete(assume, pair{hd, h})
					return false
				}
			}
			return true
		}
		return false
	}

	calls := ir.CallsTo(fn, ah)
	// the re-indexing loop may have been extracted into a same-package helper: analyse the
	// helper's loop and read its parameters through the (single) call site in RestructChain
	var site *ssa.Call
	if len(calls) == 0 {
		for _, ci := range ir.Calls(fn, nil) {
			cl, isCall := ci.(*ssa.Call)
			h := ci.Common().StaticCallee()
			if !isCall || h == nil || h == fn || h.Pkg != fn.Pkg || len(h.Blocks) == 0 {
				continue
			}
			if hc := ir.CallsTo(h, ah); len(hc) > 0 && site == nil {
				calls, site = hc, cl
			}
		}
	}
	through := func(v ssa.Value) ssa.Value {
		if p, isP := v.(*ssa.Parameter); isP && site != nil {
			h := site.Common().StaticCallee()
			for i, hp := range h.Params {
				if hp == p && i < len(site.Common().Args) {
					return site.Common().Args[i]
				}
			}
		}
		return v
	}
	c.Floor("appendHeader2Main calls in RestructChain", len(calls), 1)
	for _, call := range calls {
		pos := c.P.Rel(call.Pos())
		args := call.Common().Args
		if len(args) < 3 {
			c.Broken(rule, fn, "appendHeader2Main(native, height, hash, chain)", pos, "unexpected arity")
			continue
		}
		// height: φ[entry: T, loop: φ+1]
		hphi, ok := args[1].(*ssa.Phi)
		var start ssa.Value
		up := false
		if ok && len(hphi.Edges) == 2 {
			for i, e := range hphi.Edges {
				if b, isB := e.(*ssa.BinOp); isB && b.Op == token.ADD && b.X == ssa.Value(hphi) {
					if k, isK := ir.ConstInt(b.Y); isK && k == 1 {
						up = true
						start = hphi.Edges[1-i]
					}
				}
			}
		}
		if !up {
			// another algorithm shape: undecided rather than a finding
			c.Broken(rule, fn, "the index height goes up by exactly one per re-pointed header", pos, "height argument is not a counter φ[start, φ+1]: shape not recognised")
			continue
		}
		c.Hold(rule, fn, "the index height goes up by exactly one per re-pointed header", pos, "")
		// hash: stack[i], i = φ[entry: len(stack)−1, loop: φ−1]
		var stack ssa.Value
		down := false
		if ld, isLd := args[2].(*ssa.UnOp); isLd && ld.Op == token.MUL {
			if ia, isIA := ld.X.(*ssa.IndexAddr); isIA {
				if iphi, isPhi := ia.Index.(*ssa.Phi); isPhi && len(iphi.Edges) == 2 {
					for i, e := range iphi.Edges {
						if minusOne(e) == ssa.Value(iphi) {
							if top := minusOne(iphi.Edges[1-i]); top != nil {
								if l, _ := ir.CallOf(top); l != nil {
									if bi, isB := l.Common().Value.(*ssa.Builtin); isB && bi.Name() == "len" && l.Common().Args[0] == ia.X {
										down = true
										stack = ia.X
									}
								}
							}
						}
					}
				}
			}
		}
		// the same walk written as a pop loop: hash = s[len(s)−1] with s = φ[entry: stack, loop: s[:len(s)−1]]
		if ld, isLd := args[2].(*ssa.UnOp); isLd && ld.Op == token.MUL && !down {
			if ia, isIA := ld.X.(*ssa.IndexAddr); isIA {
				if sphi, isPhi := ia.X.(*ssa.Phi); isPhi && len(sphi.Edges) == 2 {
					isTop := func(v ssa.Value) bool {
						t := minusOne(v)
						if t == nil {
							return false
						}
						l, _ := ir.CallOf(t)
						if l == nil {
							return false
						}
						bi, isB := l.Common().Value.(*ssa.Builtin)
						return isB && bi.Name() == "len" && l.Common().Args[0] == ssa.Value(sphi)
					}
					if isTop(ia.Index) {
						for i, e := range sphi.Edges {
							if sl, isSl := e.(*ssa.Slice); isSl && sl.X == ssa.Value(sphi) && sl.Low == nil && sl.High != nil && isTop(sl.High) {
								down = true
								stack = sphi.Edges[1-i]
							}
						}
					}
				}
			}
		}
		if !down {
			c.Broken(rule, fn, "the branch stack is popped from its last element downward", pos, "hash argument is not stack[φ] with φ running from len−1 down: shape not recognised")
			continue
		}
		c.Hold(rule, fn, "the branch stack is popped from its last element downward", pos, "")
		// the last push: stack = append(prev, X.Hash())
		var last ssa.Value
		stack, start = through(stack), through(start)
		if ap, _ := ir.CallOf(stack); ap != nil {
			if bi, isB := ap.Common().Value.(*ssa.Builtin); isB && bi.Name() == "append" {
				for _, e := range eng.VariadicElems(ap.Common().Args[1]) {
					if hc, _ := ir.CallOf(e); hc != nil && ir.CalleeObj(hc) != nil && ir.CalleeObj(hc).Name() == "Hash" && len(hc.Common().Args) == 1 {
						last = hc.Common().Args[0]
					}
				}
			}
		}
		if last == nil {
			c.Broken(rule, fn, "last element pushed on the branch stack is X.Hash()", pos, "shape not recognised")
			continue
		}
		ok = tracks(last, start, map[pair]bool{}, 0)
		c.Decide(ok, rule, fn, "the height the index is rewritten from equals the number of the last header pushed (inductive: height−1 whenever the header steps to its parent)", pos,
			"the height variable is not decremented together with the header variable on some loop edge: the canonical index would be keyed off by one per rollback step")
	}
	// every push in a walk loop pushes the header that is about to step to its parent
	pushes := 0
	for _, b := range fn.Blocks {
		for _, in := range b.Instrs {
			ex, isEx := in.(*ssa.Extract)
			if !isEx {
				continue
			}
			x := parentOf(ex)
			if x == nil {
				continue
			}
			pushes++
			// an append of x.Hash() in the same block, before the fetch
			found := false
			for _, in2 := range b.Instrs {
				if in2 == in {
					break
				}
				cl, isC := in2.(*ssa.Call)
				if !isC {
					continue
				}
				if bi, isB := cl.Common().Value.(*ssa.Builtin); !isB || bi.Name() != "append" {
					continue
				}
				for _, e := range eng.VariadicElems(cl.Common().Args[1]) {
					if hc, _ := ir.CallOf(e); hc != nil && ir.CalleeObj(hc) != nil && ir.CalleeObj(hc).Name() == "Hash" && len(hc.Common().Args) == 1 && hc.Common().Args[0] == x {
						found = true
					}
				}
			}
			c.Decide(found, rule, fn, "each step to the parent first pushes the hash of the header it leaves", c.P.Rel(ex.Tuple.(*ssa.Call).Pos()), "")
		}
	}
	c.Floor("parent steps in RestructChain", pushes, 2)
	// the old-branch cursor re-fetched by height uses a height that goes down with it
	for _, call := range ir.CallsTo(fn, byHeight) {
		if call.Block() == nil || len(call.Common().Args) < 2 {
			continue
		}
		h := call.Common().Args[1]
		y := minusOne(h)
		if y == nil {
			continue // the initial alignment fetch (current := header at the new header's height)
		}
		_, isPhi := y.(*ssa.Phi)
		c.Decide(isPhi, rule, fn, "the old-branch cursor is re-fetched one height below its previous position", c.P.Rel(call.Pos()), "")
	}
}
