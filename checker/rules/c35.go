package rules

import (
	"go/token"

	"golang.org/x/tools/go/ssa"

	"polyverif/core"
	"polyverif/eng"
	"polyverif/ir"
)

// C35 — side-chain registry changes only through owner request and approval.

func init() {
	core.Register(&core.Check{
		ID: "C35", Level: "other", Title: "Side-chain registry changes only through owner request and approval",
		Technique: "guard dominance + value-flow identity + key-shape agreement",
		Explain:   "side_chain_manager: RegisterSideChain stores the request only when neither a pending request nor a registered chain exists for params.ChainId (both nil-checks dominate putSideChainApply, for that same id) and the stored request's owner is the witnessed params.Address; UpdateSideChain / QuitSideChain store their request only when the chain is registered (GetSideChain != nil) and sideChain.Address == params.Address with params.Address the witnessed address; ApproveRegisterSideChain / ApproveUpdateSideChain pass to PutSideChain exactly the object returned by the request getter for params.Chainid (the registered record equals the approved request) and only after the getter returned non-nil and CheckConsensusSigns returned true; ApproveQuitSideChain deletes the SIDE_CHAIN record of the same id only after getQuitSideChain succeeded for that id and consensus approved, and the request getter/putter/approval-delete of each of the three request kinds use one key shape (so an approval consumes the request the owner made — a stale request cannot remove a re-registered chain). WC: PutSideChain is called only from the two approvals. NOT decided: the history statement over arbitrary sequences.",
		Run:       runC35,
	})
}

func runC35(c *core.Ctx) {
	checkVoteOnlyForWitnessedApprover(c, "C35.witnessed-approver", func(f *ssa.Function) bool { return f.Pkg != nil && f.Pkg.Pkg.Path() == ir.PkgPath(pkSCM) })
	accessorPairs(c, "C35.accessor-keys", 10, pkSCM)
	checkVoteTagsDistinct(c, "C35.ledger-tag")
	checkQuitUnregisters(c, "C35.quit-unregisters")
	gsc := eng.Obj(c, pkSCM, "GetSideChain")
	gsa := eng.Obj(c, pkSCM, "getSideChainApply")
	gus := eng.Obj(c, pkSCM, "getUpdateSideChain")
	gqs := eng.Obj(c, pkSCM, "getQuitSideChain")
	psa := eng.Obj(c, pkSCM, "putSideChainApply")
	pus := eng.Obj(c, pkSCM, "putUpdateSideChain")
	pqs := eng.Obj(c, pkSCM, "putQuitSideChain")
	psc := eng.Obj(c, pkSCM, "PutSideChain")
	ccs := eng.Obj(c, pkNM, "CheckConsensusSigns")
	vo := eng.Obj(c, pkUtils, "ValidateOwner")
	for _, o := range []interface{}{gsc, gsa, gus, gqs, psa, pus, pqs, psc, ccs, vo} {
		if o == nil {
			return
		}
	}
	idArg := func(field string) func(*ssa.Call) bool { return argFieldIs(1, field) }

	// RegisterSideChain
	if fn := c.Fn(pkSCM, "RegisterSideChain"); fn != nil {
		sinks := ir.CallSinks(ir.CallsTo(fn, psa), "putSideChainApply")
		c.Floor("putSideChainApply in RegisterSideChain", len(sinks), 1)
		for _, g := range []eng.NamedGuard{
			{Name: "getSideChainApply(params.ChainId) err==nil", G: ir.ErrNil(and(ir.CallTo(gsa), idArg("ChainId")))},
			{Name: "getSideChainApply(params.ChainId) == nil", G: ir.IsNil(and(ir.CallTo(gsa), idArg("ChainId")))},
			{Name: "GetSideChain(params.ChainId) err==nil", G: ir.ErrNil(and(ir.CallTo(gsc), idArg("ChainId")))},
			{Name: "GetSideChain(params.ChainId) == nil", G: ir.IsNil(and(ir.CallTo(gsc), idArg("ChainId")))},
		} {
			eng.Dominates(c, "C35.registered-once", fn, g, sinks, "putSideChainApply", nil)
		}
		checkRequestLiteral(c, fn, psa, vo)
	}
	// UpdateSideChain / QuitSideChain
	for _, x := range []struct {
		name  string
		put   interface{}
		field string
	}{{"UpdateSideChain", pus, "ChainId"}, {"QuitSideChain", pqs, "Chainid"}} {
		fn := c.Fn(pkSCM, x.name)
		if fn == nil {
			continue
		}
		putObj := pus
		if x.name == "QuitSideChain" {
			putObj = pqs
		}
		sinks := ir.CallSinks(ir.CallsTo(fn, putObj), "request put")
		c.Floor("request put in "+x.name, len(sinks), 1)
		owner := cmpGuard("sideChain.Address == params.Address", func(b *ssa.BinOp) (bool, bool) {
			if b.Op != token.EQL && b.Op != token.NEQ {
				return false, false
			}
			fromReg := func(v ssa.Value) bool {
				base, f, ok := fieldLoad(v)
				return ok && f == "Address" && isCallTo(base, gsc)
			}
			fromParam := func(v ssa.Value) bool {
				base, f, ok := fieldLoad(v)
				if !ok || f != "Address" {
					return false
				}
				_, isAlloc := ir.Strip(base).(*ssa.Alloc)
				return isAlloc
			}
			if (fromReg(b.X) && fromParam(b.Y)) || (fromReg(b.Y) && fromParam(b.X)) {
				return true, b.Op == token.EQL
			}
			return false, false
		})
		for _, g := range []eng.NamedGuard{
			{Name: "GetSideChain(params." + x.field + ") err==nil", G: ir.ErrNil(and(ir.CallTo(gsc), idArg(x.field)))},
			{Name: "GetSideChain(params." + x.field + ") != nil", G: ir.NotNil(and(ir.CallTo(gsc), idArg(x.field)))},
			owner,
		} {
			eng.Dominates(c, "C35.owner-request", fn, g, sinks, "request put", nil)
		}
		// the address compared is the witnessed one
		okW := false
		for _, v := range ir.CallsTo(fn, vo) {
			if isFieldNamed(v.Common().Args[1], "Address") {
				okW = true
			}
		}
		c.Decide(okW, "C35.owner-request", fn, "params.Address is the witnessed address (ValidateOwner; dominance is C18)", c.P.Rel(fn.Pos()), "")
		if x.name == "UpdateSideChain" {
			checkRequestLiteral(c, fn, pus, vo)
		} else {
			// quit request is for the same id that was owner-checked
			for _, p := range ir.CallsTo(fn, pqs) {
				c.Decide(isFieldNamed(p.Common().Args[1], "Chainid"), "C35.owner-request", fn, "quit request stored for params.Chainid", c.P.Rel(p.Pos()), "")
			}
		}
	}
	// approvals
	for _, x := range []struct {
		name string
		get  interface{}
	}{{"ApproveRegisterSideChain", gsa}, {"ApproveUpdateSideChain", gus}} {
		fn := c.Fn(pkSCM, x.name)
		if fn == nil {
			continue
		}
		getObj := gsa
		if x.name == "ApproveUpdateSideChain" {
			getObj = gus
		}
		puts := ir.CallsTo(fn, psc)
		sinkSites := puts
		if len(puts) == 0 {
			// the registry write (and the request delete) may stand in a private commit helper: the gates dominate
			// the helper's call site, and the object is checked at the PutSideChain inside it (parameters bound)
			sinkSites = ir.CallsThrough(fn, func(ci ssa.CallInstruction) bool { return ir.CalleeIs(ci, psc) }, 1)
			for _, site := range sinkSites {
				if h := site.Common().StaticCallee(); h != nil && h.Pkg == fn.Pkg {
					defer ir.BindParams(h, site.Common().Args)()
					c.Attribute(h, fn)
					puts = append(puts, ir.CallsTo(h, psc)...)
				}
			}
		}
		c.Floor("PutSideChain in "+x.name, len(puts), 1)
		sinks := ir.CallSinks(sinkSites, "PutSideChain")
		for _, g := range []eng.NamedGuard{
			{Name: "request getter err==nil", G: ir.ErrNil(and(ir.CallTo(getObj), idArg("Chainid")))},
			{Name: "request getter != nil", G: ir.NotNil(and(ir.CallTo(getObj), idArg("Chainid")))},
			{Name: "CheckConsensusSigns err==nil", G: ir.ErrNil(ir.CallTo(ccs))},
			{Name: "CheckConsensusSigns == true", G: ir.BoolIs(ir.CallTo(ccs), true)},
		} {
			eng.Dominates(c, "C35.approved-request-applied", fn, g, sinks, "PutSideChain", nil)
		}
		for _, p := range puts {
			cl, idx := ir.CallOf(p.Common().Args[1])
			ok := cl != nil && idx == 0 && ir.CalleeIs(cl, getObj)
			c.Decide(ok, "C35.approved-request-applied", fn, "the record registered is the object returned by the request getter", c.P.Rel(p.Pos()), "")
		}
		// the approval is counted for the same id
		for _, cc := range ir.CallsTo(fn, ccs) {
			a := cc.Common().Args
			cl, _ := ir.CallOf(a[2])
			ok := cl != nil && ir.CalleeObj(cl) != nil && ir.CalleeObj(cl).Name() == "GetUint64Bytes" && isFieldNamed(cl.Common().Args[0], "Chainid")
			c.Decide(ok, "C35.approved-request-applied", fn, "approvals are counted for params.Chainid", c.P.Rel(cc.Pos()), "")
		}
	}
	if fn := c.Fn(pkSCM, "ApproveQuitSideChain"); fn != nil {
		sites, err := eng.KeySitesIn(c.P, fn, 2)
		if err != nil {
			c.Broken("C35.quit", fn, "key sites", "", err.Error())
			return
		}
		var delChain []ir.Sink
		for _, s := range sites {
			if s.Op == "Delete" && s.Shape.LeadingLit() == "sideChain" {
				// directly, or through a helper: the sink is the call in this function that leads to the delete
				delChain = append(delChain, ir.Sink{Instr: s.TopCall, Note: "delete SIDE_CHAIN record"})
				okID := false
				for _, a := range s.Shape {
					if a.Kind == eng.AFix && a.N == 8 && a.Val != nil && isFieldNamed(a.Val, "Chainid") {
						okID = true
					}
				}
				c.Decide(okID, "C35.quit", fn, "the chain removed is params.Chainid", c.P.Rel(s.Call.Pos()), s.Shape.String())
			}
		}
		c.Floor("SIDE_CHAIN delete in ApproveQuitSideChain", len(delChain), 1)
		for _, g := range []eng.NamedGuard{
			{Name: "getQuitSideChain(params.Chainid) err==nil", G: ir.ErrNil(and(ir.CallTo(gqs), idArg("Chainid")))},
			{Name: "CheckConsensusSigns err==nil", G: ir.ErrNil(ir.CallTo(ccs))},
			{Name: "CheckConsensusSigns == true", G: ir.BoolIs(ir.CallTo(ccs), true)},
		} {
			eng.Dominates(c, "C35.quit", fn, g, delChain, "delete SIDE_CHAIN record", nil)
		}
	}
	// request kinds: getter / putter / approval delete share one key shape
	for _, k := range []struct{ kind, get, put, approve string }{
		{"register", "getSideChainApply", "putSideChainApply", "ApproveRegisterSideChain"},
		{"update", "getUpdateSideChain", "putUpdateSideChain", "ApproveUpdateSideChain"},
		{"quit", "getQuitSideChain", "putQuitSideChain", "ApproveQuitSideChain"},
	} {
		g, p, a := c.Fn(pkSCM, k.get), c.Fn(pkSCM, k.put), c.Fn(pkSCM, k.approve)
		if g == nil || p == nil || a == nil {
			continue
		}
		gs, _ := eng.KeySitesIn(c.P, g, 1)
		ps, _ := eng.KeySitesIn(c.P, p, 1)
		as, _ := eng.KeySitesIn(c.P, a, 2)
		var gShape, pShape string
		for _, s := range gs {
			if s.Op == "Get" {
				gShape = s.Shape.Canon()
			}
		}
		for _, s := range ps {
			if s.Op == "Put" {
				pShape = s.Shape.Canon()
			}
		}
		delOK := false
		var dels []string
		for _, s := range as {
			if s.Op == "Delete" {
				dels = append(dels, s.Shape.Canon())
				if s.Shape.Canon() == gShape {
					delOK = true
				}
			}
		}
		c.Decide(gShape != "" && gShape == pShape, "C35.request-key", g, k.kind+" request: getter reads the key the putter writes", c.P.Rel(g.Pos()), gShape+" / "+pShape)
		c.Decide(delOK, "C35.request-key", a, k.kind+" request: the approval deletes that same key", c.P.Rel(a.Pos()), sprintf("request key %s, approval deletes %v", gShape, dels))
	}
	// who may register
	if f := c.Fn(pkSCM, "PutSideChain"); f != nil {
		okW := true
		var names []string
		for _, caller := range c.P.EffectiveCallers(f, func(y *ssa.Function) bool {
			switch ir.FuncName(y) {
			case "native/service/governance/side_chain_manager.ApproveRegisterSideChain", "native/service/governance/side_chain_manager.ApproveUpdateSideChain",
				"native/service/governance/side_chain_manager.PutRippleExtraInfo":
				return true
			}
			return false
		}) {
			n := ir.FuncName(caller)
			names = append(names, n)
			switch n {
			case "native/service/governance/side_chain_manager.ApproveRegisterSideChain", "native/service/governance/side_chain_manager.ApproveUpdateSideChain":
			case "native/service/governance/side_chain_manager.PutRippleExtraInfo":
				// frozen exception: re-stores the registered record of the same id with a new
				// ExtraInfo (ripple sequence bookkeeping) — checked: the object is GetSideChain's
				// result and ExtraInfo is the only field written
				okX := true
				for _, p := range ir.CallsTo(caller, psc) {
					if !isCallTo(p.Common().Args[1], gsc) {
						okX = false
					}
				}
				for _, b := range caller.Blocks {
					for _, in := range b.Instrs {
						if st, isSt := in.(*ssa.Store); isSt {
							if fa, isFA := st.Addr.(*ssa.FieldAddr); isFA && isCallTo(fa.X, gsc) && fieldNameOf(fa) != "ExtraInfo" {
								okX = false
							}
						}
					}
				}
				c.Decide(okX, "C35.who-may-register", caller, "PutRippleExtraInfo re-stores GetSideChain's record changing only ExtraInfo", c.P.Rel(caller.Pos()), "")
			default:
				okW = false
			}
		}
		c.Decide(okW && len(names) >= 2, "C35.who-may-register", f, "PutSideChain is called only from the two approvals (+ the ExtraInfo bookkeeping exception)", c.P.Rel(f.Pos()), sprintf("%v", names))
	}
}

// checkRequestLiteral: the SideChain literal stored as a request carries
// Address = params.Address (witnessed) and ChainId = params.ChainId.
func checkRequestLiteral(c *core.Ctx, fn *ssa.Function, put interface{}, vo interface{}) {
	for _, ci := range ir.Calls(fn, nil) {
		o := ir.CalleeObj(ci)
		if o == nil || (o.Name() != "putSideChainApply" && o.Name() != "putUpdateSideChain") {
			continue
		}
		al, release := literalOf(ci.Common().Args[1])
		if al == nil {
			c.Broken("C35.request-content", fn, "request literal", c.P.Rel(ci.Pos()), "argument is not a local literal (nor built by a helper)")
			continue
		}
		defer release()
		got := map[string]ssa.Value{}
		for _, ref := range *al.Referrers() {
			if fa, ok := ref.(*ssa.FieldAddr); ok {
				_, name, _ := fieldLoad(&ssa.UnOp{X: fa})
				_ = name
				for _, r2 := range *fa.Referrers() {
					if st, ok := r2.(*ssa.Store); ok && st.Addr == fa {
						got[fieldNameOf(fa)] = st.Val
					}
				}
			}
		}
		okA := got["Address"] != nil && isFieldNamed(got["Address"], "Address")
		okI := got["ChainId"] != nil && isFieldNamed(got["ChainId"], "ChainId")
		c.Decide(okA, "C35.request-content", fn, "request.Address = params.Address (the witnessed owner)", c.P.Rel(ci.Pos()), "")
		c.Decide(okI, "C35.request-content", fn, "request.ChainId = params.ChainId (the id that was checked)", c.P.Rel(ci.Pos()), "")
	}
}
