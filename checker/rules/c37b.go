package rules

import (
	"golang.org/x/tools/go/ssa"

	"polyverif/core"
	"polyverif/ir"
)

// C37 (continued) — check-then-insert is atomic.  "Never two transactions with
// the same hash, including under concurrent use": the membership lookup that
// guards an insertion and the insertion itself must sit in ONE critical
// section.  Looking up under the read lock, releasing it, and inserting under a
// freshly taken write lock keeps every single access locked (the lock table is
// satisfied, the race detector is silent) but lets two adders of the same hash
// both see "absent".
//
// Rule: in every function that inserts into a guarded map after a lookup of the
// same map, no non-deferred Unlock/RUnlock of the guarding mutex lies on a path
// from that lookup to the insertion.
func checkCheckThenInsertAtomic(c *core.Ctx) {
	const rule = "C37.check-then-insert"
	n := 0
	for _, spec := range []struct{ pkg, fn, field string }{
		{pkTxCom, "TXPool.AddTxList", "txList"},
		{pkTxProc, "TXPoolServer.setPendingTx", "allPendingTxs"},
	} {
		fn := c.Fn(spec.pkg, spec.fn)
		if fn == nil {
			continue
		}
		var inserts []*ssa.MapUpdate
		var lookups []*ssa.Lookup
		var unlocks []ssa.CallInstruction
		for _, b := range fn.Blocks {
			for _, in := range b.Instrs {
				switch x := in.(type) {
				case *ssa.MapUpdate:
					if _, f, ok := fieldLoad(x.Map); ok && f == spec.field {
						inserts = append(inserts, x)
					}
				case *ssa.Lookup:
					if _, f, ok := fieldLoad(x.X); ok && f == spec.field {
						lookups = append(lookups, x)
					}
				case *ssa.Call: // deferred unlocks are *ssa.Defer: they run at return, after the insertion
					if o := ir.CalleeObj(x); o != nil && (o.Name() == "Unlock" || o.Name() == "RUnlock") {
						unlocks = append(unlocks, x)
					}
				}
			}
		}
		if len(inserts) == 0 {
			c.Broken(rule, fn, "insertion into "+spec.field, c.P.Rel(fn.Pos()), "not found")
			continue
		}
		if len(lookups) == 0 {
			c.Violate(rule, fn, "insertion into "+spec.field+" follows a membership lookup in the same function", c.P.Rel(inserts[0].Pos()), "no lookup of "+spec.field+" in the function")
			continue
		}
		for _, ins := range inserts {
			n++
			bad := ""
			for _, lk := range lookups {
				fromLk := ir.NewReach(fn).Run(lk)
				if !fromLk.Instr(ins) {
					continue
				}
				for _, u := range unlocks {
					if !fromLk.Instr(u) {
						continue
					}
					if ir.NewReach(fn).Run(u).Instr(ins) {
						bad = sprintf("the lock is released at %s between the lookup at %s and the insertion: two concurrent adders can both miss", c.P.Rel(u.Pos()), c.P.Rel(lk.Pos()))
					}
				}
			}
			c.Decide(bad == "", rule, fn, "no unlock between the membership lookup of "+spec.field+" and the insertion", c.P.Rel(ins.Pos()), bad)
		}
	}
	c.Floor("guarded check-then-insert sites", n, 2)
}
