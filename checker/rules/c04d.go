package rules

import (
	"go/token"

	"golang.org/x/tools/go/ssa"

	"polyverif/core"
	"polyverif/ir"
)

// C04 (continued) — a plausibility bound on a wire count must not reject what
// the encoder emits.  The decoders bound an element count l by the bytes that
// are left: each element takes at least k bytes, so l ≤ Len()/k for every
// well-formed input — with EQUALITY whenever fewer than k bytes follow the list
// (e.g. `00 00`: an empty map followed by a one-byte empty list has l = 0 =
// Len()/2).  The rejecting test must therefore be the strict  l > Len()/k ; the
// non-strict  l >= Len()/k  refuses boundary encodings the encoder produces and
// the stored record can never be read back.
func checkRemainingBytesBounds(c *core.Ctx, rule string, decoders []*ssa.Function) int {
	isLenQuot := func(v ssa.Value) bool {
		q, ok := ir.Strip(v).(*ssa.BinOp)
		if !ok || q.Op != token.QUO {
			return false
		}
		if k, isK := ir.ConstInt(q.Y); !isK || k < 2 {
			return false
		}
		cl, _ := ir.CallOf(q.X)
		if cl == nil {
			return false
		}
		o := ir.CalleeObj(cl)
		return o != nil && o.Name() == "Len"
	}
	n := 0
	for _, fn := range decoders {
		for _, cd := range ir.Conds(fn) {
			b, ok := cd.V.(*ssa.BinOp)
			if !ok {
				continue
			}
			var count ssa.Value
			strictReject := false
			switch {
			case isLenQuot(b.Y):
				count = b.X
				strictReject = b.Op == token.GTR || b.Op == token.LEQ // l > q rejects; l <= q accepts
			case isLenQuot(b.X):
				count = b.Y
				strictReject = b.Op == token.LSS || b.Op == token.GEQ // q < l rejects; q >= l accepts
			default:
				continue
			}
			switch b.Op {
			case token.GTR, token.LSS, token.GEQ, token.LEQ:
			default:
				continue
			}
			if r, _ := wireCount(count, 0); r == nil {
				continue
			}
			n++
			c.Touch(fn)
			c.Decide(strictReject, rule, fn, "an element count is refused only when it EXCEEDS remaining-bytes/k", c.P.Rel(b.Pos()),
				"the test also refuses count == Len()/k, which the encoder produces whenever fewer than k bytes follow the list (an empty list followed by a short field)")
		}
	}
	return n
}
