package rules

import (
	"go/token"

	"golang.org/x/tools/go/ssa"

	"polyverif/core"
	"polyverif/ir"
)

// C40 (continued) — how many leading proposers are excluded.  The excluded set
// is filled from cfg.Proposers in order and the fill loop may stop early only
// once it holds C entries (len(set) >= chain.C); stopping on any weaker
// condition leaves leading proposers eligible as endorsers/committers.
func checkLeadingProposerCount(c *core.Ctx, fn *ssa.Function, leading ssa.Value, chainP *ssa.Parameter) {
	n := 0
	for _, b := range fn.Blocks {
		hasFill := false
		for _, in := range b.Instrs {
			if mu, ok := in.(*ssa.MapUpdate); ok && mu.Map == leading {
				hasFill = true
			}
		}
		if !hasFill || len(b.Instrs) == 0 {
			continue
		}
		iff, ok := b.Instrs[len(b.Instrs)-1].(*ssa.If)
		if !ok {
			continue // no early stop: the whole list is excluded, which is stronger
		}
		n++
		cmp, isB := iff.Cond.(*ssa.BinOp)
		okStop := false
		detail := "early-stop test not recognised"
		if isB {
			isLen := func(v ssa.Value) bool {
				cl, ok := ir.Strip(v).(*ssa.Call)
				if !ok {
					return false
				}
				bi, ok := cl.Common().Value.(*ssa.Builtin)
				return ok && bi.Name() == "len" && cl.Common().Args[0] == leading
			}
			isC := isFieldOf("C", func(v ssa.Value) bool { return ir.Strip(v) == ssa.Value(chainP) })
			var op token.Token
			switch {
			case isLen(cmp.X) && isC(cmp.Y):
				op = cmp.Op
			case isLen(cmp.Y) && isC(cmp.X):
				op = relMirror(cmp.Op)
			}
			if op != token.ILLEGAL {
				// which successor leaves the fill loop? the one from which b is not reachable again
				leaveIdx := -1
				for i, s := range b.Succs {
					r := ir.NewReach(fn)
					r.RunFromBlock(s)
					if !r.BlockEntered(b) && s != b {
						leaveIdx = i
					}
				}
				if leaveIdx >= 0 {
					eff := op
					if leaveIdx == 1 {
						eff = relNegate(op)
					}
					okStop = relImplies(eff, token.GEQ)
					detail = "the loop is left on len(excluded) " + eff.String() + " C"
				}
			}
		}
		c.Decide(okStop, "C40.select", fn, "the excluded set stops growing only once it holds C leading proposers (len >= chain.C)", c.P.Rel(iff.Cond.Pos()), detail)
	}
	c.Floor("fill sites of the excluded leading-proposer set", n, 1)
}
