package rules

import (
	"go/types"
	"sort"
	"strings"

	"golang.org/x/tools/go/ssa"

	"polyverif/core"
	"polyverif/ir"
)

// "A truncated input is never accepted": no end-of-input answer of a zero-copy
// read is lost on a path to success.
//
// ZeroCopySource moves its offset to the end of the buffer whenever a read does
// not fit (NextBytes clamps and advances), so once one read has answered eof
// every later read of at least one byte answers eof as well.  Hence, for a read
// R in a decoder: assume R answered eof; then every later test of the eof
// answer of a fixed-size read goes the eof way, and every later test of the
// error of a sub-decoder that was handed the same source goes the error way.
// If under that assumption a success return (nil error; for readers that
// answer (value, eof) themselves: a constant `false`) is still reachable, the
// end of input found by R is lost — whether because R's answer was never
// looked at, was overwritten by the next read, or was looked at by a branch
// that does not fail.  Reads of a variable number of bytes (NextBytes(n),
// Skip(n)) may legitimately succeed with n = 0 and are not assumed to fail.

type zcRead struct {
	call  *ssa.Call
	eof   ssa.Value // the Extract carrying the eof answer (nil when it is discarded)
	fixed bool      // reads at least one byte on every call
}

func isZeroCopySource(t types.Type) bool {
	if p, ok := t.(*types.Pointer); ok {
		t = p.Elem()
	}
	n, ok := t.(*types.Named)
	return ok && n.Obj().Name() == "ZeroCopySource" && n.Obj().Pkg() != nil && strings.HasSuffix(n.Obj().Pkg().Path(), "/common")
}

func zcReadsOf(fn *ssa.Function) []zcRead {
	var out []zcRead
	for _, b := range fn.Blocks {
		for _, in := range b.Instrs {
			cl, ok := in.(*ssa.Call)
			if !ok {
				continue
			}
			o := ir.CalleeObj(cl)
			if o == nil || !strings.HasPrefix(o.Name(), "Next") {
				continue
			}
			sig, _ := o.Type().(*types.Signature)
			if sig == nil || sig.Recv() == nil || !isZeroCopySource(sig.Recv().Type()) {
				continue
			}
			res := sig.Results()
			if res.Len() == 0 {
				continue
			}
			if bt, isB := res.At(res.Len() - 1).Type().Underlying().(*types.Basic); !isB || bt.Kind() != types.Bool {
				continue
			}
			r := zcRead{call: cl, fixed: true}
			if o.Name() == "NextBytes" {
				r.fixed = false
				if len(cl.Common().Args) == 2 {
					if k, isK := ir.ConstInt(cl.Common().Args[1]); isK && k > 0 {
						r.fixed = true
					}
				}
			}
			if res.Len() == 1 {
				r.eof = cl
			} else if refs := cl.Referrers(); refs != nil {
				for _, ref := range *refs {
					if ex, isEx := ref.(*ssa.Extract); isEx && ex.Index == res.Len()-1 {
						r.eof = ex
					}
				}
			}
			out = append(out, r)
		}
	}
	return out
}

// checkEofNotLost decides the rule for every function in fns that reads from a ZeroCopySource.
// Returns the number of reads examined.
func checkEofNotLost(c *core.Ctx, rule string, fns []*ssa.Function) int {
	nReads := 0
	for _, fn := range fns {
		if len(fn.Blocks) == 0 {
			continue
		}
		reads := zcReadsOf(fn)
		if len(reads) == 0 {
			continue
		}
		// success sinks
		var sinks []ir.Sink
		res := fn.Signature.Results()
		hasErr := res.Len() > 0 && ir.IsErrorType(res.At(res.Len()-1).Type())
		lastBool := false
		if res.Len() > 0 {
			if bt, isB := res.At(res.Len() - 1).Type().Underlying().(*types.Basic); isB && bt.Kind() == types.Bool {
				lastBool = true
			}
		}
		switch {
		case hasErr:
			sinks = ir.SuccessSinks(fn)
		case lastBool:
			// a reader that answers (…, eof) itself: "success" is a constant false
			for _, b := range fn.Blocks {
				if ret, ok := b.Instrs[len(b.Instrs)-1].(*ssa.Return); ok {
					// every return (per incoming path when the answer is merged) whose answer is not a
					// constant true; which of them can still say "not at the end" is decided per read below
					last := ret.Results[len(ret.Results)-1]
					if phi, isPhi := last.(*ssa.Phi); isPhi && phi.Block() == b {
						for i, e := range phi.Edges {
							if k, isK := ir.ConstBool(e); isK && k {
								continue
							}
							pred := b.Preds[i]
							sinks = append(sinks, ir.Sink{Instr: ret, Via: &ir.Edge{From: pred, Idx: indexOfSucc(pred, b)}, Note: "return …, eof answer", BoolVal: e})
						}
					} else if k, isK := ir.ConstBool(last); !isK || !k {
						sinks = append(sinks, ir.Sink{Instr: ret, Note: "return …, eof answer", BoolVal: last})
					}
				}
			}
		default:
			continue // no way to refuse: not a decoder this rule speaks about
		}
		if len(sinks) == 0 {
			continue
		}
		eofOf := map[ssa.Value]zcRead{}
		for _, r := range reads {
			if r.eof != nil {
				eofOf[r.eof] = r
			}
		}
		conds := ir.Conds(fn)
		c.Touch(fn)
		bad := ""
		for _, R := range reads {
			if !R.fixed {
				continue
			}
			nReads++
			// what is executed after R
			after := ir.NewReach(fn)
			after.Run(R.call)
			src := ir.Strip(R.call.Common().Args[0])
			// a source over a buffer of constant length allocated here (a fixed-size header read with
			// io.ReadFull): whether the reads fit does not depend on the input
			if nz, _ := ir.CallOf(src); nz != nil && ir.CalleeObj(nz) != nil && ir.CalleeObj(nz).Name() == "NewZeroCopySource" && len(nz.Common().Args) == 1 {
				buf := ir.Strip(nz.Common().Args[0])
				if sl, isSl := buf.(*ssa.Slice); isSl {
					buf = ir.Strip(sl.X)
				}
				if mk, isMk := buf.(*ssa.MakeSlice); isMk {
					if _, isK := ir.ConstInt(mk.Len); isK {
						continue
					}
				}
				// make([]byte, CONST) is lowered to a slice of a fresh fixed-size array
				if al, isAl := buf.(*ssa.Alloc); isAl {
					if pt, isP := al.Type().Underlying().(*types.Pointer); isP {
						if _, isArr := pt.Elem().Underlying().(*types.Array); isArr {
							continue
						}
					}
				}
			}
			// an optional trailing field: nothing is read after R, and the decoder either discards R's
			// end-of-input answer explicitly (`x, _ := …`) or branches on it (default value for old
			// encodings).  What is NOT exempt is an answer stored in a variable nobody looks at.
			terminal := true
			for _, o := range reads {
				if o.call != R.call && after.Instr(o.call) {
					terminal = false
				}
			}
			if terminal {
				for _, ci := range ir.Calls(fn, func(ci ssa.CallInstruction) bool {
					h := ci.Common().StaticCallee()
					if h == nil || !ir.InModule(h) || !after.Instr(ci) || ci == ssa.CallInstruction(R.call) {
						return false
					}
					if sg := h.Signature; sg.Recv() != nil && isZeroCopySource(sg.Recv().Type()) {
						return false // the reads themselves are handled above; Len/Pos/Skip read nothing that could end the input
					}
					for _, a := range ci.Common().Args {
						if ir.Strip(a) == src {
							return true
						}
					}
					return false
				}) {
					_ = ci
					terminal = false
				}
			}
			if terminal && hasErr {
				explicit := R.eof == nil || blankEof(fn, R.call)
				if R.eof != nil {
					for _, cd := range conds {
						if cd.V == R.eof {
							explicit = true
						}
					}
				}
				if explicit {
					continue
				}
			}
			r := ir.NewReach(fn)
			for _, cd := range conds {
				// the eof answer of R or of a fixed read after R (a phi counts when all its inputs are such answers)
				allLater := func(v ssa.Value) bool {
					leaves := []ssa.Value{v}
					if phi, isPhi := v.(*ssa.Phi); isPhi {
						leaves = phi.Edges
					}
					for _, l := range leaves {
						rd, isRead := eofOf[l]
						if !isRead || !rd.fixed || !(rd.call == R.call || after.Instr(rd.call)) {
							return false
						}
					}
					return len(leaves) > 0
				}
				if allLater(cd.V) {
					r.Cut[ir.Edge{From: cd.If.Block(), Idx: cd.FalseIdx()}] = true
					continue
				}
				// the error of a sub-decoder handed the same source, called after R
				if x, neq, ok := ir.NilCmp(cd.V); ok && ir.IsErrorType(x.Type()) {
					okAll := true
					leaves := []ssa.Value{x}
					if phi, isPhi := x.(*ssa.Phi); isPhi {
						leaves = phi.Edges
					}
					for _, l := range leaves {
						cl, _ := ir.CallOf(l)
						if cl == nil || !after.Instr(cl) {
							okAll = false
							break
						}
						h := cl.Common().StaticCallee()
						if h == nil || !ir.InModule(h) {
							okAll = false
							break
						}
						passes := false
						for _, a := range cl.Common().Args {
							if ir.Strip(a) == src {
								passes = true
							}
						}
						if !passes {
							okAll = false
							break
						}
					}
					if okAll {
						// "x != nil" true edge is the error way
						idx := cd.TrueIdx()
						if !neq {
							idx = cd.FalseIdx()
						}
						r.Cut[ir.Edge{From: cd.If.Block(), Idx: 1 - idx}] = true
					}
				}
			}
			r.Run(R.call)
			for _, s := range sinks {
				if !hasErr && s.BoolVal != nil {
					// the answer returned here is the answer of R or of a read after R: it says "end of input"
					leaves := []ssa.Value{s.BoolVal}
					if phi, isPhi := s.BoolVal.(*ssa.Phi); isPhi {
						leaves = phi.Edges
					}
					saysEof := len(leaves) > 0
					for _, l := range leaves {
						if k, isK := ir.ConstBool(l); isK && k {
							continue
						}
						rd, isRead := eofOf[l]
						if !isRead || !(rd.call == R.call || after.Instr(rd.call)) {
							saysEof = false
						}
					}
					if saysEof {
						continue
					}
				}
				// `return eofToError(eof)`: the error returned is computed by a module helper from the eof
				// answer of R or of a later read; evaluated with that answer = true it is non-nil
				if hasErr && eofHelperFails(s, func(v ssa.Value) bool {
					rd, isRead := eofOf[v]
					return isRead && (rd.call == R.call || after.Instr(rd.call))
				}) {
					continue
				}
				if r.SinkReachable(s) && bad == "" {
					what := "is discarded"
					if R.eof != nil {
						what = "does not stop the decoder"
					}
					bad = sprintf("the end-of-input answer of %s at %s %s: a success return at %s is reachable although the input ended there", ir.CalleeObj(R.call).Name(), c.P.Rel(R.call.Pos()), what, c.P.Rel(s.Instr.Pos()))
				}
			}
		}
		c.Decide(bad == "", rule, fn, "no end-of-input answer of a zero-copy read is lost on a path to success", c.P.Rel(fn.Pos()), bad)
	}
	return nReads
}

// funcsOfPkgs: all source functions (with closures) of the given module-relative packages; a trailing
// "/..." selects the package and everything below it.
func funcsOfPkgs(c *core.Ctx, pats ...string) []*ssa.Function {
	var out []*ssa.Function
	var paths []string
	for p := range c.P.Pkgs {
		paths = append(paths, p)
	}
	sortStrings(paths)
	for _, p := range paths {
		pk := c.P.Pkgs[p]
		if pk == nil || pk.SSA == nil || !strings.HasPrefix(p, ir.Mod) {
			continue
		}
		rel := strings.TrimPrefix(strings.TrimPrefix(p, ir.Mod), "/")
		match := false
		for _, pat := range pats {
			if strings.HasSuffix(pat, "/...") {
				base := strings.TrimSuffix(pat, "/...")
				if rel == base || strings.HasPrefix(rel, base+"/") {
					match = true
				}
			} else if rel == pat {
				match = true
			}
		}
		if !match {
			continue
		}
		fns := allFuncs(pk.SSA)
		sortFuncs(fns)
		out = append(out, fns...)
	}
	return out
}

func sortStrings(s []string) { sort.Strings(s) }

func sortFuncs(fns []*ssa.Function) {
	sort.Slice(fns, func(i, j int) bool { return fns[i].String() < fns[j].String() })
}
