package rules

import (
	"golang.org/x/tools/go/ssa"

	"polyverif/ir"
)

// triAtFlow: the possible values (⊆ {-1,0,1}) of the three-way comparison
// result cmpV on entry to blk, computed by forward propagation over the CFG:
// every edge leaving a test `cmpV op k` narrows the set by the outcome of that
// edge; a block's set is the union over its incoming edges.  (The dominance-only
// version lost `case -1, 0:` — two tests falling into one block — and nested
// re-tests of the same value.)  Values outside {-1,0,1} are outside the
// comparator's contract (the code panics on them).
func triAtFlow(fn *ssa.Function, cmpV ssa.Value, blk *ssa.BasicBlock) map[int]bool {
	def := cmpV.(ssa.Instruction).Block()
	val := map[*ssa.BasicBlock]map[int]bool{}
	full := func() map[int]bool { return map[int]bool{-1: true, 0: true, 1: true} }
	val[def] = full()
	edgeSet := func(from *ssa.BasicBlock, idx int, in map[int]bool) map[int]bool {
		out := map[int]bool{}
		for v := range in {
			out[v] = true
		}
		ifi, ok := from.Instrs[len(from.Instrs)-1].(*ssa.If)
		if !ok {
			return out
		}
		cond := ifi.Cond
		neg := false
		for {
			if u, isU := cond.(*ssa.UnOp); isU && u.Op.String() == "!" {
				cond, neg = u.X, !neg
				continue
			}
			break
		}
		b, ok := cond.(*ssa.BinOp)
		if !ok || b.X != cmpV {
			return out
		}
		k, okk := ir.ConstInt(b.Y)
		if !okk {
			return out
		}
		ts := triSet(b.Op, k)
		if ts == nil {
			return out
		}
		holds := (idx == 0) != neg // successor 0 is taken when the If condition is true
		for v := range out {
			if ts[v] != holds {
				delete(out, v)
			}
		}
		return out
	}
	changed := true
	for iter := 0; changed && iter < 64; iter++ {
		changed = false
		for _, b := range fn.Blocks {
			in, ok := val[b]
			if !ok {
				continue
			}
			for i, s := range b.Succs {
				if s == def {
					continue
				}
				es := edgeSet(b, i, in)
				cur := val[s]
				if cur == nil {
					cur = map[int]bool{}
					val[s] = cur
				}
				for v := range es {
					if !cur[v] {
						cur[v] = true
						changed = true
					}
				}
			}
		}
	}
	if r, ok := val[blk]; ok {
		return r
	}
	return full()
}
