package rules

import (
	"go/token"
	"go/types"

	"golang.org/x/tools/go/ssa"

	"polyverif/core"
	"polyverif/eng"
	"polyverif/ir"
)

// onlyCalledFromAllowed: f is an unexported helper all of whose (effective)
// callers are functions of the allowed set — extracting a few lines of an allowed
// function into a private helper does not widen who touches the buffer.
func onlyCalledFromAllowed(c *core.Ctx, f *ssa.Function, allowed map[string]bool) bool {
	if f.Parent() != nil {
		root := f
		for root.Parent() != nil {
			root = root.Parent()
		}
		return allowed[root.Name()]
	}
	if len(f.Name()) == 0 || f.Name()[0] < 'a' || f.Name()[0] > 'z' {
		return false
	}
	callers := c.P.EffectiveCallers(f, func(y *ssa.Function) bool { return allowed[y.Name()] && y.Pkg == f.Pkg })
	if len(callers) == 0 {
		return false
	}
	for _, x := range callers {
		if !(allowed[x.Name()] && x.Pkg == f.Pkg) {
			return false
		}
	}
	return true
}

// endPositionGuarded — shape-independent form of "the new read position is
// off+n only when the addition did not overflow and does not exceed len(s), and
// len(s) otherwise".  The position written to .off (in fn, or returned by the
// same-package helper fn takes it from) is followed through φ-nodes to its
// leaves; a leaf that is SafeAdd's sum must arrive only over edges that are
// dominated by BOTH `overflow == false` and `sum <= len(s)`; every other leaf
// must be len(s).
var positionSums int

func endPositionGuarded(c *core.Ctx, fn *ssa.Function, sa *types.Func) bool {
	positionSums = 0
	ok := endPositionGuarded0(c, fn, sa)
	return ok && positionSums >= 1
}

func endPositionGuarded0(c *core.Ctx, fn *ssa.Function, sa *types.Func) bool {
	stores := allFieldStores(fn, "off")
	if len(stores) == 0 {
		return false
	}
	for _, st := range stores {
		v := st.Val
		host := fn
		// value produced by a helper: analyse the helper's first result
		if cl, idx := ir.CallOf(v); cl != nil && !ir.CalleeIs(cl, sa) {
			h := cl.Common().StaticCallee()
			if h == nil || h.Pkg != fn.Pkg || len(h.Blocks) == 0 {
				return false
			}
			if idx < 0 {
				idx = 0
			}
			ok := false
			for _, b := range h.Blocks {
				if len(b.Instrs) == 0 {
					continue
				}
				if ret, isRet := b.Instrs[len(b.Instrs)-1].(*ssa.Return); isRet && idx < len(ret.Results) {
					if !positionValueGuarded(h, ret.Results[idx], sa, ret) {
						return false
					}
					ok = true
				}
			}
			if !ok {
				return false
			}
			continue
		}
		if !positionValueGuarded(host, v, sa, st) {
			return false
		}
	}
	return true
}

func positionValueGuarded(fn *ssa.Function, v ssa.Value, sa *types.Func, use ssa.Instruction) bool {
	seen := map[ssa.Value]bool{}
	nSum := 0
	var walk func(v ssa.Value, via *ir.Edge) bool
	walk = func(v ssa.Value, via *ir.Edge) bool {
		if phi, ok := v.(*ssa.Phi); ok {
			if seen[v] {
				return true
			}
			seen[v] = true
			for i, e := range phi.Edges {
				pred := phi.Block().Preds[i]
				idx := 0
				for j, s := range pred.Succs {
					if s == phi.Block() {
						idx = j
					}
				}
				if !walk(e, &ir.Edge{From: pred, Idx: idx}) {
					return false
				}
			}
			return true
		}
		if isLenOfField("s", nil)(v) {
			return true
		}
		cl, idx := ir.CallOf(v)
		if cl == nil || idx != 0 || !ir.CalleeIs(cl, sa) {
			return false
		}
		nSum++
		isSum := func(x ssa.Value) bool { c2, i2 := ir.CallOf(x); return c2 == cl && i2 == 0 }
		noOverflow := eng.NamedGuard{Name: "overflow == false", G: func(cd ir.Cond) (bool, bool) {
			val := cd.V
			want := false
			if b, ok := val.(*ssa.BinOp); ok && (b.Op == token.EQL || b.Op == token.NEQ) {
				if k, isK := ir.ConstBool(b.Y); isK {
					val = b.X
					want = (b.Op == token.EQL) == k
					want = !want // we want the edge on which overflow is false
					if c2, i2 := ir.CallOf(val); c2 == cl && i2 == 1 {
						return true, want
					}
					return false, false
				}
			}
			if c2, i2 := ir.CallOf(val); c2 == cl && i2 == 1 {
				return true, false
			}
			return false, false
		}}
		leqLen := relGuard("sum <= len(s)", isSum, isLenOfField("s", nil), token.LEQ)
		var sink ir.Sink
		if via != nil {
			sink = ir.Sink{Instr: via.From.Instrs[len(via.From.Instrs)-1], Via: via, Note: "sum chosen"}
		} else if use != nil {
			sink = ir.Sink{Instr: use, Note: "sum used"}
		} else {
			return false
		}
		return quietDominates(fn, noOverflow, sink) && quietDominates(fn, leqLen, sink)
	}
	ok := walk(v, nil)
	positionSums += nSum
	return ok
}
