package rules

import (
	"go/constant"
	"sort"
	"strings"

	"golang.org/x/tools/go/ssa"

	"polyverif/core"
	"polyverif/ir"
)

// C17 (continued) — the approval ledger of a governance action lives under
// hash(method tag ‖ input): two actions keep separate ledgers only if every
// CheckConsensusSigns call site passes a tag of its own.  An approve-remove
// method that passes the approve-register tag shares (and can complete) the
// other action's ledger for the same request id.
func checkVoteTagsDistinct(c *core.Ctx, rule string) {
	fn := c.Fn(pkNM, "CheckConsensusSigns")
	if fn == nil {
		return
	}
	byTag := map[string][]string{}
	n := 0
	// call sites, looking through private forwarding helpers (the tag is then what the helper's caller passes)
	forEachEffectiveSite(c, fn, func(caller *ssa.Function, site ssa.CallInstruction, args []ssa.Value) {
		n++
		c.Touch(caller)
		k, ok := ir.Strip(args[1]).(*ssa.Const)
		if !ok || k.Value == nil || k.Value.Kind() != constant.String {
			c.Violate(rule, caller, "ledger tag is a string constant", c.P.Rel(site.Pos()), "")
			return
		}
		tag := constant.StringVal(k.Value)
		byTag[tag] = append(byTag[tag], ir.FuncName(caller))
	})
	c.Floor("CheckConsensusSigns call sites ("+rule+")", n, 10)
	tags := ir.SortedKeys(byTag)
	for _, t := range tags {
		users := byTag[t]
		sort.Strings(users)
		c.Decide(len(users) == 1, rule, users[0], sprintf("approval-ledger tag %q is used by one action only", t), "", "shared by "+strings.Join(users, ", ")+": the two actions vote into one ledger")
	}
	for _, a := range tags {
		for _, b := range tags {
			if a != b && strings.HasPrefix(b, a) {
				c.Violate(rule, byTag[a][0], sprintf("tag %q is not a prefix of another tag", a), "", sprintf("%q is a prefix of %q: tag‖input is ambiguous", a, b))
			}
		}
	}
}
