package rules

import (
	"go/token"
	"sort"
	"strings"

	"golang.org/x/tools/go/ssa"

	"polyverif/core"
	"polyverif/eng"
	"polyverif/ir"
)

// checkAccessorKeyPairs: sibling agreement between the reader and the writer of
// one stored record.  For every pair get<X> / put<X> (any capitalisation of the
// verb) declared in pkg, the key shapes get<X> itself reads must be exactly the
// key shapes put<X> itself writes.  A reader pointed at another record's key
// (getRemoveID reading the apply counter) makes the writer's record dead and
// lets two requests share an id.  Returns the number of pairs compared.
func checkAccessorKeyPairs(c *core.Ctx, rule, pkg string, except map[string]string) int {
	pk := c.P.Pkgs[ir.PkgPath(pkg)]
	if pk == nil || pk.SSA == nil {
		c.Broken("anchor", pkg, "package", "", "not loaded")
		return 0
	}
	byName := map[string]*ssa.Function{}
	for _, m := range pk.SSA.Members {
		if f, ok := m.(*ssa.Function); ok && len(f.Blocks) > 0 {
			byName[f.Name()] = f
		}
	}
	names := make([]string, 0, len(byName))
	for n := range byName {
		names = append(names, n)
	}
	sort.Strings(names)
	// accessors of the package: names for which both a reader and a writer exist
	isAccessor := func(n string) bool {
		l := strings.ToLower(n)
		for _, verb := range []string{"get", "put", "set"} {
			if !strings.HasPrefix(l, verb) || len(n) <= 3 {
				continue
			}
			suffix := n[3:]
			hasGet := byName["get"+suffix] != nil || byName["Get"+suffix] != nil
			hasPut := byName["put"+suffix] != nil || byName["Put"+suffix] != nil || byName["set"+suffix] != nil || byName["Set"+suffix] != nil
			if hasGet && hasPut {
				return true
			}
		}
		return false
	}
	own := func(fn *ssa.Function, op string) (map[string]bool, bool) {
		sites, err := eng.KeySitesIn(c.P, fn, 1)
		if err != nil {
			return nil, false
		}
		out := map[string]bool{}
		for _, s := range sites {
			if s.Op != op {
				continue
			}
			// the accessor's own access, or one it makes through a private worker of the package that is not
			// itself an accessor of some record (`putCounter(native, kind, v)` shared by two counters)
			if s.Fn != fn && (s.Fn.Pkg != fn.Pkg || token.IsExported(s.Fn.Name()) || isAccessor(s.Fn.Name())) {
				continue
			}
			out[s.Shape.Canon()] = true
		}
		return out, true
	}
	n := 0
	for _, g := range names {
		lg := strings.ToLower(g[:1]) + g[1:]
		if !strings.HasPrefix(lg, "get") {
			continue
		}
		suffix := g[3:]
		var put *ssa.Function
		for _, cand := range []string{"put" + suffix, "Put" + suffix, "set" + suffix, "Set" + suffix} {
			if f := byName[cand]; f != nil {
				put = f
				break
			}
		}
		if put == nil {
			continue
		}
		get := byName[g]
		if why, ok := except[pkg+"."+g]; ok {
			c.Hold(rule, get, "reader/writer pair excepted: "+why, c.P.Rel(get.Pos()), "")
			continue
		}
		rd, ok1 := own(get, "Get")
		wr, ok2 := own(put, "Put")
		if !ok1 || !ok2 {
			c.Broken(rule, get, "key shapes of "+g+" / "+put.Name(), c.P.Rel(get.Pos()), "key-shape engine failed")
			continue
		}
		if len(rd) == 0 || len(wr) == 0 {
			continue // one side goes through a helper: not a direct accessor pair
		}
		n++
		c.Touch(get)
		c.Touch(put)
		// the writer may maintain auxiliary records too (a current-height pointer next
		// to the record): every key the reader reads must be one the writer writes
		same := true
		for k := range rd {
			if !wr[k] {
				same = false
			}
		}
		c.Decide(same, rule, get, g+" reads only key(s) "+put.Name()+" writes", c.P.Rel(get.Pos()),
			sprintf("reads %v, %s writes %v", ir.SortedKeys(rd), put.Name(), ir.SortedKeys(wr)))
	}
	return n
}
