package rules

import (
	"go/constant"
	"go/token"

	"golang.org/x/tools/go/ssa"

	"polyverif/core"
	"polyverif/ir"
)

// C39 (continued) — one key-count limit.  The validator accepts an entry with up
// to MULTI_SIG_MAX_PUBKEY_SIZE keys; the program encoder that turns the entry's
// keys into its address must accept exactly the same counts, otherwise a
// validated entry at the boundary is attributed no (or another) address.  In
// both functions the comparison of the key count with the constant treats
// MAX like MAX−1 and unlike MAX+1.
func checkKeyCountBoundAgreement(c *core.Ctx) {
	const rule = "C39.key-count-bound"
	maxKey, err := c.P.Const("common/constants", "MULTI_SIG_MAX_PUBKEY_SIZE")
	if err != nil {
		return
	}
	kMax, _ := constant.Int64Val(maxKey)
	eval := func(x int64, o token.Token, y int64) (bool, bool) {
		switch o {
		case token.LSS:
			return x < y, true
		case token.LEQ:
			return x <= y, true
		case token.GTR:
			return x > y, true
		case token.GEQ:
			return x >= y, true
		case token.EQL:
			return x == y, true
		case token.NEQ:
			return x != y, true
		}
		return false, false
	}
	isKeyCount := func(v ssa.Value) bool {
		cl, ok := ir.Strip(v).(*ssa.Call)
		if !ok {
			return false
		}
		bi, isB := cl.Common().Value.(*ssa.Builtin)
		if !isB || bi.Name() != "len" {
			return false
		}
		a := ir.Strip(cl.Common().Args[0])
		if p, isP := a.(*ssa.Parameter); isP {
			return p.Name() == "pubkeys"
		}
		return isFieldNamed(a, "PubKeys")
	}
	for _, spec := range []struct{ pkg, fn string }{{pkTypes, "EncodeMultiPubKeyProgramInto"}, {"core/validation", "checkTransactionSignatures"}} {
		fn := c.Fn(spec.pkg, spec.fn)
		if fn == nil {
			continue
		}
		hosts, release := hostsWithHelpers(fn)
		n := 0
		for _, h := range hosts {
			for _, b := range h.Blocks {
				for _, in := range b.Instrs {
					cmp, ok := in.(*ssa.BinOp)
					if !ok {
						continue
					}
					x, y, op := cmp.X, cmp.Y, cmp.Op
					if isKeyCount(y) && !isKeyCount(x) {
						x, y, op = y, x, relMirror(op)
					}
					if !isKeyCount(x) {
						continue
					}
					k, okk := ir.ConstInt(y)
					if !okk || k < kMax-1 || k > kMax+1 {
						continue
					}
					at, ok1 := eval(kMax, op, k)
					below, _ := eval(kMax-1, op, k)
					above, _ := eval(kMax+1, op, k)
					if !ok1 {
						continue
					}
					n++
					c.Decide(at == below && at != above, rule, fn, "the key-count comparison puts the limit exactly at MULTI_SIG_MAX_PUBKEY_SIZE (MAX is allowed, MAX+1 is not)", c.P.Rel(cmp.Pos()),
						sprintf("with %d keys the test behaves like %d keys: the two places that bound the key count disagree at the boundary", kMax, map[bool]int64{true: kMax + 1, false: kMax - 1}[at == above]))
				}
			}
		}
		release()
		c.Floor("key-count limit comparisons in "+spec.fn, n, 1)
	}
}
