package rules

import (
	"go/token"

	"golang.org/x/tools/go/ssa"

	"polyverif/core"
	"polyverif/ir"
)

// C30 (continued) — each validator's power counts at most once.  The vote
// sign-bytes of the Tendermint family do not cover the validator's index or
// address, so one validator's genuine precommit verifies wherever it is copied.
// What keeps a validator from being tallied N times is that slot i of the commit
// is checked against validator i of the set: the validator whose key verifies
// the signature and whose power is added must be looked up BY THE SLOT POSITION
// (the range index of the tally loop) — never by an index or address recorded
// inside the vote, which the submitter controls — unless a seen-set guards the
// increment.
func checkOneValidatorPerSlot(c *core.Ctx, fn *ssa.Function, inc *ssa.BinOp, hdr *ssa.BasicBlock) {
	const rule = "C30.one-validator-per-slot"
	pos := c.P.Rel(inc.Pos())
	// the validator whose power is added
	var val ssa.Value
	for _, op := range []ssa.Value{inc.X, inc.Y} {
		if base, f, ok := fieldLoad(op); ok && f == "VotingPower" {
			val = base
		}
	}
	if val == nil {
		c.Broken(rule, fn, "validator whose power is tallied", pos, "not a load of .VotingPower")
		return
	}
	// the range index of the tally loop: φ in the header stepping by one ("rangeindex")
	isSlot := func(v ssa.Value) bool {
		for d := 0; d < 4; d++ {
			if cv, ok := v.(*ssa.Convert); ok {
				v = cv.X
				continue
			}
			break
		}
		// rotated range loops: index = φ+1 computed in the header
		if b, ok := v.(*ssa.BinOp); ok && b.Op == token.ADD {
			if k, isK := ir.ConstInt(b.Y); isK && k == 1 {
				v = b.X
			}
		}
		phi, ok := v.(*ssa.Phi)
		if !ok || phi.Block() != hdr {
			return false
		}
		for _, e := range phi.Edges {
			if b, isB := e.(*ssa.BinOp); isB && b.Op == token.ADD && (b.X == ssa.Value(phi) || b == v) {
				if k, isK := ir.ConstInt(b.Y); isK && k == 1 {
					return true
				}
			}
			if k, isK := ir.ConstInt(e); isK && k == -1 {
				continue
			}
		}
		return false
	}
	var why string
	var bySlot func(v ssa.Value, d int) bool
	bySlot = func(v ssa.Value, d int) bool {
		if d > 6 {
			return false
		}
		switch x := v.(type) {
		case *ssa.Phi:
			// a validator chosen among several lookups: every alternative must be by slot
			if len(x.Edges) == 0 {
				return false
			}
			for _, e := range x.Edges {
				if !bySlot(e, d+1) {
					return false
				}
			}
			return true
		case *ssa.Extract:
			return bySlot(x.Tuple, d+1)
		case *ssa.Call:
			o := ir.CalleeObj(x)
			if o == nil {
				why = "validator comes from an unresolved call"
				return false
			}
			switch o.Name() {
			case "GetValByIndex", "GetByIndex":
				a := x.Common().Args
				idx := a[len(a)-1]
				if isSlot(idx) {
					return true
				}
				if _, f, ok := fieldLoad(idx); ok {
					why = "the validator is looked up by the vote's own ." + f + " field (submitter-controlled), not by the slot position"
				} else {
					why = "the validator index " + idx.Name() + " is not the slot position of the tally loop"
				}
				return false
			case "Copy":
				return bySlot(x.Common().Args[0], d+1)
			default:
				why = "the validator is obtained through " + o.Name() + ", not by the slot position"
				return false
			}
		}
		why = "the validator value has an unrecognised origin"
		return false
	}
	ok := bySlot(val, 0)
	c.Decide(ok, rule, fn, "the validator whose power is tallied is validator[slot position] of the tracked set", pos, why+": one validator's precommit copied into several slots is counted once per copy")
	// the key that verifies the signature belongs to that same validator
	okKey := false
	for _, ci := range ir.Calls(fn, func(ci ssa.CallInstruction) bool {
		o := ir.CalleeObj(ci)
		return o != nil && o.Name() == "VerifyBytes"
	}) {
		cc := ci.Common()
		var recv ssa.Value
		if cc.IsInvoke() {
			recv = cc.Value
		} else if len(cc.Args) > 0 {
			recv = cc.Args[0]
		}
		if base, f, okf := fieldLoad(recv); okf && f == "PubKey" && base == val {
			okKey = true
		}
	}
	c.Decide(okKey, rule, fn, "the signature is verified with the public key of that same validator", pos, "")
}
