package rules

import (
	"golang.org/x/tools/go/ssa"

	"polyverif/core"
	"polyverif/ir"
)

// C17 (continued) — UpdateFee keeps two records per voting round, the FeeInfo
// record (PutFeeInfo(chain, view)) and the vote record (CheckVotes(id) with
// id = UPDATE_FEE‖chain‖view).  Both must be keyed by the SAME round: the same
// chain id and the same view value (the fee record's current view, which the
// time-out branch may have advanced) — otherwise the votes of one round are
// stored under, and counted for, another round's key.
func checkUpdateFeeRound(c *core.Ctx) {
	fn := c.Fn(pkSCM, "UpdateFee")
	if fn == nil {
		return
	}
	var pfi ssa.CallInstruction
	for _, ci := range ir.Calls(fn, func(ci ssa.CallInstruction) bool { o := ir.CalleeObj(ci); return o != nil && o.Name() == "PutFeeInfo" }) {
		pfi = ci
	}
	var votes ssa.CallInstruction
	for _, ci := range ir.Calls(fn, func(ci ssa.CallInstruction) bool { o := ir.CalleeObj(ci); return o != nil && o.Name() == "CheckVotes" }) {
		votes = ci
	}
	if pfi == nil || votes == nil {
		c.Broken("C17.round-key", fn, "PutFeeInfo and CheckVotes calls", c.P.Rel(fn.Pos()), "not found")
		return
	}
	// id = append(literal, append(GetUint64Bytes(chain), GetUint64Bytes(view)...)...)
	var comps []ssa.Value
	var walk func(v ssa.Value, d int)
	walk = func(v ssa.Value, d int) {
		if d > 6 || v == nil {
			return
		}
		cl, _ := ir.CallOf(v)
		if cl == nil {
			return
		}
		if bi, ok := cl.Common().Value.(*ssa.Builtin); ok && bi.Name() == "append" {
			walk(cl.Common().Args[0], d+1)
			walk(cl.Common().Args[1], d+1)
			return
		}
		if o := ir.CalleeObj(cl); o != nil && o.Name() == "GetUint64Bytes" {
			comps = append(comps, cl.Common().Args[0])
		}
	}
	walk(votes.Common().Args[1], 0)
	if len(comps) != 2 {
		c.Broken("C17.round-key", fn, "vote id = UPDATE_FEE‖Uint64(chain)‖Uint64(view)", c.P.Rel(votes.Pos()), sprintf("%d integer components", len(comps)))
		return
	}
	a := pfi.Common().Args
	okChain := sameValue(comps[0], a[1])
	okView := sameValue(comps[1], a[2])
	c.Decide(okChain && okView, "C17.round-key", fn, "the vote record and the FeeInfo record of a round are keyed by the same chain id and the same view value", c.P.Rel(votes.Pos()), sprintf("chain agrees %v, view agrees %v", okChain, okView))
	// and GetFeeInfo reads the round with the same chain and the fee record's view
	for _, ci := range ir.Calls(fn, func(ci ssa.CallInstruction) bool { o := ir.CalleeObj(ci); return o != nil && o.Name() == "GetFeeInfo" }) {
		g := ci.Common().Args
		c.Decide(sameValue(g[1], a[1]) && sameValue(g[2], a[2]), "C17.round-key", fn, "the round's FeeInfo is read under the key it is written under", c.P.Rel(ci.Pos()), "")
	}
}
