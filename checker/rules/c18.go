package rules

import (
	"go/token"
	"go/types"

	"golang.org/x/tools/go/ssa"

	"polyverif/core"
	"polyverif/eng"
	"polyverif/ir"
)

// C18 — privileged native operations require the right witness.

type witKind int

const (
	witOperator witKind = iota // ValidateOwner(GetCurConOperator())
	witParam                   // ValidateOwner(params.<Field>)
	witOpen                    // intentionally open, with reason
	witGenesis                 // genesis-only: guarded by "not yet initialised"
)

type privEntry struct {
	pkg, fn string
	kind    witKind
	field   string // for witParam
	reason  string // for witOpen
	// alt: an alternative guard that also authorises (CommitDpos cycle)
	alt string
}

var c18Table = []privEntry{
	// operator
	{pkNM, "UpdateConfig", witOperator, "", "", ""},
	{pkNM, "CommitDpos", witOperator, "", "", "cycle"},
	{pkCCM, "BlackChain", witOperator, "", "", ""},
	{pkCCM, "WhiteChain", witOperator, "", "", ""},
	// owner
	{pkNM, "RegisterCandidate", witParam, "Address", "", ""},
	{pkNM, "UnRegisterCandidate", witParam, "Address", "", ""},
	{pkNM, "QuitNode", witParam, "Address", "", ""},
	{pkNM, "ApproveCandidate", witParam, "Address", "", ""},
	{pkNM, "BlackNode", witParam, "Address", "", ""},
	{pkNM, "WhiteNode", witParam, "Address", "", ""},
	{pkSCM, "RegisterSideChain", witParam, "Address", "", ""},
	{pkSCM, "ApproveRegisterSideChain", witParam, "Address", "", ""},
	{pkSCM, "UpdateSideChain", witParam, "Address", "", ""},
	{pkSCM, "ApproveUpdateSideChain", witParam, "Address", "", ""},
	{pkSCM, "QuitSideChain", witParam, "Address", "", ""},
	{pkSCM, "ApproveQuitSideChain", witParam, "Address", "", ""},
	{pkSCM, "RegisterAsset", witParam, "OperatorAddress", "", ""},
	{pkSCM, "UpdateFee", witParam, "Address", "", ""},
	{pkRM, "RegisterRelayer", witParam, "Address", "", ""},
	{pkRM, "ApproveRegisterRelayer", witParam, "Address", "", ""},
	{pkRM, "RemoveRelayer", witParam, "Address", "", ""},
	{pkRM, "ApproveRemoveRelayer", witParam, "Address", "", ""},
	{pkNeo3SM, "RegisterStateValidator", witParam, "Address", "", ""},
	{pkNeo3SM, "ApproveRegisterStateValidator", witParam, "Address", "", ""},
	{pkNeo3SM, "RemoveStateValidator", witParam, "Address", "", ""},
	{pkNeo3SM, "ApproveRemoveStateValidator", witParam, "Address", "", ""},
	{pkSigM, "AddSignature", witParam, "Address", "", ""},
	// genesis-only
	{pkNM, "InitConfig", witGenesis, "", "", ""},
	// open
	{pkCCM, "ImportExTransfer", witOpen, "", "authenticated by the source chain proof (C20–C31), any relayer may submit", ""},
	{pkCCM, "MultiSign", witOpen, "", "authenticated by BTC redeem-key signatures", ""},
	{pkCCM, "MultiSignRipple", witOpen, "", "authenticated by ripple signer signatures", ""},
	{pkCCM, "ReconstructRippleTx", witOpen, "", "rebuilds an already approved ripple tx", ""},
	{pkHS, "SyncGenesisHeader", witOpen, "", "dispatcher; each router's SyncGenesisHeader carries the operator check (sibling rule)", ""},
	{pkHS, "SyncBlockHeader", witOpen, "", "headers are self-authenticating (C27–C31)", ""},
	{pkHS, "SyncCrossChainMsg", witOpen, "", "messages are self-authenticating (C24)", ""},
	{pkSCM, "RegisterRedeem", witOpen, "", "authenticated by redeem-key signatures over the binding", ""},
	{pkSCM, "SetBtcTxParam", witOpen, "", "authenticated by redeem-key signatures over the parameters", ""},
	{pkNeo3SM, "GetCurrentStateValidator", witOpen, "", "getter", ""},
	{"native/service/governance/replenish", "ReplenishTx", witOpen, "", "emits an event only", ""},
}

func init() {
	core.Register(&core.Check{
		ID: "C18", Level: "other", Title: "Privileged native operations require the right witness",
		Explain: "Guard dominance on the SSA CFG: for every native-contract method registered with NativeService.Register (enumerated on this run; an unclassified one breaks the check) classified as operator- or owner-privileged, every call that may write contract storage and every success return is dominated by the pass edge of utils.ValidateOwner(native, W) with W the result of GetCurConOperator resp. the named address field of the decoded parameter object; the same for every implementation of HeaderSyncHandler.SyncGenesisHeader (operator). Wrapper chain proved separately: ValidateOwner nil ⇒ CheckWitness true; CheckWitness true ⇒ signer-address equality or calling-context equality; CallingContext indexes contexts[len-2]. InitConfig (genesis-only) must be dominated by a not-yet-initialised guard whose key is one InitConfig writes. NOT decided: cryptographic validity of the signatures behind GetSignatureAddresses (C39).",
		Run:     runC18,
	})
}

// witnessGuard builds the guard "ValidateOwner(native, W) returned nil" where W
// satisfies wOK.
func witnessGuard(c *core.Ctx, vo *types.Func, name string, wOK func(ssa.Value) bool) eng.NamedGuard {
	return eng.NamedGuard{Name: name, G: ir.ErrNil(func(call *ssa.Call) bool {
		if !ir.CalleeIs(call, vo) {
			return false
		}
		args := call.Common().Args
		return len(args) == 2 && wOK(args[1])
	})}
}

func isOperatorValue(gco *types.Func) func(ssa.Value) bool {
	return func(v ssa.Value) bool {
		call, idx := ir.CallOf(v)
		return call != nil && idx == 0 && ir.CalleeIs(call, gco)
	}
}

// isParamField: v is a load of field `field` from a locally allocated
// parameter object.
func isParamField(field string) func(ssa.Value) bool {
	return func(v ssa.Value) bool {
		base, f, ok := fieldLoad(v)
		if !ok || f != field {
			return false
		}
		_, isAlloc := base.(*ssa.Alloc)
		return isAlloc
	}
}

func runC18(c *core.Ctx) {
	checkSigProgramAddressNotBookkeeperStyle(c, "C18.witness-address")
	// a witness check passes only for an address that signed: for a multi-signature address that rests on
	// VerifyMultiSignature counting m DISTINCT keys (C14/C39's rule)
	checkVerifyMultiSignature(c, "C18.multisig-internals")
	vo := eng.Obj(c, pkUtils, "ValidateOwner")
	gco := eng.Obj(c, pkNM, "GetCurConOperator")
	if vo == nil || gco == nil {
		return
	}
	checkOperatorDerivation(c)
	checkPoolOwnerIsApplicant(c)
	writers := storageWriters(c)
	hs := Handlers(c)
	c.Floor("registered native handlers", len(hs), 39)

	table := map[*ssa.Function]privEntry{}
	for _, e := range c18Table {
		fn := c.Fn(e.pkg, e.fn)
		if fn != nil {
			table[fn] = e
		}
	}
	seen := map[*ssa.Function]bool{}
	for _, h := range hs {
		if seen[h.Fn] {
			continue
		}
		seen[h.Fn] = true
		e, ok := table[h.Fn]
		if !ok {
			// a handler the table does not know: decide it structurally.  No
			// storage write => open (getter / event only).  Otherwise some
			// ValidateOwner pass edge must dominate every write.
			ws := writeCalls(c, h.Fn, writers)
			if len(ws) == 0 {
				c.Hold("C18.classified", h.Fn, "unlisted handler "+h.Method+": writes no storage", c.P.Rel(h.Fn.Pos()), "")
				continue
			}
			g := witnessGuard(c, vo, "ValidateOwner(<any>)", func(ssa.Value) bool { return true })
			eng.Dominates(c, "C18.unlisted-handler-witness≺write", h.Fn, g, ir.CallSinks(ws, "storage-writing call"), "storage writes", nil)
			continue
		}
		switch e.kind {
		case witOpen:
			c.Hold("C18.classified", h.Fn, "open: "+e.reason, c.P.Rel(h.Fn.Pos()), "")
		case witOperator:
			g := witnessGuard(c, vo, "ValidateOwner(GetCurConOperator())", isOperatorValue(gco))
			if e.alt == "cycle" {
				g = eng.NamedGuard{Name: g.Name + " ∨ cycle-elapsed", G: ir.Or(g.G, cycleGuard(c))}
			}
			checkPrivileged(c, h.Fn, g, writers)
		case witParam:
			g := witnessGuard(c, vo, "ValidateOwner(params."+e.field+")", isParamField(e.field))
			checkPrivileged(c, h.Fn, g, writers)
		case witGenesis:
			checkInitConfig(c, h.Fn, writers)
		}
	}
	for fn, e := range table {
		if !seen[fn] {
			c.Broken("C18.classified", fn, "table entry "+e.fn, c.P.Rel(fn.Pos()), "table entry is no longer a registered handler")
		}
	}

	// every SyncGenesisHeader implementation: operator witness
	iface, err := c.P.Obj(pkHSCom, "HeaderSyncHandler")
	if err != nil {
		c.Broken("anchor", "", "HeaderSyncHandler", "", err.Error())
		return
	}
	m, _, _ := types.LookupFieldOrMethod(iface.Type(), true, iface.Pkg(), "SyncGenesisHeader")
	mf, _ := m.(*types.Func)
	if mf == nil {
		c.Broken("anchor", "", "HeaderSyncHandler.SyncGenesisHeader", "", "method not found")
		return
	}
	impls := c.P.Implementations(mf)
	c.Floor("SyncGenesisHeader implementations", len(impls), 21)
	for _, fn := range impls {
		g := witnessGuard(c, vo, "ValidateOwner(GetCurConOperator())", isOperatorValue(gco))
		checkPrivileged(c, fn, g, writers)
	}

	// wrapper chain
	checkWitnessChain(c)
}

func checkPrivileged(c *core.Ctx, fn *ssa.Function, g eng.NamedGuard, writers map[*ssa.Function]bool) {
	ws := writeCalls(c, fn, writers)
	if len(ws) > 0 {
		eng.Dominates(c, "C18.witness≺write", fn, g, ir.CallSinks(ws, "storage-writing call"), "storage writes", nil)
	}
	eng.Dominates(c, "C18.witness≺success", fn, g, ir.SuccessSinks(fn), "success return", nil)
}

// cycleGuard: CommitDpos alternative "(height - view.Height) >= MaxBlockChangeView".
func cycleGuard(c *core.Ctx) ir.Guard {
	// (GetHeight() - governanceView.Height) >= config.MaxBlockChangeView, in any relational
	// form (`elapsed < Max` rejecting, operands swapped, …)
	isElapsed := func(v ssa.Value) bool {
		sub, ok := ir.Strip(v).(*ssa.BinOp)
		if !ok || sub.Op != token.SUB {
			return false
		}
		call, _ := ir.CallOf(sub.X)
		if call == nil || !ir.IsMethod(call, ir.PkgPath(pkNative), "NativeService", "GetHeight") {
			return false
		}
		_, f1, ok1 := fieldLoad(sub.Y)
		return ok1 && f1 == "Height"
	}
	isMax := func(v ssa.Value) bool {
		_, f2, ok2 := fieldLoad(ir.Strip(v))
		return ok2 && f2 == "MaxBlockChangeView"
	}
	return relGuard("elapsed >= MaxBlockChangeView", isElapsed, isMax, token.GEQ).G
}

// checkInitConfig: writes dominated by a nil-check of a CacheDB.Get whose key
// shape is also written by InitConfig.
func checkInitConfig(c *core.Ctx, fn *ssa.Function, writers map[*ssa.Function]bool) {
	get := eng.Obj(c, pkStorage, "CacheDB.Get")
	if get == nil {
		return
	}
	g := eng.NamedGuard{Name: "CacheDB.Get(<init marker>) == nil", G: ir.IsNil(ir.CallTo(get))}
	ws := writeCalls(c, fn, writers)
	ok := eng.Dominates(c, "C18.genesis-only≺write", fn, g, ir.CallSinks(ws, "storage-writing call"), "storage writes", nil)
	if !ok {
		return
	}
	// the guarded key must be a shape InitConfig writes
	ks, err := eng.KeySitesIn(c.P, fn, 3)
	if err != nil {
		c.Broken("anchor", fn, "key sites", "", err.Error())
		return
	}
	var guardShape *eng.KeyShape
	for _, s := range ks {
		if s.Op == "Get" && s.Fn == fn {
			sh := s.Shape
			guardShape = &sh
		}
	}
	if guardShape == nil {
		c.Broken("C18.genesis-guard-key", fn, "guard key", c.P.Rel(fn.Pos()), "could not extract the guard's key shape")
		return
	}
	matched := false
	var puts []string
	for _, s := range ks {
		if s.Op == "Put" {
			puts = append(puts, s.Shape.String())
			if s.Shape.Unifies(*guardShape) {
				matched = true
			}
		}
	}
	c.Decide(matched, "C18.genesis-guard-key", fn, "already-initialised guard reads a key InitConfig writes", c.P.Rel(fn.Pos()),
		sprintf("guard reads %s; InitConfig writes %v — a guard on a never-written key can never fire, so the consensus configuration can be re-initialised", guardShape.String(), puts))
}

func checkWitnessChain(c *core.Ctx) {
	// ValidateOwner: nil return dominated by CheckWitness != false
	vofn := c.Fn(pkUtils, "ValidateOwner")
	cw := eng.Obj(c, pkNative, "NativeService.CheckWitness")
	if vofn != nil && cw != nil {
		eng.Dominates(c, "C18.chain", vofn, eng.NamedGuard{Name: "CheckWitness()==true", G: ir.BoolIs(ir.CallTo(cw), true)}, ir.SuccessSinks(vofn), "nil return", nil)
	}
	// CheckWitness: true return dominated by checkAccountAddress || checkContractAddress
	cwfn := c.Fn(pkNative, "NativeService.CheckWitness")
	caa := eng.Obj(c, pkNative, "NativeService.checkAccountAddress")
	cca := eng.Obj(c, pkNative, "NativeService.checkContractAddress")
	if cwfn != nil && caa != nil && cca != nil {
		eng.Dominates(c, "C18.chain", cwfn, eng.NamedGuard{Name: "checkAccountAddress ∨ checkContractAddress", G: ir.BoolIs(ir.CallTo(caa, cca), true)},
			ir.BoolReturnSinks(cwfn, 0, true), "return true", nil)
	}
	// checkAccountAddress: true dominated by v == address, v element of GetSignatureAddresses()
	if fn := c.Fn(pkNative, "NativeService.checkAccountAddress"); fn != nil {
		gsa := eng.Obj(c, pkTypes, "Transaction.GetSignatureAddresses")
		g := eng.NamedGuard{Name: "element of tx.GetSignatureAddresses() == address", G: func(cd ir.Cond) (bool, bool) {
			b, ok := cd.V.(*ssa.BinOp)
			if !ok || (b.Op != token.EQL && b.Op != token.NEQ) {
				return false, false
			}
			isParam := func(v ssa.Value) bool { p, ok := ir.Strip(v).(*ssa.Parameter); return ok && p.Name() == "address" }
			isElem := func(v ssa.Value) bool { return derivesFromCall(v, gsa, 6) }
			if (isParam(b.X) && isElem(b.Y)) || (isParam(b.Y) && isElem(b.X)) {
				return true, b.Op == token.EQL
			}
			return false, false
		}}
		eng.Dominates(c, "C18.chain", fn, g, ir.BoolReturnSinks(fn, 0, true), "return true", nil)
	}
	// checkContractAddress: true dominated by CallingContext() == address and != ADDRESS_EMPTY
	if fn := c.Fn(pkNative, "NativeService.checkContractAddress"); fn != nil {
		cctx := eng.Obj(c, pkNative, "NativeService.CallingContext")
		g := eng.NamedGuard{Name: "CallingContext() == address", G: func(cd ir.Cond) (bool, bool) {
			b, ok := cd.V.(*ssa.BinOp)
			if !ok || (b.Op != token.EQL && b.Op != token.NEQ) {
				return false, false
			}
			isParam := func(v ssa.Value) bool { p, ok := ir.Strip(v).(*ssa.Parameter); return ok && p.Name() == "address" }
			isCtx := func(v ssa.Value) bool { call, _ := ir.CallOf(v); return call != nil && ir.CalleeIs(call, cctx) }
			if (isParam(b.X) && isCtx(b.Y)) || (isParam(b.Y) && isCtx(b.X)) {
				return true, b.Op == token.EQL
			}
			return false, false
		}}
		eng.Dominates(c, "C18.chain", fn, g, ir.BoolReturnSinks(fn, 0, true), "return true", nil)
		g2 := eng.NamedGuard{Name: "CallingContext() != ADDRESS_EMPTY", G: func(cd ir.Cond) (bool, bool) {
			b, ok := cd.V.(*ssa.BinOp)
			if !ok || (b.Op != token.EQL && b.Op != token.NEQ) {
				return false, false
			}
			isCtx := func(v ssa.Value) bool { call, _ := ir.CallOf(v); return call != nil && ir.CalleeIs(call, cctx) }
			isEmpty := func(v ssa.Value) bool {
				u, ok := ir.Strip(v).(*ssa.UnOp)
				if !ok {
					return false
				}
				g, ok := u.X.(*ssa.Global)
				return ok && g.Name() == "ADDRESS_EMPTY"
			}
			if (isEmpty(b.X) && isCtx(b.Y)) || (isEmpty(b.Y) && isCtx(b.X)) {
				return true, b.Op == token.NEQ
			}
			return false, false
		}}
		eng.Dominates(c, "C18.chain", fn, g2, ir.BoolReturnSinks(fn, 0, true), "return true", nil)
	}
	// CallingContext returns contexts[len-2]
	if fn := c.Fn(pkNative, "NativeService.CallingContext"); fn != nil {
		ok := false
		pos := fn.Pos()
		for _, b := range fn.Blocks {
			for _, in := range b.Instrs {
				ia, isIA := in.(*ssa.IndexAddr)
				if !isIA {
					continue
				}
				pos = ia.Pos()
				// index = len(contexts) - 2
				if sub, isSub := ir.Strip(ia.Index).(*ssa.BinOp); isSub && sub.Op == token.SUB {
					if k, isK := ir.ConstInt(sub.Y); isK && k == 2 {
						if call, isCall := sub.X.(*ssa.Call); isCall {
							if bi, isB := call.Common().Value.(*ssa.Builtin); isB && bi.Name() == "len" {
								ok = true
							}
						}
					}
				}
			}
		}
		c.Decide(ok, "C18.chain", fn, "returns contexts[len-2] (the immediate caller)", c.P.Rel(pos), "")
	}
}

// derivesFromCall: v is computed (through index, deref, range, phi) from a
// result of a call to obj.
func derivesFromCall(v ssa.Value, obj *types.Func, depth int) bool {
	if depth == 0 || v == nil {
		return false
	}
	v = ir.Strip(v)
	if call, _ := ir.CallOf(v); call != nil {
		return ir.CalleeIs(call, obj)
	}
	switch x := v.(type) {
	case *ssa.UnOp:
		return derivesFromCall(x.X, obj, depth-1)
	case *ssa.IndexAddr:
		return derivesFromCall(x.X, obj, depth-1)
	case *ssa.Index:
		return derivesFromCall(x.X, obj, depth-1)
	case *ssa.Extract:
		return derivesFromCall(x.Tuple, obj, depth-1)
	case *ssa.Next:
		return derivesFromCall(x.Iter, obj, depth-1)
	case *ssa.Range:
		return derivesFromCall(x.X, obj, depth-1)
	case *ssa.Phi:
		for _, e := range x.Edges {
			if derivesFromCall(e, obj, depth-1) {
				return true
			}
		}
	case *ssa.Slice:
		return derivesFromCall(x.X, obj, depth-1)
	case *ssa.Alloc:
		if sv := ir.SingleStore(x); sv != nil {
			return derivesFromCall(sv, obj, depth-1)
		}
	}
	return false
}
