package rules

import (
	"go/token"
	"strings"

	"golang.org/x/tools/go/ssa"

	"polyverif/core"
	"polyverif/eng"
	"polyverif/ir"
)

// C08 — proofs served to relayers verify against committed roots.

func init() {
	core.Register(&core.Check{
		ID: "C08", Level: "other", Title: "Proofs served to relayers verify against committed roots",
		Technique: "value identity between the committed root's inputs and the stored leaf list, one-function identity of the leaf hash, proof-format agreement between writers and reader (wire-operation order and flag/sibling table), index-convention agreement (+1 sites), file-position convention of the node store",
		Explain:   "Structural necessary conditions. (Root and leaves) executeBlock sets CrossStatesRoot = HashFullTreeWithLeafHash(result.CrossHashes) when the list is non-empty (the empty hash otherwise) and saveBlockToStateStore hands the SAME result.CrossHashes and result.CrossStatesRoot to AddCrossStates; AddCrossStates writes one hash per list element in order and GetCrossStates reads hashes back in order under the same key constructor; every leaf enters the list as merkle.HashLeaf(value) (PutMerkleVal) — the very function MerkleLeafPath uses to locate the value and MerkleProve uses to start the fold. (Served cross-state proof) GetCrossStatesProof = MerkleLeafPath(GetStorageValue(key), GetCrossStates(height)). (Format) MerkleLeafPath and MerkleInclusionLeafPath both emit varbytes(value) then (flag byte, hash) pairs written pairwise; MerkleLeafPath emits LEFT with the element at index-1 exactly when index is odd and RIGHT with index+1 when even; MerkleInclusionLeafPath emits flag 1 with the right-subtree fold when the leaf lies left of the split and flag 0 with the stored left-subtree root otherwise, and serialises flags and hashes from the same position of both lists in reverse (leaf-to-root) order. (Indices) the block tree receives the previous block hash per block (AddBlockMerkleTreeRoot(block.Header.PrevBlockHash)); Ledger.GetMerkleProof asks for leaf proofHeight+1 with the bytes of GetBlockHash(proofHeight); StateStore.GetMerkleProof asks for tree size rootHeight+1, the same convention StateStore.init checks (treeSize == currBlockHeight+1). (Node store) NewFileHashStore positions the writer at getStoredHashNum(tree_size)*UINT256_SIZE from the start of the file — the committed node count, so nodes re-appended after a crash overwrite orphans instead of shifting every later position — after checkConsistence err==nil; GetHash reads at pos*UINT256_SIZE. NOT decided: equality of the paired-level tree and the RFC 6962 split tree for all n, the numeric index walks, I/O errors swallowed while building a proof (they produce a proof that fails to verify, not a wrong acceptance).",
		Run:       runC08,
	})
}

func runC08(c *core.Ctx) {
	checkNodesPersistedBeforeSizePublished(c, "C08.persist-before-publish")
	checkStateStoreKeyPrefixes(c)
	checkNodeStorePositions(c)
	checkFileOffsetsWide(c)
	checkSubmitBlockRoot(c, "C08.block-root-bound", true)
	pkM := "merkle"
	hl := eng.Obj(c, pkM, "HashLeaf")
	// ---- root and leaves
	if fn := c.Fn(pkLedger, "LedgerStoreImp.executeBlock"); fn != nil {
		ok1, why1 := crossRootAssigned(c, "C08.root", fn)
		c.Decide(ok1, "C08.root", fn, "CrossStatesRoot = HashFullTreeWithLeafHash(result.CrossHashes)", c.P.Rel(fn.Pos()), why1)
		// CrossHashes only grows by the per-transaction lists
		okApp := true
		n := 0
		for _, st := range allFieldStores(fn, "CrossHashes") {
			n++
			cl, isC := st.Val.(*ssa.Call)
			if !isC {
				okApp = false
				continue
			}
			bi, isB := cl.Common().Value.(*ssa.Builtin)
			if !isB || bi.Name() != "append" || !isFieldNamed(cl.Common().Args[0], "CrossHashes") {
				okApp = false
			}
		}
		c.Decide(okApp && n >= 1, "C08.root", fn, "result.CrossHashes is only extended by appending each transaction's leaves", c.P.Rel(fn.Pos()), sprintf("%d store(s)", n))
	}
	if fn := c.Fn(pkLedger, "LedgerStoreImp.saveBlockToStateStore"); fn != nil {
		ok := false
		for _, ci := range ir.Calls(fn, func(ci ssa.CallInstruction) bool {
			o := ir.CalleeObj(ci)
			return o != nil && o.Name() == "AddCrossStates"
		}) {
			a := ci.Common().Args
			ok = isFieldNamed(a[2], "CrossHashes") && isFieldNamed(a[3], "CrossStatesRoot") && sameResultBase(a[2], a[3])
		}
		c.Decide(ok, "C08.root", fn, "AddCrossStates stores the same result.CrossHashes / result.CrossStatesRoot the root was computed from", c.P.Rel(fn.Pos()), "")
		okPrev := false
		for _, ci := range ir.Calls(fn, func(ci ssa.CallInstruction) bool {
			o := ir.CalleeObj(ci)
			return o != nil && o.Name() == "AddBlockMerkleTreeRoot"
		}) {
			okPrev = isFieldNamed(ci.Common().Args[1], "PrevBlockHash")
		}
		c.Decide(okPrev, "C08.index", fn, "the block tree receives block.Header.PrevBlockHash per block", c.P.Rel(fn.Pos()), "")
	}
	if fn := c.Fn(pkNative, "NativeService.PutMerkleVal"); fn != nil && hl != nil {
		ok := false
		for _, st := range allFieldStores(fn, "crossHashes") {
			if cl, isC := st.Val.(*ssa.Call); isC {
				if bi, isB := cl.Common().Value.(*ssa.Builtin); isB && bi.Name() == "append" {
					el := eng.VariadicElems(cl.Common().Args[1])
					if len(el) == 1 {
						if h, _ := ir.CallOf(el[0]); h != nil && ir.CalleeIs(h, hl) && ir.Strip(h.Common().Args[0]) == ssa.Value(fn.Params[1]) {
							ok = true
						}
					}
				}
			}
		}
		c.Decide(ok, "C08.leaf", fn, "a leaf enters the list as merkle.HashLeaf(value)", c.P.Rel(fn.Pos()), "")
	}
	// list codec
	add := c.Fn(pkLedger, "StateStore.AddCrossStates")
	get := c.Fn(pkLedger, "StateStore.GetCrossStates")
	if add != nil && get != nil {
		kf := c.Fn(pkLedger, "genCrossStatesKey")
		usesKey := func(fn *ssa.Function) bool {
			return len(ir.Calls(fn, func(ci ssa.CallInstruction) bool { return ci.Common().StaticCallee() == kf })) == 1
		}
		c.Decide(kf != nil && usesKey(add) && usesKey(get), "C08.list-codec", add, "writer and reader of the leaf list use genCrossStatesKey(height)", c.P.Rel(add.Pos()), "")
		hostW, loopsW, releaseW := sliceLoopsVia(add, func(v ssa.Value) bool { return ir.Strip(v) == ssa.Value(add.Params[2]) })
		defer releaseW()
		if hostW != add {
			c.Attribute(hostW, add)
		}
		okW := false
		for _, lp := range loopsW {
			okW = eng.IterationMustExec(c, "C08.list-codec", hostW, lp.Header, lp.Body, "the loop over crossStates", "sink.WriteHash(element)", func(in ssa.Instruction) bool {
				ci, ok := in.(ssa.CallInstruction)
				if !ok {
					return false
				}
				o := ir.CalleeObj(ci)
				if o == nil || o.Name() != "WriteHash" {
					return false
				}
				ld, isLd := ci.Common().Args[1].(*ssa.UnOp)
				if !isLd {
					return false
				}
				ia, isIa := ld.X.(*ssa.IndexAddr)
				return isIa && ir.Strip(ia.X) == ssa.Value(add.Params[2])
			})
		}
		c.Decide(okW, "C08.list-codec", add, "one hash is written per leaf, in list order", c.P.Rel(add.Pos()), sprintf("%d loop(s)", len(loopsW)))
		// reader: appends NextHash results, error on eof
		okR := false
		for _, b := range get.Blocks {
			for _, in := range b.Instrs {
				cl, ok := in.(*ssa.Call)
				if !ok {
					continue
				}
				if bi, isB := cl.Common().Value.(*ssa.Builtin); isB && bi.Name() == "append" {
					el := eng.VariadicElems(cl.Common().Args[1])
					if len(el) == 1 {
						if ex, isEx := ir.Strip(el[0]).(*ssa.Extract); isEx && ex.Index == 0 {
							if nh, isC := ex.Tuple.(*ssa.Call); isC && ir.CalleeObj(nh) != nil && ir.CalleeObj(nh).Name() == "NextHash" {
								okR = true
							}
						}
					}
				}
			}
		}
		c.Decide(okR, "C08.list-codec", get, "the reader appends each NextHash result in order", c.P.Rel(get.Pos()), "")
	}
	// ---- served cross-state proof
	if fn := c.Fn(pkLedger, "LedgerStoreImp.GetCrossStatesProof"); fn != nil {
		ok := false
		for _, ci := range ir.Calls(fn, func(ci ssa.CallInstruction) bool {
			o := ir.CalleeObj(ci)
			return o != nil && o.Name() == "MerkleLeafPath"
		}) {
			a := ci.Common().Args
			// either operand may be fetched by a small helper that returns the store's answer
			isRead := func(x ssa.Value, name string, p *ssa.Parameter) bool {
				try := func(y ssa.Value) bool {
					cl, i := ir.CallOf(y)
					return cl != nil && i == 0 && ir.CalleeObj(cl) != nil && ir.CalleeObj(cl).Name() == name && ir.Strip(cl.Common().Args[1]) == ssa.Value(p)
				}
				if try(x) {
					return true
				}
				via, release := valueVia(x)
				defer release()
				return via != x && try(via)
			}
			okV := isRead(a[0], "GetStorageValue", fn.Params[2])
			okH := isRead(a[1], "GetCrossStates", fn.Params[1])
			ok = okV && okH
		}
		c.Decide(ok, "C08.served", fn, "proof = MerkleLeafPath(GetStorageValue(key), GetCrossStates(height))", c.P.Rel(fn.Pos()), "")
	}
	// ---- format: MerkleLeafPath
	if fn := c.Fn(pkM, "MerkleLeafPath"); fn != nil && hl != nil {
		// located by HashLeaf(data)
		okLoc := false
		for _, ci := range ir.CallsTo(fn, hl) {
			if ir.Strip(ci.Common().Args[0]) == ssa.Value(fn.Params[0]) {
				okLoc = true
			}
		}
		c.Decide(okLoc, "C08.leaf", fn, "the value is located by merkle.HashLeaf(data)", c.P.Rel(fn.Pos()), "")
		left, _ := c.P.Const(pkM, "LEFT")
		right, _ := c.P.Const(pkM, "RIGHT")
		kl, _ := constInt64Val(left)
		kr, _ := constInt64Val(right)
		var first ssa.CallInstruction
		nPairs := 0
		for _, b := range fn.Blocks {
			var flag *int64
			for _, in := range b.Instrs {
				ci, ok := in.(ssa.CallInstruction)
				if !ok || ir.CalleeObj(ci) == nil {
					continue
				}
				switch ir.CalleeObj(ci).Name() {
				case "WriteVarBytes":
					if first == nil {
						first = ci
					}
				case "WriteByte":
					if k, okk := ir.ConstInt(ci.Common().Args[1]); okk {
						kk := k
						flag = &kk
					}
				case "WriteHash":
					if flag == nil {
						c.Violate("C08.format", fn, "every hash is preceded by its flag byte in the same block", c.P.Rel(ci.Pos()), "")
						continue
					}
					nPairs++
					// sibling index
					delta := int64(0)
					okSib := false
					var idxBase ssa.Value
					if ld, isLd := ci.Common().Args[1].(*ssa.UnOp); isLd {
						if ia, isIa := ld.X.(*ssa.IndexAddr); isIa {
							if bo, isBo := ia.Index.(*ssa.BinOp); isBo {
								if k, okk := ir.ConstInt(bo.Y); okk && k == 1 {
									idxBase = bo.X
									switch bo.Op {
									case token.ADD:
										delta, okSib = 1, true
									case token.SUB:
										delta, okSib = -1, true
									}
								}
							}
						}
					}
					want := int64(-1)
					side := "LEFT"
					if *flag == kr {
						want, side = 1, "RIGHT"
					}
					c.Decide(okSib && delta == want && (*flag == kl || *flag == kr), "C08.format", fn, "flag "+side+" is paired with the sibling at index"+sprintf("%+d", want), c.P.Rel(ci.Pos()), sprintf("flag %d sibling delta %d", *flag, delta))
					// parity
					if idxBase != nil {
						odd := *flag == kl
						eng.Dominates(c, "C08.format", fn, cmpGuard("index % 2 parity", func(b *ssa.BinOp) (bool, bool) {
							rem, ok := b.X.(*ssa.BinOp)
							if !ok || rem.Op != token.REM || rem.X != idxBase {
								return false, false
							}
							k2, ok2 := ir.ConstInt(rem.Y)
							k0, ok0 := ir.ConstInt(b.Y)
							if !ok2 || !ok0 || k2 != 2 || k0 != 0 {
								return false, false
							}
							switch b.Op {
							case token.NEQ:
								return true, odd
							case token.EQL:
								return true, !odd
							}
							return false, false
						}), []ir.Sink{{Instr: ci, Note: side + " sibling"}}, side+" sibling emitted", nil)
					}
					flag = nil
				}
			}
		}
		c.Decide(first != nil && ir.Strip(first.Common().Args[1]) == ssa.Value(fn.Params[0]), "C08.format", fn, "the proof starts with varbytes(value)", c.P.Rel(fn.Pos()), "")
		c.Floor("(flag, hash) pairs in MerkleLeafPath", nPairs, 2)
	}
	// ---- format: MerkleInclusionLeafPath
	if fn := c.Fn(pkM, "CompactMerkleTree.MerkleInclusionLeafPath"); fn != nil {
		// pairs of appends: (hashes, poses) in the same block with flag constants
		type pr struct {
			flag int64
			src  string
			pos  string
		}
		var prs []pr
		for _, b := range fn.Blocks {
			var h, p *ssa.Call
			for _, in := range b.Instrs {
				cl, ok := in.(*ssa.Call)
				if !ok {
					continue
				}
				bi, ok := cl.Common().Value.(*ssa.Builtin)
				if !ok || bi.Name() != "append" {
					continue
				}
				el := eng.VariadicElems(cl.Common().Args[1])
				if len(el) != 1 {
					continue
				}
				if _, okk := ir.ConstInt(el[0]); okk {
					p = cl
				} else {
					h = cl
				}
			}
			if h == nil && p == nil {
				continue
			}
			if h == nil || p == nil {
				c.Violate("C08.format", fn, "a sibling hash and its flag are recorded pairwise", c.P.Rel(b.Instrs[0].Pos()), "")
				continue
			}
			k, _ := ir.ConstInt(eng.VariadicElems(p.Common().Args[1])[0])
			src := "?"
			e := eng.VariadicElems(h.Common().Args[1])[0]
			classify := func(e ssa.Value) string {
				if cl := calleeNamed(e, "_hash_fold"); cl != nil {
					return "fold of the right subtree"
				} else if cl, _ := ir.CallOf(e); cl != nil && cl.Common().IsInvoke() && cl.Common().Method.Name() == "GetHash" {
					return "stored left subtree root"
				}
				return "?"
			}
			src = classify(e)
			if src == "?" {
				// computed by a helper with one return (`storedSubTreeRoot(base, size)`)
				ev, release := valueVia(e)
				src = classify(ev)
				release()
			}
			prs = append(prs, pr{k, src, c.P.Rel(h.Pos())})
		}
		okTab := len(prs) == 2
		for _, p := range prs {
			if !(p.flag == 1 && p.src == "fold of the right subtree") && !(p.flag == 0 && p.src == "stored left subtree root") {
				okTab = false
			}
		}
		c.Decide(okTab, "C08.format", fn, "flag 1 accompanies the right-subtree fold, flag 0 the stored left-subtree root", c.P.Rel(fn.Pos()), sprintf("%v", prs))
		// serialisation: WriteVarBytes(data) first, then WriteByte(poses[i]) / WriteHash(hashes[i]) with the same i in one block
		okSer := false
		for _, b := range fn.Blocks {
			var bi, hi ssa.Value
			for _, in := range b.Instrs {
				ci, ok := in.(ssa.CallInstruction)
				if !ok || ir.CalleeObj(ci) == nil {
					continue
				}
				idx := func(v ssa.Value) ssa.Value {
					if ld, ok := v.(*ssa.UnOp); ok {
						if ia, ok := ld.X.(*ssa.IndexAddr); ok {
							return ia.Index
						}
					}
					return nil
				}
				switch ir.CalleeObj(ci).Name() {
				case "WriteByte":
					bi = idx(ci.Common().Args[1])
				case "WriteHash":
					hi = idx(ci.Common().Args[1])
				}
			}
			if bi != nil && hi != nil && bi == hi {
				// reverse order: index = length - k - 1
				if sub, ok := bi.(*ssa.BinOp); ok && sub.Op == token.SUB {
					if k, okk := ir.ConstInt(sub.Y); okk && k == 1 {
						okSer = true
					}
				}
				// or a counter running from len−1 down by one
				if phi, ok := bi.(*ssa.Phi); ok && len(phi.Edges) == 2 {
					start, down := false, false
					for _, e := range phi.Edges {
						bo, isB := e.(*ssa.BinOp)
						if !isB || bo.Op != token.SUB {
							continue
						}
						k, okk := ir.ConstInt(bo.Y)
						if !okk || k != 1 {
							continue
						}
						if bo.X == ssa.Value(phi) {
							down = true
						} else if l, _ := ir.CallOf(bo.X); l != nil {
							if b2, isBi := l.Common().Value.(*ssa.Builtin); isBi && b2.Name() == "len" {
								start = true
							}
						}
					}
					if start && down {
						okSer = true
					}
				}
			}
		}
		c.Decide(okSer, "C08.format", fn, "flags and hashes are serialised pairwise from the same reversed position", c.P.Rel(fn.Pos()), "")
		okFirst := false
		for _, ci := range ir.Calls(fn, func(ci ssa.CallInstruction) bool {
			o := ir.CalleeObj(ci)
			return o != nil && o.Name() == "WriteVarBytes"
		}) {
			okFirst = ir.Strip(ci.Common().Args[1]) == ssa.Value(paramByName(fn, "data"))
		}
		c.Decide(okFirst, "C08.format", fn, "the proof starts with varbytes(value)", c.P.Rel(fn.Pos()), "")
	}
	// ---- indices
	plusOne := func(v ssa.Value, base *ssa.Parameter) bool {
		b, ok := ir.Strip(v).(*ssa.BinOp)
		if !ok || b.Op != token.ADD || ir.Strip(b.X) != ssa.Value(base) {
			return false
		}
		k, okk := ir.ConstInt(b.Y)
		return okk && k == 1
	}
	if fn := c.Fn("core/ledger", "Ledger.GetMerkleProof"); fn != nil {
		ok := false
		for _, ci := range ir.Calls(fn, func(ci ssa.CallInstruction) bool {
			o := ir.CalleeObj(ci)
			return o != nil && o.Name() == "GetMerkleProof"
		}) {
			a := ci.Common().Args
			n := len(a)
			okRaw := false
			if ta := calleeNamed(a[n-3], "ToArray"); ta != nil {
				var recv ssa.Value = ta.Common().Args[0]
				if al, isAl := recv.(*ssa.Alloc); isAl {
					recv = ir.SingleStore(al)
				}
				if gb, _ := ir.CallOf(recv); gb != nil && ir.CalleeObj(gb) != nil && ir.CalleeObj(gb).Name() == "GetBlockHash" && ir.Strip(gb.Common().Args[len(gb.Common().Args)-1]) == ssa.Value(fn.Params[1]) {
					okRaw = true
				}
			}
			ok = okRaw && plusOne(a[n-2], fn.Params[1]) && ir.Strip(a[n-1]) == ssa.Value(fn.Params[2])
		}
		c.Decide(ok, "C08.index", fn, "block h is proved as leaf h+1 with the bytes of GetBlockHash(h), against root height r", c.P.Rel(fn.Pos()), "")
	}
	if fn := c.Fn(pkLedger, "StateStore.GetMerkleProof"); fn != nil {
		ok := false
		for _, ci := range ir.Calls(fn, func(ci ssa.CallInstruction) bool {
			o := ir.CalleeObj(ci)
			return o != nil && o.Name() == "MerkleInclusionLeafPath"
		}) {
			a := ci.Common().Args
			ok = ir.Strip(a[1]) == ssa.Value(fn.Params[1]) && ir.Strip(a[2]) == ssa.Value(fn.Params[2]) && plusOne(a[3], fn.Params[3])
		}
		c.Decide(ok, "C08.index", fn, "tree size for root height r is r+1", c.P.Rel(fn.Pos()), "")
	}
	if fn := c.Fn(pkLedger, "StateStore.init"); fn != nil {
		ok := false
		for _, cd := range ir.Conds(fn) {
			b, isB := cd.V.(*ssa.BinOp)
			if !isB || b.Op != token.NEQ {
				continue
			}
			if add, isAdd := ir.Strip(b.Y).(*ssa.BinOp); isAdd && add.Op == token.ADD {
				if k, okk := ir.ConstInt(add.Y); okk && k == 1 {
					if _, isPar := ir.Strip(add.X).(*ssa.Parameter); isPar {
						ok = true
					}
				}
			}
		}
		c.Decide(ok, "C08.index", fn, "start-up checks treeSize == currBlockHeight+1 (same convention)", c.P.Rel(fn.Pos()), "")
	}
	// ---- node store positions
	if fn := c.Fn(pkM, "NewFileHashStore"); fn != nil {
		succ := nonNilParamSuccess(fn)
		gs := c.Fn(pkM, "getStoredHashNum")
		u256, err := c.P.Const("common", "UINT256_SIZE")
		var ksz int64 = 32
		if err == nil {
			ksz, _ = constInt64Val(u256)
		}
		var seek *ssa.Call
		for _, ci := range ir.Calls(fn, func(ci ssa.CallInstruction) bool { o := ir.CalleeObj(ci); return o != nil && o.Name() == "Seek" }) {
			seek, _ = ci.(*ssa.Call)
		}
		if seek == nil {
			c.Violate("C08.node-store", fn, "the writer is positioned with Seek", c.P.Rel(fn.Pos()), "no Seek call")
		} else {
			a := seek.Common().Args
			whence, okw := ir.ConstInt(a[2])
			okOff := false
			{
				isCount := func(v ssa.Value) bool {
					cl, _ := ir.CallOf(ir.Strip(v))
					return cl != nil && cl.Common().StaticCallee() == gs && ir.Strip(cl.Common().Args[0]) == ssa.Value(paramByName(fn, "tree_size"))
				}
				isSz := func(v ssa.Value) bool { k, okk := ir.ConstInt(ir.Strip(v)); return okk && k == ksz }
				okOff = storedHashOffset(a[1], isCount, isSz, 0)
			}
			c.Decide(okw && whence == 0 && okOff, "C08.node-store", fn, "writer position = getStoredHashNum(tree_size) × UINT256_SIZE from the start of the file", c.P.Rel(seek.Pos()), sprintf("whence %d const %v offset ok %v", whence, okw, okOff))
			eng.Dominates(c, "C08.node-store", fn, eng.NamedGuard{Name: "Seek err==nil", G: ir.ErrNil(func(x *ssa.Call) bool { return x == seek })}, succ, "store returned", nil)
		}
		cc := eng.Obj(c, pkM, "fileHashStore.checkConsistence")
		if cc != nil {
			eng.Dominates(c, "C08.node-store", fn, eng.ErrNilOf("checkConsistence(tree_size)", cc), succ, "store returned", nil)
		}
		// no truncation / other repositioning
		var other []string
		for _, ci := range ir.Calls(fn, func(ci ssa.CallInstruction) bool {
			o := ir.CalleeObj(ci)
			return o != nil && (o.Name() == "Truncate" || o.Name() == "WriteAt")
		}) {
			other = append(other, ir.CalleeObj(ci).Name()+" @ "+c.P.Rel(ci.Pos()))
		}
		c.Decide(len(other) == 0, "C08.node-store", fn, "opening the store neither truncates nor rewrites the file", c.P.Rel(fn.Pos()), strings.Join(other, ", "))
	}
	if fn := c.Fn(pkM, "fileHashStore.GetHash"); fn != nil {
		ok := false
		for _, ci := range ir.Calls(fn, func(ci ssa.CallInstruction) bool { o := ir.CalleeObj(ci); return o != nil && o.Name() == "ReadAt" }) {
			isPos := func(v ssa.Value) bool {
				v = ir.Strip(v)
				if cv, isCv := v.(*ssa.Convert); isCv {
					v = ir.Strip(cv.X)
				}
				return v == ssa.Value(fn.Params[1])
			}
			isRow := func(v ssa.Value) bool {
				v = ir.Strip(v)
				if cv, isCv := v.(*ssa.Convert); isCv {
					v = ir.Strip(cv.X)
				}
				k, isK := ir.ConstInt(v)
				return isK && k == 32
			}
			if storedHashOffset(ci.Common().Args[2], isPos, isRow, 0) {
				ok = true
			}
		}
		c.Decide(ok, "C08.node-store", fn, "node pos is read at byte offset pos × UINT256_SIZE", c.P.Rel(fn.Pos()), "")
	}
}

func allFieldStores(fn *ssa.Function, field string) []*ssa.Store {
	var out []*ssa.Store
	for _, b := range fn.Blocks {
		for _, in := range b.Instrs {
			if st, ok := in.(*ssa.Store); ok {
				if fa, isFa := st.Addr.(*ssa.FieldAddr); isFa && fieldNameOf(fa) == field {
					out = append(out, st)
				}
			}
		}
	}
	return out
}

func sameResultBase(a, b ssa.Value) bool {
	ba, _, ok1 := fieldLoad(a)
	bb, _, ok2 := fieldLoad(b)
	return ok1 && ok2 && (ba == bb || ir.Strip(ba) == ir.Strip(bb))
}
