package rules

import (
	"sort"
	"strings"

	"golang.org/x/tools/go/ssa"

	"polyverif/core"
	"polyverif/ir"
)

// C08 (continued) — the state store keeps the per-block leaf list, the per-block
// cross-state root, the accumulator states and the contract storage in ONE
// key-value store, told apart by the first key byte.  Two key constructors with
// the same first byte and the same remaining shape address the same record: the
// cross-state root would overwrite the leaf list it was computed from and no
// proof could be served.  Decided: the key constructors of the state store use
// pairwise distinct prefix constants.
func checkStateStoreKeyPrefixes(c *core.Ctx) {
	pk := c.P.Pkgs[ir.PkgPath(pkLedger)]
	if pk == nil || pk.SSA == nil {
		return
	}
	byPrefix := map[int64][]string{}
	n := 0
	for _, f := range allFuncs(pk.SSA) {
		name := f.Name()
		if !(strings.HasPrefix(name, "gen") || strings.HasPrefix(name, "get")) || !strings.HasSuffix(name, "Key") {
			continue
		}
		if r := recvTypeName(f); r != "" && r != "StateStore" {
			continue // block store and event store are separate databases
		}
		var prefix *int64
		for _, b := range f.Blocks {
			for _, in := range b.Instrs {
				switch x := in.(type) {
				case *ssa.Store:
					ia, ok := x.Addr.(*ssa.IndexAddr)
					if !ok {
						continue
					}
					if i, oki := ir.ConstInt(ia.Index); !oki || i != 0 {
						continue
					}
					if k, okk := ir.ConstInt(x.Val); okk && prefix == nil {
						kk := k
						prefix = &kk
					}
				case ssa.CallInstruction:
					if o := ir.CalleeObj(x); o != nil && o.Name() == "WriteByte" && prefix == nil {
						if k, okk := ir.ConstInt(x.Common().Args[len(x.Common().Args)-1]); okk {
							kk := k
							prefix = &kk
						}
					}
				}
			}
		}
		if prefix == nil {
			continue
		}
		n++
		byPrefix[*prefix] = append(byPrefix[*prefix], ir.FuncName(f))
		c.Touch(f)
	}
	var clash []string
	for p, fs := range byPrefix {
		if len(fs) > 1 {
			sort.Strings(fs)
			clash = append(clash, sprintf("prefix 0x%02x shared by %s", p, strings.Join(fs, ", ")))
		}
	}
	sort.Strings(clash)
	c.Decide(len(clash) == 0, "C08.key-prefix", pkLedger+".StateStore", "the state store's key constructors use pairwise distinct prefix bytes (leaf list, root, accumulators, storage never share a key)", "", sprintf("%d constructors; %s", n, strings.Join(clash, "; ")))
	c.Floor("state-store key constructors with a constant prefix", n, 8)
}
