package rules

import (
	"go/token"

	"golang.org/x/tools/go/ssa"

	"polyverif/ir"
)

// sliceBoundAtMost: value v (the high bound of a re-slice used at instruction
// `use`) is at most k on every path: a constant <= k; or a value that reaches the
// use (for a φ leaf: the incoming edge `via`) only over edges dominated by the
// test `v <= k`; or a φ all of whose leaves are.
func sliceBoundAtMost(fn *ssa.Function, v ssa.Value, k int64, use ssa.Instruction, via *ir.Edge, depth int) bool {
	if depth > 6 {
		return false
	}
	if c, ok := ir.ConstInt(v); ok {
		return c <= k
	}
	if phi, ok := v.(*ssa.Phi); ok {
		for i, e := range phi.Edges {
			pred := phi.Block().Preds[i]
			idx := 0
			for j, s := range pred.Succs {
				if s == phi.Block() {
					idx = j
				}
			}
			if !sliceBoundAtMost(fn, e, k, use, &ir.Edge{From: pred, Idx: idx}, depth+1) {
				return false
			}
		}
		return true
	}
	if cv, ok := v.(*ssa.Convert); ok {
		// a conversion of a bounded value is bounded (the guard is on the unconverted value)
		if sliceBoundAtMost(fn, cv.X, k, use, via, depth+1) {
			return true
		}
	}
	// a clamp helper (`cappedCount(n)`): every value it returns is at most K inside the helper
	if cl, isCall := v.(*ssa.Call); isCall {
		if h := cl.Common().StaticCallee(); h != nil && h != fn && ir.InModule(h) && len(h.Blocks) > 0 && len(h.Blocks) <= 12 && h.Signature.Results().Len() == 1 {
			all, n := true, 0
			for _, b := range h.Blocks {
				ret, isRet := b.Instrs[len(b.Instrs)-1].(*ssa.Return)
				if !isRet {
					continue
				}
				n++
				if !sliceBoundAtMost(h, ret.Results[0], k, ret, nil, depth+1) {
					all = false
				}
			}
			if all && n > 0 {
				return true
			}
		}
	}
	g := relGuard("bound <= K", func(x ssa.Value) bool { return x == v || ir.Strip(x) == ir.Strip(v) }, isConstInt(k), token.LEQ)
	var sink ir.Sink
	if via != nil {
		sink = ir.Sink{Instr: via.From.Instrs[len(via.From.Instrs)-1], Via: via, Note: "bound chosen"}
	} else {
		sink = ir.Sink{Instr: use, Note: "re-slice"}
	}
	return quietDominates(fn, g, sink)
}
