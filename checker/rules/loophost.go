package rules

import (
	"golang.org/x/tools/go/ssa"

	"polyverif/eng"
	"polyverif/ir"
)

// sliceLoopsVia finds the loops over a slice satisfying isList in fn, or — when fn has none — in a module
// helper fn calls with that slice as an argument (depth ≤ 2).  The helper's parameters stay bound to the
// call's arguments until release is called, so predicates written for fn recognise the same values inside
// the helper.  host is the function the loops stand in.
func sliceLoopsVia(fn *ssa.Function, isList func(ssa.Value) bool) (host *ssa.Function, loops []eng.SliceLoop, release func()) {
	return sliceLoopsViaD(fn, isList, 0)
}

func sliceLoopsViaD(fn *ssa.Function, isList func(ssa.Value) bool, depth int) (*ssa.Function, []eng.SliceLoop, func()) {
	if ls := eng.FindSliceLoops(fn, isList); len(ls) > 0 || depth >= 2 {
		return fn, ls, func() {}
	}
	for _, b := range fn.Blocks {
		for _, in := range b.Instrs {
			ci, ok := in.(ssa.CallInstruction)
			if !ok {
				continue
			}
			h := ci.Common().StaticCallee()
			if h == nil || h == fn || len(h.Blocks) == 0 || !ir.InModule(h) {
				continue
			}
			// the slice itself, or an object it is a field of, is handed over: same-package helpers only
			if h.Pkg != fn.Pkg {
				has := false
				for _, a := range ci.Common().Args {
					if isList(a) {
						has = true
					}
				}
				if !has {
					continue
				}
			}
			unbind := ir.BindParams(h, ci.Common().Args)
			if host, ls, rel := sliceLoopsViaD(h, isList, depth+1); len(ls) > 0 {
				return host, ls, func() { rel(); unbind() }
			}
			unbind()
		}
	}
	return fn, nil, func() {}
}
